#!/bin/bash
# Scratch tooling used for the seeded campaign (DESIGN.md 14.6, CONTRIBUTING.md last section). Nothing registered in MANIFEST uses it.
#   tools/seed_eval.sh setup <evaldir>                 worktree of /verif + worktree of /repo under <evaldir>, harness pointed at the latter
#   tools/seed_eval.sh run <evaldir> <patch|none> <ID>...   apply patch to <evaldir>/repo, run the checks of <evaldir>/verif (current /verif HEAD), undo
#   tools/seed_eval.sh confirm <seed-worktree> <A|B> <tests-dir>   demo on clean tree / suite with the change / demo with the change
#   tools/seed_eval.sh teardown <evaldir>
set -u
cmd=$1; shift
case $cmd in
setup)
  EV=$1; mkdir -p $EV
  git -C /verif worktree add -q --detach $EV/verif HEAD && git -C /repo worktree add -q --detach $EV/repo HEAD
  sed -i "s|/repo/|$EV/repo/|" $EV/verif/harness/Cargo.toml ;;
run)
  EV=$1; P=$2; shift 2
  exec 9>$EV/lock; flock 9
  (cd $EV/verif && git checkout -q -- . && git checkout -q --detach $(git -C /verif rev-parse HEAD) && sed -i "s|/repo/|$EV/repo/|" harness/Cargo.toml)
  (cd $EV/repo && git checkout -q -- . && git checkout -q --detach $(git -C /repo rev-parse HEAD))
  if [ "$P" != "none" ]; then git -C $EV/repo apply "$P" || { echo APPLY-FAILED; exit 3; }; fi
  cd $EV/verif; export VERIF_REPO=$EV/repo
  for id in "$@"; do
    t0=$(date +%s); ./check $id --tier ${TIER:-quick} > $EV/out_$id.txt 2> $EV/err_$id.txt; rc=$?
    echo "CHECK $id rc=$rc t=$(( $(date +%s)-t0 ))s viol=$(grep -c '^VIOLATION' $EV/out_$id.txt)"; grep '^VIOLATION' $EV/out_$id.txt | head -3
    [ $rc = 2 ] && tail -5 $EV/err_$id.txt
  done
  git -C $EV/repo checkout -q -- . ;;
confirm)
  WT=$1; V=$2; DEST=${3:-ragc-core/tests}; S=$WT/SEED/$V
  cd $WT && git checkout -q -- .
  demo=$(ls $S/*.rs 2>/dev/null | head -1); name=seeddemo_$(echo $V | tr 'A-Z' 'a-z')
  run_demo() {
    if [ -n "$demo" ]; then
      mkdir -p $WT/$DEST; cp $demo $WT/$DEST/$name.rs
      timeout 1800 cargo test --offline -q -p $(echo $DEST | cut -d/ -f1) --test $name ${DEMO_PROFILE:-} > $S/confirm_demo_$1.log 2>&1; rc=$?
      rm -f $WT/$DEST/$name.rs
    else
      (cd $WT && cargo build --release --offline -q -p ragc-cli 2>/dev/null; timeout 1800 bash $(ls $S/demo*.sh $S/*.sh | head -1)) > $S/confirm_demo_$1.log 2>&1; rc=$?
    fi
    echo "demo[$1] rc=$rc"
  }
  run_demo clean
  git apply $S/patch.diff || { echo APPLY-FAILED; exit 3; }
  # the suite's tests share fixed /tmp file names: never two suites at once
  ( flock 8; timeout 3000 cargo test --workspace --no-fail-fast --offline > $S/confirm_suite.log 2>&1; echo "suite[mut] rc=$? passed=$(grep -h '^test result' $S/confirm_suite.log | awk '{s+=$4} END{print s}') failed=$(grep -h '^test result' $S/confirm_suite.log | awk '{s+=$6} END{print s}')" ) 8>/tmp/suite.lock
  run_demo mut
  git checkout -q -- . ;;
teardown)
  EV=$1; git -C /repo worktree remove --force $EV/repo; git -C /verif worktree remove --force $EV/verif; rm -rf $EV ;;
esac
