"""C07 — range and length queries agree with full extraction (spec/Range.tla).

MC     MC_Range: every descriptor list with k = 1..3, 1..4 segments of raw length k..k+3 (a lone segment 1..k+3),
       orientation patterns, over a contig of pairwise different bases; every (start,end) in (0..len+2 + usize::MAX)^2
       and the length query: the design's per-segment arithmetic (RangeImpl / LengthImpl, shaped like
       decompressor.rs) = the declarative slice (RangeSpec / LengthSpec).
TRACE  archives of the C01 space with small segments (k 5..15, segment size 20..120) are created by the real code
       (`ragc create` CLI or the in-process CLI-equivalent driver); `rvh trace-range` opens each with the real
       Decompressor and records, per contig, the input bases, get_contig, the descriptor raw lengths / orientation
       flags, get_contig_length, and the answers of get_contig_range for ALL (start,end) (short contigs) or for the
       junction windows x {0, junctions, len-1, len, len+1, usize::MAX} (long contigs).  TLC validates every recorded
       answer against RangeSpec(input, start, end) (Trace_Range.tla); it also evaluates the design (RangeImpl /
       LengthImpl) on the recorded descriptor lists.  The same is done through `ragc getrange` / `ragc ctglen`."""
import json
import os
import shutil
import subprocess
import time
from concurrent.futures import ThreadPoolExecutor

from lib import common as C

LEVEL = "model_checking"
MANIFEST = dict(
    cat="model_checking", design="5/C07",
    text="Range.tla states the property (RangeSpec = bases [start, min(end,len)) of the fully extracted contig, empty when start >= end or "
         "start >= len; LengthSpec = its length) and the design shaped like decompressor.rs (positions from the descriptor raw lengths: first "
         "length + sum(length-k); clamp; per touched segment skip the k overlap bases; re-orient reverse-stored segments). TLC checks "
         "RangeImpl = RangeSpec and LengthImpl = Len exhaustively for k=1..3, 1..4 segments of raw length k..k+3 (incl. a trailing k-only "
         "segment contributing 0 bases, 1-base contributions, contigs shorter than k), orientation patterns and all (start,end) incl. beyond the "
         "end and usize::MAX. On archives of the C01 space built by the real code with small segments (k 5..15, segment size 20..120: contigs of "
         "a few hundred bases have 5..40 segments, reverse-oriented and split ones, k-only tails) every answer of the real "
         "Decompressor::get_contig_range (all (start,end) for short contigs; every junction +-(k+1) crossed with {0, junctions, len-1, len, "
         "len+1, usize::MAX} for longer ones), get_contig_length and get_contig is recorded and TLC validates each against RangeSpec / "
         "LengthSpec of the INPUT contig (Trace_Range.tla), evaluating the design on the recorded descriptor lists as well; a sample of "
         "queries also goes through the CLI (`ragc getrange`, `ragc ctglen`).",
    note="Trusted: TLC, the harness (drives the API, codes answers losslessly as prefix deltas, usize::MAX -> 2^31-1). Exhaustive only within the MC "
         "bounds; real archives are sampled (seeded grid).",
    technique="TLA+ spec (Range.tla) + TLC exhaustive MC of the slicing arithmetic; recorded answers of the real Decompressor / CLI validated by TLC (Trace_Range.tla)")

TRACE_INVS = ("T_Length", "T_Extract", "T_Descriptors", "T_ImplTied", "RangeAgrees", "LengthAgrees")
SPEC_BUG_INVS = ("T_ImplTied", "RangeAgrees", "LengthAgrees")
MAXU = 2147483647
CODE2CHAR = "ACGTNRYSWKMBDHVU"


# ------------------------------------------------------------------------------------------------------------ grid
def grid(tier, seed):
    g = []

    def add(kind, samples, chroms, ln, k, seg, mm=12, t=2, mode="multi", via="lib", short_max=None, max_short=10 ** 9,
            max_long=10 ** 9, skip_long=0, cross="set", cli_queries=0, fallback=0.0):
        g.append(dict(kind=kind, samples=samples, chroms=chroms, len=ln, k=k, seg=seg, mm=mm, t=t, mode=mode, via=via,
                      short_max=short_max, max_short=max_short, max_long=max_long, skip_long=skip_long, cross=cross,
                      cli_queries=cli_queries, fallback=fallback, seed=seed * 1000 + 700 + len(g)))

    if tier == "quick":
        sm = 130
        add("rc", 3, 2, 100, 5, 20, short_max=sm, max_short=4)
        add("short", 2, 1, 110, 6, 25, short_max=sm, via="cli", cli_queries=60)
        add("basic", 4, 2, 600, 7, 40, short_max=sm, max_long=5)
        add("trunc", 4, 2, 400, 9, 40, mode="single", short_max=sm, max_long=5, skip_long=1)
        add("iupac", 3, 2, 800, 11, 60, mm=14, short_max=sm, max_long=4, skip_long=1)
        add("dup", 3, 1, 1500, 15, 100, mm=18, short_max=sm, max_long=3, skip_long=1)
        add("reorder", 4, 2, 500, 8, 30, short_max=sm, max_long=5, skip_long=2, via="cli")
        add("manysamples", 8, 1, 200, 5, 30, mode="single", short_max=90, max_long=4, max_short=2)
    else:
        sm = 300
        for i in range(2):
            add("rc", 3, 2, 100 + 60 * i, 5, 20, short_max=sm)
            add("short", 3, 1, 150, 6 + i, 25, short_max=sm, via="cli", cli_queries=150)
            add("basic", 4, 2, 220, 7, 30 + 10 * i, short_max=sm, t=4, fallback=0.1 * i)
            add("iupac", 3, 2, 200, 8, 25, short_max=sm, mode="single" if i else "multi")
            add("trunc", 6, 2, 500, 9, 40, mode="single", short_max=100, cross="full")
            add("reorder", 4, 2, 500, 8, 30, short_max=100, via="cli", cross="full", cli_queries=100)
            add("manysamples", 55, 1, 200, 5, 30, mode="single", short_max=60, max_long=12, skip_long=7 * i)
        add("basic", 5, 2, 600, 7, 40, short_max=100, cross="full")
        add("trunc", 5, 2, 700, 10, 50, short_max=100, cross="full")
        add("iupac", 4, 2, 900, 11, 60, mm=14, short_max=100, cross="full")
        add("dup", 4, 2, 1500, 15, 100, mm=18, short_max=100, cross="full", max_long=4, skip_long=1)
        add("rc", 4, 2, 1200, 13, 80, mm=15, short_max=100, cross="full", t=8, max_long=4, skip_long=2)
        add("basic", 3, 1, 5000, 12, 120, mm=15, short_max=100, max_long=3)
    return g


def case_id(cs):
    return "%s_s%d_c%d_l%d_k%d_seg%d_%s_%s_seed%d" % (cs["kind"], cs["samples"], cs["chroms"], cs["len"], cs["k"], cs["seg"],
                                                    cs["mode"], cs["via"], cs["seed"])


# ------------------------------------------------------------------------------------------------------------ one archive
def _cfg(ctx, name, impl_every):
    return C.gen_cfg(os.path.join(ctx.work, "Trace_Range_%s.cfg" % name),
                     constants={"MaxUsize": MAXU, "ImplEvery": impl_every}, invariants=TRACE_INVS)


def _group(evs, prefix):
    cases, cur = [], None
    for e in evs:
        if e["ev"] == "contig":
            cur = ("%s/%s/%s%s" % (prefix, e["sample"], e["name"], "/cli" if e.get("via") == "cli" else ""), [])
            cases.append(cur)
        if cur is None:
            raise C.ToolError("range trace does not begin with a contig event")
        cur[1].append(e)
    return cases


def _decode(ev):
    """python copy of the delta decoding, used only to EXPLAIN a rejection in the replay file (TLC made the verdict)."""
    out, prev = [], []
    for p, s in zip(ev["p"], ev["s"]):
        if p < 0:
            out.append(None)
            prev = []
        else:
            prev = prev[:p] + s
            out.append(prev)
    return out


def _explain(contig_ev, q_ev):
    full = contig_ev["input"]
    a = q_ev["a"] if q_ev["a"] >= 0 else 2 ** 64 - 1
    for b, r, p in zip(q_ev["bs"], _decode(q_ev), q_ev["p"]):
        bb = b if b >= 0 else 2 ** 64 - 1
        e = min(bb, len(full))
        exp = full[a:e] if a < e else []
        if r != exp:
            return {"start": a, "end": bb, "class": "err" if p == -1 else "panic" if p == -2 else "wrong_bases",
                    "returned_len": None if r is None else len(r), "expected_len": len(exp),
                    "returned_head": None if r is None else r[:24], "expected_head": exp[:24], "msgs": q_ev.get("msgs")}
    return None


def make_archive(ctx, cs, cli):
    cid = case_id(cs)
    d = os.path.join(ctx.work, cid)
    shutil.rmtree(d, ignore_errors=True)
    os.makedirs(d)
    args = ["gen-case", "--seed", str(cs["seed"]), "--kind", cs["kind"], "--samples", str(cs["samples"]),
            "--chroms", str(cs["chroms"]), "--len", str(cs["len"]), "--dir", d]
    if cs["mode"] == "single":
        args += ["--single", "--pansn"]
    _, out, _, _ = C.rvh(args)
    files = json.loads(out)["files"]
    agc = os.path.join(d, "a.agc")
    if cs["via"] == "cli":
        cmd = [cli, "create", "-o", agc, "-k", str(cs["k"]), "-s", str(cs["seg"]), "-m", str(cs["mm"]),
               "-t", str(cs["t"]), "-v", "0", "--fallback-frac", str(cs["fallback"])] + files
        rc, so, se, _ = C.sh(cmd, timeout=900, check=False)
        if rc != 0:
            raise C.ToolError("ragc create failed on %s: %s" % (cid, se[-600:]))
    else:
        _, out, _, _ = C.rvh(["create", "--files", ",".join(files), "--out", agc, "--k", str(cs["k"]), "--seg", str(cs["seg"]),
                              "--mm", str(cs["mm"]), "--threads", str(cs["t"]), "--fallback", str(cs["fallback"])])
        r = json.loads(out.strip().splitlines()[-1])
        if r["result"] != "ok":
            raise C.ToolError("rvh create failed on %s: %s %s" % (cid, r["result"], r["msg"][-400:]))
    return d, agc, files


def cli_trace(ctx, cs, cli, d, agc, metas, tp):
    """A sample of queries through `ragc getrange -f raw` / `ragc ctglen` (one process per query). The events have the format
    of the harness' (p = 0, s = the whole answer); the contig event is the library's with `length` replaced by ctglen's answer."""
    import random
    rnd = random.Random(cs["seed"])
    cands = [m for m in metas if len(m["lens"]) >= 3] or list(metas)
    rnd.shuffle(cands)
    chosen = cands[:3]
    if not chosen:
        return []
    full_evs = {}
    with open(tp) as fh:
        for line in fh:
            if '"ev":"contig"' in line:
                e = json.loads(line)
                full_evs[(e["sample"], e["name"])] = e
    per = max(4, cs["cli_queries"] // len(chosen))
    evs = []
    for m in chosen:
        ce = dict(full_evs[(m["sample"], m["name"])])
        ce["via"] = "cli"
        rc, so, se, _ = C.sh([cli, "ctglen", agc, "-s", m["sample"], "-c", m["name"]], timeout=120, check=False)
        if rc == 0 and so.strip().isdigit():
            ce["len_res"], ce["length"] = 0, int(so.strip())
        else:
            ce["len_res"], ce["length"] = -1, 0
            ce["msgs"] = ce.get("msgs", []) + ["ctglen rc=%d %s" % (rc, se[-200:])]
        evs.append(ce)
        L, k = m["len"], m["k"]
        junc, pos = [], 0
        for i, x in enumerate(m["lens"][:-1]):
            pos += x if i == 0 else x - k
            junc.append(pos)
        pts = sorted(set([0, L - 1, L, L + 1] + [max(0, j + dlt) for j in junc for dlt in (-k - 1, -k, -k + 1, -1, 0, 1, k)]))
        pairs = set()
        while len(pairs) < per:
            a = rnd.choice(pts)
            b = rnd.choice(pts + [None, 2 ** 64 - 1])
            pairs.add((a, b))
        for (a, b) in sorted(pairs, key=lambda x: (x[0], -1 if x[1] is None else x[1])):
            cmd = [cli, "getrange", agc, "-s", m["sample"], "-c", m["name"], "--start", str(a), "-f", "raw"]
            if b is not None:
                cmd += ["--end", str(b)]
            rc, so, se, _ = C.sh(cmd, timeout=120, check=False)
            bb = -1 if (b is None or b >= 2 ** 63) else b       # `--end` omitted = to the end of the contig
            if rc == 0 and all(ch in CODE2CHAR for ch in so):
                evs.append({"ev": "q", "a": a, "bs": [bb], "p": [0], "s": [[CODE2CHAR.index(ch) for ch in so]], "msgs": [], "via": "cli"})
            else:
                evs.append({"ev": "q", "a": a, "bs": [bb], "p": [-1], "s": [[]], "via": "cli",
                            "msgs": ["getrange rc=%d out=%r err=%s" % (rc, so[:80], se[-200:])]})
    return evs


def run_case(ctx, cs, cli, impl_every):
    t0 = time.time()
    cid = case_id(cs)
    d, agc, files = make_archive(ctx, cs, cli)
    tp, mp = os.path.join(d, "t.ndjson"), os.path.join(d, "meta.ndjson")
    args = ["trace-range", "--agc", agc, "--case", os.path.join(d, "case.json"), "--out", tp, "--meta", mp, "--arc", cid,
            "--short-max", str(cs["short_max"]), "--cross", cs["cross"], "--skip-long", str(cs["skip_long"]),
            "--first-file", files[0], "--seg", str(cs["seg"])]     # (the last two: measurement of split-produced junctions only)
    if cs["mode"] == "single":
        args += ["--single"]
    if cs["max_short"] < 10 ** 9:
        args += ["--max-short", str(cs["max_short"])]
    if cs["max_long"] < 10 ** 9:
        args += ["--max-long", str(cs["max_long"])]
    _, out, _, _ = C.rvh(args)
    summ = json.loads(out.strip().splitlines()[-1])
    metas = C.read_ndjson(mp)
    res = dict(id=cid, case=cs, summary=summ, metas=metas, rejected=[], states=0, generated=0, cli_events=0, cli_rejected=[])
    if summ["contigs"] == 0:
        raise C.ToolError("%s: no contig was queried" % cid)
    # ---- CLI path (small)
    cli_cases = []
    if cs["cli_queries"]:
        cevs = cli_trace(ctx, cs, cli, d, agc, metas, tp)
        cli_cases = _group(cevs, cid)
        res["cli_events"] = sum(1 for e in cevs if e["ev"] == "q")
        res["cli_contigs"] = len(cli_cases)
    # ---- TLC on the harness' file as it is; parsed in python only when something is rejected
    wd = os.path.join(d, "tv")
    cfg = _cfg(ctx, cid, impl_every)
    r = C.run_tlc("Trace_Range", cfg, workdir=wd, workers=1, env={"TRACE": tp}, deque=True, coverage=False, timeout=3000, xmx="4g")
    res["states"], res["generated"] = r.distinct, r.generated
    if r.ok:
        if r.distinct - 1 != summ["events"] + summ["contigs"]:
            raise C.ToolError("%s: TLC accepted %d events, harness wrote %d" % (cid, r.distinct - 1, summ["events"] + summ["contigs"]))
        res["accepted"] = summ["contigs"]
    else:
        cases = _group(C.read_ndjson(tp), cid)
        acc, rej, st, gen = C.validate_trace("Trace_Range", cfg, cases, wd, timeout=3000, xmx="4g", max_reject=2)
        res["accepted"], res["rejected"] = acc, rej
        res["states"] += st
        res["generated"] += gen
    if cli_cases:
        acc, rej, st, gen = C.validate_trace("Trace_Range", cfg, cli_cases, os.path.join(d, "tvcli"), timeout=900, max_reject=2)
        res["cli_accepted"], res["cli_rejected"] = acc, rej
        res["states"] += st
        res["generated"] += gen
    C.log("[C07] %s: %d contigs, %d queries (%d events), %d accepted, %d rejected%s, %.0fs" % (
        cid, summ["contigs"], summ["queries"], summ["events"], res["accepted"], len(res["rejected"]),
        (", cli %d queries %d rejected" % (res["cli_events"], len(res["cli_rejected"]))) if cs["cli_queries"] else "", time.time() - t0))
    if not res["rejected"] and not res["cli_rejected"]:
        shutil.rmtree(d, ignore_errors=True)
    else:
        for f in ("t.ndjson",):
            try:
                os.remove(os.path.join(d, f))
            except OSError:
                pass
    return res


# ------------------------------------------------------------------------------------------------------------ verdicts
def _report_rejections(ctx, res, rej, via):
    cs = res["case"]
    for r in rej:
        ce = r["events"][0] if r["events"] and r["events"][0].get("ev") == "contig" else {}
        ev = r["event"] or {}
        detail = r["detail"]
        for inv in SPEC_BUG_INVS:
            if "invariant %s " % inv in detail:
                raise C.ToolError("the DESIGN (Range.tla) disagrees with RangeSpec on a recorded descriptor list (%s): %s / %s lens=%s k=%s event=%s"
                                  % (inv, res["id"], r["case_id"], ce.get("lens"), ce.get("k"), json.dumps(ev)[:400]))
        expl = None
        if "T_Length" in detail:
            kind = "length"
            expl = {"get_contig_length": ev.get("length"), "len_res": ev.get("len_res"), "len_of_input": len(ev.get("input", [])),
                    "lens": ev.get("lens"), "k": ev.get("k"), "msgs": ev.get("msgs")}
        elif "T_Extract" in detail:
            kind = "full_extraction_ne_input"
            expl = {"got_res": ev.get("got_res"), "got_len": len(ev.get("got", [])), "input_len": len(ev.get("input", [])), "msgs": ev.get("msgs")}
        elif "T_Descriptors" in detail:
            kind = "descriptors_do_not_tile"
            expl = {"lens": ev.get("lens"), "k": ev.get("k"), "input_len": len(ev.get("input", []))}
        else:
            kind = "range"
            expl = _explain(ce, ev) if ce and ev.get("ev") == "q" else None
        sig = {"kind": kind, "via": via}
        if kind == "range" and expl:
            sig["class"] = expl["class"]
        small = dict(ev)
        for key in ("input", "got"):
            if key in small and len(small[key]) > 64:
                small[key] = small[key][:64] + ["..."]
        ctx.violation("%s_%s_%s" % (kind, via, r["case_id"]), {
            "kind": "TRACE", "sig": sig, "archive": cs, "archive_id": res["id"], "contig": r["case_id"],
            "k": ce.get("k"), "lens": ce.get("lens"), "rc": ce.get("rc"), "contig_len": len(ce.get("input", [])),
            "explain": "TLC: %s (event %d of the contig's case). python's re-computation of the first differing query, for the reader only: %s"
                       % (detail, r["index_in_case"], json.dumps(expl)),
            "event": small,
            "reproduce": "rvh gen-case --seed %d --kind %s --samples %d --chroms %d --len %d%s; %s -k %d -s %d -m %d; "
                         "get_contig_range(sample, contig, start, end) as in `explain`"
                         % (cs["seed"], cs["kind"], cs["samples"], cs["chroms"], cs["len"], " --single --pansn" if cs["mode"] == "single" else "",
                            "ragc create" if cs["via"] == "cli" else "rvh create", cs["k"], cs["seg"], cs["mm"])})


def _run_grid(ctx, cases, mc_jobs):
    C.build_harness()
    cli = C.build_cli()
    impl_every = 7 if ctx.tier == "quick" else 5
    results, mcs = [], []
    # 3 MC runs with 2 TLC workers each + single-threaded archive jobs: at most 8 busy threads
    with ThreadPoolExecutor(max_workers=5 if mc_jobs else 8) as ex:
        mf = [ex.submit(f) for f in mc_jobs]
        futs = [ex.submit(run_case, ctx, cs, cli, impl_every) for cs in cases]
        mcs = [f.result() for f in mf]
        results = [f.result() for f in futs]
    return results, mcs


def run(ctx, only=None):
    quick = ctx.tier == "quick"
    suffix = "q" if quick else ""

    def mc_job(k):
        def job():
            r = C.run_tlc("MC_Range", "MC_Range_k%d%s.cfg" % (k, suffix), workdir=ctx.work, workers=2, xmx="4g", timeout=3000)
            C.log("[C07] MC_Range_k%d%s: %d states, %.0fs" % (k, suffix, r.distinct, r.wall))
            return ("MC_Range_k%d%s" % (k, suffix), r)
        return job

    cases = grid(ctx.tier, ctx.seed) if only is None else only
    ctx.checker_cmds.append("tlc MC_Range_k{1,2,3}%s.cfg MC_Range.tla; per archive: rvh gen-case; ragc create | rvh create; rvh trace-range "
                            "(real Decompressor); ragc getrange / ctglen (sample); tlc Trace_Range.tla on every recorded trace" % suffix)
    results, mcs = _run_grid(ctx, cases, [mc_job(k) for k in (3, 2, 1)] if only is None else [])
    for name, r in mcs:
        C.tlc_must_pass(r, name)
        ctx.add_mc(name, r, required_actions=("QEmpty", "QSingle", "QMulti", "QLen"))
    ctx.exhaustive = only is None
    seen = set()
    tot = dict(archives=0, contigs=0, contigs_accepted=0, queries=0, q_events=0, nonempty=0, multi=0, overlap=0, rev=0, clamped=0, tail_zero=0,
               split=0, split_junctions=0, contigs_with_split_junction=0,
               contigs_multi_segment=0, contigs_with_reverse_segment=0, contigs_tail_k_only=0, contigs_first_segment_k_only=0,
               contigs_all_pairs=0, contigs_junction=0, max_segments=0, max_contig_len=0, cli_queries=0, cli_contigs=0, cli_accepted=0,
               duplicate_contigs_not_counted=0, one_base_contributions=0)
    for res in results:
        tot["archives"] += 1
        ctx.states += res["states"]
        ctx.transitions += res["generated"]
        ctx.traces += res["accepted"] + res.get("cli_accepted", 0)
        tot["contigs_accepted"] += res["accepted"]
        tot["cli_queries"] += res["cli_events"]
        tot["cli_contigs"] += res.get("cli_contigs", 0)
        tot["cli_accepted"] += res.get("cli_accepted", 0)
        ctx.evaluations += res["summary"]["queries"] + res["cli_events"]
        bad = set(r["case_id"] for r in res["rejected"])
        for m in res["metas"]:
            tot["contigs"] += 1
            nt = m["nt"]
            tot["queries"] += nt["queries"]
            tot["q_events"] += m["events"]
            if "%s/%s/%s" % (res["id"], m["sample"], m["name"]) in bad:
                continue
            key = (m["sha"], tuple(m["lens"]), tuple(m["rc"]), m["k"], m["mode"])
            if key in seen:
                tot["duplicate_contigs_not_counted"] += 1
                continue
            seen.add(key)
            for f in ("nonempty", "multi", "overlap", "rev", "clamped", "tail_zero", "split", "split_junctions"):
                tot[f] += nt[f]
            tot["contigs_with_split_junction"] += nt["split_junctions"] > 0
            k, lens = m["k"], m["lens"]
            tot["contigs_multi_segment"] += len(lens) >= 2
            tot["contigs_with_reverse_segment"] += any(m["rc"])
            tot["contigs_tail_k_only"] += len(lens) >= 2 and lens[-1] == k
            tot["contigs_first_segment_k_only"] += len(lens) >= 2 and lens[0] == k
            tot["one_base_contributions"] += sum(1 for x in lens[1:] if x == k + 1)
            tot["contigs_all_pairs"] += m["mode"] == "all"
            tot["contigs_junction"] += m["mode"] == "junction"
            tot["max_segments"] = max(tot["max_segments"], len(lens))
            tot["max_contig_len"] = max(tot["max_contig_len"], m["len"])
        _report_rejections(ctx, res, res["rejected"], "lib")
        _report_rejections(ctx, res, res["cli_rejected"], "cli")
    # non-trivial = accepted, distinct, non-empty answers that needed the overlap arithmetic: >= 2 segments met
    ctx.nontrivial = tot["multi"]
    ctx.extra["range_stats"] = tot
    big = [m for res in results for m in res["metas"] if len(m["lens"]) >= 4]
    for m in big[:3]:
        ctx.sample({"contig": {"archive": m["arc"], "sample": m["sample"], "name": m["name"], "k": m["k"], "len": m["len"],
                               "raw_lengths": m["lens"], "reverse_flags": m["rc"], "get_contig_length": m["length"], "mode": m["mode"],
                               "queries": m["nt"]}})
    ctx.rule = ("one evaluation = one call of get_contig_range on a real archive (plus %d through `ragc getrange`); accepted = TLC decoded the recorded "
                "answer and found it equal to RangeSpec(input contig, start, end). Plan per contig: <= short_max bases: all (start,end) in "
                "(0..len+2 + usize::MAX)^2; longer: W = junctions +-(k+1), S = {0, junctions, len-1, len, len+1, usize::MAX}: W x S and S x (W+S) "
                "(thorough: (W+S)^2). Contigs with identical (bases, descriptor list, k) are counted once. distinct_nontrivial = accepted "
                "non-empty answers that meet the contribution of >= 2 segments (%d); of the non-empty answers %d start or end strictly inside a "
                "k-base overlap, %d meet a reverse-oriented segment, %d are clamped (end > len), %d reach the last base of a contig whose list "
                "ends with a k-only segment (0 bases), %d span a junction produced by splitting a segment in two (its k-mer is not a splitter of "
                "the reference; %d such junctions in %d contigs). Contigs: %d multi-segment, %d with a reverse-oriented segment, %d with a trailing k-only "
                "segment, %d whose first segment is exactly k bases, %d one-base contributions; up to %d segments per contig."
                % (tot["cli_queries"], tot["multi"], tot["overlap"], tot["rev"], tot["clamped"], tot["tail_zero"], tot["split"], tot["split_junctions"],
                   tot["contigs_with_split_junction"], tot["contigs_multi_segment"],
                   tot["contigs_with_reverse_segment"], tot["contigs_tail_k_only"], tot["contigs_first_segment_k_only"],
                   tot["one_base_contributions"], tot["max_segments"]))
    if not ctx.violations and only is None:
        # vacuity guards on the sampled space (tool error, not a verdict)
        for f in ("multi", "overlap", "rev", "tail_zero", "clamped", "split"):
            if tot[f] == 0:
                raise C.ToolError("vacuity guard: no accepted query of class '%s' in this run" % f)
        if tot["contigs_tail_k_only"] == 0 or tot["contigs_all_pairs"] == 0 or tot["contigs_junction"] == 0:
            raise C.ToolError("vacuity guard: contig classes missing: %s" % tot)
    ctx.assumptions.append("usize::MAX is recorded as -1 and read by the specification as 2^31-1 (TLC integers are 32 bit); any end >= len is "
                           "equivalent under RangeSpec")
    ctx.assumptions.append("answers are recorded losslessly as prefix deltas of consecutive RECORDED answers (harness asserts the round trip); TLC decodes them")
    ctx.assumptions.append("the oracle is the generator's abstract contig (case.json); get_contig on the same handle must equal it (T_Extract)")
    ctx.assumptions.append("the design RangeImpl is evaluated on the recorded descriptor lists for the pairs with ImplEvery | (start + index) only (cost)")


def replay(ctx, case):
    """Re-create the archive of the stored case on the current tree and validate its contigs again."""
    cs = case.get("archive")
    ctx.seed = int(case.get("seed", ctx.seed))
    ctx.tier = case.get("tier", ctx.tier)
    if not cs:
        return run(ctx)
    run(ctx, only=[cs])
    C.log("[C07] replay of %s: %d violation(s)" % (case.get("archive_id"), len(ctx.violations)))
