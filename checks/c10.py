"""C10 — segmentation tiles each contig with exact k-base overlaps at splitters (spec/Segmentation.tla).

MC     MC_Segmentation: every contig over {A,C,G,T,N} up to a length, k = 1..3(4), every subset of the occurring
       canonical k-mers, every placement of boundaries the permissive spec allows: tiling / join / boundary / single laws.
       MC_SegScan: the code-shaped scan (both policies of segment.rs) implements Segmentation.tla (action property).
TRACE  the real split_at_splitters_with_size / split_at_splitters are run on (a) the same small space exhaustively and
       (b) random contigs (codes 0..15, k in 1..32, splitter sets empty / sparse / dense / tail / adjacent / head); every
       returned segment list is validated by TLC against Trace_Segmentation (it must be a behaviour of the spec).
REPLAY (informational only) the behaviours of the code-shaped model are compared with the real result; a difference that
       TRACE accepts is a change of splitting policy, not a violation of C10."""
import hashlib
import json
import os
from concurrent.futures import ThreadPoolExecutor

from lib import common as C

LEVEL = "model_checking"
MANIFEST = dict(
    cat="model_checking", design="5/C10",
    text="Segmentation.tla (non-deterministic: a boundary may be placed after any base whose last k bases are A/C/G/T and whose "
         "canonical k-mer is a splitter; the next segment starts k bases back) is model-checked exhaustively for all contigs over "
         "{A,C,G,T,N} up to length 4-5 (quick: k=1,2 len<=4, k=3 len<=5) / 6 (thorough, k=1..4), all subsets of the occurring canonical k-mers and all "
         "allowed boundary placements: first segment starts at base 0, last ends at the last base, each later segment starts exactly "
         "k before the previous end and has >= k bases, drop-k-and-concatenate = contig, each internal boundary k-mer is a splitter "
         "recorded as back of one / front of the next segment, no splitter occurrence or len<k => one segment with both k-mers "
         "MISSING. SegScan.tla (code-shaped scan, both policies) is checked to implement it. Every result of the real "
         "split_at_splitters_with_size and split_at_splitters on the same small space (exhaustively) and on random contigs "
         "(codes 0..15, k=1..32, splitter sets empty/sparse/dense/in the last k bases/adjacent) is validated by TLC as a behaviour "
         "of the spec (Trace_Segmentation.tla).",
    note="Trusted: TLC, the harness projection u64 k-mer -> symbol sequence (+ low-bits-zero flag). Exhaustive only within the "
         "stated bounds; longer contigs / k>4 by sampled traces. Direction flags and the outer k-mers (front of first, back of "
         "last segment of several) are not part of the property text and are not judged.",
    technique="TLA+ spec (Segmentation.tla, SegScan.tla) + TLC exhaustive MC and refinement check; recorded executions of the real "
              "code validated by TLC (Trace_Segmentation.tla)")

TRACE_INVS = ("PositionsLast", "TilingLast", "JoinDone", "BoundariesLast", "Single")
MC_INVS = "Positions Tiling JoinPrefix JoinDone Boundaries Single WindowAgrees"
SCAN_INVS = "Positions Tiling JoinPrefix JoinDone Boundaries Single WindowReg Emit"


def _mc_cfg(path, spec_invs, k, maxlen, extra=None, props=None):
    with open(path, "w") as fh:
        fh.write("SPECIFICATION MCSpec\nCONSTANTS K = %d\n          MaxLen = %d\n          Alphabet = {0,1,2,3,4}\n" % (k, maxlen))
        if extra is not None:
            fh.write("          WithExtra = %s\n" % ("TRUE" if extra else "FALSE"))
        fh.write("INVARIANTS %s\n" % spec_invs)
        if props:
            fh.write("PROPERTIES %s\n" % props)
        fh.write("CHECK_DEADLOCK FALSE\n")
    return path


def _group(evs):
    cases, cur = [], None
    for e in evs:
        if e["ev"] == "start":
            cur = ("%s_k%d_c%d" % (e["fn"], e["k"], e["case"]), [])
            cases.append(cur)
        if cur is None:
            raise C.ToolError("trace does not begin with a start event")
        cur[1].append(e)
    return cases


def _digest(st):
    h = hashlib.sha1()
    h.update(("%s|%d|" % (st["fn"], st["k"])).encode())
    h.update(bytes(st["contig"]))
    h.update(json.dumps(sorted(st["splitters"])).encode())
    return h.hexdigest()


def _validate(ctx, name, harness_args, prefix, fast=False):
    """run the real code (harness), then TLC on what it returned.
    fast=True (exhaustive shards, hundreds of thousands of tiny cases): the harness' file is given to TLC as it is and is
    only parsed in python when TLC rejects something (then the generic cut-out-and-revalidate loop takes over)."""
    import time
    t0 = time.time()
    tp = os.path.join(ctx.work, "%s.ndjson" % name)
    _, out, _, _ = C.rvh(["trace-seg"] + harness_args + ["--out", tp])
    summ = json.loads(out.strip().splitlines()[-1])
    cfg = C.gen_cfg(os.path.join(ctx.work, "Trace_Segmentation_%s.cfg" % name), invariants=TRACE_INVS)
    wd = os.path.join(ctx.work, "tv_" + name)
    if fast:
        r = C.run_tlc("Trace_Segmentation", cfg, workdir=wd, workers=1, env={"TRACE": tp}, deque=True, coverage=False,
                      timeout=1700, xmx="4g")
        if r.ok:
            # keep one accepted multi-segment case of this shard as an evidence sample
            with open(tp) as fh:
                head = [json.loads(x) for _, x in zip(range(4000), fh)]
            for cid, ev in _group(head)[:-1][::-1]:
                if len(ev) >= 5:
                    summ["sample"] = ev
                    break
            os.remove(tp)
            C.log("[C10] trace %s: %d cases, %d events accepted, %.0fs" % (name, summ["cases"], r.distinct - 1, time.time() - t0))
            return name, None, summ, summ["cases"], [], r.distinct, r.generated
    evs = C.read_ndjson(tp)
    cases = [("%s_%s" % (prefix, cid), ev) for (cid, ev) in _group(evs)]
    if len(cases) != summ["cases"]:
        raise C.ToolError("%s: harness reported %d cases, file holds %d" % (name, summ["cases"], len(cases)))
    # at most 2 rejected cases are cut out per shard (a systematic fault rejects almost everything: no point in more)
    acc, rej, st, gen = C.validate_trace("Trace_Segmentation", cfg, cases, wd, timeout=1700, xmx="4g", max_reject=2)
    os.remove(tp)
    C.log("[C10] trace %s: %d cases (%d events), %d accepted, %d rejected, %.0fs" % (name, len(cases), len(evs), acc, len(rej), time.time() - t0))
    return name, cases, summ, acc, rej, st, gen


def _report(ctx, cases, summ, acc, rej, st, gen, seen, stats):
    ctx.traces += acc
    ctx.evaluations += summ["cases"]
    ctx.states += st
    ctx.transitions += gen
    if cases is None:
        # fast path, everything accepted: the exhaustive enumeration has no repeated (fn,k,contig,set); the number of
        # calls that returned >= 2 segments was counted by the harness from the real results
        ctx.nontrivial += summ["multi"]
        stats["cases_by_tag"]["exh"] = stats["cases_by_tag"].get("exh", 0) + summ["cases"]
        return
    bad = set(r["case_id"] for r in rej)
    for cid, evs in cases:
        if cid in bad:
            continue
        s0 = evs[0]
        nseg = sum(1 for e in evs if e["ev"] == "seg")
        stats["cases_by_tag"][s0["tag"]] = stats["cases_by_tag"].get(s0["tag"], 0) + 1
        stats["k_seen"].add(s0["k"])
        if nseg >= 2:
            stats["k_multi"].add(s0["k"])
        stats["max_len"] = max(stats["max_len"], len(s0["contig"]))
        stats["max_segs"] = max(stats["max_segs"], nseg)
        if nseg >= 2:
            d = _digest(s0)
            if d not in seen:
                seen.add(d)
                ctx.nontrivial += 1
            segs = [e for e in evs if e["ev"] == "seg"]
            if segs[0]["front"] != [99] or segs[-1]["back"] != [99]:
                stats["outer_kmer_not_missing"] += 1
            if len(segs[-1]["data"]) == s0["k"]:
                stats["kmer_only_tail"] += 1
            if any(len(x["data"]) == s0["k"] + 1 for x in segs[1:]):
                stats["adjacent_boundaries"] += 1
    for r in rej:
        s0 = r["events"][0] if r["events"] and r["events"][0].get("ev") == "start" else {}
        ev = r["event"] or {}
        sig = {"kind": "trace", "fn": s0.get("fn"), "event": ev.get("ev"), "tag": s0.get("tag")}
        if ev.get("ev") == "panic":
            sig["panic"] = ev.get("msg")
        ctx.violation("trace_%s" % r["case_id"], {
            "kind": "TRACE", "sig": sig, "k": s0.get("k"), "fn": s0.get("fn"),
            "input": {"k": s0.get("k"), "contig": s0.get("contig"), "splitters": s0.get("splitters"),
                      "min_size": s0.get("min_size"), "tag": s0.get("tag")},
            "explain": "the segment list returned by the real function is not a behaviour of Segmentation.tla: " + r["detail"]
                       + " (event index %d of the case)" % r["index_in_case"],
            "rejected": r})


def run(ctx):
    quick = ctx.tier == "quick"
    C.build_harness()
    stats = {"cases_by_tag": {}, "k_seen": set(), "k_multi": set(), "max_len": 0, "max_segs": 0, "outer_kmer_not_missing": 0,
             "kmer_only_tail": 0, "adjacent_boundaries": 0}
    seen = set()
    # ---------------------------------------------------------------- job list
    mc_workers = 1 if quick else 2
    if quick:
        mc = [(3, 5, False), (2, 4, False), (1, 4, False)]
        scan = [(1, 4), (2, 4), (3, 4)]
        exh = [(1, 0, 4, 1), (2, 0, 4, 1), (3, 0, 4, 1), (2, 5, 5, 3), (3, 5, 5, 2)]
        rnd_shards, rnd_n, rnd_maxlen, densecap = 8, 40, 500, 250
    else:
        mc = [(2, 6, False), (1, 6, False), (3, 6, False), (4, 6, False), (2, 5, True), (1, 5, True), (3, 5, True)]
        scan = [(1, 5), (2, 5), (3, 5), (4, 5)]
        exh = [(1, 0, 5, 2), (2, 0, 5, 3), (3, 0, 5, 2), (4, 0, 5, 1),
               (1, 6, 6, 8), (2, 6, 6, 16), (3, 6, 6, 10), (4, 6, 6, 5)]
        rnd_shards, rnd_n, rnd_maxlen, densecap = 10, 56, 5000, 700
    ctx.checker_cmds.append(
        "tlc MC_Segmentation (k,MaxLen,WithExtra)=%s; tlc MC_SegScan (k,MaxLen)=%s PROPERTIES Refines; "
        "rvh trace-seg --mode exhaustive (k,minlen,maxlen,parts)=%s; rvh trace-seg --mode random x%d shards (n=%d,maxlen=%d); "
        "tlc Trace_Segmentation on every shard" % (mc, scan, exh, rnd_shards, rnd_n, rnd_maxlen))

    def job_mc(k, maxlen, extra):
        name = "MC_Segmentation_k%d_L%d%s" % (k, maxlen, "_x" if extra else "")
        cfg = _mc_cfg(os.path.join(ctx.work, name + ".cfg"), MC_INVS, k, maxlen, extra=extra)
        r = C.run_tlc("MC_Segmentation", cfg, workdir=ctx.work, workers=mc_workers, xmx="6g", timeout=3000)
        C.log("[C10] %s: %d states, %.0fs" % (name, r.distinct, r.wall))
        return ("mc", name, r)

    def job_scan(k, maxlen):
        name = "MC_SegScan_k%d_L%d" % (k, maxlen)
        cfg = _mc_cfg(os.path.join(ctx.work, name + ".cfg"), SCAN_INVS, k, maxlen, props="Refines")
        r = C.run_tlc("MC_SegScan", cfg, workdir=ctx.work, workers=1, xmx="4g", timeout=3000)
        res = None
        C.log("[C10] %s: %d states, %.0fs" % (name, r.distinct, r.wall))
        if r.ok:
            beh = [p[0] for (t, p) in r.printed if t == "REPLAY"]
            path = os.path.join(ctx.work, name + ".replay.ndjson")
            with open(path, "w") as fh:
                fh.write("\n".join(beh) + "\n")
            _, out, _, _ = C.rvh(["replay-seg", "--in", path])
            res = json.loads(out)
            res["emitted"] = len(beh)
            os.remove(path)
        return ("scan", name, r, res)

    def job_exh(k, lo, hi, parts, part):
        name = "exh_k%d_L%d-%d_p%d" % (k, lo, hi, part)
        return ("trace",) + _validate(ctx, name, ["--mode", "exhaustive", "--k", str(k), "--minlen", str(lo), "--maxlen", str(hi),
                                                  "--nparts", str(parts), "--part", str(part)], "exh", fast=True)

    def job_rnd(shard):
        name = "rnd_%d" % shard
        return ("trace",) + _validate(ctx, name, ["--mode", "random", "--seed", str(ctx.seed * 1000 + shard), "--n", str(rnd_n),
                                                  "--maxlen", str(rnd_maxlen), "--densecap", str(densecap), "--offset", str(shard)],
                                      "rnd%d" % shard)

    jobs = [(job_mc, a) for a in mc]
    jobs += [(job_exh, (k, lo, hi, parts, p)) for (k, lo, hi, parts) in exh if parts > 1 for p in range(parts)]
    jobs += [(job_rnd, (s,)) for s in range(rnd_shards)]
    jobs += [(job_scan, a) for a in scan]
    jobs += [(job_exh, (k, lo, hi, parts, 0)) for (k, lo, hi, parts) in exh if parts == 1]

    scan_summary = {"behaviours": 0, "identical": 0, "differing": 0}
    # quick: 8 single-worker TLC / harness processes at a time; thorough: the (large) MC jobs get 2 workers each and are
    # submitted first, 6 jobs at a time
    with ThreadPoolExecutor(max_workers=8 if quick else 6) as ex:
        futs = [ex.submit(f, *a) for (f, a) in jobs]
        results = [f.result() for f in futs]
    for res in results:
        if res[0] == "mc":
            _, name, r = res
            C.tlc_must_pass(r, name)
            ctx.add_mc(name, r, required_actions=("Finish", "SplitSome"))
        elif res[0] == "scan":
            _, name, r, rep = res
            C.tlc_must_pass(r, name)          # includes the refinement property Refines
            ctx.add_mc(name, r, required_actions=("Consume", "Final"))
            scan_summary["behaviours"] += rep["behaviours"]
            scan_summary["differing"] += len(rep["fails"])
            scan_summary["identical"] += rep["behaviours"] - len(rep["fails"])
            if rep["emitted"] != rep["behaviours"]:
                raise C.ToolError("%s: %d behaviours emitted, %d replayed" % (name, rep["emitted"], rep["behaviours"]))
            if rep["fails"]:
                C.log("[C10] note: %d behaviour(s) of the code-shaped model %s differ from the real result "
                      "(splitting policy changed? the verdict is TRACE's)" % (len(rep["fails"]), name))
                ctx.extra.setdefault("scan_replay_differences", []).extend(rep["fails"][:3])
        else:
            _, name, cases, summ, acc, rej, st, gen = res
            _report(ctx, cases, summ, acc, rej, st, gen, seen, stats)
            if name.startswith("rnd_0") and cases:
                big = max(cases, key=lambda c: len(c[1]))
                s0 = big[1][0]
                ctx.sample({"random_case": {"fn": s0["fn"], "k": s0["k"], "tag": s0["tag"], "contig_len": len(s0["contig"]),
                                            "splitters": len(s0["splitters"]), "segments": len(big[1]) - 2,
                                            "segment_lengths_head": [len(e["data"]) for e in big[1][1:9] if e["ev"] == "seg"]}})
            if name.startswith("exh_k2") and "sample" in summ and not any("exhaustive_case" in x for x in ctx.samples):
                ctx.sample({"exhaustive_case": summ["sample"]})
    ctx.exhaustive = True
    stats["k_seen"] = sorted(stats["k_seen"])
    stats["k_multi"] = sorted(stats["k_multi"])
    stats["k_without_multisegment_case"] = [k for k in range(1, 33) if k not in stats["k_multi"]]
    if stats["k_without_multisegment_case"]:
        C.log("[C10] note: no accepted multi-segment random case for k in %s" % stats["k_without_multisegment_case"])
    ctx.extra["trace_stats"] = stats
    ctx.extra["scan_replay_informational"] = scan_summary
    ctx.rule = ("TRACE case = one call of one real function on one (contig, k, splitter set); accepted = TLC matched every event "
                "to a Split/Finish step of Segmentation.tla with equal bases and boundary k-mers. Exhaustive part: all contigs over "
                "{A,C,G,T,N} with (k,minlen,maxlen)=%s, all subsets of their canonical k-mers, both functions; random part: %d "
                "contigs x up to 6 splitter-set modes x 2 functions, length <= %d, codes 0..15, k cycling over 1..32. "
                "non-trivial = accepted cases with >= 2 segments, distinct by sha1(fn,k,contig,splitter set)."
                % ([e[:3] for e in exh], rnd_shards * rnd_n, rnd_maxlen))
    ctx.assumptions.append("packed u64 k-mers are projected to symbol sequences by the harness (unpack + low-bits-zero flag); "
                           "u64::MAX is projected to MISSING")
    ctx.assumptions.append("splitter sets hold k-mers as left-aligned packed values of length k (canonical or not); "
                           "the value u64::MAX (MISSING) is not offered as a splitter")
    ctx.assumptions.append("direction flags and the front k-mer of the first / back k-mer of the last of several segments are "
                           "outside the property text and are not judged (counted in trace_stats.outer_kmer_not_missing)")


def replay(ctx, case):
    """Re-execute the stored input on the current tree (both functions) and validate again."""
    C.build_harness()
    inp = case.get("input")
    if not inp or inp.get("contig") is None:
        ctx.seed = int(case.get("seed", ctx.seed))
        ctx.tier = case.get("tier", ctx.tier)
        return run(ctx)
    ip = os.path.join(ctx.work, "inputs.ndjson")
    C.write_ndjson(ip, [inp])
    _, cases, summ, acc, rej, st, gen = _validate(ctx, "replay", ["--mode", "inputs", "--in", ip], "replay")
    stats = {"cases_by_tag": {}, "k_seen": set(), "k_multi": set(), "max_len": 0, "max_segs": 0, "outer_kmer_not_missing": 0,
             "kmer_only_tail": 0, "adjacent_boundaries": 0}
    _report(ctx, cases, summ, acc, rej, st, gen, set(), stats)
    C.log("[C10] replay: %d call(s) accepted, %d rejected" % (acc, len(rej)))
