"""C20 — canonical k-mer arithmetic (spec/Kmer.tla).
MC: exhaustive model k=1..K; REPLAY: every maximal behaviour on the real Kmer objects;
TRACE: random long sequences for every k in 1..32 validated by Trace_Kmer."""
import json
import os
from concurrent.futures import ThreadPoolExecutor

from lib import common as C

LEVEL = "model_checking"
MANIFEST = dict(
    cat="model_checking", design="5/C20",
    text="Kmer.tla is model-checked exhaustively (k<=4 quick, k<=5 thorough; all sequences over {A,C,G,T,N} of length k+3): "
         "registers are a function of the history alone, canonical/direction/restart laws hold. Every maximal behaviour of the "
         "model is replayed on the real Kmer objects with the projected state compared after each step, and recorded executions "
         "for every k in 1..32 (random long sequences; all 4^k windows for small k) are validated by TLC against Trace_Kmer.",
    note="Trusted: TLC, the harness projection u64 -> symbol sequence (+ low-bits-zero flag). Exhaustive only within the stated bounds; k>5 by sampled traces.",
    technique="TLA+ spec (Kmer.tla) + TLC exhaustive MC; TLC-generated behaviours replayed on the real code; recorded traces validated by TLC (Trace_Kmer.tla)")


def run(ctx):
    quick = ctx.tier == "quick"
    C.build_harness()
    ks = [1, 2, 3, 4] if quick else [1, 2, 3, 4, 5]
    ctx.checker_cmds.append("tlc MC_Kmer_k{1..%d}.cfg MC_Kmer.tla; rvh replay-kmer; tlc Trace_Kmer (k=1..32)" % ks[-1])
    # ---- MC + REPLAY -----------------------------------------------------------------------
    for k in ks:
        r = C.run_tlc("MC_Kmer", "MC_Kmer_k%d.cfg" % k, workdir=ctx.work, workers=8, xmx="8g")
        C.tlc_must_pass(r, "MC_Kmer k=%d" % k)
        ctx.add_mc("MC_Kmer_k%d" % k, r, required_actions=("MCNext",))
        beh = [p[0] for (t, p) in r.printed if t == "REPLAY"]
        if len(beh) != 5 ** (k + 3):
            raise C.ToolError("expected %d behaviours from MC_Kmer k=%d, got %d" % (5 ** (k + 3), k, len(beh)))
        path = os.path.join(ctx.work, "replay_k%d.ndjson" % k)
        with open(path, "w") as fh:
            fh.write("\n".join(beh) + "\n")
        _, out, _, _ = C.rvh(["replay-kmer", "--in", path])
        res = json.loads(out)
        ctx.traces += res["behaviours"] - len(res["fails"])
        ctx.evaluations += res["behaviours"]
        # non-trivial: behaviours that contain at least one full window
        ctx.nontrivial += sum(1 for b in beh if '"full":true' in b)
        if k == 3:
            ctx.sample({"replay_behaviour": json.loads(beh[len(beh) // 2])})
        for i, f in enumerate(res["fails"][:5]):
            ctx.violation("replay_k%d_%d" % (k, i), {"kind": "REPLAY", "k": k, "sig": {"kind": "replay", "k": k}, "fail": f})
    ctx.exhaustive = True
    # ---- TRACE -----------------------------------------------------------------------------
    nseq, ln = (3, 120) if quick else (6, 700)
    klist = list(range(1, 33))

    def one(k):
        tp = os.path.join(ctx.work, "trace_k%d.ndjson" % k)
        C.rvh(["trace-kmer", "--k", str(k), "--nseq", str(nseq), "--len", str(ln), "--seed", str(ctx.seed), "--out", tp])
        evs = C.read_ndjson(tp)
        cases, cur = [], None
        for e in evs:
            if e["ev"] == "start":
                cur = ("k%d_case%d" % (k, e["case"]), [])
                cases.append(cur)
            cur[1].append(e)
        cfg = C.gen_cfg(os.path.join(ctx.work, "Trace_Kmer_k%d.cfg" % k),
                        constants={"K": k, "MaxLen": 0, "Alphabet": "{}"},
                        invariants=("Refinement", "CanonicalLaws", "RestartLaw"))
        acc, rej, st, gen = C.validate_trace("Trace_Kmer", cfg, cases, os.path.join(ctx.work, "tk%d" % k))
        full = sum(1 for e in evs if e.get("full"))
        return k, acc, rej, st, gen, len(cases), full, evs

    def windows(k):
        tp = os.path.join(ctx.work, "win_k%d.ndjson" % k)
        C.rvh(["trace-kmer", "--k", str(k), "--windows", "--out", tp])
        evs = C.read_ndjson(tp)
        cfg = C.gen_cfg(os.path.join(ctx.work, "Trace_KmerW_k%d.cfg" % k), constants={"K": k, "MaxLen": 0, "Alphabet": "{}"})
        acc, rej, st, gen = C.validate_trace("Trace_Kmer", cfg, [("windows_k%d" % k, evs)], os.path.join(ctx.work, "tw%d" % k))
        return k, acc, rej, st, gen, len(evs) - 1

    with ThreadPoolExecutor(max_workers=8) as ex:
        for (k, acc, rej, st, gen, nwin) in ex.map(windows, range(1, 7 if quick else 9)):
            ctx.traces += acc
            ctx.evaluations += nwin
            ctx.nontrivial += nwin if acc else 0
            ctx.states += st
            ctx.transitions += gen
            for r in rej:
                ctx.violation("windows_k%d" % k, {"kind": "TRACE-windows", "k": k, "sig": {"kind": "windows", "k": k}, "rejected": r})
        for (k, acc, rej, st, gen, ncase, full, evs) in ex.map(one, klist):
            ctx.traces += acc
            ctx.evaluations += ncase
            ctx.nontrivial += acc if full > 0 else 0
            ctx.states += st
            ctx.transitions += gen
            if k == 32:
                ctx.sample({"trace_event_k32": [e for e in evs if e.get("full")][:1]})
            for r in rej:
                ctx.violation("trace_%s" % r["case_id"], {"kind": "TRACE", "k": k, "sig": {"kind": "trace", "k": k},
                                                         "rejected": r})
    ctx.rule = ("REPLAY: all 5^(k+3) symbol sequences over {A,C,G,T,N} of length k+3 for k in %s, each step compared "
                "(size, dir, rc, full, canon, isdir, low bits zero, Direct/RevComp/Canonical accessors agree, "
                "canonical_kmer / reverse_complement_kmer / enumerate_kmers); TRACE: %d random sequences of length %d per k "
                "in 1..32 plus all 4^k windows for k<=%d through canonical_kmer/reverse_complement_kmer (N at rates 0/1%%/5%%, mirrored stretches); non-trivial = contains a full window" % (ks, nseq, ln, 6 if quick else 8))
    ctx.assumptions.append("packed u64 k-mers are projected to symbol sequences by the harness (unpack + low-bits-zero flag)")
