"""C16 — every successfully created archive is fully extractable, for any FASTA text (spec/Fasta.tla).
MC: the line-level record reader (state machine) + symbol table + output mapping refine the declarative
"records of a FASTA text" and every outcome built from them satisfies the required contract, exhaustively over
token sequences (negative controls: wrong readers are rejected); REPLAY: TLC-generated token sequences are
materialised as bytes, fed to the real record reader prefix by prefix and created as the only sample / as a
non-reference sample next to a reference sharing sequence, through the library call sequence and the real
`ragc` binary; TRACE: seeded random byte-level FASTA texts on top of the gen-case collections.  Every
create -> list -> extract execution is validated by TLC (Trace_Fasta) against the contract, evaluated on the raw
bytes of the input files."""
import json
import os
import time
from concurrent.futures import ThreadPoolExecutor

from lib import common as C

LEVEL = "model_checking"
MANIFEST = dict(
    cat="model_checking", design="5/C16",
    text="Fasta.tla states the required contract on bytes (RecordsOf: a line starting with '>' opens a record named by the "
         "rest of the line, its sequence is Normalise(everything up to the next such line) = non-letters dropped, upper case, "
         "non-IUPAC letters -> N; Contract: create fails, or every listed sample extracts, no record with >= 1 base is left "
         "out, what is extracted equals the input, per sample in input order; records without bases may be kept or dropped; "
         "sample names / assignment are left open) and the design (reader automaton Start/InRecord with Header, SeqLine, "
         "Blank, Eof, CR LF and missing-final-newline handling, symbol table letter -> code 0..15 / 30, output mapping). "
         "TLC checks exhaustively over token sequences (<= 5 quick, <= 7 thorough; headers, empty header, ACGT / unknown+lower+"
         "IUPAC / digits+gaps lines, blank lines; LF, CR LF, mixed; unterminated last line) that the automaton equals the "
         "declarative records and that its outcomes satisfy the contract, and that six wrong readers are rejected. "
         "Behaviours printed by TLC are fed to the real GenomeIO reader prefix by prefix and created as the only sample and as "
         "a non-reference sample next to a reference sharing sequence (unknown letters measured inside LZ-encoded segments), "
         "via create_like_cli and via the real ragc binary (create, listset, listctg, getset); seeded random byte-level texts "
         "(printable headers, all letters both cases, digits, - * ., empty records, blank lines, CR LF, no final newline) on "
         "the gen-case collections with small k / segment size add references, raw groups, several samples, PanSN files. "
         "Every execution (input bytes, outcome, listing, per-sample extraction) is validated by TLC (Trace_Fasta).",
    note="Trusted: TLC; the harness projections (exit status / Err / panic -> create failed; FASTA text of an extraction cut "
         "into (name, sequence) at '>' lines); `ragc listset` / list_samples as what an archive lists. Inside the property's "
         "quantifier only (printable-ASCII headers not starting with '>', sequence lines over letters, digits, - * .; no data "
         "before the first header); header names are compared modulo blanks at both ends. Bounded token space; sampled texts.",
    technique="TLA+ spec (Fasta.tla) + TLC exhaustive MC with negative controls; TLC-generated behaviours replayed on the real "
              "reader, library and binary; recorded executions validated by TLC (Trace_Fasta.tla)")

NEG = ["eofOnEmpty", "dropUnterminated", "crInHeader", "keepUnknown", "code15", "lowerMissing"]
PARTS = ("ArchiveReadable", "EverySampleExtracts", "NoRecordIsLeftOut", "ExtractionIsTheInput", "DesignAgrees")


def _cfg(ctx, name, variant="design", maxlen=5, fulllen=5, samplemod=1, thinmod=1, boringmod=1, crlf="{0, 1, 2}", invariants=(), constraint=None):
    path = os.path.join(ctx.work, name + ".cfg")
    with open(path, "w") as fh:
        fh.write("SPECIFICATION MCSpec\nCONSTANTS\n")
        for k, v in (("Variant", '"%s"' % variant), ("MaxLen", maxlen), ("FullLen", fulllen), ("SampleMod", samplemod),
                     ("ThinMod", thinmod), ("BoringMod", boringmod), ("Seed", ctx.seed % 1000000), ("CrlfModes", crlf)):
            fh.write("  %s = %s\n" % (k, v))
        if constraint:
            fh.write("CONSTRAINT %s\n" % constraint)
        fh.write("INVARIANTS %s\nCHECK_DEADLOCK FALSE\n" % " ".join(invariants))
    return path


def _mc_exhaustive(ctx, quick):
    """all token sequences (short default tokens): automaton = declarative records, outcomes satisfy the contract"""
    out = []
    runs = [("mc_len5", dict(maxlen=5, fulllen=5), 3)] if quick else [("mc_len6", dict(maxlen=6, fulllen=6), 4), ("mc_len7_crlf", dict(maxlen=7, fulllen=7, crlf="{1}"), 4)]
    for name, kw, workers in runs:
        r = C.run_tlc("MC_Fasta", _cfg(ctx, name, invariants=("TypeOK", "RefinesAndContract"), **kw), workdir=ctx.work, workers=workers,
                      xmx="2g", coverage=False, timeout=2400)
        C.tlc_must_pass(r, name)
        out.append((name, r, ()))
    # the contract rejects what it has to reject; tokens are inside the property's domain (with action coverage)
    r = C.run_tlc("MC_Fasta", _cfg(ctx, "mc_rejects", maxlen=3 if quick else 5, fulllen=5, crlf="{0, 1}", invariants=("TypeOK", "ContractRejects")),
                  workdir=ctx.work, workers=3, xmx="1g", timeout=2400)
    C.tlc_must_pass(r, "mc_rejects")
    out.append(("mc_rejects", r, ("FeedLine", "FeedLastLine", "Finish")))
    return out


def _neg(ctx, variant):
    r = C.run_tlc("MC_Fasta", _cfg(ctx, "neg_" + variant, variant=variant, maxlen=3 if variant == "eofOnEmpty" else 2, fulllen=3, crlf="{0, 1}", invariants=("ReaderMeetsContract",)),
                  workdir=ctx.work, workers=1, xmx="1g", coverage=False, timeout=900)
    if r.ok or r.violated != "ReaderMeetsContract":
        raise C.ToolError("negative control: reader variant %s must violate ReaderMeetsContract; TLC says ok=%s violated=%s error=%s" % (
            variant, r.ok, r.violated, r.error))
    return variant, r


def _emit(ctx, quick, setup):
    cache = "/tmp/c16_emit_cache_%s_%d.json" % (ctx.tier, ctx.seed)
    if os.environ.get("VERIF_C16_SCREEN") == "1" and os.path.exists(cache):      # the emission does not depend on the code under test
        r = C.TlcResult()
        return r, json.load(open(cache))
    r, beh = _emit_run(ctx, quick, setup)
    if os.environ.get("VERIF_C16_SCREEN") == "1":
        json.dump(beh, open(cache, "w"))
    return r, beh


def _emit_run(ctx, quick, setup):
    if quick:
        kw = dict(maxlen=4, fulllen=3, thinmod=8, samplemod=1, boringmod=6)
    else:
        kw = dict(maxlen=7, fulllen=4, thinmod=20, samplemod=4, boringmod=4)
    cfg = _cfg(ctx, "mc_emit", invariants=("SelectedOK", "Emit"), constraint="Thin", **kw)
    r = C.run_tlc("MC_Fasta", cfg, workdir=ctx.work, workers=8, xmx="2g", coverage=False, env={"FASTA_SETUP": setup}, timeout=2400)
    C.tlc_must_pass(r, "mc_emit")
    beh = [p[0] for (t, p) in r.printed if t == "REPLAY"]
    if not beh:
        raise C.ToolError("no behaviours emitted by MC_Fasta")
    return r, beh


def _cases_of(evs):
    cases, cur = [], None
    for e in evs:
        if e["ev"] == "start":
            cur = (e["id"], [])
            cases.append(cur)
        if cur is None:
            raise C.ToolError("event before the first start event")
        cur[1].append(e)
    return cases


def _slim(evs):
    """what Trace_Fasta reads (the diagnostic fields stay in the python-side copy)"""
    out = []
    for e in evs:
        if e["ev"] == "start":
            out.append({"ev": "start", "id": e["id"]})
        elif e["ev"] == "file":
            out.append(e)
        else:
            out.append({"ev": "outcome", "kind": e["kind"],
                        "samples": [{"name": s["name"], "status": s["status"], "records": s["records"]} for s in e["samples"]]})
    return out


def _validate(ctx, cases, tag, shards):
    """One TLC pass (Trace_Fasta, Report = TRUE) per shard over all its cases: returns (accepted, rejected, states, generated);
    rejected = [dict(case_id, detail = violated parts of the property)].  A malformed trace is a tool error."""
    cfg = C.gen_cfg(os.path.join(ctx.work, "Trace_Fasta_%s.cfg" % tag), constants={"Variant": '"design"', "Report": "TRUE"})
    parts = [p for p in (cases[i::shards] for i in range(shards)) if p]
    outdom = set()

    def one(i):
        wd = os.path.join(ctx.work, "tv_%s_%d" % (tag, i))
        os.makedirs(wd, exist_ok=True)
        path = os.path.join(wd, "t.ndjson")
        ends = {}
        n = 0
        with open(path, "w") as fh:
            for (cid, evs) in parts[i]:
                for e in _slim(evs):
                    fh.write(json.dumps(e, separators=(",", ":")) + "\n")
                n += len(evs)
                ends[n] = cid                      # index of the outcome event of this case
        r = C.run_tlc("Trace_Fasta", cfg, workdir=wd, workers=1, env={"TRACE": path}, deque=True, coverage=False, timeout=3000, xmx="2g")
        if not r.ok:
            raise C.ToolError("trace validation (Trace_Fasta, shard %d) failed without verdict: violated=%s error=%s\n%s" % (i, r.violated, r.error, r.raw[-2500:]))
        if any(t == "SPECBUG" for (t, p) in r.printed):
            raise C.ToolError("spec error: the design automaton and RecordsOf disagree on a recorded input: %s" % [p for (t, p) in r.printed if t == "SPECBUG"][:3])
        bad = {}
        for (t, p) in r.printed:
            if t == "REJECT":
                bad.setdefault(ends[p[0]], set()).add(p[1])
            elif t == "OUTDOM":
                outdom.add(ends[p[0]])
        return len(parts[i]) - len(bad), [{"case_id": c, "detail": "+".join(sorted(v))} for c, v in bad.items()], r.distinct, r.generated

    acc = st = gen = 0
    rej = []
    with ThreadPoolExecutor(max_workers=min(7, len(parts))) as ex:
        for (a, r, s, g) in ex.map(one, range(len(parts))):
            acc += a
            rej += r
            st += s
            gen += g
    ctx.extra.setdefault("outside_domain", []).extend(sorted(outdom))
    return acc, rej, st, gen


def _b2s(b):
    return bytes(b).decode("latin-1")


def _describe(evs):
    """human-readable form of one case for the replay file"""
    start, files, outcome = evs[0], [e for e in evs if e["ev"] == "file"], evs[-1]
    return {
        "files": [{"name": n, "text": _b2s(f["bytes"])} for n, f in zip(start.get("file_names", []), files)],
        "create": {"kind": outcome.get("kind"), "class": outcome.get("class"), "msg": outcome.get("msg")},
        "samples": [{"name": _b2s(s["name"]), "status": s["status"], "msg": s.get("msg", ""),
                     "records": [{"name": _b2s(r["name"]), "seq": _b2s(r["seq"])} for r in s["records"]]} for s in outcome.get("samples", [])],
    }


def _sig(rj, evs):
    start, outcome = evs[0], evs[-1]
    f = start.get("feats", {})
    m = start.get("measure", {})
    part = rj["detail"].replace("invariant ", "").replace(" violated", "")     # names of the violated parts of the property
    return {"part": part, "origin": start.get("origin"), "placement": start.get("placement"),
            "unknown_letters": f.get("unknown", 0) > 0, "unknown_in_lz": m.get("unknown_in_lz", 0) > 0,
            "empty_record": f.get("empty_record", 0) > 0, "leading_blank": f.get("leading_blank", 0) > 0,
            "crlf": f.get("crlf", 0) > 0, "nofinal": f.get("nofinal", 0) > 0,
            "failing_samples": sum(1 for s in outcome.get("samples", []) if s["status"] != "ok") > 0}


def _selftest(ctx, cases):
    """corrupt accepted runs (one record dropped / one base changed / a sample marked failing): TLC must reject each"""
    for (cid, evs) in cases:
        o = evs[-1]
        if o["kind"] == "archive" and any(len(s["records"]) >= 1 and len(s["records"][-1]["seq"]) > 1 for s in o["samples"]):
            bad = []
            for kind in ("drop", "alter", "fail"):
                c = json.loads(json.dumps(_slim(evs)))
                s = [s for s in c[-1]["samples"] if s["records"] and len(s["records"][-1]["seq"]) > 1][0]
                if kind == "drop":
                    s["records"] = s["records"][:-1]
                elif kind == "alter":
                    s["records"][-1]["seq"][0] = 67 if s["records"][-1]["seq"][0] != 67 else 65
                else:
                    s["status"] = "fail"
                    s["records"] = []
                c[0]["id"] = "selftest_" + kind
                bad.append(("selftest_" + kind, c))
            cfg = C.gen_cfg(os.path.join(ctx.work, "Trace_Fasta_self.cfg"), constants={"Variant": '"design"', "Report": "FALSE"}, invariants=PARTS)
            acc, rej, _, _ = C.validate_trace("Trace_Fasta", cfg, bad, os.path.join(ctx.work, "tv_self"), max_reject=5)
            if acc != 0 or len(rej) != 3:
                raise C.ToolError("trace self-test: corrupted runs accepted by Trace_Fasta (accepted %d, rejected %s)" % (acc, [r["case_id"] for r in rej]))
            return [r["detail"] for r in rej]
    raise C.ToolError("trace self-test: no archive outcome with a record among the recorded runs")


def run(ctx):
    quick = ctx.tier == "quick"
    C.build_harness()
    cli = C.build_cli()
    ctx.checker_cmds.append("tlc MC_Fasta (exhaustive, rejects, 6 negative-control variants, emission with FASTA_SETUP); rvh fasta-setup; "
                            "rvh replay-fasta (real GenomeIO + create_like_cli + real ragc create/listset/listctg/getset); rvh trace-fasta; tlc Trace_Fasta")
    setup = os.path.join(ctx.work, "setup.json")
    C.rvh(["fasta-setup", "--seed", str(ctx.seed), "--out", setup])
    jobs = 5 if quick else 4            # + 3 / 4 TLC workers of the exhaustive runs at the same time
    # screening mode for mutation campaigns: the spec-only TLC runs (exhaustive MC, negative controls), which do not
    # depend on the code under test, are skipped; the binding (emission, REPLAY, TRACE, validation by TLC) is unchanged
    screen = os.environ.get("VERIF_C16_SCREEN") == "1"
    if screen:
        C.log("[C16] SCREENING MODE: spec-only MC runs skipped")
        jobs = 8
    t0 = time.time()
    with ThreadPoolExecutor(max_workers=3) as ex:
        # emission first (the replay needs it), then the replay / trace generation run while TLC does the exhaustive runs
        r_emit, beh = _emit(ctx, quick, setup)
        behp = os.path.join(ctx.work, "behaviours.ndjson")
        with open(behp, "w") as fh:
            fh.write("\n".join(beh) + "\n")
        C.log("[C16] emission: %d behaviours, TLC %.0fs" % (len(beh), r_emit.wall))
        f_mc = ex.submit((lambda: []) if screen else (lambda: _mc_exhaustive(ctx, quick)))
        f_neg = ex.submit(lambda: [] if screen else [_neg(ctx, v) for v in NEG])
        t1 = time.time()
        evp = os.path.join(ctx.work, "replay_events.ndjson")
        _, out, _, _ = C.rvh(["replay-fasta", "--in", behp, "--setup", setup, "--ragc", cli, "--dir", os.path.join(ctx.work, "replay"),
                              "--jobs", str(jobs), "--events", evp, "--both-upto", "0" if quick else "2", "--cli-every", "12"], timeout=6000)
        res = json.loads(out.strip().splitlines()[-1])
        C.log("[C16] replay: %d behaviours, %d reader steps, %d create/list/extract cases in %.0fs" % (res["behaviours"], res["steps"], res["cases"], time.time() - t1))
        t1 = time.time()
        tp = os.path.join(ctx.work, "trace_events.ndjson")
        _, out, _, _ = C.rvh(["trace-fasta", "--seed", str(ctx.seed), "--cases", "48" if quick else "240", "--ragc", cli,
                              "--dir", os.path.join(ctx.work, "trace"), "--jobs", str(jobs), "--out", tp, "--cli-every", "3"], timeout=6000)
        tinfo = json.loads(out.strip().splitlines()[-1])
        C.log("[C16] trace: %d random cases (%d input bytes) in %.0fs" % (tinfo["cases"], tinfo["input_bytes"], time.time() - t1))
        mc, negs = f_mc.result(), f_neg.result()
    for (name, r, required) in mc:
        ctx.add_mc(name, r, required_actions=required)
    ctx.states += r_emit.distinct
    ctx.transitions += r_emit.generated
    ctx.exhaustive = not screen
    ctx.extra["negative_controls"] = [{"variant": v, "violated": "ReaderMeetsContract", "states": r.distinct} for (v, r) in negs]
    C.log("[C16] MC + negative controls done at %.0fs" % (time.time() - t0))

    # ---- every recorded execution is validated by TLC ---------------------------------------------------------------
    cases = _cases_of(C.read_ndjson(evp)) + _cases_of(C.read_ndjson(tp))
    by_id = dict(cases)
    t1 = time.time()
    with ThreadPoolExecutor(max_workers=2) as ex:
        f_self = ex.submit((lambda: "skipped") if screen else (lambda: _selftest(ctx, cases)))
        acc, rej, st, gen = _validate(ctx, cases, "all", shards=7)
        ctx.extra["trace_selftest"] = {"corrupted_runs_rejected": f_self.result()}
    C.log("[C16] Trace_Fasta: %d cases, %d rejected, %.0fs" % (len(cases), len(rej), time.time() - t1))
    ctx.traces += acc
    ctx.states += st
    ctx.transitions += gen
    ctx.evaluations += len(cases) + res["steps"]
    seen = set()
    rejected_ids = set()
    for rj in rej:
        evs = by_id[rj["case_id"]]
        rejected_ids.add(rj["case_id"])
        sig = _sig(rj, evs)
        key = json.dumps(sig, sort_keys=True)
        if key in seen or len(seen) >= 10:
            continue
        seen.add(key)
        start = evs[0]
        ctx.violation("%s_%s" % (sig["part"], rj["case_id"]), {
            "kind": "TRACE" if start.get("origin") == "trace" else "REPLAY", "sig": sig,
            "detail": "Trace_Fasta: violated %s — the contract of Fasta.tla does not allow this outcome for these input bytes" % rj["detail"],
            "what": _describe(evs),
            "case": {k: start.get(k) for k in ("id", "origin", "via", "placement", "k", "seg", "mm", "threads", "toks", "crlf", "nofinal", "kind", "mode", "file_names")},
            "files": [e["bytes"] for e in evs if e["ev"] == "file"]})
    # cases whose input TLC found outside the property's quantifier are vacuous: REPLAY inputs are inside by construction
    outdom = set(ctx.extra.get("outside_domain", []))
    n_trace = sum(1 for (c, evs) in cases if evs[0].get("origin") == "trace")
    if any(by_id[c][0].get("origin") == "replay" for c in outdom) or len(outdom) > n_trace // 10:
        raise C.ToolError("generator error: inputs outside the property's domain: %s" % sorted(outdom)[:10])
    # ---- measured non-triviality ------------------------------------------------------------------------------------
    cnt = dict(archive=0, error=0, unreadable=0, unknown_in_lz=0, unknown_in_ref=0, unknown_in_raw=0, unknown_in_reversed=0, empty_record=0,
               leading_blank=0, crlf=0, lower=0, nofinal=0, interior_blank=0, junk=0, several_samples=0, panics=0)
    nontrivial = 0
    errclasses = {}
    for (cid, evs) in cases:
        s, o = evs[0], evs[-1]
        cnt[o["kind"]] = cnt.get(o["kind"], 0) + 1
        if o["kind"] == "error":
            errclasses[o.get("class")] = errclasses.get(o.get("class"), 0) + 1
            if o.get("class") in ("panic", "crash", "signal"):
                cnt["panics"] += 1
        if o["kind"] != "archive" or cid in rejected_ids or cid in outdom:
            continue
        f, m = s.get("feats", {}), s.get("measure", {})
        hit = False
        for k in ("unknown_in_lz", "unknown_in_ref", "unknown_in_raw", "unknown_in_reversed"):
            if m.get(k, 0) > 0:
                cnt[k] += 1
                hit = True
        for k in ("empty_record", "leading_blank", "crlf", "lower", "nofinal", "interior_blank", "junk"):
            if f.get(k, 0) > 0:
                cnt[k] += 1
                hit = True
        if len(o["samples"]) >= 2:
            cnt["several_samples"] += 1
        nontrivial += 1 if hit else 0
    ctx.extra["counts"] = cnt
    ctx.extra["create_error_classes"] = errclasses
    ctx.extra["reader_replay"] = {"steps": res["steps"], "reader_errors": res["reader_errors"], "diverged": res["reader_diverged"][:5]}
    ctx.extra["trace_gen"] = tinfo
    if not ctx.violations:
        for k in ("archive", "error", "unknown_in_lz", "unknown_in_ref", "empty_record", "leading_blank", "crlf", "lower", "nofinal"):
            if cnt[k] == 0:
                raise C.ToolError("vacuity guard: no accepted case with %s (counts %s)" % (k, cnt))
    ctx.nontrivial = nontrivial
    ctx.rule = ("distinct create->list->extract executions of the real code that produced an archive accepted by TLC and whose input had, "
                "measured on the raw bytes / the finished archive: non-IUPAC letters inside an LZ-encoded non-reference segment (%d), inside a "
                "reference segment (%d), inside a raw group (%d), inside a reverse-oriented segment (%d); a record without bases (%d); a leading "
                "blank line (%d); CR LF (%d); lower case (%d); no final newline (%d); an interior blank line (%d); digits / gaps (%d). "
                "Outcomes: archive %d, create failed %d (classes %s), unreadable %d." % (
                    cnt["unknown_in_lz"], cnt["unknown_in_ref"], cnt["unknown_in_raw"], cnt["unknown_in_reversed"], cnt["empty_record"], cnt["leading_blank"],
                    cnt["crlf"], cnt["lower"], cnt["nofinal"], cnt["interior_blank"], cnt["junk"], cnt["archive"], cnt["error"], errclasses, cnt["unreadable"]))
    for cid in ([c for c in by_id if c.endswith("nonref_cli")][:1] + [c for c in by_id if c.startswith("t")][:1]):
        d = _describe(by_id[cid])
        ctx.sample({"case": cid, "files": [f["text"][:160] for f in d["files"]], "create": d["create"]["kind"],
                    "samples": [{"name": s["name"], "status": s["status"], "records": [(r["name"], r["seq"][:40]) for r in s["records"][:3]]} for s in d["samples"]]})
    ctx.assumptions += [
        "the property's quantifier: printable-ASCII header lines whose name does not start with '>', sequence lines over ASCII letters, digits, - * .; "
        "CR only in CR LF; no sequence data before the first header (TLC evaluates InDomain on the recorded bytes; outside of it nothing is demanded)",
        "a record's name is the whole header line after '>' without its line terminator; names are compared modulo blanks (space, tab) at both ends",
        "create failing = Err / non-zero exit / panic (all are 'fails with an error'); what an archive lists = `ragc listset` / Decompressor::list_samples",
        "records without bases may be kept or dropped; sample names, the assignment of records to samples and the order of samples are not constrained; "
        "inside a sample the records must come in input order",
        "REPLAY token sequences: all non-orphan ones of length <= %d (1/%d of those without any base), a seeded part of the longer ones up to %d; "
        "-k 7 -s 24 -m 6; TRACE: -k 5..11 -s 10..80 -m 6..15" % ((3, 6, 4) if quick else (4, 4, 7)),
        "child processes run with MALLOC_MMAP_MAX_=0 / MALLOC_TRIM_THRESHOLD_ / MALLOC_TOP_PAD_ (allocator policy only: speed)",
    ]


def replay(ctx, case):
    """re-run one recorded case on the real code and let TLC judge it again"""
    C.build_harness()
    cli = C.build_cli()
    c = dict(case["case"])
    c["ragc"] = cli
    c["files"] = [{"name": n, "bytes": b} for n, b in zip(c.pop("file_names"), case["files"])]
    d = os.path.join(ctx.work, "one")
    os.makedirs(d, exist_ok=True)
    cp = os.path.join(d, "case.json")
    with open(cp, "w") as fh:
        json.dump(c, fh)
    ep = os.path.join(d, "events.ndjson")
    C.rvh(["fasta-case", "--case", cp, "--dir", d, "--out", ep], timeout=1200,
          env={"MALLOC_MMAP_MAX_": "0", "MALLOC_TRIM_THRESHOLD_": "4000000000", "MALLOC_TOP_PAD_": "268435456"})
    cases = _cases_of(C.read_ndjson(ep))
    acc, rej, _, _ = _validate(ctx, cases, "one", shards=1)
    desc = _describe(cases[0][1])
    for f in desc["files"]:
        print("input %s: %r" % (f["name"], f["text"][:400]))
    print("create: %s" % desc["create"])
    for s in desc["samples"]:
        print("sample %r: %s %s %s" % (s["name"], s["status"], s["msg"][:200], [(r["name"], r["seq"][:60]) for r in s["records"]]))
    for rj in rej:
        print("replayed: %s" % rj["detail"])
        ctx.violation("replayed_%s" % rj["case_id"], {"kind": case.get("kind"), "sig": _sig(rj, cases[0][1]), "detail": rj["detail"], "what": desc,
                                                     "case": case["case"], "files": case["files"]})
