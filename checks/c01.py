"""C01 — lossless round trip: what ragc's own reader returns for every sample of every created archive
equals the input (names, order, bases), decided by TLC on the recorded extraction (ArchiveSemantics, MODE=ragc)."""
from checks import arch, c02

LEVEL = "model_checking"
MANIFEST = dict(
    cat="model_checking", design="5/C01",
    text="For a seeded grid of collections x parameters (k 9..32, segment size 50..60000, min match 15..32, threads 1..16, fallback 0/0.1, multi-file and "
         "single PanSN file incl. >= 50 contigs, IUPAC codes, N-runs, reverse complements, duplicates, reordered/missing contigs, contigs shorter than k, "
         "> 50 samples) the real CLI creates an archive; ragc's reader extracts every sample; TLC evaluates the C01 formula of ArchiveSemantics.tla "
         "(sample list, contig names and order, bases) on the recorded extraction against the abstract input. The same archives are decoded "
         "independently by the TLA+ format semantics under C02.",
    note="Trusted: TLC, the generator's FASTA writer. Sampled, not exhaustive; the design-level models of classification/pack layout are roadmap items.",
    technique="TLA+ spec (ArchiveSemantics.tla) evaluated by TLC on recorded create->extract executions of the real CLI/library (trace validation)")


def run(ctx):
    results = arch.run_archives(ctx, "ragc")
    c02.summarize(ctx, results, "ragc")
