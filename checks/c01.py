"""C01 — lossless round trip: what ragc's own reader returns for every sample of every created archive
equals the input (names, order, bases), decided by TLC on the recorded extraction (ArchiveSemantics, MODE=ragc)."""
from checks import arch, c02
from lib import common as C

LEVEL = "model_checking"
MANIFEST = dict(
    cat="model_checking", design="5/C01",
    text="For a seeded grid of collections x parameters (k 9..32, segment size 50..60000, min match 15..32, threads 1..16, fallback 0/0.1, multi-file and "
         "single PanSN file incl. >= 50 contigs, IUPAC codes, N-runs, reverse complements, duplicates, reordered/missing contigs, contigs shorter than k, "
         "> 50 samples) the real CLI creates an archive; ragc's reader extracts every sample; TLC evaluates the C01 formula of ArchiveSemantics.tla "
         "(sample list, contig names and order, bases) on the recorded extraction against the abstract input. The same archives are decoded "
         "independently by the TLA+ format semantics under C02. Compressor.tla model-checks that the stored pieces/flags/part numbers computed by classification reassemble to the contig for every classification choice.",
    note="Trusted: TLC, the generator's FASTA writer. Sampled, not exhaustive; the design-level models of classification/pack layout are roadmap items.",
    technique="TLA+ spec (ArchiveSemantics.tla) evaluated by TLC on recorded create->extract executions of the real CLI/library (trace validation)")


def run(ctx):
    # design level: orientation / part-number bookkeeping of classification vs the reader's reassembly
    # rule, for every choice of should_reverse x {whole, assign-left/right, split at every position} x flags
    for c in ["k1", "k2", "k2b", "k3"]:
        r = C.run_tlc("MC_Compressor", "MC_Compressor_%s.cfg" % c, workdir=ctx.work, workers=4, xmx="6g", timeout=1500)
        C.tlc_must_pass(r, "MC_Compressor " + c)
        ctx.add_mc("MC_Compressor_" + c, r, required_actions=("Classify",))
    ctx.checker_cmds.append("tlc MC_Compressor_k{1,2,2b,3}.cfg MC_Compressor.tla")
    results = arch.run_archives(ctx, "ragc")
    c02.summarize(ctx, results, "ragc")
