"""C02 — archives conform to AGC v3: an independent decoder (the TLA+ format semantics evaluated by TLC
on the byte-lexed archive) agrees with the input and with ragc's own reader; addressing rules hold."""
from checks import arch
from lib import common as C

LEVEL = "model_checking"
MANIFEST = dict(
    cat="model_checking", design="5/C02",
    text="Every archive of a seeded input/parameter grid (real `ragc create` CLI and the CLI-equivalent library call sequence) is lexed by an "
         "independent byte lexer and then decoded a second time by the format semantics written in TLA+ (FormatOps.tla / ArchiveSemantics.tla: "
         "stream names, params, name delta codec, descriptor prediction codec, tuple unpacking, 0xFF-separated packs of 50, id->pack addressing, "
         "placeholder, metadata convention, LZ-diff V2 text, orientation, k-overlap join). TLC walks the reader state machine over all rule "
         "items; the archive is accepted only if every rule holds and the decode equals the input and ragc's own extraction.",
    note="Trusted: TLC, the `zstd` crate (ZSTD is an abstract lossless box), the ~300-line byte lexer. No C++ AGC binary exists in the sandbox: "
         "'a C++ reader agrees' is approximated by the format rules transcribed into FormatOps.tla. Inputs are sized so TLC can evaluate the decoder (k 9..15, segments 50..200).",
    technique="TLA+ executable reference semantics of the format (FormatOps/ArchiveSemantics) evaluated by TLC on every real archive (trace validation of recorded outputs)")


def run(ctx):
    # design level: the per-group pack state machine vs the reader's addressing arithmetic, exhaustively
    for c in (["raw_p2", "lz_p2"] if ctx.tier == "quick" else ["raw_p2", "lz_p2", "raw_p3", "lz_p3"]):
        r = C.run_tlc("PackLayout", "MC_PackLayout_%s.cfg" % c, workdir=ctx.work, workers=4, xmx="6g", timeout=1500)
        C.tlc_must_pass(r, "PackLayout " + c)
        ctx.add_mc("PackLayout_" + c, r, required_actions=("AddSegment", "Finalize"))
    # interface laws between the whole-archive decoder (FormatOps) and the per-area design modules (System.tla, ASSUME-checked)
    r = C.run_tlc("System", "System.cfg", workdir=ctx.work, workers=2, xmx="6g", timeout=1500, coverage=False)
    C.tlc_must_pass(r, "System interface laws")
    ctx.add_mc("System_interface_laws", r)
    ctx.checker_cmds.append("tlc MC_PackLayout_{raw,lz}_p{2,3}.cfg PackLayout.tla; tlc System.tla (interface laws L1-L6)")
    results = arch.run_archives(ctx, "all")
    summarize(ctx, results, "all")


def summarize(ctx, results, mode):
    failed_create = [r for r in results if r["status"] == "create_failed"]
    ok = [r for r in results if r["status"] == "ok"]
    rej = [r for r in results if r["status"] == "rejected"]
    ctx.evaluations = len(results)
    ctx.traces = len(ok)
    for r in results:
        ctx.states += r.get("states", 0)
        ctx.transitions += r.get("generated", 0)
    if mode == "all":
        nt = [r for r in ok if r["stats"].get("reversed", 0) > 0 and r["stats"].get("shared", 0) > 0 and r["stats"].get("lzgroups", 0) > 0]
        ctx.nontrivial = len({(r["id"]) for r in nt})
        ctx.rule = ("one case = one generated collection x parameter set (kinds basic/rc/dup/iupac/short/reorder/manysamples/manyorphans; multi-file and "
                    "single PanSN file; threads 1..16; fallback 0/0.1); non-trivial = accepted archive with >=1 reverse-oriented descriptor AND >=1 (group,id) shared "
                    "by two descriptors AND >=1 LZ group, measured from the lexed archive by the spec (STATS)")
        agg = {}
        for r in ok:
            for k, v in r["stats"].items():
                agg[k] = agg.get(k, 0) + v
        ctx.extra["archive_feature_totals"] = agg
        ctx.extra["archives_with_multipack_group"] = sum(1 for r in ok if r["stats"].get("multipack", 0) > 0)
        ctx.extra["archives_with_raw_segments"] = sum(1 for r in ok if r["stats"].get("rawsegs", 0) > 0)
        if not rej and not failed_create and ctx.extra["archives_with_multipack_group"] == 0:
            raise C.ToolError("vacuity guard: no generated archive has a group with >= 2 packs (the id -> pack addressing rules were never exercised)")
    else:
        ctx.nontrivial = len({r["id"] for r in ok if r["case"]["samples"] >= 2})
        ctx.rule = ("one case = one generated collection x parameter set incl. k up to 32 and segment size up to 60000; non-trivial = archive with >= 2 samples "
                    "whose every sample was extracted by ragc and compared with the input by TLC")
    ctx.extra["create_failed"] = [dict(id=r["id"], detail=r["detail"]) for r in failed_create]
    for r in ok[:3]:
        ctx.sample({"case": r["id"], "bases": r["bases"], "contigs": r["n_contigs"], "items_checked": r["items"], "stats": r.get("stats")})
    if len(failed_create) * 2 > len(results):
        raise C.ToolError("more than half of the creates failed: %s" % failed_create[:2])
    for r in rej:
        kind = r["item"]["kind"]
        ctx.violation(r["id"], {"kind": "TRACE-ArchiveSemantics", "case": r["case"], "item": r["item"], "rules": r["rules"],
                                "files": r.get("files_dir"),
                                "sig": {"item": kind, "mode": r["case"]["mode"], "rule": (r["rules"] or ["?"])[0]}})
    ctx.assumptions += ["inputs over codes 0..15 only (IUPAC); names printable ASCII, unique per sample",
                        "ZSTD and gzip are trusted lossless boxes",
                        "a create that exits non-zero on valid input is reported in coverage.create_failed, not as a violation (the property is conditional on 'reported as written')"]
