"""./check selftest — demonstrates the binding (not part of any registered verdict).

(1) negative controls at the design level: the pre-fix rules, kept as spec parameters, must produce counterexamples;
(2) corrupting one recorded field / dropping one hook event of a real trace must make the trace spec reject it;
(3) every MC config is run with coverage and every action must have been taken."""
import copy
import json
import os
import shutil
import sys

from lib import common as C


def expect(cond, what, fails):
    print(("ok   " if cond else "FAIL ") + what, flush=True)
    if not cond:
        fails.append(what)


def run(tier, seed):
    fails = []
    work = os.path.join(C.WORK, "selftest")
    shutil.rmtree(work, ignore_errors=True)
    os.makedirs(work)
    # ---- (1) negative controls -------------------------------------------------------------
    r = C.run_tlc("MC_Pipeline", "MC_Pipeline_single_n2_pinned.cfg", workdir=work, workers=4)
    expect((not r.ok) and r.violated in ("PrefixDeterministic", "Deterministic"),
           "Pipeline.tla with the pinned token-priority rule violates determinism (%s)" % r.violated, fails)
    r = C.run_tlc("MC_Compressor", "MC_Compressor_k2_mapN.cfg", workdir=work, workers=4)
    expect((not r.ok) and r.violated == "ReassembleEqualsInput",
           "Compressor.tla with the pre-fix RC rule (IUPAC -> N) violates ReassembleEqualsInput (%s)" % r.violated, fails)
    # ---- (2) trace corruption ----------------------------------------------------------------
    C.build_harness()
    # Kmer trace: flip one logged register symbol / drop one event
    tp = os.path.join(work, "k.ndjson")
    C.rvh(["trace-kmer", "--k", "5", "--nseq", "1", "--len", "40", "--seed", str(seed), "--out", tp])
    evs = C.read_ndjson(tp)
    cfg = C.gen_cfg(os.path.join(work, "tk.cfg"), constants={"K": 5, "MaxLen": 0, "Alphabet": "{}"},
                    invariants=("Refinement", "CanonicalLaws", "RestartLaw"))
    acc, rej, _, _ = C.validate_trace("Trace_Kmer", cfg, [("good", evs)], os.path.join(work, "k0"))
    expect(acc == 1 and not rej, "Trace_Kmer accepts the recorded trace", fails)
    bad = copy.deepcopy(evs)
    i = next(j for j, e in enumerate(bad) if e.get("full"))
    bad[i]["rc"][0] = (bad[i]["rc"][0] + 1) % 4
    acc, rej, _, _ = C.validate_trace("Trace_Kmer", cfg, [("corrupt", bad)], os.path.join(work, "k1"))
    expect(acc == 0 and len(rej) == 1, "Trace_Kmer rejects a trace with one corrupted register symbol", fails)
    drop = [e for j, e in enumerate(evs) if j != 7]
    acc, rej, _, _ = C.validate_trace("Trace_Kmer", cfg, [("dropped", drop)], os.path.join(work, "k2"))
    expect(acc == 0 and len(rej) == 1, "Trace_Kmer rejects a trace with one dropped step event", fails)
    # Pipeline trace: corrupt a batch composition / drop a barrier arrival / corrupt queue accounting
    d = os.path.join(work, "p")
    _, out, _, _ = C.rvh(["gen-case", "--seed", str(seed), "--kind", "basic", "--samples", "3", "--chroms", "2", "--len", "600", "--dir", d])
    files = json.loads(out)["files"]
    tr = os.path.join(d, "t.ndjson")
    C.rvh(["drive-pipeline", "--files", ",".join(files), "--out", os.path.join(d, "a.agc"), "--k", "11", "--seg", "100", "--mm", "15",
           "--threads", "3", "--cap", "100000", "--perturb", "5", "--trace", tr])
    pevs = C.read_ndjson(tr)

    def tlc_pipe(recs, name):
        p = os.path.join(d, name + ".ndjson")
        C.write_ndjson(p, recs)
        return C.run_tlc("Trace_Pipeline", "Trace_Pipeline.cfg", workdir=d, workers=1, env={"TRACE": p}, coverage=False, deque=True)

    expect(tlc_pipe(pevs, "good").ok, "Trace_Pipeline accepts the recorded run", fails)
    b = copy.deepcopy(pevs)
    ci = next(j for j, e in enumerate(b) if e["ev"] == "Classify" and e["batch"])
    b[ci]["batch"] = b[ci]["batch"][:-1]
    expect(not tlc_pipe(b, "bad_batch").ok, "Trace_Pipeline rejects a run whose logged batch composition lost a contig", fails)
    b = [e for j, e in enumerate(pevs) if not (e["ev"] == "Arrive" and e["b"] == 2 and e["w"] == 1)]
    expect(not tlc_pipe(b, "drop_arrive").ok, "Trace_Pipeline rejects a run with a dropped barrier-arrival event", fails)
    b = copy.deepcopy(pevs)
    pi = next(j for j, e in enumerate(b) if e["ev"] == "Pull" and e["kind"] == "c")
    b[pi]["cur"] += 1
    expect(not tlc_pipe(b, "bad_cur").ok, "Trace_Pipeline rejects a run with wrong queue byte accounting", fails)
    # Archive view: corrupt one in-group id / one extracted base
    cli = C.build_cli()
    import subprocess
    agc = os.path.join(d, "c.agc")
    subprocess.run([cli, "create", "-o", agc, "-k", "11", "-s", "100", "-m", "15", "-t", "2", "-v", "0"] + files, check=True,
                   stdout=subprocess.PIPE, stderr=subprocess.PIPE)
    view = os.path.join(d, "view.ndjson")
    C.rvh(["archive-view", "--agc", agc, "--case", os.path.join(d, "case.json"), "--out", view, "--k", "11", "--seg", "100", "--mm", "15"])
    vrecs = C.read_ndjson(view)

    def tlc_arch(recs, name):
        p = os.path.join(d, name + ".ndjson")
        C.write_ndjson(p, recs)
        return C.run_tlc("ArchiveSemantics", "ArchiveSemantics.cfg", workdir=d, workers=1, env={"TRACE": p, "MODE": "all"}, coverage=False, xmx="4g")

    expect(tlc_arch(vrecs, "view_good").ok, "ArchiveSemantics accepts the lexed archive", fails)
    v = copy.deepcopy(vrecs)
    di = next(j for j, e in enumerate(v) if e["ev"] == "details_batch")
    s2 = v[di]["streams"][2]
    k = next(j for j, x in enumerate(s2) if x > 1)
    s2[k] += 1
    expect(not tlc_arch(v, "view_bad_id").ok, "ArchiveSemantics rejects a view with one corrupted coded in-group id", fails)
    v = copy.deepcopy(vrecs)
    ri = next(j for j, e in enumerate(v) if e["ev"] == "ragc_sample")
    v[ri]["contigs"][0]["seq"][3] = (v[ri]["contigs"][0]["seq"][3] + 1) % 4
    expect(not tlc_arch(v, "view_bad_base").ok, "ArchiveSemantics rejects a view with one corrupted extracted base", fails)
    v = copy.deepcopy(vrecs)
    pi = next(j for j, e in enumerate(v) if e["ev"] == "segstream" and e["nameStr"].endswith("d") and e["parts"])
    v[pi]["parts"][0]["bytes"][-1] = 254
    expect(not tlc_arch(v, "view_bad_sep").ok, "ArchiveSemantics rejects a pack whose last entry is not terminated by 0xFF", fails)
    # ---- (3) coverage of MC configs -------------------------------------------------------------
    for (mod, cfg) in [("MC_Pipeline", "MC_Pipeline_single_n2.cfg"), ("MC_Pipeline", "MC_Pipeline_multi_n3.cfg"),
                       ("PackLayout", "MC_PackLayout_raw_p2.cfg"), ("PackLayout", "MC_PackLayout_lz_p2.cfg"),
                       ("MC_Compressor", "MC_Compressor_k2.cfg"), ("MC_Kmer", "MC_Kmer_k2.cfg")]:
        r = C.run_tlc(mod, cfg, workdir=work, workers=4)
        zero = [a for a, (dd, t) in r.coverage.items() if t == 0]
        expect(r.ok and not zero, "%s %s: all actions taken (%s)" % (mod, cfg, ", ".join("%s=%d" % (a, t) for a, (dd, t) in sorted(r.coverage.items()))), fails)
    shutil.rmtree(work, ignore_errors=True)
    print("selftest: %d failure(s)" % len(fails))
    return 1 if fails else 0
