"""Shared driver for the pipeline checks C04 (determinism) and C05 (termination): MC of Pipeline.tla and
trace validation of perturbed real `create` runs against Trace_Pipeline.tla."""
import json
import os
import shutil
from concurrent.futures import ThreadPoolExecutor

from lib import common as C

MC_CONFIGS = ["single_n2", "single_n3", "single_n2_cap1", "multi_n3", "multi_n2_zero"]


def run_mc(ctx, configs):
    for c in configs:
        r = C.run_tlc("MC_Pipeline", "MC_Pipeline_%s.cfg" % c, workdir=ctx.work, workers=6, xmx="8g", timeout=1500)
        C.tlc_must_pass(r, "MC_Pipeline " + c)
        ctx.add_mc("MC_Pipeline_" + c, r)


def inputs(ctx, tier):
    """(name, gen args, create params)"""
    q = tier == "quick"
    L = [
        ("multi4", dict(kind="basic", samples=4, chroms=2, len=900, single=False), dict(k=11, seg=100, mm=15)),
        ("multi6short", dict(kind="short", samples=3, chroms=2, len=600, single=False), dict(k=11, seg=80, mm=15)),
        ("single9", dict(kind="basic", samples=3, chroms=3, len=700, single=True), dict(k=11, seg=100, mm=15, pack=4)),   # -l 4: boundaries at contigs 4 and 8
        ("single60", dict(kind="manysamples", samples=30, chroms=2, len=300, single=True), dict(k=9, seg=50, mm=15)),
        ("single120", dict(kind="manysamples", samples=40, chroms=3, len=200, single=True), dict(k=9, seg=50, mm=15)),
        ("multi_many", dict(kind="manysamples", samples=12, chroms=2, len=400, single=False), dict(k=9, seg=60, mm=15)),
        # tandem-repeat blocks next to ordinary sequence: plain-stored and tuple-packed reference segments (different ZSTD levels) are
        # compressed by the same worker threads within one round
        ("multi_tandem", dict(kind="tandem", samples=3, chroms=2, len=2400, single=False), dict(k=11, seg=100, mm=15)),
    ]
    if not q:
        L += [
            # (200 contigs in one file exceed what TLC's evaluator can recurse through when it builds the producer script: 150)
            ("single150", dict(kind="manysamples", samples=50, chroms=3, len=150, single=True), dict(k=9, seg=50, mm=15)),
            ("multi_rc", dict(kind="rc", samples=6, chroms=3, len=1200, single=False), dict(k=13, seg=150, mm=18)),
            ("single51", dict(kind="basic", samples=17, chroms=3, len=300, single=True), dict(k=9, seg=50, mm=15)),
            ("single24_l2", dict(kind="basic", samples=8, chroms=3, len=300, single=True), dict(k=9, seg=50, mm=15, pack=2)),    # a token round every 2 contigs
        ]
    return L


def configs(tier, largest):
    """(threads, capacity, perturb seed)"""
    q = tier == "quick"
    caps = [largest + 1, max(1, largest // 2), 64 * 1024, 2 << 30]
    out = []
    threads = [1, 2, 3, 4, 8, 16]
    for ti, t in enumerate(threads):
        for ci, cap in enumerate(caps):
            if q and (ti + ci) % 2 == 1:
                continue
            nper = 1 if q else 2
            for s in range(nper):
                out.append((t, cap, 0 if (s == 0 and t == 1) else 1 + s + 7 * ti + 31 * ci))
    return out


def run_traces(ctx, want_sha_equal=True):
    """Returns list of dict(id, input, config, status, detail, sha, events...)."""
    C.build_harness()
    results = []
    jobs = []
    for (name, g, p) in inputs(ctx, ctx.tier):
        d = os.path.join(ctx.work, name)
        args = ["gen-case", "--seed", str(ctx.seed * 100 + len(jobs) % 7), "--kind", g["kind"], "--samples", str(g["samples"]),
                "--chroms", str(g["chroms"]), "--len", str(g["len"]), "--dir", d]
        if g["single"]:
            args += ["--single", "--pansn"]
        _, out, _, _ = C.rvh(args)
        info = json.loads(out)
        case = json.load(open(os.path.join(d, "case.json")))
        largest = max(len(c["seq"]) for s in case["samples"] for c in s["contigs"])
        for (t, cap, pert) in configs(ctx.tier, largest):
            jobs.append((name, info["files"], p, t, cap, pert, d))

    def one(job):
        name, files, p, t, cap, pert, d = job
        rid = "%s_t%d_cap%d_p%d" % (name, t, cap, pert)
        agc = os.path.join(d, rid + ".agc")
        tr = os.path.join(d, rid + ".ndjson")
        _, out, _, _ = C.rvh(["drive-pipeline", "--files", ",".join(files), "--out", agc, "--k", str(p["k"]), "--seg", str(p["seg"]),
                              "--mm", str(p["mm"]), "--pack", str(p.get("pack", 50)), "--threads", str(t), "--cap", str(cap), "--perturb", str(pert), "--trace", tr,
                              "--id", rid, "--stall-secs", "30"], timeout=1500)
        r = json.loads(out.strip().splitlines()[-1])
        r.update(id=rid, input=name, threads=t, cap=cap, perturb=pert, trace=tr, agc=agc)
        return r

    with ThreadPoolExecutor(max_workers=8) as ex:
        runs = list(ex.map(one, jobs))
    # first run of each input defines the expected bytes
    first = {}
    for r in runs:
        if r["result"] == "ok" and r["input"] not in first:
            first[r["input"]] = r["sha256"]

    def validate(r):
        env = {"TRACE": r["trace"]}
        if want_sha_equal and r["input"] in first:
            env["EXPECT_SHA"] = first[r["input"]]
        t = C.run_tlc("Trace_Pipeline", "Trace_Pipeline.cfg", workdir=os.path.dirname(r["trace"]), workers=1, env=env, coverage=False,
                      deque=True, xmx="3g", timeout=1500)
        r["states"], r["generated"] = t.distinct, t.generated
        stuck = [p for (tag, p) in t.printed if tag == "STUCK"]
        if t.ok:
            r["status"] = "stalled_model_not_stuck" if r["stalled"] and not (stuck and stuck[-1][0]) else ("stuck" if r["stalled"] else "ok")
        else:
            um = [p for (tag, p) in t.printed if tag == "UNMATCHED"]
            res = [p for (tag, p) in t.printed if tag == "RESULT"]
            if t.violated:
                r["status"] = "invariant"
                r["detail"] = "invariant %s violated" % t.violated
                r["cex_tail"] = ["\n".join(s) for s in t.cex[-2:]]
            elif um:
                evs = C.read_ndjson(r["trace"])
                idx = um[0][0]
                r["status"] = "unmatched"
                r["detail"] = "event %d has no matching specification step" % idx
                r["event"] = evs[idx - 1] if idx - 1 < len(evs) else None
                r["context"] = evs[max(1, idx - 12):idx]
            elif res:
                r["status"] = "result"
                r["detail"] = "run result %s sha %s (expected %s)" % (res[0][0], res[0][1], env.get("EXPECT_SHA"))
            else:
                raise C.ToolError("Trace_Pipeline %s: no verdict: %s\n%s" % (r["id"], t.error, t.raw[-2500:]))
        return r

    with ThreadPoolExecutor(max_workers=8) as ex:
        results = list(ex.map(validate, runs))
    return results, first


def validate_obs(r):
    """C05 verdict on ONE recorded run by the permissive observer Trace_PipelineObs.tla: every event is applied whatever it is and only the
    clauses of C05 are evaluated (finished, every worker through every round, all exited, every contig compressed exactly once).
    Returns (ok, detail)."""
    t = C.run_tlc("Trace_PipelineObs", "Trace_PipelineObs.cfg", workdir=os.path.dirname(r["trace"]), workers=1, env={"TRACE": r["trace"]},
                  coverage=False, deque=True, xmx="3g", timeout=1500)
    if t.ok:
        return True, ""
    if t.violated:
        bad = ""
        for st in t.cex[::-1]:
            for ln in st:
                if "bad = " in ln:
                    bad = ln.split("bad = ", 1)[1].strip()
                    break
            if bad:
                break
        return False, "observer invariant %s violated: %s" % (t.violated, bad or "end state: not all workers exited / not every contig compressed / result not ok")
    um = [p for (tag, p) in t.printed if tag == "UNMATCHED"]
    if um:
        return False, "observer: record %s is not an event of the pipeline vocabulary" % um[0][0]
    raise C.ToolError("Trace_PipelineObs %s: no verdict: %s\n%s" % (r["id"], t.error, t.raw[-2000:]))


def keep_replay(ctx, r):
    dst = os.path.join(C.REPLAYS, ctx.pid, "trace_" + r["id"] + ".ndjson")
    os.makedirs(os.path.dirname(dst), exist_ok=True)
    try:
        shutil.copy(r["trace"], dst)
    except OSError:
        pass
    return dst
