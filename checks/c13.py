"""C13 — the archive container returns exactly what was stored (spec/Container.tla, spec/Varint.tla).
MC: bounded op histories of the container model (commit-order rule, layout refinement, round trip,
byte-level image readable / prefixes rejected) + varint laws; REPLAY: every complete behaviour of the
bounded model executed on the real `Archive` (writer, reopen, reads) with the projected state compared
after each call; TRACE: random long histories and the varint codec pair validated by Trace_Container."""
import json
import os
import re
from concurrent.futures import ThreadPoolExecutor

from lib import common as C

LEVEL = "model_checking"
MANIFEST = dict(
    cat="model_checking", design="5/C13",
    text="Container.tla (writer with immediate/buffered parts, flush by stream id then insertion order, idempotent registration, "
         "file body + directory, reader with the empty-part rule) is model-checked on bounded op histories: the code-shaped state "
         "refines the per-stream commit order the property prescribes, reopening reads back names/ids, part counts, order, bytes and "
         "metadata, the byte-level image parses back and no strict prefix does; Varint.tla laws on boundary values up to 2^64-1. "
         "Every complete behaviour of the bounded model (histories of <=5 (quick) / <=6 (thorough) calls; all metadata and raw-size "
         "byte-length boundaries; all read orders of <=3 get_part/get_part_by_id calls after histories of <=3/4 calls) is replayed on the real Archive with result "
         "and observable state compared after every call and a full read-back on a fresh handle; recorded random long histories "
         "(hundreds of streams, printable-ASCII names, parts 0..64 kB, u64 boundary metadata, random read orders) and the "
         "encode/decode varint pair are validated by TLC against Trace_Container.",
    note="Decides the round trip only (a format change applied consistently to writer and reader is not a C13 violation). Offsets/sizes "
         "beyond the size of real files are covered at the codec level (varint events), not by multi-GB files. Trusted: TLC, the "
         "harness projections (u64 <-> digit sequence, bytes <-> [len, 30-bit SHA-256 prefix] token).",
    technique="TLA+ spec (Container.tla, Varint.tla) + TLC exhaustive MC; TLC-generated behaviours replayed on the real code; recorded traces validated by TLC (Trace_Container.tla)")

INVS = ("NoDupNames", "Layout", "RoundTrip", "ReadsRight", "DiskIsPrefix", "Reported", "ImageReadable", "PrefixRejected", "Emit")


def container_cfg(path, profile, maxops, maxreads, limits="{1000000}", bufcap=1000000, invs=INVS):
    return C.gen_cfg(path, spec="MCSpec", post=None, invariants=invs,
                     constants={"Profile": '"%s"' % profile, "MaxOps": maxops, "MaxReads": maxreads, "Limits": limits,
                                "NoLimit": 1000000, "BufCap": bufcap})


def _interesting(b):
    """non-trivial behaviour: a non-empty part is stored (bytes and metadata are compared on read-back)"""
    return re.search(r'"len":[1-9]', b) is not None


def run(ctx):
    quick = ctx.tier == "quick"
    C.build_harness()
    ctx.trusted.append("bytes <-> [len, 30-bit SHA-256 prefix] token projection for recorded traces")
    # ---- MC: varint laws ------------------------------------------------------------------
    r = C.run_tlc("MC_Varint", "MC_Varint.cfg", workdir=ctx.work, workers=2)
    C.tlc_must_pass(r, "MC_Varint")
    ctx.add_mc("MC_Varint", r)
    # ---- MC + REPLAY ----------------------------------------------------------------------
    plan = [("order", 5 if quick else 6, 0), ("meta", 3, 0), ("reads", 3 if quick else 4, 3)]
    ctx.checker_cmds.append("tlc MC_Varint; tlc MC_Container {%s}; rvh replay-container; rvh trace-container / trace-varint; tlc Trace_Container"
                            % ", ".join("%s(ops<=%d,reads<=%d)" % p for p in plan))

    def mc(p):
        profile, maxops, maxreads = p
        cfg = container_cfg(os.path.join(ctx.work, "MC_Container_%s.cfg" % profile), profile, maxops, maxreads)
        r = C.run_tlc("MC_Container", cfg, workdir=os.path.join(ctx.work, "mc_" + profile), workers=4, xmx="8g", timeout=3000)
        return profile, r

    def rep(job):
        profile, i, path = job
        _, out, _, _ = C.rvh(["replay-container", "--in", path, "--tmp", ctx.work], timeout=3000)
        return profile, json.loads(out)

    jobs = []
    with ThreadPoolExecutor(max_workers=2) as ex:
        for profile, r in ex.map(mc, plan):
            C.tlc_must_pass(r, "MC_Container " + profile)
            req = ("OpsOk", "FlushOk", "CloseOk", "Fin3") + (("Reads",) if profile == "reads" else ())
            ctx.add_mc("MC_Container_" + profile, r, required_actions=req)
            beh = [p[0] for (t, p) in r.printed if t == "REPLAY"]
            if not beh:
                raise C.ToolError("MC_Container %s printed no behaviours" % profile)
            ctx.nontrivial += sum(1 for b in beh if _interesting(b))
            if profile == "order":
                ctx.sample({"replay_behaviour": json.loads(beh[len(beh) // 2])})
            chunk = 25000
            for i in range(0, len(beh), chunk):
                path = os.path.join(ctx.work, "replay_%s_%d.ndjson" % (profile, i // chunk))
                with open(path, "w") as fh:
                    fh.write("\n".join(beh[i:i + chunk]) + "\n")
                jobs.append((profile, i // chunk, path))
    with ThreadPoolExecutor(max_workers=4) as ex:
        for profile, res in ex.map(rep, jobs):
            ctx.traces += res["behaviours"] - len(res["fails"])
            ctx.evaluations += res["behaviours"]
            for i, f in enumerate(res["fails"][:4]):
                ctx.violation("replay_%s_%d" % (profile, i),
                              {"kind": "REPLAY", "profile": profile, "fail": f,
                               "sig": {"kind": "replay", "profile": profile, "op": f.get("op", f.get("step")),
                                       "field": f.get("field", "panic" if "panic" in f else None)}})
    ctx.exhaustive = True
    # ---- TRACE: random long histories -------------------------------------------------------
    ncases, nops, nstreams = (8, 400, 40) if quick else (24, 700, 60)
    tp = os.path.join(ctx.work, "trace_container.ndjson")
    C.rvh(["trace-container", "--seed", str(ctx.seed), "--ncases", str(ncases), "--ops", str(nops), "--streams", str(nstreams),
           "--out", tp, "--tmp", ctx.work])
    evs = C.read_ndjson(tp)
    cases, cur = [], None
    for e in evs:
        if e["ev"] == "start":
            cur = ("history%d" % e["case"], [])
            cases.append(cur)
        cur[1].append(e)
    vp = os.path.join(ctx.work, "trace_varint.ndjson")
    C.rvh(["trace-varint", "--seed", str(ctx.seed), "--n", "1500" if quick else "10000", "--out", vp])
    vevs = C.read_ndjson(vp)
    tcfg = C.gen_cfg(os.path.join(ctx.work, "Trace_Container.cfg"), constants={"BufCap": 4194304, "NoLimit": 2000000000},
                     invariants=("NoDupNames", "Layout"))
    groups = [cases[i::4] for i in range(4) if cases[i::4]] + [[("varint", vevs)]]

    def val(ix):
        return C.validate_trace("Trace_Container", tcfg, groups[ix], os.path.join(ctx.work, "tv%d" % ix), timeout=2400)

    stats = {"streams_max": 0, "parts": 0, "reads": 0, "bytes_max_part": 0}
    for cid, ce in cases:
        stats["streams_max"] = max(stats["streams_max"], max([e["res"] + 1 for e in ce if e["ev"] == "reg"] or [0]))
        stats["parts"] += sum(1 for e in ce if e["ev"] in ("add", "buf"))
        stats["reads"] += sum(1 for e in ce if e["ev"] in ("get", "getid"))
        stats["bytes_max_part"] = max([stats["bytes_max_part"]] + [e["data"]["len"] for e in ce if e["ev"] in ("add", "buf")])
    ctx.extra["trace_stats"] = stats
    with ThreadPoolExecutor(max_workers=5) as ex:
        for ix, (acc, rej, st, gen) in enumerate(ex.map(val, range(len(groups)))):
            ctx.traces += acc
            ctx.evaluations += len(groups[ix])
            ctx.states += st
            ctx.transitions += gen
            for cid, ce in groups[ix]:
                if cid not in [r["case_id"] for r in rej]:
                    if cid == "varint" or (any(e["ev"] == "buf" for e in ce) and any(e["ev"] == "add" for e in ce)):
                        ctx.nontrivial += 1
            for r in rej:
                ev = r["event"]
                ctx.violation("trace_%s" % r["case_id"],
                              {"kind": "TRACE", "rejected": r,
                               "sig": {"kind": "trace", "ev": ev.get("ev"), "case": "varint" if r["case_id"] == "varint" else "history"}})
    if cases:
        ctx.sample({"trace_events": [e for e in cases[0][1] if e["ev"] in ("buf", "getid")][:2]})
    ctx.sample({"varint_event": vevs[5]})
    ctx.rule = ("REPLAY: every complete behaviour of MC_Container (profiles %s): each call's result and the observable state "
                "(stream names, part counts, raw sizes) compared after every step, then a full read-back on a fresh handle "
                "(ids by name, sequential get_part to the end, get_part_by_id backwards); non-trivial = stores at least one "
                "non-empty part. TRACE: %d random histories of %d calls (<=%d streams; styles mixed / many streams / one stream / "
                "buffered-heavy with parts up to 64 kB) + 1 varint case (%d values); non-trivial = accepted history with both "
                "buffered and immediate parts" % (plan, ncases, nops, nstreams * 6, len(vevs) - 1))
    ctx.assumptions += [
        "domain of the property: parts are added to registered streams only; buffers are flushed before close; names are printable ASCII (0x20..0x7e)",
        "u64 values are projected to big-endian digit sequences; part bytes in recorded traces to [len, 30-bit SHA-256 prefix]",
        "offsets/sizes above the size of the generated files (<= a few MB) are exercised only at the varint codec level",
    ]
