"""C09 — LZ-diff decoding inverts encoding (spec/LzDiffOps.tla, LzDiff.tla).

MC      MC_LzDiff: all token sequences (bounded) of the LZ-diff V2 decoder state machine; laws: unique
        parsing, function-level decoder = state machine, no separator byte, truncated tokens rejected.
REPLAY  every maximal behaviour of MC_LzDiff -> Serialize(tokens) fed prefix by prefix to the REAL decoder
        (LZDiff::decode), output compared with the model's `out` after every token.
TRACE   the REAL LZDiff::new/prepare/encode/decode driven on exhaustive small pairs, mutation-derived medium
        pairs and long pairs; TLC (Trace_LzDiff) decodes the real encoder's bytes with the specification and
        demands: spec decoding = target, real decoding = target, empty only if target = reference, no 0xFF.
"""
import hashlib
import json
import os
import re
import time
from concurrent.futures import ThreadPoolExecutor

from lib import common as C

LEVEL = "model_checking"
MANIFEST = dict(
    cat="model_checking", design="5/C09",
    text="LzDiff.tla (decoder state machine over tokens: Lit, Bang, NRun, Match, MatchEnd) with the byte grammar and "
         "function-level decoder in LzDiffOps.tla is model-checked on all bounded token sequences (unique parsing, "
         "function decoder = state machine, no 0xFF, truncation rejected). Every behaviour is replayed on the real "
         "LZDiff::decode (Serialize(tokens) prefix by prefix). Executions of the real new/prepare/encode/decode on "
         "exhaustive small (reference,target) pairs over {A,C},{A,N},{A,C,N,30}, mutation-derived medium pairs and "
         "long pairs (to tens of kB, min match 5..32) are validated by TLC against Trace_LzDiff: the specification "
         "decodes the real encoder's bytes and must return the target, as must the real decoder; empty encoding only "
         "for target = reference; no separator byte.",
    note="Trusted: TLC, JSON projection bytes->ints, the harness token-boundary proposals (re-lexed by the spec). "
         "Exhaustive only within the stated small-string bounds; larger inputs are sampled (seeded). The encoder is "
         "not modelled: only its output is judged (decodability + format), never its choices.",
    technique="TLA+ spec (LzDiffOps/LzDiff) + TLC exhaustive MC of the token model; TLC-generated token sequences replayed "
              "on the real decoder; recorded encoder/decoder executions validated by TLC (Trace_LzDiff.tla)")

# (cfg, number of tokens per behaviour)
MC_QUICK = [("MC_LzDiff_a.cfg", 3), ("MC_LzDiff_b.cfg", 2), ("MC_LzDiff_c.cfg", 2)]
MC_THOROUGH = [("MC_LzDiff_a4.cfg", 4), ("MC_LzDiff_b.cfg", 2), ("MC_LzDiff_c3.cfg", 3)]

# small exhaustive spaces: (alphabet, maxlen, mms, stride quick, stride thorough)
SMALL = [
    ("0,1", 7, "5,6,7,8", 16, 1),        # {A,C}: 255 refs x 254 targets x 4
    ("0,4", 6, "5,6,7,8", 6, 1),         # {A,N}: N runs of length 1..6
    ("0,1,4,30", 4, "5,6,7,8", 40, 1),   # {A,C,N,30}
    ("0,1,4,30", 5, "5,6,7,8", 1500, 12),
    ("0,1", 9, "5,6", 300, 12),          # longer binary strings: matches + back-extension possible
]
MEDIUM = {"quick": 12000, "thorough": 120000}
LONG = {"quick": (128, 20000), "thorough": (480, 40000)}
SHARDS = 8
CHUNK = 60000      # events per TLC run


def _enc_of(line):
    m = re.search(r'"enc":\[([^\]]*)\]', line)
    return [int(x) for x in m.group(1).split(",")] if m and m.group(1) else []


def _features(enc):
    f = set()
    n = len(enc)
    i = 0
    while i < n:
        b = enc[i]
        if 65 <= b <= 95:
            if b == 95:
                f.add("lit30")
            i += 1
        elif b == 33:
            f.add("bang")
            i += 1
        elif b == 30:
            f.add("nrun")
            while i < n and enc[i] != 4:
                i += 1
            i += 1
        else:
            if b == 45:
                f.add("negdelta")
            j = i
            comma = False
            while j < n and enc[j] != 46:
                comma = comma or enc[j] == 44
                j += 1
            f.add("match" if comma else "match_to_end")
            i = j + 1
    return f


def _classify(ev):
    """signature of a REJECTED case (the verdict is TLC's; this only names it)"""
    if ev.get("panic", "").startswith("encode"):
        return "panic_encode"
    if ev.get("panic", "").startswith("decode"):
        return "panic_decode"
    if 255 in ev["enc"]:
        return "separator_byte"
    if not ev["enc"]:
        return "empty_but_different"
    if ev["dec"] != ev["tgt"]:
        return "real_decode_differs"
    return "spec_decode_differs"


def validate_lines(cases, workdir, tag, max_reject=6):
    """Like common.validate_trace but on raw ndjson lines (no re-serialisation): cases is a list of
    (case_id, [lines]).  Returns (accepted, rejected[(case_id, index_in_case, detail)], states, generated)."""
    os.makedirs(workdir, exist_ok=True)
    remaining = list(cases)
    rejected = []
    states = gen = 0
    rnd = 0
    while remaining:
        path = os.path.join(workdir, "%s_%d.ndjson" % (tag, rnd))
        rnd += 1
        bounds = []
        with open(path, "w") as fh:
            n = 0
            for cid, lines in remaining:
                bounds.append((n + 1, n + len(lines), cid))
                fh.write("\n".join(lines) + "\n")
                n += len(lines)
        r = C.run_tlc("Trace_LzDiff", "Trace_LzDiff.cfg", workdir=workdir, workers=1, env={"TRACE": path},
                      deque=True, coverage=False, timeout=3600, xmx="3g")
        os.remove(path)
        states += r.distinct
        gen += r.generated
        if r.ok:
            break
        um = [p for (t, p) in r.printed if t == "UNMATCHED"]
        if um:
            idx = um[0][0]
            detail = "no specification step matches this event"
        elif r.violated:
            idx = None
            for st in r.cex[::-1]:
                for ln in st:
                    m = re.search(r"\bl = (\d+)", ln)
                    if m:
                        idx = int(m.group(1)) - 1
                        break
                if idx is not None:
                    break
            if idx is None:
                raise C.ToolError("Trace_LzDiff: invariant %s violated, position not found\n%s" % (r.violated, r.raw[-2000:]))
            detail = "invariant %s violated" % r.violated
        else:
            raise C.ToolError("Trace_LzDiff validation failed without verdict: %s\n%s" % (r.error, r.raw[-3000:]))
        hit = [(a, b, cid) for (a, b, cid) in bounds if a <= idx <= b]
        if not hit:
            raise C.ToolError("unmatched index %s outside of all cases" % idx)
        a, b, cid = hit[0]
        rejected.append((cid, idx - a, detail))
        remaining = [(c2, ls) for (c2, ls) in remaining if c2 != cid]
        if len(rejected) >= max_reject:
            break
    unexamined = len(remaining) if len(rejected) >= max_reject else 0
    return len(cases) - len(rejected) - unexamined, rejected, states, gen, unexamined


def _group(lines):
    """ndjson lines -> cases: a pair event is a case; start..end is a case."""
    cases = []
    cur = None
    for ln in lines:
        if ln.startswith('{"ev":"pair"'):
            cases.append([ln])
        elif ln.startswith('{"ev":"start"'):
            cur = [ln]
        elif ln.startswith('{"ev":"end"'):
            cur.append(ln)
            cases.append(cur)
            cur = None
        else:
            cur.append(ln)
    return cases


def _read_lines(path):
    with open(path) as fh:
        return [ln.rstrip("\n") for ln in fh if ln.strip()]


def _mc_replay(ctx, cfgs):
    # the configs run side by side (8 TLC workers in total)
    wk = [4, 2, 2]
    with ThreadPoolExecutor(max_workers=3) as ex:
        runs = list(ex.map(lambda kc: C.run_tlc("MC_LzDiff", kc[1][0], workdir=os.path.join(ctx.work, "mc%d" % kc[0]),
                                                workers=wk[kc[0] % 3], xmx="5g", timeout=5400), enumerate(cfgs)))
    for (cfg, ntok), r in zip(cfgs, runs):
        name = cfg[:-4]
        C.tlc_must_pass(r, name)
        ctx.add_mc(name, r, required_actions=("MCNext",))
        beh = [p[0] for (t, p) in r.printed if t == "REPLAY"]
        if not beh:
            raise C.ToolError("no REPLAY behaviours from %s" % name)
        path = os.path.join(ctx.work, "replay_%s.ndjson" % name)
        with open(path, "w") as fh:
            fh.write("\n".join(beh) + "\n")
        _, out, _, _ = C.rvh(["replay-lz", "--in", path])
        res = json.loads(out)
        ctx.traces += res["behaviours"] - len(res["fails"])
        ctx.evaluations += res["behaviours"]
        ctx.extra["replay_behaviours"] = ctx.extra.get("replay_behaviours", 0) + res["behaviours"]
        ctx.extra["replay_steps"] = ctx.extra.get("replay_steps", 0) + res["steps"]
        # non-trivial: behaviours that contain a match / match-to-end / bang token
        ctx.nontrivial += sum(1 for b in beh if '"k":"match"' in b or '"k":"mend"' in b or '"k":"bang"' in b)
        if "_a" in name:
            ctx.sample({"replay_behaviour": json.loads(beh[len(beh) // 3])})
        for i, f in enumerate(res["fails"][:4]):
            kinds = sorted(set(t["k"] for t in f.get("tokens", [])))
            ctx.violation("replay_%s_%d" % (name, i), {
                "kind": "REPLAY", "cfg": cfg,
                "sig": {"kind": "replay", "what": "panic" if "panic" in f else "output_differs", "last_token": (f.get("tokens") or [{}])[-1].get("k")},
                "token_kinds": kinds, "fail": f})


def _generate(ctx, quick):
    """run the drivers (real code) and return the list of ndjson files"""
    jobs = []
    files = []
    idbase = [0]

    def job(args, name):
        p = os.path.join(ctx.work, name + ".ndjson")
        files.append(p)
        jobs.append(["trace-lz"] + args + ["--out", p, "--id0", str(idbase[0])])
        idbase[0] += 100000000

    for (alpha, maxlen, mms, sq, st) in SMALL:
        stride = sq if quick else st
        phase = (ctx.seed * 7919) % stride
        job(["--mode", "small", "--alpha", alpha, "--maxlen", str(maxlen), "--mms", mms,
             "--stride", str(stride), "--phase", str(phase)], "small_%s_%d" % (alpha.replace(",", "_"), maxlen))
    nmed = MEDIUM[ctx.tier]
    for k in range(4):
        job(["--mode", "medium", "--n", str(nmed // 4), "--seed", str(ctx.seed * 1000 + k), "--maxlen", str([24, 40, 64, 96][k])],
            "medium_%d" % k)
    nlong, maxlen = LONG[ctx.tier]
    for k in range(8):
        job(["--mode", "long", "--n", str(nlong // 8), "--seed", str(ctx.seed * 1000 + k), "--maxlen", str(maxlen if k % 2 == 0 else 3000),
             "--maxtok", "60000"], "long_%d" % k)
    with ThreadPoolExecutor(max_workers=8) as ex:
        list(ex.map(lambda a: C.rvh(a), jobs))
    return files


def _trace(ctx, quick):
    files = _generate(ctx, quick)
    cases = []
    feat = {}
    seen = set()
    nontrivial = 0
    classes = {}
    samples = {}
    for f in files:
        for cs in _group(_read_lines(f)):
            head = cs[0]
            cid = "case%s" % re.search(r'"id":(\d+)', head).group(1)
            cases.append((cid, cs))
            cl = re.search(r'"class":"([a-z0-9_]+)"', head).group(1)
            classes[cl] = classes.get(cl, 0) + 1
            ft = _features(_enc_of(head))
            key = hashlib.blake2b(head[head.index('"mm"'):head.index('"enc"')].encode(), digest_size=12).digest()
            if key not in seen:
                seen.add(key)
                if ft & {"match", "match_to_end", "bang", "nrun"}:
                    nontrivial += 1
                for x in ft:
                    feat[x] = feat.get(x, 0) + 1
                if head.startswith('{"ev":"start"'):
                    feat["token_mode_cases"] = feat.get("token_mode_cases", 0) + 1
                if '"enc":[]' in head:
                    feat["empty_encoding"] = feat.get("empty_encoding", 0) + 1
            if len(ft) >= 3 and cl not in samples and len(head) < 1500:
                samples[cl] = json.loads(head)
        os.remove(f)
    for cl, s in sorted(samples.items())[:4]:
        ctx.sample({"trace_case": s})
    # shards.  Token-mode (long) cases are heavy: they get their own, weight-balanced chunks which are
    # started first; the one-step pair cases fill chunks of <= CHUNK events.
    heavy = [c for c in cases if len(c[1]) > 1]
    light = [c for c in cases if len(c[1]) == 1]
    heavy.sort(key=lambda c: -(len(c[1]) * len(c[1][0])))
    nbins = min(len(heavy), SHARDS if quick else 2 * SHARDS)
    chunks = [heavy[i::nbins] for i in range(nbins)] if nbins else []
    per = min(CHUNK, max(1, -(-len(light) // SHARDS)))
    chunks += [light[i:i + per] for i in range(0, len(light), per)]
    bycid = dict(cases)

    def one(k):
        return validate_lines(chunks[k], os.path.join(ctx.work, "tv%d" % k), "t%d" % k)

    unexamined = 0
    with ThreadPoolExecutor(max_workers=SHARDS) as ex:
        for (acc, rej, st, gen, unex) in ex.map(one, range(len(chunks))):
            ctx.traces += acc
            ctx.states += st
            ctx.transitions += gen
            unexamined += unex
            for (cid, idx, detail) in rej:
                cs = bycid[cid]
                head = json.loads(cs[0])
                what = _classify(head)
                small_case = len(cs[0]) < 20000
                ctx.violation("trace_%s" % cid, {
                    "kind": "TRACE", "sig": {"kind": "trace", "what": what, "class": head["class"]},
                    "detail": detail, "index_in_case": idx, "mm": head["mm"], "panic": head["panic"],
                    "ref": head["ref"], "tgt": head["tgt"], "enc": head["enc"],
                    "dec": head["dec"] if small_case or head["dec"] != head["tgt"] else "(= tgt)",
                    "rejected_event": json.loads(cs[idx]) if idx < len(cs) and idx > 0 else "(case head)"})
    ctx.evaluations += len(cases)
    ctx.nontrivial += nontrivial
    ctx.extra["trace_cases_by_class"] = classes
    ctx.extra["trace_feature_counts_distinct_cases"] = feat
    ctx.extra["trace_cases_distinct"] = len(seen)
    if unexamined:
        ctx.extra["trace_cases_unexamined_after_rejections"] = unexamined
    return len(cases)


def run(ctx):
    quick = ctx.tier == "quick"
    C.build_harness()
    ctx.checker_cmds.append("tlc MC_LzDiff_{a,b,c}.cfg MC_LzDiff.tla; rvh replay-lz; rvh trace-lz --mode small|medium|long; "
                            "tlc -config Trace_LzDiff.cfg Trace_LzDiff.tla (TRACE=<ndjson shard>)")
    t0 = time.time()
    _mc_replay(ctx, MC_QUICK if quick else MC_THOROUGH)
    t1 = time.time()
    ncases = _trace(ctx, quick)
    ctx.extra["phase_wall_s"] = {"mc_and_replay": round(t1 - t0, 1), "trace": round(time.time() - t1, 1)}
    ctx.exhaustive = False
    ctx.rule = (
        "REPLAY: all token sequences of the bounded models (%s) over {Lit, Bang, NRun, Match, MatchEnd} on fixed references, each "
        "prefix decoded by the real decoder; non-trivial = contains a match, match-to-end or bang. TRACE: %d real "
        "encode/decode executions: small spaces %s (alphabet, max length, min matches, stride; |ref| from 0, |tgt| from 1; stride 1 = "
        "exhaustive), %d mutation-derived medium pairs (length 8..96, periodic references, N runs, IUPAC, code 30, min match 5..10), "
        "%d long pairs up to %d symbols (SNP/indel/N-run/IUPAC/30, block moves, reverse complements, prefixes/suffixes, "
        "unrelated; min match 5..32). Distinct = distinct (ref, tgt, min match); non-trivial = the encoder's output contains at "
        "least one match, match-to-end, '!' or N-run token (measured from the recorded bytes)." % (
            ", ".join(c for c, _ in (MC_QUICK if quick else MC_THOROUGH)), ncases,
            [(a, l, m, (sq if quick else st)) for (a, l, m, sq, st) in SMALL], MEDIUM[ctx.tier], LONG[ctx.tier][0], LONG[ctx.tier][1]))
    ctx.assumptions += [
        "domain of the property: target non-empty, symbols of reference and target in {0..15, 30}, min match 5..32",
        "an empty encoding denotes 'identical to the reference' (decompressor.rs convention); the real decoder is not called on it",
        "the encoder is not modelled: only decodability and format of its output are judged",
        "exhaustive only for the small spaces whose stride is 1; everything else is a seeded sample",
    ]


def replay(ctx, case):
    """re-run one recorded violating case"""
    C.build_harness()
    if case.get("kind") == "REPLAY":
        f = case["fail"]
        # rebuild the behaviour from the recorded text: one step carrying the whole text
        beh = {"ref": f["ref"], "mm": f["mm"], "steps": [{"bytes": f["text"], "out": f["model_out"], "tok": {"k": "text"}}]}
        p = os.path.join(ctx.work, "replay_one.ndjson")
        with open(p, "w") as fh:
            fh.write(json.dumps(beh) + "\n")
        _, out, _, _ = C.rvh(["replay-lz", "--in", p])
        res = json.loads(out)
        for i, fl in enumerate(res["fails"]):
            ctx.violation("replay_again_%d" % i, {"kind": "REPLAY", "sig": case.get("sig", {}), "fail": fl})
        return
    p = os.path.join(ctx.work, "one.ndjson")
    C.rvh(["trace-lz", "--mode", "one", "--mm", str(case["mm"]), "--ref", ",".join(map(str, case["ref"])),
           "--tgt", ",".join(map(str, case["tgt"])), "--out", p])
    cs = _group(_read_lines(p))
    acc, rej, st, gen, _ = validate_lines([("one", cs[0])], os.path.join(ctx.work, "tv"), "one")
    for (cid, idx, detail) in rej:
        head = json.loads(cs[0][0])
        ctx.violation("trace_again", {"kind": "TRACE", "sig": {"kind": "trace", "what": _classify(head), "class": case.get("sig", {}).get("class", "one")},
                                      "detail": detail, "mm": head["mm"], "ref": head["ref"], "tgt": head["tgt"],
                                      "enc": head["enc"], "dec": head["dec"], "panic": head["panic"]})
