"""Shared driver for the whole-archive checks (C01, C02): generate collections, create archives with
the real `ragc create` CLI (and the in-process CLI-equivalent driver), lex them independently, and
have TLC evaluate spec/ArchiveSemantics.tla on each (one TLC run per archive)."""
import json
import os
import shutil
import subprocess
from concurrent.futures import ThreadPoolExecutor

from lib import common as C


def case_grid(tier, seed, which):
    """Returns a list of case dicts. Sizes are chosen so that TLC can evaluate the reference
    semantics (k 9..15, segment size 50..200, contigs <= 6 kB) for mode 'all'; mode 'ragc' (C01)
    also gets big-parameter cases (k up to 32, segment size up to 60000)."""
    g = []

    def add(kind, samples, chroms, ln, k, seg, mm, t, mode="multi", fallback=0.0, via="cli", width=60, case=0, crlf=False, n=1, lpack=50, clevel=17):
        for i in range(n):
            g.append(dict(kind=kind, samples=samples, chroms=chroms, len=ln, k=k, seg=seg, mm=mm, t=t, mode=mode,
                          fallback=fallback, via=via, width=width, case=case, crlf=crlf, lpack=lpack, clevel=clevel, seed=seed * 1000 + len(g)))

    quick = tier == "quick"
    rep = 1 if quick else 4
    add("basic", 4, 2, 1500, 11, 100, 15, 3, n=rep)
    add("basic", 5, 3, 1000, 9, 50, 15, 1, n=rep)
    add("basic", 3, 2, 2500, 15, 200, 20, 8, via="lib", n=rep)
    add("rc", 4, 2, 1500, 13, 150, 18, 4, n=rep)
    add("dup", 5, 2, 1200, 11, 100, 15, 2, n=rep)
    add("iupac", 4, 3, 1500, 12, 80, 16, 3, case=2, n=rep)              # 3 contigs: symbol palettes 5..15 / <= 6 / <= 5 (packing boundaries)
    add("iupac", 4, 1, 2500, 10, 60, 15, 16, crlf=True, width=1000, n=rep)
    add("short", 3, 2, 800, 15, 200, 20, 2, n=rep)
    add("trunc", 6, 2, 1400, 11, 100, 15, 3, n=rep)
    add("trunc", 5, 2, 1600, 12, 150, 18, 2, mode="single", n=rep)
    add("reorder", 6, 3, 900, 11, 100, 15, 4, n=rep)
    add("tandem", 3, 2, 2000, 11, 100, 15, 4, n=rep)                      # low-complexity blocks: plain-stored next to tuple-packed references
    add("basic", 3, 3, 1000, 11, 100, 15, 3, mode="single", n=rep)
    add("basic", 4, 3, 800, 11, 100, 15, 4, mode="single", lpack=3, clevel=3, n=rep)   # -l 3: a synchronisation round every 3 contigs; -c 3
    add("dup", 4, 2, 1000, 10, 80, 15, 2, lpack=2, clevel=19, via="lib", n=rep)
    add("rc", 4, 2, 1200, 9, 60, 15, 2, mode="single", case=1, n=rep)
    add("basic", 4, 2, 1500, 11, 100, 15, 3, fallback=0.1, n=rep)
    add("manysamples", 100, 1, 300, 9, 50, 15, 4)                       # > 50 distinct deltas per group: two packs, duplicates in the open second pack
    add("manysamples", 30, 2, 400, 9, 50, 15, 3, mode="single")      # 60 contigs in one file: pack-boundary rounds
    add("manyorphans", 2, 1, 600, 11, 100, 15, 4)                       # 840 contigs shorter than k: every raw group fills its first pack (placeholder + 49)
    if not quick:
        add("manysamples", 120, 1, 250, 9, 50, 15, 8)
        add("basic", 8, 4, 1500, 11, 100, 15, 6, n=2)
        add("iupac", 6, 3, 2000, 14, 120, 17, 5, n=2)
    if which == "ragc":
        # parameter space beyond what TLC decodes: k up to 32, big segments (C01 only)
        add("basic", 4, 2, 6000, 21, 500, 20, 4, n=rep)
        add("rc", 3, 2, 8000, 31, 1000, 25, 3, n=rep)
        add("iupac", 3, 2, 8000, 32, 800, 32, 2, n=rep)
        add("basic", 3, 1, 20000, 25, 3000, 20, 5, n=rep)
        if not quick:
            add("basic", 3, 2, 150000, 31, 60000, 20, 4, n=2)
            add("iupac", 3, 1, 200000, 21, 20000, 24, 8, n=2)
    return g


def run_case(ctx, cs, mode, cli):
    """Returns dict(id, status, detail, stats, items). status in ok / create_failed / rejected."""
    cid = "%s_s%d_c%d_l%d_k%d_seg%d_mm%d_t%d_%s_f%s_%s_p%d_z%d_seed%d" % (
        cs["kind"], cs["samples"], cs["chroms"], cs["len"], cs["k"], cs["seg"], cs["mm"], cs["t"], cs["mode"],
        str(cs["fallback"]).replace(".", ""), cs["via"], cs["lpack"], cs["clevel"], cs["seed"])
    d = os.path.join(ctx.work, cid)
    os.makedirs(d, exist_ok=True)
    args = ["gen-case", "--seed", str(cs["seed"]), "--kind", cs["kind"], "--samples", str(cs["samples"]),
            "--chroms", str(cs["chroms"]), "--len", str(cs["len"]), "--dir", d, "--width", str(cs["width"]),
            "--case", str(cs["case"])]
    if cs["mode"] == "single":
        args += ["--single", "--pansn"]
    if cs["crlf"]:
        args += ["--crlf"]
    _, out, _, _ = C.rvh(args)
    info = json.loads(out)
    files = info["files"]
    agc = os.path.join(d, "a.agc")
    res = dict(id=cid, case=cs, bases=info["bases"], n_contigs=info["n_contigs"])
    if cs["via"] == "cli":
        cmd = [cli, "create", "-o", agc, "-k", str(cs["k"]), "-s", str(cs["seg"]), "-m", str(cs["mm"]),
               "-t", str(cs["t"]), "-v", "0", "--fallback-frac", str(cs["fallback"]), "-l", str(cs["lpack"]), "-c", str(cs["clevel"])] + files
        try:
            p = subprocess.run(cmd, stdout=subprocess.PIPE, stderr=subprocess.PIPE, timeout=1200)
        except subprocess.TimeoutExpired:
            raise C.ToolError("ragc create timed out: %s" % " ".join(cmd))
        if p.returncode != 0:
            res.update(status="create_failed", detail=p.stderr.decode(errors="replace")[-500:])
            return res
    else:
        _, out, _, _ = C.rvh(["create", "--files", ",".join(files), "--out", agc, "--k", str(cs["k"]), "--seg", str(cs["seg"]),
                              "--mm", str(cs["mm"]), "--threads", str(cs["t"]), "--fallback", str(cs["fallback"]), "--pack", str(cs["lpack"]),
                              "--level", str(cs["clevel"])])
        r = json.loads(out.strip().splitlines()[-1])
        if r["result"] != "ok":
            res.update(status="create_failed", detail=r["result"] + ": " + r["msg"][-400:])
            return res
    view = os.path.join(d, "view.ndjson")
    vargs = ["archive-view", "--agc", agc, "--case", os.path.join(d, "case.json"), "--out", view,
             "--k", str(cs["k"]), "--seg", str(cs["seg"]), "--mm", str(cs["mm"]), "--id", cid]
    if mode == "ragc":
        vargs.append("--no-lex")
    C.rvh(vargs)
    r = C.run_tlc("ArchiveSemantics", "ArchiveSemantics.cfg", workdir=d, workers=1, env={"TRACE": view, "MODE": mode},
                  coverage=False, xmx="4g", timeout=1500)
    res["states"], res["generated"] = r.distinct, r.generated
    if r.ok:
        st = [p for (t, p) in r.printed if t == "STATS"]
        res.update(status="ok", stats=json.loads(st[0][0]) if st else {},
                   items=[p for (t, p) in r.printed if t == "ITEMS"][0][0])
        shutil.rmtree(d, ignore_errors=True)
        return res
    um = [p for (t, p) in r.printed if t == "UNMATCHED"]
    failed = [p[0] for (t, p) in r.printed if t == "FAILED"]
    if not um:
        raise C.ToolError("ArchiveSemantics on %s: no verdict: %s\n%s" % (cid, r.error, r.raw[-2500:]))
    item = json.loads(um[0][1])
    res.update(status="rejected", item=item, rules=failed, detail="item %s failed rule(s) %s" % (item, failed))
    # keep the files of a rejected case for the replay
    keep = os.path.join(C.REPLAYS, ctx.pid, "files_" + cid)
    shutil.rmtree(keep, ignore_errors=True)
    os.makedirs(os.path.dirname(keep), exist_ok=True)
    shutil.copytree(d, keep)
    res["files_dir"] = keep
    shutil.rmtree(d, ignore_errors=True)
    return res


def run_archives(ctx, mode):
    C.build_harness()
    cli = C.build_cli()
    grid = case_grid(ctx.tier, ctx.seed, mode)
    ctx.checker_cmds.append("rvh gen-case; ragc create (real CLI) | rvh create; rvh archive-view (independent lexer + ragc reader); "
                            "MODE=%s tlc ArchiveSemantics.tla per archive" % mode)
    results = []
    with ThreadPoolExecutor(max_workers=8) as ex:
        for r in ex.map(lambda cs: run_case(ctx, cs, mode, cli), grid):
            results.append(r)
    return results
