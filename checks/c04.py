"""C04 — archive bytes depend only on inputs and parameters, not on threads or timing (Pipeline.tla)."""
from checks import pipe
from lib import common as C

LEVEL = "model_checking"
MANIFEST = dict(
    cat="model_checking", design="5/C04",
    text="Pipeline.tla (producer, N workers, byte-bounded priority queue, 4-phase barrier rounds, per-worker raw buffers, classification by worker 0) "
         "is model-checked exhaustively for N<=3: the sequence of batch compositions is a function of the push history alone (Deterministic, "
         "PrefixDeterministic) for every interleaving, capacity and both call sequences (single PanSN file with pack-boundary rounds, multi-file). "
         "Real create runs (threads 1..16 x 4 queue capacities x seeded schedule perturbation at the hook yield points) are recorded through the "
         "cfg(ragc_verif) hooks and each is validated by TLC as a behaviour of the specification with the same batch sequence, and its archive "
         "sha256 must equal that of the first run of the same input.",
    note="Trusted: TLC; std Mutex/Condvar/Barrier semantics as modelled; the assumption 'same batch sequence => same bytes' is itself checked on every run by the sha256 comparison. "
         "Schedules of the real code are sampled (perturbed), not enumerated.",
    technique="TLA+ spec (Pipeline.tla) + TLC exhaustive MC; recorded multi-threaded executions validated by TLC (Trace_Pipeline.tla) incl. byte-identity across runs")


def run(ctx):
    pipe.run_mc(ctx, pipe.MC_CONFIGS if ctx.tier == "thorough" else ["single_n2", "multi_n3", "single_n2_cap1"])
    ctx.checker_cmds.append("tlc MC_Pipeline_*.cfg; rvh drive-pipeline (perturbed); tlc Trace_Pipeline.tla per run with EXPECT_SHA")
    results, first = pipe.run_traces(ctx, want_sha_equal=True)
    ctx.evaluations = len(results)
    ok = [r for r in results if r["status"] == "ok"]
    ctx.traces = len(ok)
    for r in results:
        ctx.states += r.get("states", 0)
        ctx.transitions += r.get("generated", 0)
    # non-trivial: multi-threaded, perturbed run whose input has >= 1 pack-boundary or flush round
    ctx.nontrivial = len({r["id"] for r in ok if r["threads"] >= 2 and r["perturb"] != 0})
    ctx.rule = ("one case = (input, threads, queue capacity, perturbation seed); inputs: multi-file and single PanSN file below and above the pack "
                "cardinality (60/120 contigs => pack-boundary token rounds); non-trivial = accepted run with >= 2 worker threads and schedule perturbation on")
    ctx.extra["inputs"] = {k: v for k, v in first.items()}
    ctx.extra["distinct_sha_per_input"] = {i: len({r["sha256"] for r in results if r["input"] == i and r["result"] == "ok"}) for i in first}
    for r in ok[:2]:
        ctx.sample({k: r[k] for k in ("id", "threads", "cap", "perturb", "events", "sha256")})
    for r in results:
        if r["status"] in ("ok",):
            continue
        if r["status"] == "stalled_model_not_stuck":
            raise C.ToolError("run %s made no progress for the watchdog period but the model is not stuck: timeout, no verdict" % r["id"])
        path = pipe.keep_replay(ctx, r)
        ctx.violation(r["id"], {"kind": "TRACE-Pipeline", "run": {k: r.get(k) for k in ("id", "input", "threads", "cap", "perturb", "result", "msg", "sha256")},
                                "detail": r.get("detail"), "event": r.get("event"), "context": r.get("context"), "cex_tail": r.get("cex_tail"),
                                "trace": path, "sig": {"status": r["status"], "mode": "single" if r["input"].startswith("single") else "multi"}})
    ctx.assumptions += ["byte identity is compared between runs of the same input and parameters only",
                        "barrier release is modelled as atomic; unlogged choices (which waiter wakes, claim order) are left to the specification"]
