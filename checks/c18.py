"""C18 — behaviour independent of integer-overflow checking (build profile).

MC     LzEstimate.tla (index arithmetic of LZDiff::estimate / encode with machine-range invariants),
       Profiles.tla (the two integer semantics; footer / overlap / token-priority sites),
       Pipeline.tla PriorityInRange; for each site the pinned (defective) rule is run as a witness and
       must violate its range invariant.
TRACE  harness built twice (release: overflow checks off, chk: on). The same drivers and seeds run under
       both; one trace per case holds both runs and is validated by TLC against Trace_Profiles.tla
       (no ArithPanic in any thread, range invariants on the observed numbers, equal archive sha256 /
       extraction digests / open-outcome class per truncation length).  Real estimate()/encode() calls of
       the checked build on mutation-derived pairs are validated call by call against Trace_LzEstimate.tla,
       which re-runs the scan on the sequence data with the design module's register actions.
"""
import json
import os
import re
from concurrent.futures import ThreadPoolExecutor

from lib import common as C

LEVEL = "model_checking"
MANIFEST = dict(
    cat="model_checking", design="5/C18",
    text="LzEstimate.tla models the registers (i, pred_pos, no_prev_literals, est_cost) of the LZ-diff estimate/encode scans with every machine "
         "operation tagged plain or explicit-wrapping; TLC checks exhaustively (all text sizes <= 10, every oracle choice) that no plain operation "
         "leaves its type's range and that the explicit modular tail of estimate() returns the mathematical value. Profiles.tla states why a "
         "panic-free overflow-checked run fixes the optimised run (Monitor/Agreement) and the range conditions of the footer-offset, overlap and "
         "token-priority arithmetic; Pipeline.tla PriorityInRange is re-checked. The harness is built with and without overflow checks; the "
         "create / extraction / range / truncated-open drivers and the real ragc CLI run with the same seeds under both, and TLC validates each "
         "two-profile trace against Trace_Profiles.tla (no arithmetic panic in any thread, range invariants on the observed priorities and "
         "segment lengths, equal sha256 / digests / open classes). Real estimate()/encode() calls of the checked build are validated call by "
         "call against Trace_LzEstimate.tla, which predicts every returned cost and token stream from the sequence data.",
    note="Trusted: TLC; rustc's overflow-check instrumentation (measured per binary by a probe); the harness projections (panic message -> class, LZ bytes -> token fields). "
         "Inputs are sampled (seeded), not enumerated; MC is exhaustive only within the stated bounds.",
    technique="TLA+ specs (LzEstimate.tla, Profiles.tla, Pipeline.tla) + TLC exhaustive MC with defect witnesses; two-profile executions of the real code "
              "validated by TLC (Trace_Profiles.tla); real estimate/encode calls validated by TLC against a data-driven run of the design actions (Trace_LzEstimate.tla)")

LZ_CONST = {"W": 1073741824, "TextSizes": "{}", "Bounds": "{}", "RefLen": 0, "KeyLen": 1, "MinMatch": 4, "HStep": 4,
            "Variant": '"estimate"', "FinalRule": '"wrapping"'}
PROF_CONST = {"W": 8, "MaxSteps": 0, "Operands": "{0}", "FooterRule": '"checked"', "TokenRule": '"counter"'}


# ---------------------------------------------------------------------------------------------
# 1. model checking
# ---------------------------------------------------------------------------------------------
def witness(ctx, module, cfg, inv):
    """The pinned (defective) rule must leave the range: guards the invariants against vacuity."""
    r = C.run_tlc(module, cfg, workdir=ctx.work, workers=2, xmx="2g", coverage=False)
    hit = r.violated == inv or ("invariant of %s is equal to FALSE" % inv) in (r.error or "") or ("Invariant %s is violated" % inv) in r.raw
    if not hit:
        raise C.ToolError("witness run %s: expected invariant %s to be violated by the defective rule (violated=%s error=%s)"
                          % (cfg, inv, r.violated, (r.error or "")[:300]))
    def apply():
        ctx.states += r.distinct
        ctx.transitions += r.generated
        ctx.mc_runs.append({"run": cfg.replace(".cfg", "") + " (witness: %s violated as expected)" % inv, "distinct": r.distinct,
                            "generated": r.generated, "depth": r.depth, "wall_s": round(r.wall, 1)})
    return apply


def run_mc(ctx):
    jobs = [
        ("MC_LzEstimate", "MC_LzEstimate_est.cfg", ("LoopHeadP", "LiteralP", "NRun", "MatchFwdBack", "FinalP")),
        ("MC_LzEstimate", "MC_LzEstimate_enc.cfg", ("LoopHeadP", "LiteralP", "NRun", "MatchFwdBack", "FinalP")),
        ("MC_Profiles", "MC_Profiles_fixed.cfg", ("Exec",)),
        ("MC_Pipeline", "MC_Pipeline_single_n2.cfg", ()),
    ]
    if ctx.tier == "thorough":
        jobs += [("MC_LzEstimate", "MC_LzEstimate_est_big.cfg", ("NRun", "MatchFwdBack")),
                 ("MC_Pipeline", "MC_Pipeline_multi_n3.cfg", ())]
    wit = [("MC_LzEstimate", "MC_LzEstimate_est_plain.cfg", "IndexInRange"),
           ("MC_Profiles", "MC_Profiles_footer_plain.cfg", "FooterSafeInv"),
           ("MC_Profiles", "MC_Profiles_token_boost.cfg", "TokenSafeInv"),
           ("MC_Pipeline", "MC_Pipeline_c18_pinned.cfg", "PriorityInRange")]

    def one(j):
        return j, C.run_tlc(j[0], j[1], workdir=ctx.work, workers=2, xmx="3g", timeout=1500)

    with ThreadPoolExecutor(max_workers=2) as ex:
        futs = [ex.submit(one, j) for j in jobs]
        wf = [ex.submit(witness, ctx, *w) for w in wit]
        todo = []
        for f in futs:
            j, r = f.result()
            C.tlc_must_pass(r, j[1])
            todo.append(lambda j=j, r=r: ctx.add_mc(j[1].replace(".cfg", ""), r, required_actions=j[2]))
        for f in wf:
            todo.append(f.result())
    todo.append(lambda: ctx.checker_cmds.append(
        "tlc MC_LzEstimate_{est,enc}.cfg MC_Profiles_fixed.cfg MC_Pipeline_single_n2.cfg (+ 4 defect-witness configs that must fail)"))
    return todo      # applied by the main thread (Ctx is not thread-safe)


# ---------------------------------------------------------------------------------------------
# helpers
# ---------------------------------------------------------------------------------------------
def arith_of(ev):
    for p in ev.get("panics") or []:
        if p.get("arith"):
            return p
    return None


def run_rvh_json(args, profile, env=None, timeout=1500):
    """(rc, last stdout line parsed as JSON or None, stderr tail)"""
    binp = C.build_harness(profile)
    rc, out, err, _ = C.sh([binp] + args, timeout=timeout, env=env, check=False)
    js = None
    for line in reversed(out.strip().splitlines()):
        try:
            js = json.loads(line)
            break
        except ValueError:
            continue
    return rc, js, err[-1500:]


def sig_of(ev, head=None):
    """Small signature of a rejected observation (for known_findings patterns); not a verdict."""
    kind = ev.get("ev")
    p = arith_of(ev)
    env = ",".join((head or {}).get("env", []))
    if p is not None:
        return {"kind": kind, "reason": "arith", "loc": p.get("loc"), "file": (p.get("loc") or "").rsplit(":", 1)[0], "msg": p.get("msg"), "env": env}
    if kind == "opens":
        bad = [r for r in ev.get("rows", []) if r[2] == 2 or r[3] == 2]
        if bad:
            return {"kind": kind, "reason": "arith", "loc": (ev.get("panics") or [{}])[0].get("loc"), "n": bad[0][0]}
    if kind == "crash":
        return {"kind": kind, "reason": "crash"}
    if kind == "create" and not all(1000000 <= x <= 2147483647 for x in [ev.get("prio_min", 1000000), ev.get("prio_max", 1000000)] + list(ev.get("tok_prios", []))):
        return {"kind": kind, "reason": "priority_out_of_range", "mode": ev.get("mode")}
    if kind == "lengths" and any(any(x < ev.get("k", 0) for x in r[2][1:]) for r in ev.get("rows", [])):
        return {"kind": kind, "reason": "overlap_out_of_range"}
    if kind == "end":
        return {"kind": kind, "reason": "profile_not_observed"}
    return {"kind": kind, "reason": "profiles_differ" if kind != "case" else "unmatched"}


# ---------------------------------------------------------------------------------------------
# 2. LZ calls: Trace_LzEstimate
# ---------------------------------------------------------------------------------------------
def tlc_lz(ctx, path, tag):
    r = C.run_tlc("Trace_LzEstimate", "Trace_LzEstimate.cfg", workdir=os.path.join(ctx.work, "lz"), workers=1,
                  env={"TRACE": path}, coverage=False, deque=True, xmx="4g", timeout=1500)
    ctx.states += r.distinct
    ctx.transitions += r.generated
    return r


def run_lz(ctx):
    quick = ctx.tier == "quick"
    pairs, ln = (36, 110) if quick else (160, 260)
    d = os.path.join(ctx.work, "lz")
    os.makedirs(d, exist_ok=True)
    outs = {}
    for prof in ("release", "chk"):
        tp = os.path.join(d, "lz_%s.ndjson" % prof)
        rc, js, err = run_rvh_json(["trace-lzest", "--seed", str(ctx.seed), "--pairs", str(pairs), "--len", str(ln), "--out", tp], prof)
        outs[prof] = (rc, js, err, tp)
    # the checked build's calls are validated call by call
    rc, js, err, tp = outs["chk"]
    if rc != 0 or js is None:
        raise C.ToolError("trace-lzest (chk) failed rc=%s\n%s" % (rc, err))
    evs = C.read_ndjson(tp)
    cases, cur = [], None
    for e in evs:
        if e["ev"] == "pair":
            cur = ("lzpair_%d_%s" % (e["id"], e["kind"]), [])
            cases.append(cur)
        cur[1].append(e)
    remaining = list(cases)
    rejected = []
    matched, drift, overshoot = set(), set(), 0
    while remaining:
        path = os.path.join(d, "lz_val_%d.ndjson" % len(rejected))
        flat = [e for (_, es) in remaining for e in es]
        C.write_ndjson(path, flat)
        r = tlc_lz(ctx, path, "lz")
        ats = [p[0] for (t, p) in r.printed if t == "AT"]
        m = {p[0] for (t, p) in r.printed if t == "MATCH"}
        dr = {p[0] for (t, p) in r.printed if t == "DRIFT"} - m
        overshoot += len({p[0] for (t, p) in r.printed if t == "OVERSHOOT"})
        if dr:
            e = flat[min(dr) - 1]
            raise C.ToolError("Trace_LzEstimate no longer describes the code (binding lost, no verdict): event %s of pair %s: real %s"
                              % (e["ev"], e["id"], json.dumps({k: e[k] for k in e if k not in ("panics",)})[:400]))
        if r.violated:
            raise C.ToolError("Trace_LzEstimate: %s violated on a real execution although the checked build did not panic there (model drift)\n%s"
                              % (r.violated, "\n".join("\n".join(s) for s in r.cex[-1:])[:1500]))
        if any(t == "ACCEPTED" for (t, _) in r.printed) and r.ok:
            matched |= m
            break
        if not ats and not r.ok and r.error and "ACCEPTED" not in r.raw and not r.printed:
            raise C.ToolError("Trace_LzEstimate failed: %s\n%s" % (r.error, r.raw[-2000:]))
        idx = (max(ats) if ats else 0) + 1           # first event no behaviour consumes
        if idx > len(flat):
            raise C.ToolError("Trace_LzEstimate: no ACCEPTED line although every event was consumed\n%s" % r.raw[-1500:])
        ev = flat[idx - 1]
        pos = 0
        hit = None
        for (cid, es) in remaining:
            if pos < idx <= pos + len(es):
                hit = (cid, es)
            pos += len(es)
        cid, es = hit
        if not ev.get("panic"):
            raise C.ToolError("Trace_LzEstimate: event %d (%s of %s) is reached by no behaviour although the call returned: model drift\n%s"
                              % (idx, ev["ev"], cid, r.raw[-1500:]))
        rejected.append({"case_id": cid, "event": {k: ev[k] for k in ev if k != "toks"}, "pair": es[0]})
        remaining = [(c, x) for (c, x) in remaining if c != cid]
        if len(rejected) >= 3:
            break
    n_calls = sum(len(es) - 1 for (_, es) in cases)
    acc = len(cases) - len(rejected) - (len(remaining) if len(rejected) >= 3 else 0)
    ctx.traces += acc
    ctx.evaluations += len(cases)
    nontriv = sum(1 for (_, es) in cases if any(t[0] == 2 for e in es if e["ev"] == "encode" for t in e["toks"]))
    ctx.nontrivial += min(acc, nontriv)
    ctx.extra["lz"] = {"pairs": len(cases), "calls": n_calls, "pairs_with_match_tokens": nontriv,
                       "estimate_calls_ending_past_the_text (i > text_size at the final subtraction)": overshoot,
                       "kinds": sorted({es[0]["kind"] for (_, es) in cases})}
    if overshoot == 0 and not rejected:
        raise C.ToolError("vacuity guard: no estimate() call of this run reached the final subtraction with i > text_size")
    for e in cases[2][1][1:2]:
        ctx.sample({"lz_call": {k: e[k] for k in ("ev", "bound", "res") if k in e}, "pair": cases[2][0]})
    for rj in rejected:
        ev = rj["event"]
        p = arith_of(ev)
        ctx.violation("lz_%s" % rj["case_id"], {
            "kind": "TRACE-LzEstimate", "detail": "the real %s() call of the overflow-checked build panicked: %s" % (ev["ev"], ev.get("panic")),
            "rejected": rj, "sig": {"kind": "lz_" + ev["ev"], "reason": "arith" if p else "panic", "loc": (p or {}).get("loc")}})
    # cross-profile observation for Trace_Profiles
    obs = []
    for prof in ("release", "chk"):
        rc, js, err, tp = outs[prof]
        if rc != 0 or js is None:
            obs.append({"ev": "crash", "prof": prof, "rc": rc, "panics": [], "stderr": err[-400:]})
            continue
        pan = []
        for e in C.read_ndjson(tp):
            pan += [dict(p, call=e["ev"], pair=e.get("id")) for p in e.get("panics", []) if p.get("arith")]
        obs.append({"ev": "lz", "prof": prof, "ovf": js["ovf"], "digest": js["digest"], "calls": js["calls"], "panics": pan[:4]})
    return ("lzcalls", [{"ev": "case", "id": "lzcalls", "pairs": pairs, "len": ln}] + obs + [{"ev": "end"}])


# ---------------------------------------------------------------------------------------------
# 3. whole runs under both profiles
# ---------------------------------------------------------------------------------------------
def case_list(ctx):
    """(name, gen, params, threads, perturb, env, trunc)   trunc: None | max number of prefix lengths"""
    q = ctx.tier == "quick"
    L = [
        ("multi4", dict(kind="basic", samples=4, chroms=2, len=900, single=False), dict(k=11, seg=100, mm=15), 3, 0, {}, 4000),
        ("single60", dict(kind="manysamples", samples=30, chroms=2, len=300, single=True), dict(k=9, seg=50, mm=15), 4, 5, {}, None),
        ("short3", dict(kind="short", samples=3, chroms=2, len=500, single=False), dict(k=11, seg=80, mm=15), 2, 0, {}, 1500),
        ("iupac_fb", dict(kind="iupac", samples=4, chroms=2, len=1200, single=False), dict(k=11, seg=100, mm=15, fallback=0.2), 1, 0, {}, None),
        ("sync_per_sample", dict(kind="basic", samples=3, chroms=2, len=600, single=False), dict(k=11, seg=100, mm=15), 2, 0,
         {"RAGC_SYNC_PER_SAMPLE": "1"}, None),
        # ~100 kB archive with a ~230-byte directory: the truncation by one byte reads as a plausible directory length, so the
        # reader parses part bytes as a directory (a garbage varint length byte 0xFF overflowed a u8 addition in read_varint: D14)
        ("mid2", dict(kind="basic", samples=2, chroms=1, len=420000, single=False), dict(k=21, seg=1000000, mm=20), 2, 0, {}, 1500),
    ]
    if not q:
        L += [
            ("single120", dict(kind="manysamples", samples=40, chroms=3, len=200, single=True), dict(k=9, seg=50, mm=15), 8, 11, {}, None),
            ("single51_pack", dict(kind="basic", samples=17, chroms=3, len=300, single=True), dict(k=9, seg=50, mm=15, pack=10), 3, 3, {}, 1200),
            ("multi_rc", dict(kind="rc", samples=6, chroms=3, len=1500, single=False), dict(k=13, seg=150, mm=18), 4, 7, {}, 1200),
            ("dup", dict(kind="dup", samples=5, chroms=2, len=800, single=False), dict(k=11, seg=100, mm=15), 2, 0, {}, 1200),
            ("reorder", dict(kind="reorder", samples=6, chroms=3, len=700, single=False), dict(k=11, seg=90, mm=15, fallback=0.1), 3, 9, {}, None),
            ("manysamples_multi", dict(kind="manysamples", samples=60, chroms=2, len=300, single=False), dict(k=9, seg=60, mm=15), 4, 13, {}, 1200),
            ("manyorphans", dict(kind="manyorphans", samples=3, chroms=2, len=600, single=False), dict(k=11, seg=100, mm=15), 2, 0, {}, None),
            ("multi4_t1", dict(kind="basic", samples=5, chroms=3, len=2500, single=False), dict(k=15, seg=300, mm=20), 1, 0, {}, None),
            ("single9_sync", dict(kind="basic", samples=3, chroms=3, len=700, single=True), dict(k=11, seg=100, mm=15), 3, 0,
             {"RAGC_SYNC_PER_SAMPLE": "1"}, None),
        ]
    return L


def run_cases(ctx):
    C.build_harness("release")
    C.build_harness("chk")
    jobs = []
    inputs = {}
    for ci, (name, g, p, threads, perturb, env, trunc) in enumerate(case_list(ctx)):
        d = os.path.join(ctx.work, "case_" + name)
        args = ["gen-case", "--seed", str(ctx.seed * 1000 + ci), "--kind", g["kind"], "--samples", str(g["samples"]),
                "--chroms", str(g["chroms"]), "--len", str(g["len"]), "--dir", d]
        if g["single"]:
            args += ["--single", "--pansn"]
        _, out, _, _ = C.rvh(args)
        info = json.loads(out)
        inputs[name] = dict(info, dir=d, params=p, threads=threads, env=env)
        for prof in ("release", "chk"):
            jobs.append((name, prof, info["files"], p, threads, perturb, env, trunc, d))

    def drivers(name, prof):
        """The other checks' drivers, unchanged, under this profile: result classes and hashes only."""
        import hashlib
        inp = inputs[name]
        p, d = inp["params"], inp["dir"]
        common_args = ["--k", str(p["k"]), "--seg", str(p["seg"]), "--mm", str(p["mm"])]
        agc = os.path.join(d, "drv_%s.agc" % prof)
        pan = []

        def note(js):
            m = re.search(r"(attempt to [a-z ]*with overflow)(?: @ (\S+))?", (js or {}).get("msg", "") or "")
            if m:
                loc = m.group(2) or ""
                for key in ("ragc-core/", "ragc-common/"):
                    if key in loc:
                        loc = loc[loc.index(key):]
                pan.append({"msg": m.group(1), "loc": loc, "arith": True})

        rc1, j1, e1 = run_rvh_json(["create", "--files", ",".join(inp["files"]), "--out", agc, "--threads", str(inp["threads"])] + common_args, prof, env=inp["env"] or None)
        note(j1)
        rc2, j2, e2 = run_rvh_json(["drive-pipeline", "--files", ",".join(inp["files"]), "--out", agc + ".p", "--threads", str(inp["threads"]), "--cap", "65536",
                                    "--perturb", "3", "--trace", agc + ".p.ndjson", "--id", name, "--stall-secs", "90"] + common_args, prof, env=inp["env"] or None)
        note(j2)
        view = ""
        if j1 and j1.get("result") == "ok":
            vp = agc + ".view"
            rc3, _, e3 = run_rvh_json(["archive-view", "--agc", agc, "--case", os.path.join(d, "case.json"), "--out", vp, "--no-lex"] + common_args, prof)
            view = hashlib.sha256(open(vp, "rb").read()).hexdigest() if rc3 == 0 and os.path.exists(vp) else "rc%d" % rc3
        if j1 is None or j2 is None:
            return name, prof, [{"ev": "crash", "prof": prof, "rc": [rc1, rc2], "panics": [], "stderr": (e1 + e2)[-600:]}], None
        if j2.get("stalled") or j2.get("result") == "stalled":
            # no progress for the watchdog period: a timeout is never a verdict (the same input is judged through prof-run,
            # whose panic hook sees every thread); the observation is dropped for both profiles
            return name, prof, [{"ev": "drv_stalled", "prof": prof}], None
        return name, prof, [{"ev": "drv", "prof": prof, "create": [j1["result"], j1["sha256"]],
                             "pipeline": [j2["result"], j2["sha256"], j2["contigs"], j2["stalled"]], "view": view, "panics": pan}], None

    def one(job):
        if job[0] == "drv":
            return drivers(job[1], job[2])
        name, prof, files, p, threads, perturb, env, trunc, d = job
        tr = os.path.join(d, "%s.ndjson" % prof)
        args = ["prof-run", "--files", ",".join(files), "--out", os.path.join(d, "%s.agc" % prof), "--k", str(p["k"]), "--seg", str(p["seg"]),
                "--mm", str(p["mm"]), "--threads", str(threads), "--perturb", str(perturb), "--trace", tr, "--seed", str(ctx.seed),
                "--pack", str(p.get("pack", 50)), "--fallback", str(p.get("fallback", 0.0)), "--stall-secs", "240"]
        if trunc:
            args += ["--trunc", str(trunc)]
        rc, js, err = run_rvh_json(args, prof, env=env or None, timeout=1500)
        if rc != 0 or js is None or not os.path.exists(tr):
            return name, prof, [{"ev": "crash", "prof": prof, "rc": rc, "panics": [], "stderr": err[-600:]}], js
        return name, prof, C.read_ndjson(tr), js

    drv_names = ["multi4", "single60"] + ([] if ctx.tier == "quick" else ["single120", "multi_rc"])
    jobs += [("drv", n, prof) for n in drv_names for prof in ("release", "chk")]
    with ThreadPoolExecutor(max_workers=4 if ctx.tier == "quick" else 6) as ex:
        res = list(ex.map(one, jobs))
    by = {}
    for (name, prof, evs, js) in res:          # prof-run events first, then the drivers' (ex.map keeps the job order)
        by.setdefault(name, {}).setdefault(prof, ([], js))[0].extend(evs)
    cases = []
    stalled_drv = []
    for (name, g, p, threads, perturb, env, trunc) in case_list(ctx):
        r = by[name]
        if any(e["ev"] == "drv_stalled" for prof in r for e in r[prof][0]):
            stalled_drv.append(name)
            for prof in r:
                r[prof][0][:] = [e for e in r[prof][0] if e["ev"] not in ("drv", "drv_stalled")]
        for prof in r:
            for e in r[prof][0]:
                if e["ev"] == "create" and e["cls"] == "stalled":
                    raise C.ToolError("case %s (%s): create made no progress for the watchdog period and no thread panicked: timeout, no verdict" % (name, prof))
        if all(e[0]["ev"] == "crash" for (e, _) in r.values()):
            raise C.ToolError("case %s: the driver failed under both profiles: %s" % (name, r["release"][0][0].get("stderr")))
        head = {"ev": "case", "id": name, "gen": g["kind"], "threads": threads, "perturb": perturb, "env": sorted(env), "k": p["k"], "seg": p["seg"], "mm": p["mm"]}
        cases.append((name, [head] + r["release"][0] + r["chk"][0] + [{"ev": "end"}]))
    if stalled_drv:
        ctx.extra["drive_pipeline_stalled_dropped"] = stalled_drv
    return cases, inputs


# ---------------------------------------------------------------------------------------------
# 4. the real CLI under both profiles
# ---------------------------------------------------------------------------------------------
_re_panic = re.compile(r"panicked at ([^\n]*?):(\d+):\d+:\n([^\n]*)")


def cli_obs(binp, prof, name, inp, workdir, ovf):
    import hashlib
    p = inp["params"]
    agc = os.path.join(workdir, "cli_%s_%s.agc" % (name, prof))
    cmd = [binp, "create", "-o", agc, "-k", str(p["k"]), "-s", str(p["seg"]), "-m", str(p["mm"]), "-l", str(p.get("pack", 50)),
           "-t", str(inp["threads"]), "-v", "0"] + inp["files"]
    panics = []
    stderr_all = ""

    def run(c):
        nonlocal stderr_all
        try:
            rc, out, err, _ = C.sh(c, timeout=600, check=False, env=inp["env"] or None)
        except C.ToolError:
            return "timeout", ""
        stderr_all += err
        for m in _re_panic.finditer(err):
            loc = m.group(1)
            for key in ("ragc-core/", "ragc-common/", "ragc-cli/"):
                if key in loc:
                    loc = loc[loc.index(key):]
            msg = m.group(3).strip()
            panics.append({"msg": msg, "loc": "%s:%s" % (loc, m.group(2)), "arith": bool(re.match(r"attempt to .*overflow", msg))})
        return ("ok" if rc == 0 else "exit%d" % rc), out

    cls, _ = run(cmd)
    sha = hashlib.sha256(open(agc, "rb").read()).hexdigest() if cls == "ok" and os.path.exists(agc) else ""
    h = hashlib.sha256()
    trunc = []
    if cls == "ok":
        c2, out = run([binp, "listset", agc])
        h.update(("listset:%s:" % c2).encode() + out.encode())
        for s in [x for x in out.split() if x][:6]:
            c3, o3 = run([binp, "getset", agc, s])
            h.update(("getset:%s:" % c3).encode() + o3.encode())
        data = open(agc, "rb").read()
        n = len(data)
        for off in sorted({0, 5, 8, 9, n // 3, n // 2, n - 40, n - 9, n - 8, n - 7, n - 1} & set(range(n))):
            t = agc + ".t"
            open(t, "wb").write(data[:off])
            c4, _ = run([binp, "listset", t])
            trunc.append([off, c4])
    if any(x["arith"] for x in panics):
        cls = "arith"
    return {"ev": "cli", "prof": prof, "ovf": ovf, "cls": cls, "sha": sha, "digest": h.hexdigest(), "trunc": trunc, "panics": panics[:6]}


def run_cli(ctx, inputs):
    rel = C.build_cli()
    chk = C.build_cli_checked()
    names = ["multi4", "single60"] if ctx.tier == "quick" else ["multi4", "single60", "single120", "multi_rc", "short3", "sync_per_sample"]
    d = os.path.join(ctx.work, "cli")
    os.makedirs(d, exist_ok=True)
    # measured: does the binary carry rustc's overflow-check panic messages?
    ovf = {b: (b"with overflow" in open(b, "rb").read()) for b in (rel, chk)}
    jobs = [(n, prof, b) for n in names for (prof, b) in (("release", rel), ("chk", chk))]
    with ThreadPoolExecutor(max_workers=4) as ex:
        res = list(ex.map(lambda j: (j[0], cli_obs(j[2], j[1], j[0], inputs[j[0]], d, ovf[j[2]])), jobs))
    cases = []
    for n in names:
        obs = [o for (m, o) in res if m == n]
        cases.append(("cli_" + n, [{"ev": "case", "id": "cli_" + n, "cli": True}] + obs + [{"ev": "end"}]))
    return cases


# ---------------------------------------------------------------------------------------------
def run(ctx):
    # development aid only (mutation demonstrations skip the two CLI builds): C18_PARTS=mc,lz,cases,cli
    parts = set((os.environ.get("C18_PARTS") or "mc,lz,cases,cli").split(","))
    C.build_harness("release")
    C.build_harness("chk")
    # the two builds must really differ in the overflow-check instrumentation (measured)
    for prof, want in (("release", False), ("chk", True)):
        rc, js, err = run_rvh_json(["prof-probe"], prof)
        if js is None or js.get("ovf") is not want:
            raise C.ToolError("harness profile %s: overflow-check probe says %s, expected %s" % (prof, js, want))
    # model checking runs in the background while the real code is driven
    bg = ThreadPoolExecutor(max_workers=1)
    mc = bg.submit(run_mc, ctx) if "mc" in parts else None
    try:
        run_impl(ctx, parts)
    finally:
        if mc is not None:
            for f in mc.result():
                f()
        bg.shutdown()


def run_impl(ctx, parts):
    import time
    t0 = time.time()
    lz_case = run_lz(ctx) if "lz" in parts else None
    C.log("[c18] LZ calls traced and validated at %.0fs" % (time.time() - t0))
    cases, inputs = run_cases(ctx)
    C.log("[c18] two-profile cases run at %.0fs" % (time.time() - t0))
    cli_cases = run_cli(ctx, inputs) if "cli" in parts else []
    C.log("[c18] CLI cases run at %.0fs" % (time.time() - t0))
    allc = ([lz_case] if lz_case else []) + cases + cli_cases
    if parts != {"mc", "lz", "cases", "cli"}:
        ctx.assumptions.append("PARTIAL RUN: C18_PARTS=%s" % ",".join(sorted(parts)))
    cfg = C.gen_cfg(os.path.join(ctx.work, "Trace_Profiles.cfg"), constants=PROF_CONST)
    ctx.checker_cmds.append("rvh{release,chk} prof-run / trace-lzest; ragc{release,checked} create/getset/listset; tlc Trace_Profiles.tla; tlc Trace_LzEstimate.tla")
    acc, rej, st, gen, drift = validate_profiles(ctx, cfg, allc)
    ctx.states += st
    ctx.transitions += gen
    ctx.traces += acc
    ctx.evaluations += len(allc)
    rejected_ids = {r["case_id"] for r in rej}
    # non-trivial: a case whose both runs completed and whose arithmetic sites were really exercised
    nt = 0
    stats = {}
    for (cid, evs) in allc:
        cr = [e for e in evs if e["ev"] == "create"]
        op = [e for e in evs if e["ev"] == "opens"]
        le = [e for e in evs if e["ev"] == "lengths"]
        s = {"create_ok_both": len(cr) == 2 and all(e["cls"] == "ok" for e in cr),
             "pack_token_rounds": max([len([x for x in e.get("tok_prios", []) if x != 1000000]) for e in cr] or [0]),
             "truncation_lengths": max([len(e["rows"]) for e in op] or [0]),
             "contigs_with_overlap_arithmetic": max([sum(1 for r in e["rows"] if len(r[2]) > 1) for e in le] or [0])}
        stats[cid] = s
        if cid not in rejected_ids and (s["create_ok_both"] or cid.startswith("cli_") or cid == "lzcalls"):
            nt += 1
    ctx.nontrivial += nt
    ctx.extra["cases"] = stats
    ctx.rule = ("one case = one input + parameters run by the same driver under both builds (release: checks off; chk: checks on, measured by a probe) and accepted by "
                "Trace_Profiles; plus one case per (reference,target) pair whose estimate()x3 bounds and encode() calls of the checked build are predicted exactly by "
                "Trace_LzEstimate; non-trivial = both runs completed (create ok) / pair with at least one match token; inputs include a single PanSN file with >= pack-cardinality "
                "contigs (token rounds counted in extra.cases), multi-sample inputs with back-extended matches reaching the segment end (counted in extra.lz), every or sampled "
                "truncation length of the archive")
    if not any(s["pack_token_rounds"] for s in stats.values()):
        raise C.ToolError("vacuity guard: no case produced a pack-boundary token round")
    for (cid, evs) in cases[:2]:
        ctx.sample({"case": cid, "create": [{k: e.get(k) for k in ("prof", "ovf", "cls", "sha", "prio_min", "tok_prios")} for e in evs if e["ev"] == "create"]})
    ctx.assumptions += ["archive bytes are compared between the two builds for the same input, parameters and thread count only",
                        "Trace_LzEstimate assumes no hash-table entry of the LZ index is dropped (probe chains < 64: references of the generator have k-mer multiplicity <= 3)",
                        "the message classes `attempt to <op> with overflow` are rustc's texts for checked integer arithmetic",
                        "sizes are below 2^30 (TLC integers are 32 bit; the register modulus 2^32 is represented by 2^30 in trace validation, by 64 in MC)"]
    for r in rej:
        ev = r["event"]
        sig = sig_of(ev, r["events"][0])
        small = {k: (v if k != "rows" else "%d rows" % len(v)) for k, v in ev.items()}
        ctx.violation("prof_%s" % r["case_id"], {"kind": "TRACE-Profiles", "case": r["case_id"], "detail": r["detail"], "event": small,
                                                 "prev_event": {k: (v if k != "rows" else "%d rows" % len(v)) for k, v in (r.get("prev_event") or {}).items()},
                                                 "head": r["events"][0], "sig": sig})
    if drift and not rej:
        raise C.ToolError("Trace_Profiles: the site models of Profiles.tla no longer describe the code (binding lost): %s" % drift[:3])


def validate_profiles(ctx, cfg, cases, max_reject=8):
    """Like common.validate_trace (cut out a rejected case, re-validate the rest) but also returns DRIFT reports."""
    wd = os.path.join(ctx.work, "tp")
    os.makedirs(wd, exist_ok=True)
    remaining = list(cases)
    rejected, drift = [], []
    states = gen = 0
    while remaining:
        path = os.path.join(wd, "tp_%d.ndjson" % len(rejected))
        bounds, flat = [], []
        for cid, evs in remaining:
            bounds.append((len(flat) + 1, len(flat) + len(evs), cid))
            flat += evs
        C.write_ndjson(path, flat)
        r = C.run_tlc("Trace_Profiles", cfg, workdir=wd, workers=1, env={"TRACE": path}, deque=True, coverage=False, timeout=900, xmx="4g")
        states += r.distinct
        gen += r.generated
        for (t, p) in r.printed:
            if t == "DRIFT":
                e = flat[p[0] - 1]
                drift.append({"case": [c for (a, b, c) in bounds if a <= p[0] <= b], "ev": e["ev"], "prof": e.get("prof")})
        if r.ok:
            break
        um = [p for (t, p) in r.printed if t == "UNMATCHED"]
        if not um:
            raise C.ToolError("Trace_Profiles failed without verdict: %s\n%s" % (r.error, r.raw[-3000:]))
        idx = um[0][0]
        a, b, cid = [x for x in bounds if x[0] <= idx <= x[1]][0]
        evs = [ev for (c, ev) in remaining if c == cid][0]
        rejected.append({"case_id": cid, "index_in_case": idx - a, "event": evs[idx - a], "prev_event": evs[idx - a - 1] if idx - a > 0 else None,
                         "detail": "no step of Trace_Profiles matches this observation", "events": evs[:1]})
        remaining = [(c, ev) for (c, ev) in remaining if c != cid]
        if len(rejected) >= max_reject:
            break
    acc = len(cases) - len(rejected) - (len(remaining) if len(rejected) >= max_reject else 0)
    return acc, rejected, states, gen, drift
