"""C15 — write failures during create are reported, never swallowed (spec/Container.tla sink layer + FaultOutcome).
MC: the buffered writer over a file whose first failing write is at offset `limit`: close returns Ok only if
the complete image is on disk (invariant Reported), for every limit.  Fault enumeration: the real create
(library API as the CLI drives it, and the real `ragc create` binary) is run in child processes under
RLIMIT_FSIZE = f with SIGXFSZ ignored, for every / many f in 0..size; result class, exit status and the file
left behind are recorded and validated by TLC against Trace_Container (the model predicts Err for f < size)."""
import json
import os
import random
from concurrent.futures import ThreadPoolExecutor

from lib import common as C
from checks import c13, c14

LEVEL = "fault_enumeration"
MANIFEST = dict(
    cat="fault_enumeration", design="5/C15",
    text="Container.tla models the 4 MiB BufWriter over the output file with a first failing write at byte offset `limit`; TLC checks for "
         "every limit (bounded histories, tiny buffer so that errors surface in add_part, flush_buffers and close alike) that close "
         "returns Ok only with the complete image on disk and that a failed write ends in an error. The real create is then run with the "
         "first write error injected at byte offset f (child process, RLIMIT_FSIZE = f, SIGXFSZ ignored): through the library API in the "
         "CLI's call sequence (StreamingQueueCompressor push/drain/sync_and_flush/finalize) for every f in 0..size of a small archive "
         "(thorough; quick: every f inside the 8-byte length, every 5th directory byte, every part boundary, and a seeded sample), for "
         "such samples of f on three more archives and one > 4 MiB archive (thorough), and through the real `ragc create` binary for a sample "
         "of f. Each run's result class, exit status, file size and completeness (SHA-256 against the unfaulted image) is an event "
         "validated by TLC against Trace_Container: f < size must give an error / non-zero exit, f >= size success with the complete image.",
    note="RLIMIT_FSIZE is the model of ENOSPC/EFBIG (trusted). Single worker thread so that the unfaulted image is reproducible (checked "
         "by building it twice). A panic or a fatal signal counts as 'not success'.",
    technique="TLA+ spec (Container.tla) + TLC MC of the buffered-writer fault model; fault enumeration over write-error offsets on the real create, outcomes validated by TLC (Trace_Container.tla)")


def lex_offsets(path):
    """Directory start, part boundaries of an archive image - used ONLY to choose which offsets to sample."""
    b = open(path, "rb").read()
    n = len(b)
    dl = int.from_bytes(b[n - 8:], "little")
    ds = n - 8 - dl
    pos = [ds]

    def vi():
        k = b[pos[0]]
        v = int.from_bytes(b[pos[0] + 1:pos[0] + 1 + k], "big")
        pos[0] += 1 + k
        return v
    bounds = set()
    for _ in range(vi()):
        while b[pos[0]] != 0:
            pos[0] += 1
        pos[0] += 1
        np_ = vi()
        vi()
        for _ in range(np_):
            o = vi()
            s = vi()
            bounds.add(o)
            bounds.add(o + 1 + b[o] + s)
    return n, ds, sorted(bounds)


def choose_limits(path, rnd, mode):
    n, ds, bounds = lex_offsets(path)
    if mode == "all":
        return list(range(0, n + 2)) + [-1]
    s = {0, 1, 2, n - 1, n, n + 1, -1}
    if mode == "quick":
        s |= set(range(n - 10, n + 1)) | {ds - 1, ds, ds + 1} | set(range(ds, n - 8, 5))   # the 8-byte length, every 5th directory byte
        for x in bounds:
            s |= {x - 1, x}
        s |= {rnd.randrange(0, n) for _ in range(16)}
    else:                                                   # "<k>": a few
        s |= {ds - 1, ds, ds + 1, n - 9, n - 8, n - 7}
        s |= {rnd.randrange(0, n) for _ in range(int(mode))}
    return sorted(x for x in s if x >= -1)


def sweep(ctx, a, mode, limits, ragc=None, jobs=8):
    lf = os.path.join(ctx.work, "limits_%s_%s.txt" % (a["name"], mode))
    with open(lf, "w") as fh:
        fh.write(" ".join(str(x) for x in limits))
    evp = os.path.join(ctx.work, "fault_%s_%s.ndjson" % (a["name"], mode))
    ref = a["path"] if mode == "api" else a["cli_ref"]
    args = ["fault-sweep", "--mode", mode, "--dir", a["dir"], "--ref", ref, "--limits-file", lf, "--jobs", str(jobs),
            "--tmp", ctx.work, "--out", evp]
    if ragc:
        args += ["--ragc", ragc]
    if a["kind"] == "big":
        args += ["--big"]
    C.rvh(args, timeout=6000)
    return C.read_ndjson(evp)


def run(ctx):
    quick = ctx.tier == "quick"
    C.build_harness()
    rnd = random.Random(ctx.seed)
    # ---- MC -------------------------------------------------------------------------------------
    lim = "{" + ",".join(str(i) for i in range(0, 46)) + ",1000000}"
    cfg = c13.container_cfg(os.path.join(ctx.work, "MC_fault.cfg"), "fault", 4, 0, limits=lim, bufcap=4,
                            invs=("NoDupNames", "Layout", "RoundTrip", "DiskIsPrefix", "Reported"))
    cfg2 = c13.container_cfg(os.path.join(ctx.work, "MC_fault_big.cfg"), "fault", 3, 0, limits=lim, bufcap=1000000,
                             invs=("Layout", "DiskIsPrefix", "Reported"))
    plan = [("tiny", ctx.seed)] if quick else [("tiny", ctx.seed), ("multi", ctx.seed), ("raw", ctx.seed), ("batch60", ctx.seed), ("big", ctx.seed)]
    with ThreadPoolExecutor(max_workers=3) as ex:
        fa = ex.submit(c14.build_archives, ctx, plan, 3)
        fr = [ex.submit(C.run_tlc, "MC_Container", c, os.path.join(ctx.work, "mc%d" % i), 3) for i, c in enumerate((cfg, cfg2))]
        ragc = C.build_cli()
        archives = fa.result()
        r1, r2 = fr[0].result(), fr[1].result()
    C.tlc_must_pass(r1, "MC_Container fault (BufCap 4)")
    C.tlc_must_pass(r2, "MC_Container fault (unbounded buffer)")
    ctx.add_mc("MC_Container_fault_cap4", r1, required_actions=("OpsFail", "FlushFail", "CloseFail", "CloseOk"))
    ctx.add_mc("MC_Container_fault_nocap", r2, required_actions=("CloseFail", "CloseOk"))
    ctx.checker_cmds.append("tlc MC_Container (fault profile, BufCap 4 and unbounded: DiskIsPrefix, Reported); rvh fault-sweep --mode api|cli "
                            "(children under RLIMIT_FSIZE=f, SIGXFSZ ignored); tlc Trace_Container")
    # ---- reference images (unfaulted), reproducibility ----------------------------------------------
    cases = []
    nall = 0
    for a in archives:
        second = os.path.join(ctx.work, a["name"] + "_again.agc")
        if a["kind"] != "big":
            C.rvh(["container-create", "--dir", a["dir"], "--out", second], check=False, env=c14.MALLOC_ENV)
            if open(second, "rb").read() != open(a["path"], "rb").read():
                raise C.ToolError("create of %s is not reproducible with one worker thread: no fixed image to compare with" % a["name"])
        if a["kind"] == "tiny":
            mode = "quick" if quick else "all"
        elif a["kind"] == "big":
            mode = "8"
        else:
            mode = "quick"
        limits = choose_limits(a["path"], rnd, mode)
        if a["kind"] == "big":
            # each create of the > 4 MiB archive costs seconds: the BufWriter boundary, inside the body (error surfaces in
            # flush_buffers -> add_part), directory start, the 8-byte length, last byte, controls, 2 random
            n, ds, _b = lex_offsets(a["path"])
            M = 4 * 1024 * 1024
            limits = sorted(set([-1, 0, 1024 * 1024, M - 1, M, M + 1, ds, n - 8, n - 1, n] + [rnd.randrange(0, n) for _ in range(2)]))
        evs = sweep(ctx, a, "api", limits, jobs=4 if a["kind"] == "big" else 8)
        if mode == "all":
            nall += 1
        cases.append((a["name"] + "_api", [{"ev": "archive", "name": a["name"], "len": a["len"], "mode": "api"}] + evs, a, "api"))
    # the real binary: its own unfaulted image as the reference
    for a in archives[:1 if quick else 2]:
        a["cli_ref"] = os.path.join(ctx.work, a["name"] + "_cli.agc")
        files = sorted(os.path.join(a["dir"], f) for f in os.listdir(a["dir"]) if f.endswith(".fa"))
        cmd = [ragc, "create", "-o", a["cli_ref"], "-k", "11", "-s", "100", "-m", "15", "-t", "1", "-v", "0"] + files
        rc, so, se, _ = C.sh(cmd, check=False, timeout=900, env=c14.MALLOC_ENV)
        if rc != 0:
            raise C.ToolError("unfaulted `ragc create` failed: %s" % se[-400:])
        limits = choose_limits(a["cli_ref"], rnd, "16" if (quick or a is not archives[0]) else "quick")
        evs = sweep(ctx, a, "cli", limits, ragc=ragc)
        n = os.path.getsize(a["cli_ref"])
        cases.append((a["name"] + "_cli", [{"ev": "archive", "name": a["name"], "len": n, "mode": "cli"}] + evs, a, "cli"))
    # ---- sanity of the injection set-up itself (never a verdict) ---------------------------------------
    for cid, evs, a, mode in cases:
        L = evs[0]["len"]
        for e in evs[1:]:
            if e["result"] == "spawn-error":
                raise C.ToolError("could not run a faulted create: %s" % e)
            if (e["f"] < 0 or e["f"] >= L) and not (e["result"] == "ok" and e["complete"]):
                raise C.ToolError("create without an effective fault (f=%s, size %d) did not reproduce the reference image: %s" % (e["f"], L, e))
    # ---- TLC validates every recorded outcome -------------------------------------------------------------
    tcfg = C.gen_cfg(os.path.join(ctx.work, "Trace_Container.cfg"), constants={"BufCap": 4194304, "NoLimit": 2000000000})
    acc, rej, st, gen = C.validate_trace("Trace_Container", tcfg, [(c[0], c[1]) for c in cases], os.path.join(ctx.work, "tv"), max_reject=8)
    ctx.states += st
    ctx.transitions += gen
    bad = set(r["case_id"] for r in rej)
    classes = {}
    for cid, evs, a, mode in cases:
        L = evs[0]["len"]
        ctx.evaluations += len(evs) - 1
        for e in evs[1:]:
            k = "%s:%s" % (mode, e["result"])
            classes[k] = classes.get(k, 0) + 1
        if cid not in bad:
            ctx.traces += len(evs) - 1
            ctx.nontrivial += len(set(e["f"] for e in evs[1:] if 0 <= e["f"] < L))
    for r in rej:
        ev = r["event"]
        cid, evs, a, mode = [c for c in cases if c[0] == r["case_id"]][0]
        ctx.violation("%s_f%s" % (cid, ev.get("f")),
                      {"kind": "fault_enumeration", "archive": {k: a[k] for k in ("name", "kind", "seed", "len")}, "mode": mode,
                       "image_len": evs[0]["len"], "fault_offset": ev.get("f"), "event": ev, "detail": r["detail"],
                       "sig": {"mode": mode, "result": ev.get("result"), "complete": ev.get("complete")}})
    ctx.extra["result_classes"] = classes
    ctx.extra["archives"] = [{"name": c[0], "image_len": c[1][0]["len"], "offsets": len(c[1]) - 1} for c in cases]
    ctx.exhaustive = (not quick) and nall > 0
    ctx.sample({"case": cases[0][0], "events": [e for e in cases[0][1] if e["ev"] == "fault"][1:3]})
    ctx.sample({"case": cases[-1][0], "events": [e for e in cases[-1][1] if e["ev"] == "fault"][1:2]})
    ctx.rule = ("one evaluation = one real create (API driver or `ragc create`) with the first failing write at offset f; accepted = TLC "
                "matched the event with FaultOutcome(size, f); non-trivial = distinct (archive, mode, f) with 0 <= f < size (a write "
                "really fails); offsets: %s" % ("quick: the 8-byte length, every 5th directory byte, every part boundary (x-1, x), 16 random on a 1-sample archive; 16+ for the binary"
                                                if quick else "every f in 0..size+1 for the 1-sample archive; the 8-byte length, every 5th directory byte, part boundaries and 16 random for 3 more archives and for the binary (2 archives); 12 on a >4 MiB archive incl. the 4 MiB buffer boundary"))
    ctx.assumptions += [
        "RLIMIT_FSIZE with SIGXFSZ ignored models ENOSPC/EFBIG: write() is short up to the limit, then fails with EFBIG",
        "one worker thread: the unfaulted image is reproducible (verified by building it twice)",
        "a panic or fatal signal is 'not success' (the property forbids success with a truncated file)",
    ]
