"""C11 — splitter selection: deterministic, strand-symmetric, singleton-only, spaced (spec/Splitters.tla).

MC     Splitters.tla (declarative laws + the two-pass algorithm as Count/BeginScan/Scan/Pick/EndPick)
       exhaustively over all small references: every interleaving ends in a result that satisfies the laws.
REPLAY every terminal state of the bounded model is executed on the three real entry points (in-memory under
       rayon pools of 1/2/4 threads, streaming, first-sample): singleton/duplicate sets must equal the
       model's; a different splitter set / segmentation is `drift` and is decided by TLC on the laws.
TRACE  random references (N/IUPAC, repeats, duplicated contigs, contigs < k; k 3..32) through all variants,
       pool sizes, contig permutations and reverse complements; Trace_Splitters accepts an event iff the
       laws of C11 hold for it.  Large references: digests/cardinalities, same laws.
"""
import json
import os
import time
from concurrent.futures import ThreadPoolExecutor

from lib import common as C

LEVEL = "model_checking"
MANIFEST = dict(
    cat="model_checking", design="5/C11",
    text="Splitters.tla states C11's vocabulary declaratively (window multiplicities of canonical k-mers, singleton/duplicate sets, "
         "reference variants under contig permutation and reverse complement, segment lengths when a contig is split at a splitter set) "
         "and models determine_splitters as a state machine (Count per contig in any order, second pass Scan/Pick/EndPick per contig in any order). "
         "TLC proves for all references of <=2-3 contigs over {A,C,G,T,N} within the bounds (plus single contigs of 9-10 symbols over 3 letters with "
         "segment size > 2k), k in {2,3}, segment sizes k..7: the merged multiset "
         "and the result do not depend on the interleaving, splitters are singletons, singletons and duplicates are disjoint and invariant under "
         "every contig permutation x reverse-complement mask, interior segments of the reference split at its own splitters have >= segment-size bases. "
         "Every terminal state is replayed on determine_splitters (rayon pools of 1/2/4 threads), determine_splitters_streaming and "
         "determine_splitters_streaming_first_sample (temporary FASTA files) and split_at_splitters_with_size. Random references "
         "(k 3..32, N/IUPAC runs, direct and reverse-complemented repeats, duplicated contigs, contigs shorter than k) are run through all variants, "
         "pool sizes 1/2/8(/16), permutations and reverse complements; TLC (Trace_Splitters) recomputes the sets from the reference and accepts "
         "each recorded call / segmentation iff the laws hold; references up to 200 kB are checked through digests and cardinalities.",
    note="Trusted: TLC, the harness projections (u64 -> symbol sequence, sorted sets, sha256 digests and cardinalities for large references, "
         "reverse complement of the input contigs is re-derived by TLC for evaluated cases). Exhaustive only within the MC bounds; larger "
         "references by seeded sampling. The splitter selection POLICY (greedy pick, right-most end candidate) is modelled and compared, but a "
         "policy difference that keeps the laws is reported as drift, not as a violation.",
    technique="TLA+ spec (Splitters.tla) + TLC exhaustive MC; TLC-generated terminal states replayed on the real code; recorded executions "
              "validated by TLC (Trace_Splitters.tla)")

_INV = "CountDeterministic SingletonOnly Disjoint Spaced ResultDeterministic MCSymmetric ScanSane"
_ACTIONS = ("CountSome", "BeginSome", "Scan", "Pick", "EndPick")
_DRIFT = []


def _mc_cfg(path, ks, segs, alphabet, maxc, maxlen, mintotal, maxtotal, emit):
    with open(path, "w") as fh:
        fh.write("SPECIFICATION MCSpec\nCONSTANTS\n")
        fh.write("  Ks = {%s}\n  Segs = {%s}\n  Alphabet = {%s}\n" % (
            ",".join(map(str, ks)), ",".join(map(str, segs)), ",".join(map(str, alphabet))))
        fh.write("  MaxContigs = %d\n  MaxLen = %d\n  MinTotal = %d\n  MaxTotal = %d\n" % (maxc, maxlen, mintotal, maxtotal))
        fh.write("INVARIANTS %s%s\nCHECK_DEADLOCK FALSE\n" % (_INV, " Emit" if emit else ""))
    return path


def _split_cases(evs):
    cases, cur = [], None
    for e in evs:
        if e["ev"] in ("start", "bstart"):
            cur = ("case%s" % e["case"], [])
            cases.append(cur)
        cur[1].append(e)
    return cases


def _validate(ctx, name, cases, nchunks, tag):
    """Validate cases with Trace_Splitters in `nchunks` parallel TLC runs. Returns (accepted, rejected, drift)."""
    cfg = C.gen_cfg(os.path.join(ctx.work, "Trace_Splitters_%s.cfg" % tag), invariants=("TSingletonOnly", "TDisjoint"))
    # TLC resolves -config relative to spec/: use an absolute path (gen_cfg returns it)
    chunks = [cases[i::nchunks] for i in range(nchunks)]
    chunks = [c for c in chunks if c]

    def one(ic):
        i, ch = ic
        wd = os.path.join(ctx.work, "tv_%s_%d" % (tag, i))
        return C.validate_trace("Trace_Splitters", cfg, ch, wd, timeout=1500, xmx="4g")

    acc = 0
    rej = []
    # Trace_Splitters prints <<"DRIFT", index, what>> where the real splitter set / segmentation differs from the
    # algorithm layer's (informational, never a verdict): observe the TLC results validate_trace obtains
    orig = C.run_tlc

    def spy(*a, **kw):
        r = orig(*a, **kw)
        _DRIFT.extend(p for (t, p) in r.printed if t == "DRIFT")
        return r

    C.run_tlc = spy
    try:
        with ThreadPoolExecutor(max_workers=max(1, len(chunks))) as ex:
            for (a, r, st, gen) in ex.map(one, enumerate(chunks)):
                acc += a
                rej += r
                ctx.states += st
                ctx.transitions += gen
    finally:
        C.run_tlc = orig
    return acc, rej


def _drift_sample(tpath, name, i):
    """A bounded sample of the re-recorded cases of one REPLAY chunk (every chunk of every bounded model contributes):
    the cases with the most segments (where the spacing law bites) plus the first few."""
    cs = [("%s_%d_%s" % (name, i, cid), evs) for (cid, evs) in _split_cases(C.read_ndjson(tpath))]

    def nsegs(c):
        return max([len(l) for e in c[1] if e["ev"] == "segs" for l in e["lens"]] or [0])
    top = sorted(cs, key=nsegs, reverse=True)[:6]
    ids = set(c[0] for c in top)
    return top + [c for c in cs if c[0] not in ids][:4]


def _sig_of(rej):
    e = rej.get("event") or {}
    return {"kind": "trace", "ev": e.get("ev"), "variant": e.get("variant")}


def run(ctx):
    quick = ctx.tier == "quick"
    del _DRIFT[:]
    C.build_harness()
    ctx.checker_cmds.append("tlc MC_Splitters (generated cfgs); rvh replay-splitters; rvh trace-splitters [--big]; tlc Trace_Splitters")

    # ---- MC + REPLAY ---------------------------------------------------------------------
    # (name, Ks, Segs, Alphabet, MaxContigs, MaxLen, MinTotal, MaxTotal, emit REPLAY lines)
    # Segment sizes: after a pick the next full window is k bases later, so all seg <= k behave alike: Segs start at k.
    # The "long" models (seg > 2k, one contig long enough for >= 4 segments) are the ones in which the spacing
    # law is not implied by the window restart alone.
    if quick:
        mcs = [("k2_c2", [2], [2, 3], [0, 1, 2, 3, 4], 2, 4, 1, 4, True),
               ("k2_long", [2], [5], [0, 1, 2], 1, 9, 9, 9, True),
               ("k3_c1", [3], [4], [0, 1, 2, 3], 1, 6, 1, 6, True)]
    else:
        mcs = [("k2_c2", [2], [2, 3, 4], [0, 1, 2, 3, 4], 2, 5, 1, 5, True),
               ("k2_c3", [2], [2, 3], [0, 1, 2, 4], 3, 3, 1, 5, True),
               ("k2_c1", [2], [3, 5], [0, 1, 2, 3], 1, 7, 1, 7, False),
               ("k2_long", [2], [5], [0, 1, 2], 1, 10, 9, 10, True),
               ("k2_longt", [2], [6], [0, 1, 3], 1, 9, 9, 9, True),
               ("k3_c2", [3], [3, 4], [0, 1, 2, 3], 2, 5, 1, 6, True),
               ("k3_c1", [3], [4, 7], [0, 1, 2, 3], 1, 7, 1, 7, False),
               ("k3_long", [3], [7], [0, 1, 3], 1, 10, 10, 10, True)]

    def mc_one(m):
        name, ks, segs, alpha, maxc, maxlen, mintotal, maxtotal, emit = m
        cfg = _mc_cfg(os.path.join(ctx.work, "MC_Splitters_%s.cfg" % name), ks, segs, alpha, maxc, maxlen, mintotal, maxtotal, emit)
        r = C.run_tlc("MC_Splitters", cfg, workdir=os.path.join(ctx.work, "mc_" + name), workers=4, xmx="6g", timeout=2400)
        return m, r

    beh_all = []
    t0 = time.time()
    with ThreadPoolExecutor(max_workers=2) as ex:
        for (m, r) in ex.map(mc_one, mcs):
            name = m[0]
            C.tlc_must_pass(r, "MC_Splitters " + name)
            ctx.add_mc("MC_Splitters_" + name, r, required_actions=_ACTIONS)
            beh = sorted(set(p[0] for (t, p) in r.printed if t == "REPLAY"))
            if m[-1] and not beh:
                raise C.ToolError("MC_Splitters %s printed no terminal state" % name)
            if beh:
                beh_all.append((name, beh))
    ctx.exhaustive = True
    C.log("[C11] MC done in %.0fs (%d states)" % (time.time() - t0, ctx.states))
    t0 = time.time()

    drift_total = 0
    interior = 0
    NPAR = 6

    def replay_one(job):
        name, i, lines = job
        path = os.path.join(ctx.work, "replay_%s_%d.ndjson" % (name, i))
        tpath = os.path.join(ctx.work, "replay_%s_%d_trace.ndjson" % (name, i))
        with open(path, "w") as fh:
            fh.write("\n".join(lines) + "\n")
        _, out, _, _ = C.rvh(["replay-splitters", "--in", path, "--trace-out", tpath])
        return name, i, json.loads(out), tpath

    jobs = []
    for (name, beh) in beh_all:
        ctx.nontrivial += sum(1 for b in beh if '"used":[[' in b)
        if name.startswith("k2_c2"):
            ctx.sample({"replay_terminal_state": json.loads(beh[len(beh) // 2])})
        jobs += [(name, i, beh[i::NPAR]) for i in range(NPAR) if beh[i::NPAR]]
    with ThreadPoolExecutor(max_workers=NPAR) as ex:
        results = list(ex.map(replay_one, jobs))
    nviol = 0
    drift_cases = []
    for (name, i, res, tpath) in results:
        ctx.evaluations += res["behaviours"]
        ctx.traces += res["behaviours"] - len(res["fails"]) - res["drift"]
        interior += res["with_interior_segments"]
        for j, f in enumerate(res["fails"]):
            if nviol < 6:
                ctx.violation("replay_%s_%d_%d" % (name, i, j), {"kind": "REPLAY", "mc": name,
                                                               "sig": {"kind": "replay", "fields": ",".join(f["fields"])}, "fail": f})
            nviol += 1
        if res["drift"]:
            drift_total += res["drift"]
            drift_cases += _drift_sample(tpath, name, i)
            if res["drift_samples"]:
                ctx.sample({"drift_sample": res["drift_samples"][:1]})
    if drift_total:
        # the model's selection policy and the code's differ (or a failed case was re-recorded): TLC decides
        # whether the LAWS of C11 hold on the recorded real results
        acc, rej = _validate(ctx, "replay-drift", drift_cases, 4, "rd")
        ctx.traces += acc
        for r in rej[:4]:
            ctx.violation("replaydrift_%s" % r["case_id"], {"kind": "REPLAY-drift", "sig": _sig_of(r), "rejected": r})
        C.log("[C11] MODEL-DRIFT: %d terminal states where the real splitter set / segmentation differs from the model's "
              "selection policy; laws re-decided by TLC on %d of them: %d accepted, %d rejected"
              % (drift_total, len(drift_cases), acc, len(rej)))
    C.log("[C11] REPLAY done in %.0fs (%d terminal states, %d drift)" % (time.time() - t0, ctx.evaluations, drift_total))
    t0 = time.time()
    ctx.extra["replay_states_with_interior_segments"] = interior
    ctx.extra["model_drift_cases"] = drift_total

    # ---- TRACE: random references, full sets -----------------------------------------------
    if quick:
        groups = [(14, 20, 120), (10, 120, 400)]         # (cases, minlen, maxlen)
        nchunks = 6
    else:
        groups = [(60, 20, 150), (50, 150, 600), (16, 600, 1500)]
        nchunks = 8
    cases = []
    summaries = []
    base = 0
    genpar = {}
    for gi, (n, lo, hi) in enumerate(groups):
        for i in range(base, base + n):
            genpar["case%d" % i] = {"big": False, "seed": ctx.seed, "case": i, "minlen": lo, "maxlen": hi}
        tp = os.path.join(ctx.work, "trace_g%d.ndjson" % gi)
        _, out, _, _ = C.rvh(["trace-splitters", "--seed", str(ctx.seed), "--ncases", str(n), "--from-case", str(base),
                              "--minlen", str(lo), "--maxlen", str(hi), "--out", tp])
        summaries += json.loads(out)["cases"]
        cases += _split_cases(C.read_ndjson(tp))
        base += n
    # balance the chunks: longest cases first, round robin
    cases.sort(key=lambda c: -sum(len(json.dumps(e)) for e in c[1]))
    acc, rej = _validate(ctx, "trace", cases, nchunks, "tr")
    ctx.traces += acc
    ctx.evaluations += sum(s["calls"] for s in summaries)
    rejected_ids = set(r["case_id"] for r in rej)
    nt = [s for s in summaries if s["n_spl"] > 0 and s["n_dup"] > 0 and ("case%s" % s["case"]) not in rejected_ids]
    ctx.nontrivial += len(nt)
    ctx.extra["trace_cases"] = len(cases)
    ctx.extra["trace_drift_events"] = len(_DRIFT)
    if _DRIFT:
        C.log("[C11] MODEL-DRIFT: %d recorded call/segs events differ from the algorithm layer's selection policy "
              "(not a verdict: the laws decide)" % len(_DRIFT))
    ctx.extra["trace_cases_with_interior_segments"] = sum(1 for s in summaries if s["max_segments"] >= 4)
    ctx.extra["trace_features"] = {f: sum(1 for s in summaries if f in s["feat"]) for f in
                                   ("nonACGT", "repeat", "rc-repeat", "dup-contig", "short-contig")}
    for s in summaries[:2]:
        ctx.sample({"trace_case": s})
    for r in rej:
        ctx.violation("trace_%s" % r["case_id"], {"kind": "TRACE", "sig": _sig_of(r), "rejected": r, "gen": genpar[r["case_id"]]})

    C.log("[C11] TRACE done in %.0fs (%d cases, %d rejected)" % (time.time() - t0, len(cases), len(rej)))
    t0 = time.time()
    # ---- TRACE: large references, digests ----------------------------------------------------
    nbig, blo, bhi = (3, 5000, 60000) if quick else (10, 5000, 200000)
    tp = os.path.join(ctx.work, "trace_big.ndjson")
    _, out, _, _ = C.rvh(["trace-splitters", "--big", "--seed", str(ctx.seed), "--ncases", str(nbig),
                          "--minlen", str(blo), "--maxlen", str(bhi), "--out", tp], timeout=1500)
    bsum = json.loads(out)["cases"]
    bcases = [("big_" + cid, evs) for (cid, evs) in _split_cases(C.read_ndjson(tp))]
    # references with far more than 65536 k-mers per rayon thread-chunk boundary (chunked parallel passes over the sorted
    # k-mer vector only differ from the sequential pass on such inputs): every tier gets at least two of them
    nhuge = 2 if quick else 6
    tp2 = os.path.join(ctx.work, "trace_huge.ndjson")
    _, out2, _, _ = C.rvh(["trace-splitters", "--big", "--seed", str(ctx.seed), "--ncases", str(nhuge), "--from-case", "1000",
                           "--minlen", "150000", "--maxlen", "240000", "--out", tp2], timeout=1500)
    bsum += json.loads(out2)["cases"]
    bcases += [("big_" + cid, evs) for (cid, evs) in _split_cases(C.read_ndjson(tp2))]
    acc, rej = _validate(ctx, "big", bcases, 1, "big")
    ctx.traces += acc
    ctx.evaluations += sum(s["calls"] for s in bsum)
    ctx.nontrivial += sum(1 for s in bsum if s["n_spl"] > 0 and s["max_segments"] >= 4)
    ctx.extra["big_cases"] = bsum
    for r in rej:
        ctx.violation("trace_%s" % r["case_id"], {"kind": "TRACE-big", "sig": _sig_of(r), "rejected": r,
                                                  "gen": {"big": True, "seed": ctx.seed, "case": int(r["case_id"][8:]),
                                                          "minlen": 150000 if int(r["case_id"][8:]) >= 1000 else blo,
                                                          "maxlen": 240000 if int(r["case_id"][8:]) >= 1000 else bhi}})

    C.log("[C11] TRACE-big done in %.0fs (%d cases, %d rejected)" % (time.time() - t0, len(bcases), len(rej)))
    ctx.rule = ("REPLAY: every terminal state of the bounded models (all references within the bounds x k x segment size) run through "
                "determine_splitters (1/2/4 threads), _streaming, _streaming_first_sample and split_at_splitters_with_size; counted non-trivial "
                "when the model's splitter set is non-empty. TRACE: distinct random references; counted non-trivial when the real result has "
                ">=1 splitter and >=1 duplicate k-mer (large references: >=1 splitter and a contig with >=4 segments); each case = 19 calls "
                "(3 variants x pool sizes x 4 input variants: original, permuted, reverse-complemented, both).")
    ctx.assumptions += [
        "references have 1..n non-empty contigs (a FASTA record without sequence is not a contig for the streaming variants)",
        "segment size >= 1, 1 <= k <= 32",
        "for the first-sample variant the reference is the first sample of the file (records of one sample are contiguous)",
        "symbol 4 of the bounded model stands for every non-ACGT code (the code tests `base > 3` only); traces use codes 4..15 and 30",
        "large references (> 1.5 kB) are decided on sha256 digests of the sorted result sets and on cardinalities of sets and unions",
    ]


def replay(ctx, case):
    """./check C11 --replay replays/C11/<case>.json: re-executes only that case on the current tree; the verdict is
    again TLC's (Trace_Splitters) on the freshly recorded events."""
    C.build_harness()
    del _DRIFT[:]
    kind = case.get("kind", "")
    tp = os.path.join(ctx.work, "replay_case.ndjson")
    if kind.startswith("TRACE"):
        g = case["gen"]
        C.rvh(["trace-splitters", "--seed", str(g["seed"]), "--from-case", str(g["case"]), "--ncases", "1",
               "--minlen", str(g["minlen"]), "--maxlen", str(g["maxlen"]), "--out", tp] + (["--big"] if g["big"] else []))
    else:
        # REPLAY / REPLAY-drift: the reference of the bounded model; the model columns are not needed because the
        # harness writes the events of every case that does not match them and TLC decides
        if "fail" in case:
            b = case["fail"]["behaviour"]
        else:
            st = case["rejected"]["events"][0]
            b = {"k": st["k"], "seg": st["seg"], "ref": st["ref"]}
        b = {"k": b["k"], "seg": b["seg"], "ref": b["ref"], "sing": [[9]], "dup": [], "used": [], "lens": []}
        bp = os.path.join(ctx.work, "replay_case_in.ndjson")
        with open(bp, "w") as fh:
            fh.write(json.dumps(b) + "\n")
        C.rvh(["replay-splitters", "--in", bp, "--trace-out", tp])
    cases = _split_cases(C.read_ndjson(tp))
    acc, rej = _validate(ctx, "replay", cases, 1, "rp")
    for r in rej:
        ctx.violation("again_%s" % r["case_id"], {"kind": kind, "sig": _sig_of(r), "rejected": r, "gen": case.get("gen")})
    C.log("[C11] replayed %d case(s): %d accepted, %d rejected" % (len(cases), acc, len(rej)))
