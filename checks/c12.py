"""C12 — segment and pack compression is lossless for every byte string (spec/TuplePack.tla).
MC: exhaustive bounded model (every string over six alphabets up to a length bound, every Store/Load);
REPLAY: every string of the model through the real tuple packing / reference / delta compression;
TRACE: random strings up to 100 kB on several threads validated by TLC against Trace_TuplePack."""
import json
import os
from concurrent.futures import ThreadPoolExecutor

from lib import common as C

LEVEL = "model_checking"
MANIFEST = dict(
    cat="model_checking", design="5/C12",
    text="TuplePack.tla (tuple packing by symbol range with trailing tuple and marker byte, reference compression with "
         "either marker, delta compression at any level, ZSTD as an abstract lossless box) is model-checked exhaustively over "
         "all strings on {0..3},{0..5},{0..15},{0,255},{0,16,255} and the boundary maxima {0,3,4,5,6,15,16,255} up to a length "
         "bound: Unpack(Pack(b))=b, marker/length/byte-range laws, Pack injective, decompress(stored blob)=input. Every string of "
         "the model is replayed on the real bytes_to_tuples/tuples_to_bytes/compress_reference_segment/compress_segment_configured/"
         "decompress_segment_with_marker with the packed bytes, marker, un-ZSTD payload and output compared step by step, and "
         "recorded executions on random strings up to 100 kB (repetitiveness on both sides of 1/2, levels 1..22, several threads "
         "with fresh and long-lived ZSTD contexts) are validated by TLC against Trace_TuplePack.",
    note="ZSTD itself is the trusted abstract box Z (zstd crate): the harness un-ZSTDs every payload independently of ragc. "
         "Exhaustive only within the stated bounds; longer strings by sampled traces. The marker CHOICE (repetitiveness rule) is "
         "reported but is not a verdict: either marker keeps the property.",
    technique="TLA+ spec (TuplePack.tla) + TLC exhaustive MC; TLC-generated cases replayed on the real code; recorded traces "
              "validated by TLC (Trace_TuplePack.tla)")

A16 = "{0,1,2,3,4,5,6,7,8,9,10,11,12,13,14,15}"
#            name  alphabet                     quick(MaxLen, InjLen)  thorough(MaxLen, InjLen)
MODELS = [("A4", "{0,1,2,3}", (6, 5), (8, 6)),
          ("A6", "{0,1,2,3,4,5}", (4, 4), (6, 5)),
          ("A16", A16, (3, 2), (4, 3)),
          ("B", "{0,3,4,5,6,15,16,255}", (4, 3), (5, 4)),      # boundary maxima 3/4, 5/6, 15/16
          ("R", "{0,16,255}", (5, 5), (6, 6)),
          ("X", "{0,255}", (8, 8), (10, 10))]


def _nstrings(alpha, n):
    k = alpha.count(",") + 1
    return sum(k ** i for i in range(n + 1))


def _width(b):
    if not b:
        return 1
    m = max(b)
    return 4 if m < 4 else 3 if m < 6 else 2 if m < 16 else 1


def run(ctx):
    quick = ctx.tier == "quick"
    C.build_harness()
    ctx.checker_cmds.append("tlc MC_TuplePack (6 alphabets); rvh replay-tuplepack; rvh trace-tuplepack; tlc Trace_TuplePack")
    # ---- MC + REPLAY -----------------------------------------------------------------------
    levels = "17,19" if quick else "17,1,13,19,22"

    def mc(model):
        name, alpha, q, t = model
        maxlen, injlen = q if quick else t
        cfg = os.path.join(ctx.work, "MC_TuplePack_%s.cfg" % name)
        C.gen_cfg(cfg, spec="Spec", post=None,
                  constants={"Alphabet": alpha, "MaxLen": maxlen, "InjLen": injlen, "Levels": "{17}"},
                  invariants=("Lossless", "BlobLaw", "PackLaws", "ChooseLaw", "Emit"))
        r = C.run_tlc("MC_TuplePack", cfg, workdir=ctx.work, workers=2 if quick else 4, xmx="4g")
        C.tlc_must_pass(r, "MC_TuplePack %s" % name)
        beh = [p[0] for (tg, p) in r.printed if tg == "REPLAY"]
        want = _nstrings(alpha, maxlen)
        if len(beh) != want:
            raise C.ToolError("expected %d strings from MC_TuplePack %s, got %d" % (want, name, len(beh)))
        path = os.path.join(ctx.work, "replay_%s.ndjson" % name)
        with open(path, "w") as fh:
            fh.write("\n".join(beh) + "\n")
        _, out, _, _ = C.rvh(["replay-tuplepack", "--in", path, "--levels", levels])
        return name, maxlen, r, beh, json.loads(out)

    wr = {}          # (width, len mod width) -> strings replayed
    rep_stats = {"marker0": 0, "marker1": 0, "choice_agree": 0, "choice_differ": 0}
    with ThreadPoolExecutor(max_workers=4 if quick else 2) as ex:
        for (name, maxlen, r, beh, res) in ex.map(mc, MODELS):
            ctx.add_mc("MC_TuplePack_%s_len%d" % (name, maxlen), r,
                       required_actions=("Extend", "AnyStoreRef", "AnyStoreDelta", "DoLoad"))
            bad = {json.dumps(f.get("behaviour", {}).get("b")) for f in res["fails"]}
            ctx.traces += res["behaviours"] - len(res["fails"])
            ctx.evaluations += res["behaviours"]
            for k in rep_stats:
                rep_stats[k] += res.get(k, 0)
            for line in beh:
                b = json.loads(line)["b"]
                if b:
                    ctx.nontrivial += 1
                w = _width(b)
                key = "w%d_r%d" % (w, len(b) % w)
                wr[key] = wr.get(key, 0) + 1
            if name == "B":
                ctx.sample({"replay_case": json.loads(beh[len(beh) // 2])})
            for i, f in enumerate(res["fails"][:5]):
                step = str(f.get("step", "?")).split("(")[0]
                ctx.violation("replay_%s_%d" % (name, i),
                              {"kind": "REPLAY", "model": name, "sig": {"kind": "replay", "step": step}, "fail": f})
    ctx.exhaustive = True
    ctx.extra["replay_width_remainder_classes"] = wr
    ctx.extra["replay_markers"] = rep_stats
    # ---- TRACE -----------------------------------------------------------------------------
    shards = 4 if quick else 8
    cases_per, nbig, maxlen = (8, 1, 1200) if quick else (40, 5, 4096)

    def one(sh):
        tp = os.path.join(ctx.work, "trace_%d.ndjson" % sh)
        C.rvh(["trace-tuplepack", "--seed", str(ctx.seed), "--first", str(sh * cases_per), "--cases", str(cases_per),
               "--big", str(nbig), "--maxlen", str(maxlen), "--out", tp])
        evs = C.read_ndjson(tp)
        cases, cur = [], None
        for e in evs:
            if e["ev"] == "start":
                cur = ("case%d" % e["case"], [])
                cases.append(cur)
            cur[1].append(e)
        cfg = C.gen_cfg(os.path.join(ctx.work, "Trace_TuplePack_%d.cfg" % sh),
                        constants={"Alphabet": "{}", "MaxLen": 0, "Levels": "{}"},
                        invariants=("Lossless",))
        acc, rej, st, gen = C.validate_trace("Trace_TuplePack", cfg, cases, os.path.join(ctx.work, "tt%d" % sh),
                                             timeout=1500, xmx="4g")
        return sh, acc, rej, st, gen, cases

    tstat = {"cases": 0, "inputs": 0, "inputs_ge_32": 0, "inputs_ge_50k": 0, "max_len": 0, "ref_marker0": 0, "ref_marker1": 0,
             "delta_levels": {}, "compressions": 0, "keys_seen_in_2plus_contexts": 0, "keys_seen_on_aged_and_fresh_context": 0,
             "pack_calls": 0}
    with ThreadPoolExecutor(max_workers=shards) as ex:
        for (sh, acc, rej, st, gen, cases) in ex.map(one, range(shards)):
            ctx.traces += acc
            ctx.evaluations += len(cases)
            ctx.states += st
            ctx.transitions += gen
            rejected = {r["case_id"] for r in rej}
            for cid, evs in cases:
                lens = evs[0].get("lens", [])
                tstat["cases"] += 1
                tstat["inputs"] += len(lens)
                tstat["inputs_ge_32"] += sum(1 for x in lens if x >= 32)
                tstat["inputs_ge_50k"] += sum(1 for x in lens if x >= 50000)
                tstat["max_len"] = max([tstat["max_len"]] + lens)
                did, last, seen = None, None, {}
                for e in evs:
                    if e["ev"] == "select":
                        did = e["did"]
                    elif e["ev"] == "ref":
                        tstat["ref_marker%d" % (1 if e["marker"] else 0)] += 1
                        last = ("ref", e["marker"], did)
                    elif e["ev"] == "delta":
                        tstat["delta_levels"][str(e["level"])] = tstat["delta_levels"].get(str(e["level"]), 0) + 1
                        last = ("delta", e["level"], did)
                    elif e["ev"] == "ctx":
                        tstat["compressions"] += 1
                        seen.setdefault(last, set()).add((e["t"], e["n"]))
                    elif e["ev"] == "pack":
                        tstat["pack_calls"] += 1
                tstat["keys_seen_in_2plus_contexts"] += sum(1 for v in seen.values() if len(v) >= 2)
                tstat["keys_seen_on_aged_and_fresh_context"] += sum(
                    1 for v in seen.values() if any(n == 0 for (_, n) in v) and any(n > 0 for (_, n) in v))
                if cid not in rejected and any(x >= 32 for x in lens):
                    ctx.nontrivial += 1
            if sh == 0 and cases:
                e0 = cases[0][1]
                ctx.sample({"trace_case_header": e0[0],
                            "trace_first_ref_event": [dict(e, unz="(%d bytes)" % len(e["unz"])) for e in e0 if e["ev"] == "ref"][:1],
                            "trace_first_ctx_event": [e for e in e0 if e["ev"] == "ctx"][:1]})
            for r in rej:
                ev = r["event"].get("ev", "?") if "invariant" not in r["detail"] else "invariant"
                slim = dict(r)
                slim["events"] = [e if len(json.dumps(e)) < 4000 else {k: (v if not isinstance(v, list) or len(v) < 200 else
                                                                            {"len": len(v), "head": v[:64]}) for k, v in e.items()}
                                  for e in r["events"]][:400]
                for k in ("event", "prev_event"):
                    if slim.get(k) and len(json.dumps(slim[k])) > 200000:
                        slim[k] = {kk: (vv if not isinstance(vv, list) else {"len": len(vv), "head": vv[:64]}) for kk, vv in slim[k].items()}
                ctx.violation("trace_%s" % r["case_id"],
                              {"kind": "TRACE", "sig": {"kind": "trace", "ev": ev}, "shard": sh, "rejected": slim,
                               "regenerate": "rvh trace-tuplepack --seed %d --first %s --cases 1 --maxlen %d --out f.ndjson"
                                             % (ctx.seed, r["case_id"][4:], maxlen)})
    ctx.extra["trace_stats"] = tstat
    ctx.rule = ("REPLAY: every string of the bounded model (alphabets %s; quick/thorough length bounds in checks/c12.py) taken through "
                "Pack, Unpack, StoreRef (code's marker), Load, Load of both model blobs (marker 0 and 1), StoreDelta/Load at levels %s; "
                "non-trivial = non-empty string. TRACE: %d cases (2-5 inputs each, lengths 0..%d plus %d inputs of 33-100 kB; shapes uniform / "
                "periodic with noise around the 1/2 threshold / half-matching / boundary maximum / mostly non-ACGT), every input compressed as "
                "reference, as delta at 1-2 levels of {1,3,9,13,17,19,22} and tuple-packed directly, by 2-3 threads in different orders; "
                "non-trivial = accepted case with an input of >= 32 bytes (all offsets 4..31 of the repetitiveness test exercised)"
                % ([m[0] for m in MODELS], levels, shards * cases_per, maxlen, shards * nbig))
    ctx.assumptions.append("ZSTD (zstd crate / libzstd) is a lossless box: payloads are un-ZSTDed by the harness independently of ragc "
                           "and the result is what the specification reasons about")
    ctx.assumptions.append("compressed bytes are opaque to the specification; history independence of the thread-local context is "
                           "checked on their SHA-256 digests (same ZSTD input and level => same digest within a case)")
    ctx.assumptions.append("the stored-raw convention (metadata 0 when compression does not help) lives in the callers "
                           "(agc_compressor.rs), not in the anchored API; it is covered at archive level by C01/C02, not here")
    ctx.trusted.append("zstd crate (ZSTD as abstract lossless box)")
