"""C17 — CLI extraction composes and exit codes tell the truth (spec/Cli.tla).
MC: the mechanism model of create / getset / listset / listctg refines the command contract and satisfies
the property invariants (negative controls: the historic wrong variants are rejected by TLC);
REPLAY: every behaviour of the bounded model is executed on the REAL `ragc` binary and compared with the
outcomes the contract allows; TRACE: every executed command (and seeded random sessions) is logged with
its observed post-state and validated by TLC against Trace_Cli."""
import json
import os
import time
from concurrent.futures import ThreadPoolExecutor

from lib import common as C

LEVEL = "model_checking"
MANIFEST = dict(
    cat="model_checking", design="5/C17",
    text="Cli.tla states the command contract (getset with a name list / a prefix = concatenation of the single-sample "
         "extractions in request / archive order, to stdout and to -o; unknown sample, unreadable archive, unwritable "
         "output, unreadable input => exit != 0; create exit 0 => archive exists and lists every input sample) and a "
         "small-step model of what main.rs does (mode dispatch, per-sample write_sample_fasta into one path, copy to the "
         "destination). TLC checks the mechanism against the contract (and rejects the pre-fix variants). Every behaviour "
         "of the bounded model (request lists of length <= 3 over the catalogue + unknown names with repeats, every prefix, "
         "stdout / -o / unwritable -o; missing / damaged archive; create over {--batch,--adaptive,--concatenated} x -t x "
         "--queue-capacity x {1 file, 1 PanSN file, 3 files} x {ok, unreadable first / later input, unwritable output}) "
         "is run through the real ragc binary; exit status, projected output, output bytes and the archive state are "
         "compared with the contract, and all runs plus seeded random sessions are validated by TLC (Trace_Cli).",
    note="Trusted: TLC; the harness projections (exit 0/non-0, FASTA bytes -> record ids of the synthesized input, listing "
         "lines -> names); `ragc listset`/`listctg` as the observation of what an archive lists. Bounded request space; "
         "record content correctness beyond identity with the input records is C01's subject.",
    technique="TLA+ spec (Cli.tla) + TLC exhaustive MC of the bounded command space; TLC-generated behaviours replayed on the real "
              "binary; recorded runs validated by TLC (Trace_Cli.tla)")

INVS = ("Conforms", "SingleLaw", "CompositionLaw", "PrefixLaw", "ExitTruth", "CreateTruth", "ReadOnly")
# negative controls: wrong variant -> property invariant that must reject it (checked alone)
NEG = [("truncating", "getset", "CompositionLaw"), ("batchfall", "create", "CreateTruth"),
       ("skipunknown", "getset", "ExitTruth"), ("skipinput", "create", "CreateTruth")]


def _mc_cfg(ctx, name, family, variant="fixed", maxreq=3, level=1, threads="{1, 4}", withpre=False, invariants=INVS, emit=True):
    return C.gen_cfg(os.path.join(ctx.work, name + ".cfg"), spec="MCSpec",
                     constants={"Variant": '"%s"' % variant, "Family": '"%s"' % family, "MaxReq": maxreq, "Level": level,
                                "Threads": threads, "WithPre": "TRUE" if withpre else "FALSE"},
                     invariants=tuple(invariants) + (("Emit",) if emit else ()), post=None)


def _sig(f):
    c = f.get("cmd", {})
    sig = {"kind": f.get("kind"), "cmd": c.get("cmd"), "exit": f.get("observed", {}).get("exit")}
    if c.get("cmd") == "create":
        sig.update(batch=c.get("batch"), adaptive=c.get("adaptive"), concat=c.get("concat"),
                   several=len(c.get("inputs", [])) > 1,
                   unreadable=any(not i.get("readable") for i in c.get("inputs", [])), outpath=c.get("outpath"))
    else:
        sig.update(mode=c.get("mode"), dest=c.get("dest"), n=len(c.get("names", [])), pre=f.get("pre", {}).get("kind"))
    return sig


def _cases_of(evs, prefix):
    cases, cur = [], None
    for e in evs:
        if e["ev"] == "start":
            cur = ("%s_%d" % (prefix, len(cases)), [])
            cases.append(cur)
        cur[1].append(e)
    return cases


def _setup(ctx, cli, tag, samples, single):
    agc = os.path.join(ctx.work, "std_%s.agc" % tag)
    args = ["cli-setup", "--ragc", cli, "--dir", os.path.join(ctx.work, "setup_" + tag), "--agc", agc, "--seed", str(ctx.seed),
            "--samples", samples, "--threads", "2"]
    if single:
        args.append("--single")
    _, out, _, _ = C.rvh(args, timeout=900)
    s = json.loads(out.strip().splitlines()[-1])
    want = {json.dumps(x["name"]): x["nrec"] for x in s["requested"]}
    got = {json.dumps(x["name"]): x["nrec"] for x in s["samples"]}
    if s["exit"] != "ok":
        # the plain create of the reference collection fails: nothing can be decided (not a C17 verdict)
        raise C.ToolError("vacuity guard: plain `ragc create` of the reference collection failed: %s\n%s" % (s["argv"], s["stderr"]))
    if s["kind"] != "good" or any(got.get(k) != v for k, v in want.items()):
        ctx.violation("setup_%s" % tag, {"kind": "create-lists", "sig": {"kind": "create-lists", "cmd": "create", "exit": "ok", "setup": True},
                                       "detail": "create exited 0 but the archive does not list every input sample", "setup": s})
        return None, None
    path = os.path.join(ctx.work, "setup_%s.json" % tag)
    with open(path, "w") as fh:
        json.dump({"samples": s["samples"]}, fh)
    return agc, path


def _mc_and_replay(ctx, cli, name, cfg, agc, env, jobs, required):
    t0 = time.time()
    r = C.run_tlc("MC_Cli", cfg, workdir=ctx.work, workers=2, env=env, xmx="3g", timeout=1500)
    C.tlc_must_pass(r, name)
    beh = [p[0] for (t, p) in r.printed if t == "REPLAY"]
    if not beh:
        raise C.ToolError("no behaviours emitted by %s" % name)
    path = os.path.join(ctx.work, name + ".ndjson")
    with open(path, "w") as fh:
        fh.write("\n".join(beh) + "\n")
    evp = os.path.join(ctx.work, name + "_events.ndjson")
    args = ["replay-cli", "--in", path, "--ragc", cli, "--dir", os.path.join(ctx.work, "run_" + name), "--seed", str(ctx.seed),
            "--jobs", str(jobs), "--events", evp]
    if agc:
        args += ["--agc", agc]
    _, out, _, _ = C.rvh(args, timeout=3000)
    res = json.loads(out.strip().splitlines()[-1])
    evs = C.read_ndjson(evp)
    okc = [e.get("ms", 0) for e in evs if e["ev"] == "run" and e["cmd"]["cmd"] == "create" and e["exit"] == "ok" and not e.get("shared")]
    rest = [e.get("ms", 0) for e in evs if e["ev"] == "run" and not (e["cmd"]["cmd"] == "create" and e["exit"] == "ok")]
    C.log("[C17] %s: TLC %.0fs (%d behaviours), replay on the real binary %.0fs (%d runs; %d creates with exit 0: %.1fs, %d other commands: %.1fs)" % (
        name, r.wall, len(beh), time.time() - t0 - r.wall, res["process_runs"], len(okc), sum(okc) / 1000.0, len(rest), sum(rest) / 1000.0))
    return name, r, required, beh, res, evs


def _neg(ctx, variant, family, inv, env):
    cfg = _mc_cfg(ctx, "neg_" + variant, family, variant=variant, maxreq=2, invariants=(inv,), emit=False)
    r = C.run_tlc("MC_Cli", cfg, workdir=ctx.work, workers=1, env=env, xmx="2g", timeout=900, coverage=False)
    if r.ok or r.violated != inv:
        raise C.ToolError("negative control: variant %s must violate %s, TLC says ok=%s violated=%s error=%s" % (
            variant, inv, r.ok, r.violated, r.error))
    return variant, inv, r


def _validate(ctx, name, evs):
    cases = _cases_of(evs, name)
    cfg = C.gen_cfg(os.path.join(ctx.work, "Trace_Cli_%s.cfg" % name), constants={"Variant": '"fixed"'})
    acc, rej, st, gen = C.validate_trace("Trace_Cli", cfg, cases, os.path.join(ctx.work, "tv_" + name), max_reject=4, timeout=1500)
    return name, cases, acc, rej, st, gen


def _selftest_trace(ctx, evs):
    """corrupt one recorded field of an accepted run (drop the last record of a composed getset answer): TLC must reject"""
    for i, e in enumerate(evs):
        if e["ev"] == "run" and e["cmd"]["cmd"] == "getset" and e["exit"] == "ok" and len(e["out"]) >= 2:
            j = i
            while evs[j]["ev"] != "start":
                j -= 1
            bad = json.loads(json.dumps(evs[j:i + 1]))
            bad[-1]["out"] = bad[-1]["out"][:-1]
            cfg = C.gen_cfg(os.path.join(ctx.work, "Trace_Cli_self.cfg"), constants={"Variant": '"fixed"'})
            acc, rej, _, _ = C.validate_trace("Trace_Cli", cfg, [("selftest", bad)], os.path.join(ctx.work, "tv_self"))
            if acc != 0 or not rej:
                raise C.ToolError("trace self-test: a getset answer with a dropped record was accepted by Trace_Cli")
            return True
    raise C.ToolError("trace self-test: no composed getset answer among the recorded runs")


def run(ctx):
    quick = ctx.tier == "quick"
    C.build_harness()
    cli = C.build_cli()
    ctx.checker_cmds.append("rvh cli-setup (real `ragc create` + listset/listctg -> CLI_SETUP); tlc MC_Cli (families getset / bad / create; "
                            "negative-control variants); rvh replay-cli (real ragc binary); rvh trace-cli; tlc Trace_Cli")
    level = 1 if quick else 2
    threads = "{1, 4}" if quick else "{1, 2, 4}"
    jobs = 3
    with ThreadPoolExecutor(max_workers=4) as ex:
        # the long pole first: create family (independent of the reference archive)
        f_create = ex.submit(_mc_and_replay, ctx, cli, "mc_create",
                             _mc_cfg(ctx, "mc_create", "create", maxreq=1, level=level, threads=threads, withpre=not quick),
                             None, None, jobs, ("MCrDispatch", "MCrPush", "MCrFinalize", "MLsRun", "MGsSample", "MGsEnd"))
        f_trace = ex.submit(C.rvh, ["trace-cli", "--ragc", cli, "--dir", os.path.join(ctx.work, "sessions"), "--seed", str(ctx.seed),
                                    "--cases", "4" if quick else "16", "--reads", "10" if quick else "20", "--jobs", "1" if quick else "2", "--big", "110",
                                    "--out", os.path.join(ctx.work, "sessions.ndjson")], timeout=3000)
        agc, setup = _setup(ctx, cli, "multi", "ab:2,aa:3,ba:1", False)
        futs = [f_create]
        negs = []
        if agc:
            env = {"CLI_SETUP": setup}
            futs.append(ex.submit(_mc_and_replay, ctx, cli, "mc_getset", _mc_cfg(ctx, "mc_getset", "getset", maxreq=3, level=level), agc, env, 3,
                                  ("MGsOpen", "MGsSample", "MGsEnd", "MLsRun")))
            for (variant, family, inv) in (NEG[:2] if quick else NEG):
                negs.append(ex.submit(_neg, ctx, variant, family, inv, env))
            if not quick:
                agc2, setup2 = _setup(ctx, cli, "pansn", "ab#0:2,aa#0:1,ba#1:2", True)
                if agc2:
                    futs.append(ex.submit(_mc_and_replay, ctx, cli, "mc_getset_pansn", _mc_cfg(ctx, "mc_getset_pansn", "getset", maxreq=3, level=1),
                                          agc2, {"CLI_SETUP": setup2}, 2, ("MGsOpen", "MGsSample", "MGsEnd", "MLsRun")))
        results = [f.result() for f in futs]
        for f in negs:
            variant, inv, r = f.result()
            ctx.extra.setdefault("negative_controls", []).append({"variant": variant, "violated": inv, "states": r.distinct})
        _, out, _, _ = f_trace.result()
        sess_info = json.loads(out.strip().splitlines()[-1])
        sess = C.read_ndjson(os.path.join(ctx.work, "sessions.ndjson"))

        # ---- REPLAY verdicts -----------------------------------------------------------------
        seen = set()
        all_events = {}
        composed = creates_ok = failures = 0
        for (name, r, required, beh, res, evs) in results:
            ctx.add_mc(name, r, required_actions=required)
            ctx.evaluations += res["steps"]
            composed += res["composed"]
            creates_ok += res["creates_ok"]
            failures += res["failures_seen"]
            ctx.extra.setdefault("replay", {})[name] = {k: (len(v) if isinstance(v, list) else v) for k, v in res.items()}
            if res["diverged"]:
                ctx.extra.setdefault("diverged_but_allowed", []).extend(res["diverged"][:5])
            all_events[name] = evs
            for f in res["fails"]:
                sig = _sig(f)
                key = json.dumps(sig, sort_keys=True)
                if key in seen or len(seen) >= 12:
                    continue
                seen.add(key)
                ctx.violation("replay_%s_b%d_s%d_%s" % (name, f["behaviour"], f["step"], f["kind"]),
                              {"kind": "REPLAY", "family": name, "sig": sig, "detail": f["detail"], "fail": f,
                               "behaviour": {"steps": f.get("steps")}, "agc_samples": "ab:2,aa:3,ba:1" if name != "mc_getset_pansn" else "ab#0:2,aa#0:1,ba#1:2",
                               "single": name == "mc_getset_pansn"})
            if name == "mc_getset":
                ok = [json.loads(b) for b in beh]
                ctx.sample({"replay_behaviour": [s["cmd"] for s in ok[len(ok) // 2]["steps"]]})
        if creates_ok == 0 or composed == 0 or failures == 0:
            raise C.ToolError("vacuity guard: creates with exit 0: %d, composed getset answers: %d, failing commands: %d" % (creates_ok, composed, failures))
        ctx.exhaustive = True

        # ---- TRACE verdicts ------------------------------------------------------------------
        all_events["sessions"] = sess
        f_self = ex.submit(_selftest_trace, ctx, all_events.get("mc_getset") or sess)
        t0 = time.time()
        merged = []
        for name, evs in all_events.items():
            merged += _cases_of(evs, name)
        cfg = C.gen_cfg(os.path.join(ctx.work, "Trace_Cli_all.cfg"), constants={"Variant": '"fixed"'})
        acc, rej, st, gen = C.validate_trace("Trace_Cli", cfg, merged, os.path.join(ctx.work, "tv_all"), max_reject=6, timeout=2400)
        C.log("[C17] Trace_Cli: %d cases, %d events, %d rejected, %.0fs" % (len(merged), sum(len(c[1]) for c in merged), len(rej), time.time() - t0))
        ctx.traces += acc
        ctx.states += st
        ctx.transitions += gen
        for name in ("sessions",):
            cases = _cases_of(sess, name)
            if name == "sessions":
                ctx.evaluations += sum(len(c[1]) - 1 for c in cases)
                for e in sess:
                    if e["ev"] != "run":
                        continue
                    if e["exit"] == "fail":
                        failures += 1
                    elif e["cmd"]["cmd"] == "create":
                        creates_ok += 1
                    elif e["cmd"]["cmd"] == "getset" and (len({json.dumps(x["s"]) for x in e["out"]}) >= 2 or len(e["cmd"]["names"]) >= 2):
                        composed += 1
                ctx.sample({"session_event": [e for e in sess if e["ev"] == "run" and e["cmd"]["cmd"] == "getset"][:1]})
            for rj in rej:
                ev = rj["event"]
                c = ev.get("cmd", {})
                sig = {"kind": "trace", "cmd": c.get("cmd"), "exit": ev.get("exit"), "mode": c.get("mode"), "dest": c.get("dest"),
                       "batch": c.get("batch")}
                key = json.dumps(sig, sort_keys=True)
                if key in seen or len(seen) >= 16:
                    continue
                seen.add(key)
                ctx.violation("trace_%s" % rj["case_id"], {"kind": "TRACE", "family": rj["case_id"].rsplit("_", 1)[0], "sig": sig, "rejected": rj,
                                                         "detail": "Trace_Cli: the contract does not allow this run from the archive state reached"})
        f_self.result()
        ctx.extra["trace_selftest"] = "a recorded getset answer with one record dropped is rejected by Trace_Cli"
        ctx.extra["sessions"] = sess_info
    ctx.nontrivial = composed + creates_ok + failures
    ctx.rule = ("distinct executed commands of the real binary that (a) answered a getset composing >= 2 single-sample extractions with "
                "exit 0 (%d), (b) created an archive with exit 0 that was then listed (%d), or (c) had to fail and were checked for a "
                "non-zero exit: unknown sample, unreadable/missing archive, unwritable -o, unreadable input, unwritable output, "
                "unsupported flag combination (%d). REPLAY: all behaviours TLC emits for the bounded model, each command compared with the "
                "contract's allowed outcomes + byte identity with the concatenated single-sample answers; TRACE: all those runs plus "
                "seeded random sessions (request lists up to 6 names over 2..5 samples, random prefixes, failing creates over an "
                "existing archive; one session over 110 homologous samples, whose LZ groups span two packs, with request lists mixing "
                "samples of the first and the last pack) validated by TLC." % (composed, creates_ok, failures))
    ctx.assumptions += [
        "sample names over {a,b,c,#,0,1}, contigs of 500..1200 ACGT bases, -k 11 -s 100 -m 15; request lists <= 3 (REPLAY) / <= 6 (TRACE)",
        "what an archive 'lists' is observed with the binary's own listset / listctg",
        "exit status is projected to zero / non-zero; stderr text is never compared",
        "a getset that selects nothing (prefix without match) may fail or print nothing: outside the property",
    ]


def replay(ctx, case):
    """re-run one recorded behaviour on the real binary"""
    C.build_harness()
    cli = C.build_cli()
    ctx.seed = int(case.get("seed", ctx.seed))
    steps = (case.get("behaviour") or {}).get("steps")
    if not steps:
        ctx.tier = case.get("tier", ctx.tier)
        return run(ctx)
    agc = None
    if steps[0]["pre"]["kind"] != "none":
        agc, _ = _setup(ctx, cli, "replay", case.get("agc_samples", "ab:2,aa:3,ba:1"), bool(case.get("single")))
    path = os.path.join(ctx.work, "one.ndjson")
    with open(path, "w") as fh:
        fh.write(json.dumps({"steps": steps}) + "\n")
    args = ["replay-cli", "--in", path, "--ragc", cli, "--dir", os.path.join(ctx.work, "run_one"), "--seed", str(ctx.seed), "--jobs", "1"]
    if agc:
        args += ["--agc", agc]
    _, out, _, _ = C.rvh(args, timeout=1200)
    res = json.loads(out.strip().splitlines()[-1])
    for f in res["fails"]:
        print("replayed: %s: %s\n  %s -> exit code %s" % (f["kind"], f["detail"], " ".join(f["argv"]), f["code"]))
        ctx.violation("replayed_%s" % f["kind"], {"kind": "REPLAY", "sig": _sig(f), "detail": f["detail"], "fail": f, "behaviour": {"steps": steps}})
