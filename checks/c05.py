"""C05 — the compression pipeline always terminates (Pipeline.tla: liveness under fairness + real runs)."""
from checks import pipe
from lib import common as C

LEVEL = "model_checking"
MANIFEST = dict(
    cat="model_checking", design="5/C05",
    text="Pipeline.tla is model-checked with weak fairness of the producer and of every worker and NO state constraint (the model is finite by "
         "construction): Termination == <>(producer done /\\ all workers exited) for N<=3 workers, capacities from smaller than one contig to "
         "unbounded, zero-size contigs, pack-boundary / sync_and_flush / final token rounds; safety parts (every contig in exactly one batch, all "
         "waiting workers wait at the same barrier, nothing left in queue or buffers at exit). Real create runs (threads 1..16, capacity below one "
         "contig up to 2 GiB, perturbed schedules) are recorded and validated by TLC against the specification; at the end of each trace the model "
         "state must be Terminated. A run without hook progress is only reported when the specification itself has no enabled step in the reached state.",
    note="Trusted: TLC; std Mutex/Condvar/Barrier semantics as modelled (the condvar mechanics of the queue are refined separately in Queue.tla, C06). "
         "Liveness is exhaustive only for the bounded model; real schedules are sampled.",
    technique="TLA+ spec (Pipeline.tla) + TLC liveness checking under fairness; recorded executions validated by TLC (Trace_Pipeline.tla; deviations from the design re-judged by the permissive C05 observer Trace_PipelineObs.tla) with a terminated end state")


def run(ctx):
    pipe.run_mc(ctx, pipe.MC_CONFIGS if ctx.tier == "thorough" else ["single_n2", "multi_n2_zero", "single_n2_cap1", "multi_n3"])
    ctx.checker_cmds.append("tlc MC_Pipeline_*.cfg (PROPERTIES Termination, fairness); rvh drive-pipeline (perturbed, watchdog); tlc Trace_Pipeline.tla per run")
    ctx.seed = ctx.seed + 5   # different generated inputs / perturbations than C04
    results, first = pipe.run_traces(ctx, want_sha_equal=False)
    ctx.seed = ctx.seed - 5
    ctx.evaluations = len(results)
    ok = [r for r in results if r["status"] == "ok"]
    ctx.traces = len(ok)
    for r in results:
        ctx.states += r.get("states", 0)
        ctx.transitions += r.get("generated", 0)
    small_cap = [r for r in ok if r["cap"] < 1000]
    ctx.nontrivial = len({r["id"] for r in ok if r["threads"] >= 2 and (r["cap"] < 1000 or r["input"].startswith("single"))})
    ctx.rule = ("one case = (input, threads, queue capacity, perturbation seed); non-trivial = accepted, terminated run with >= 2 workers and either a queue "
                "capacity below/near one contig (back-pressure, oversize admission) or pack-boundary rounds (single-file input)")
    ctx.extra["runs_with_capacity_below_1000_bytes"] = len(small_cap)
    for r in ok[:2]:
        ctx.sample({k: r[k] for k in ("id", "threads", "cap", "perturb", "events", "result")})
    # Verdict. A run accepted by the strict trace specification is a terminated behaviour of Pipeline.tla: all clauses of C05 hold.
    # A run that DEVIATES from the design (unmatched event, determinism / priority-range invariant, different bytes) is not thereby a
    # termination problem - that is C04's / C18's business.  It is judged by the permissive observer Trace_PipelineObs.tla, which
    # evaluates exactly the clauses of C05; only what the observer rejects is a C05 violation.
    C05_INVARIANTS = ("NoLostContig", "EachOnce", "BarrierSane", "SameBarrier", "EndState")
    deviations = []
    for r in results:
        if r["status"] == "ok":
            continue
        if r["status"] == "stalled_model_not_stuck":
            # The watchdog only fires when, for the whole period, no hook event arrived AND no thread of the process was
            # runnable or in I/O (so it is not a slow machine): every thread is blocked. The specification still has an
            # enabled step in the state the trace reaches => the implementation lost a wake-up or blocks while holding
            # something another thread needs. That is a termination violation of the code, not of the design.
            r["detail"] = ("all threads blocked for the watchdog period although the specification has an enabled step in the reached state "
                           "(lost wake-up / blocking while holding a lock)")
            r["status"] = "blocked"
        elif r["status"] == "stuck" or r.get("stalled"):
            r["detail"] = (r.get("detail") or "") + " ; all threads blocked for the watchdog period (no thread runnable or in I/O): the run never finishes"
            r["status"] = "blocked"
        elif r["status"] == "invariant" and any(v in (r.get("detail") or "") for v in C05_INVARIANTS):
            pass
        else:
            ok_obs, why = pipe.validate_obs(r)
            if ok_obs:
                deviations.append({"id": r["id"], "status": r["status"], "detail": r.get("detail")})
                continue
            r["detail"] = "%s ; %s" % (r.get("detail"), why)
            r["status"] = "c05_clause"
        path = pipe.keep_replay(ctx, r)
        ctx.violation(r["id"], {"kind": "TRACE-Pipeline", "run": {k: r.get(k) for k in ("id", "input", "threads", "cap", "perturb", "result", "msg", "stalled")},
                                "detail": r.get("detail"), "event": r.get("event"), "context": r.get("context"), "cex_tail": r.get("cex_tail"),
                                "trace": path, "sig": {"status": r["status"], "mode": "single" if r["input"].startswith("single") else "multi"}})
    ctx.extra["deviations_from_design_not_affecting_termination"] = deviations[:20]
    ctx.extra["n_deviations_from_design_not_affecting_termination"] = len(deviations)
    ctx.traces += len(deviations)     # accepted by the C05 observer
    ctx.assumptions += ["a run is declared blocked only when for 30 s no hook event arrives and no thread of the process is runnable or in I/O (thread states from /proc); a merely slow run is never a violation"]
