"""C08 — reader answers do not depend on query history or on other readers (spec/Reader.tla).

spec/Reader.tla        required behaviour Spec(op) = function of the archive; code-shaped handle state (sample table + load
                       cursor, reference cache with its two fill paths); one action per public Decompressor method, clone, close
spec/MC_Reader.tla     small archive abstraction (2 batches, known/unknown sample/contig, raw-stored / compressed reference
                       groups, raw group, unknown group): DesignSpec (all handles, all calls, unbounded) and ReplaySpec (REPLAY)
spec/Trace_Reader.tla  validation of recorded concurrent runs on clone_for_thread handles and of CLI invocations

MC      the complete state graph of DesignSpec satisfies HistoryIndependent (=> SameAsFresh, NoPanic, UnknownIsError),
        TableSane, CacheSane, Isolated; the historical variants (CursorReset=FALSE = D4, RefPath="ignoreMeta" = D5,
        RangeCheck="early" = pre-b612229) are negative controls and must each violate their invariant
REPLAY  every sequence of 3 calls over the core alphabet and of 2 over the full one (thorough: 3 over the full alphabet, 4
        over the core one, sampled 6 over the full one) is executed on ONE real handle of a real multi-batch archive; after every call class = model's class and digest = digest
        of the same call on a fresh handle
TRACE   parent + 2..8 clone_for_thread handles running random call sequences concurrently, and real `ragc getset / listctg /
        inspect` invocations, validated by TLC against the stateless table of the trace header
"""
import hashlib
import json
import os
import re
import subprocess
from concurrent.futures import ThreadPoolExecutor

from lib import common as C

LEVEL = "model_checking"
MANIFEST = dict(
    cat="model_checking", design="5/C08",
    text="Reader.tla states the required behaviour of an open archive handle as a function of the archive alone (Spec(op); unknown "
         "sample/contig names give an error value) next to the code-shaped state of decompressor.rs / collection.rs (lazily loaded "
         "sample table with the cumulative samples_loaded cursor, load-all-on-miss trigger per call, reference cache group -> segment "
         "with its two fill paths), one action per public Decompressor method plus clone_for_thread. TLC explores the complete state "
         "graph (all handles, all calls, any length, any interleaving) of a small archive abstraction: every answer in every reachable "
         "state is the stateless one, no call panics, handles never influence each other; the historical loader (cursor never reset), "
         "the historical get_reference_segment (metadata convention ignored) and the early empty-range return are kept as negative "
         "controls and each yields its counterexample. Binding: every sequence of 3 calls over a 27-call core alphabet and of 2 calls "
         "over the full one (thorough: 3 over the full alphabet, 4 over the core one, about 200000 sampled sequences of 6) "
         "- full alphabet = 50 calls x abstract arguments {sample in batch 1 / batch 2 / unknown, contig known / unknown, group with raw-stored / "
         "compressed reference, raw group, unknown group, prefixes, range kinds} is executed on one real handle of real archives "
         "(>= 2 metadata batches, raw-stored and ZSTD reference parts, LZ and raw groups - measured with the independent lexer) with "
         "class and answer digest compared after every call with the model and with a fresh handle; runs of a parent handle and 2-8 "
         "clone_for_thread handles issuing random calls concurrently, and real `ragc getset a b / listctg a b / inspect -s` "
         "invocations, are recorded and validated by TLC against Trace_Reader.",
    note="Decides sameness of answers (class + SHA-256 digest of a canonical serialisation) and error-not-crash for unknown names; the "
         "text of error messages is not compared. Correctness of the answers themselves is C01/C03/C07. Archives are created by ragc "
         "itself (references of C++-written archives in 2-bit packing are out of scope). Exhaustive within the stated alphabet and "
         "lengths; longer histories and real-thread interleavings are sampled. Trusted: TLC, the harness projection (names -> abstract "
         "arguments, answers -> digests), the independent lexer for part metadata.",
    technique="TLA+ spec (Reader.tla) + TLC exhaustive MC with negative controls; TLC-generated call sequences replayed on real handles "
              "(REPLAY); recorded concurrent executions and CLI runs validated by TLC (Trace_Reader.tla)")

ACTIONS = ("AListSamples", "AListPrefix", "ACompressionStats", "AListContigs", "AGetContigLength", "AGetSegmentsDesc", "AGetContig",
           "AGetContigRange", "AGetSample", "AGetSamplesByPrefix", "AGetAllSegments", "AGetGroupStatistics", "AGetReferenceSegment",
           "AClone", "AClose")
FLAG = {"load": 1, "reload_same_handle": 2, "miss_after_hit": 4, "full_table_after_load": 8, "ref_after_fill_by_extraction": 16,
        "ref_before_any_fill": 32, "decode_against_ref_cached_by_get_reference_segment": 64, "second_batch_sample": 128}
NONTRIV = 2 | 16 | 64
_re_cov = re.compile(r"^<(\w+) line \d+, col \d+ to line \d+, col \d+ of module \w+(?: \([\d ]+\))?>: (\d+):(\d+)", re.M)


def _coverage(r):
    """this TLC prints action coverage with a location suffix that common.run_tlc does not parse"""
    for m in _re_cov.finditer(r.raw):
        d, t = int(m.group(2)), int(m.group(3))
        od, ot = r.coverage.get(m.group(1), (0, 0))
        r.coverage[m.group(1)] = (max(od, d), max(ot, t))


def _archives(tier, seed):
    """(name, samples, chroms, len, k, seg, mm, threads, replay): replay = which behaviour sets run on it"""
    a = [("small", 60, 1, 150, 9, 10, 15, 2, "full"),
         ("threebatch", 110, 1, 200, 11, 10, 15, 2, "short")]
    if tier != "quick":
        a += [("twochrom", 60, 2, 300, 9, 12, 15, 3, "short"),
              ("small2", 70, 1, 180, 9, 12, 15, 3, "most"),
              ("bigseg", 55, 2, 600, 11, 60, 18, 4, "short")]
    return [dict(name=n, samples=s, chroms=c, len=ln, k=k, seg=sg, mm=mm, threads=t, replay=rp, seed=seed * 100 + i)
            for i, (n, s, c, ln, k, sg, mm, t, rp) in enumerate(a)]


def _build(ctx, a):
    d = os.path.join(ctx.work, "arch_" + a["name"])
    _, out, _, _ = C.rvh(["reader-build", "--seed", str(a["seed"]), "--dir", d, "--samples", str(a["samples"]), "--chroms", str(a["chroms"]),
                          "--len", str(a["len"]), "--k", str(a["k"]), "--seg", str(a["seg"]), "--mm", str(a["mm"]), "--threads", str(a["threads"])],
                         timeout=900)
    r = json.loads(out.strip().splitlines()[-1])
    a = dict(a)
    a["agc"] = r["agc"]
    a["measured"] = r["measured"]
    return a


def _mc(ctx, cfg, workers, **kw):
    return C.run_tlc("MC_Reader", "MC_Reader_%s.cfg" % cfg, workdir=os.path.join(ctx.work, "mc_" + cfg), workers=workers, **kw)


def _behaviours(r, what):
    alpha = [p[0] for (t, p) in r.printed if t == "ALPHABET"]
    beh = [p[0] for (t, p) in r.printed if t == "REPLAY"]
    if not alpha or not beh:
        raise C.ToolError("MC_Reader %s printed no alphabet / behaviours: %s" % (what, r.error))
    return json.loads(alpha[0]), beh


def _write_replay(path, alphabet, beh):
    with open(path, "w") as fh:
        fh.write(json.dumps({"alphabet": alphabet}) + "\n")
        fh.write("\n".join(beh) + "\n")


def _dig(b):
    return hashlib.sha256(b).hexdigest()[:16]


def _cli(cli, args):
    try:
        p = subprocess.run([cli] + args, stdout=subprocess.PIPE, stderr=subprocess.PIPE, timeout=300)
    except subprocess.TimeoutExpired:
        raise C.ToolError("ragc %s timed out" % " ".join(args))
    err = p.stderr.decode(errors="replace")
    cls = "ok" if p.returncode == 0 else ("panic" if (p.returncode == 101 or p.returncode < 0 or "panicked at" in err) else "err")
    return cls, p.stdout, err[-400:]


def _op(op, s="", c="", r="", g="", p=""):
    return {"op": op, "s": s, "c": c, "r": r, "g": g, "p": p}


def _cli_case(cli, agc, hdr, names):
    """events of kind `cli`: real invocations of the ragc binary on the archive; expected outputs are composed from the
    outputs of single-query invocations (each a fresh process = a fresh handle)"""
    sa, sb, sx = names["sA"], names["sB"], names["sX"]
    evs = [{"ev": "start", "case": "cli", "threads": 0}]
    single_get, single_ctg = {}, {}

    def one(kind, argv, ops, expect=None, cut=None):
        cls, out, err = _cli(cli, argv)
        o = out if cut is None else out[:cut]
        evs.append({"ev": "cli", "cmd": kind, "argv": argv[1:], "ops": ops, "cls": cls, "out": _dig(o),
                    "expect": _dig(expect) if expect is not None else _dig(o), "stderr": err if cls != "ok" else ""})
        return cls, out

    for s in (sa, sb):
        _, single_get[s] = one("getset", ["getset", agc, s], [_op("get_sample", s)])
        _, single_ctg[s] = one("listctg", ["listctg", agc, s], [_op("list_contigs", s)])
    for seq in ((sa, sb), (sb, sa), (sa, sa), (sa, sx), (sx, sa), (sb, sx, sa)):
        ok = sx not in seq
        one("getset", ["getset", agc] + list(seq), [_op("get_sample", s) for s in seq],
            expect=b"".join(single_get[s] for s in seq) if ok else None)
        one("listctg", ["listctg", agc] + list(seq), [_op("list_contigs", s) for s in seq],
            expect=b"".join(single_ctg[s] for s in seq) if ok else None)
    # getset --prefix = get_sample for every match, in list order
    pall = names.get("pAll")
    if pall:
        m = [s for b in hdr["batches"] for s in b if s.startswith(pall)]
        parts = []
        for s in m:
            if s not in single_get:
                _, single_get[s] = one("getset", ["getset", agc, s], [_op("get_sample", s)])
            parts.append(single_get[s])
        one("getset-prefix", ["getset", agc, "--prefix", pall], [_op("get_sample", s) for s in m], expect=b"".join(parts))
    # inspect: groups = list_samples + get_group_statistics; -s adds get_all_segments on the same handle
    _, base = one("inspect", ["inspect", agc], [_op("list_samples"), _op("get_group_statistics")])
    one("inspect-s", ["inspect", agc, "-s"], [_op("list_samples"), _op("get_group_statistics"), _op("get_all_segments")],
        expect=base, cut=len(base))
    one("inspect-single-groups", ["inspect", agc, "--single-groups"], [_op("list_samples"), _op("get_group_statistics"), _op("get_all_segments")])
    return ("cli", evs)


def _thread_stats(evs):
    """per case: number of threads that (i) had a miss after a hit and (ii) asked a reference both before and after an extraction"""
    by_t = {}
    for e in evs:
        if e["ev"] == "op":
            by_t.setdefault(e["t"], []).append(e)
    miss = 0
    for t, es in by_t.items():
        hit = False
        for e in es:
            o = e["op"]
            if o["s"] and e["cls"] == "ok":
                hit = True
            if o["s"] and e["cls"] == "err" and hit and o["op"] in ("list_contigs", "get_sample", "get_contig", "get_contig_length",
                                                                     "get_contig_segments_desc", "get_contig_range"):
                miss += 1
                break
    return len(by_t), miss


def run(ctx):
    quick = ctx.tier == "quick"
    C.build_harness()
    cli = C.build_cli()
    archives = _archives(ctx.tier, ctx.seed)
    ctx.checker_cmds.append("tlc MC_Reader {design, d4, d5, range (negative controls), replay3%s}; rvh reader-build; rvh replay-reader; "
                            "rvh trace-reader + ragc getset/listctg/inspect; tlc Trace_Reader" % ("core, replay2" if quick else ", replay4core, sim"))
    ex = ThreadPoolExecutor(max_workers=8)
    fut_arch = [ex.submit(_build, ctx, a) for a in archives]
    # behaviour sets: quick = all sequences of 3 calls over the core alphabet + of 2 calls over the full one;
    # thorough = 3 calls over the full alphabet, 4 over the core one, sampled sequences of 6 over the full one (TLC -simulate checks
    # the invariants - hence Emit - on every successor of every state of a random walk: 4000 random prefixes of 5 calls, each
    # extended by every call of the alphabet)
    fut_sets = [("len2", ex.submit(_mc, ctx, "replay2", 1, coverage=False))]
    if quick:
        fut_sets.append(("core3", ex.submit(_mc, ctx, "replay3core", 2, coverage=False)))
    else:
        fut_sets += [("len3", ex.submit(_mc, ctx, "replay3", 3, coverage=False, xmx="6g", timeout=3000)),
                     ("core4", ex.submit(_mc, ctx, "replay4core", 2, coverage=False, xmx="8g", timeout=3000)),
                     ("sim6", ex.submit(_mc, ctx, "sim", 1, coverage=False, simulate=4000, depth=6, seed=ctx.seed, timeout=3000))]
    fut_design = ex.submit(_mc, ctx, "design2" if quick else "design", 1 if quick else 2)

    ctrl = (("d4", "NoPanic"), ("d5", "SameAsFresh"), ("range", "UnknownIsError"))
    fut_ctrl = [(cfg, inv, ex.submit(_mc, ctx, cfg, 1, coverage=False)) for cfg, inv in ctrl]

    # ---- MC: design + negative controls -------------------------------------------------------
    r = fut_design.result()
    C.tlc_must_pass(r, "MC_Reader design")
    _coverage(r)
    ctx.add_mc("MC_Reader_design", r, required_actions=ACTIONS)
    ctx.exhaustive = True
    controls_seen = {}
    for cfg, inv, f in fut_ctrl:
        rc = f.result()
        if rc.ok or rc.violated != inv:
            raise C.ToolError("negative control MC_Reader_%s: expected %s to be violated, got ok=%s violated=%s error=%s"
                              % (cfg, inv, rc.ok, rc.violated, rc.error))
        controls_seen[cfg] = {"violated": inv, "depth": max(0, len(rc.cex) - 1)}
    ctx.extra["negative_controls"] = controls_seen

    # ---- REPLAY ------------------------------------------------------------------------------
    sets = {"full": [], "most": [], "short": []}
    sizes = {}
    for name, f in fut_sets:
        rm = f.result()
        C.tlc_must_pass(rm, "MC_Reader " + name)
        ctx.add_mc("MC_Reader_" + name, rm)
        al, bh = _behaviours(rm, name)
        n = {"len2": 2, "core3": 3, "len3": 3, "core4": 4}.get(name)
        if n and len(bh) != len(al) ** n:
            raise C.ToolError("expected %d behaviours in set %s, got %d" % (len(al) ** n, name, len(bh)))
        bh = sorted(set(bh))
        sizes[name] = {"alphabet": len(al), "behaviours": len(bh)}
        if name == "len2":
            alphabet, beh2 = al, bh
            sets["short"].append((name, al, bh))
        if name != "len2" or quick:
            sets["full"].append((name, al, bh))
            if name != "core4":
                sets["most"].append((name, al, bh))
    ctx.extra["behaviour_sets"] = sizes
    flag_counts = {k: 0 for k in FLAG}
    nontrivial_beh = 0
    for (sname, al, bh) in sets["full"]:
        for b in bh:
            fl = 0
            for st in json.loads(b):
                fl |= st[2]
            for k, v in FLAG.items():
                if fl & v:
                    flag_counts[k] += 1
            if fl & NONTRIV:
                nontrivial_beh += 1
    ctx.extra["replay_behaviours_exercising"] = flag_counts
    for b in sets["full"][-1][2]:
        steps = json.loads(b)
        if len(steps) >= 3 and steps[2][2] & 4 and steps[1][2] & 16:
            al = sets["full"][-1][1]
            ctx.sample({"replay_behaviour": [dict({k: v for k, v in al[st[0] - 1].items() if v}, cls=("ok", "err", "panic")[st[1]], flags=st[2])
                                             for st in steps]})
            break

    built = []
    for f in fut_arch:
        built.append(f.result())
    ctx.extra["archives"] = [{k: a[k] for k in ("name", "samples", "chroms", "len", "k", "seg", "seed", "measured")} for a in built]
    for a in built:
        m = a["measured"]
        if m["batches"] < 2 or m["raw_groups"] < 1 or m["lz_groups"] < 1:
            raise C.ToolError("archive %s lacks batches / raw groups / LZ groups: %s" % (a["name"], m))
    if not any(a["measured"]["ref_parts_stored_raw"] > 0 and a["measured"]["ref_parts_zstd"] > 0 for a in built):
        raise C.ToolError("no archive with both raw-stored and compressed reference parts")

    jobs = []
    for a in built:
        for (sname, al, bh) in sets[a["replay"]]:
            chunk = 45000
            for i in range(0, len(bh), chunk):
                p = os.path.join(ctx.work, "replay_%s_%s_%d.ndjson" % (a["name"], sname, i // chunk))
                _write_replay(p, al, bh[i:i + chunk])
                jobs.append((a, sname, p))

    def rep(job):
        a, sname, p = job
        rc, out, err, _ = C.rvh(["replay-reader", "--agc", a["agc"], "--in", p, "--seed", str(ctx.seed), "--threads", "2"], timeout=3000, check=False)
        if rc != 0:
            if "abstraction:" in err and a["replay"] == "short":
                return a, sname, None, err.strip()[-300:]
            raise C.ToolError("replay-reader failed on %s: %s" % (a["name"], err[-1500:]))
        return a, sname, json.loads(out), None

    names = {}
    replay_stats = {}
    unfaithful = []
    for a, sname, res, skipped in ex.map(rep, jobs):
        st = replay_stats.setdefault(a["name"], {"behaviours": 0, "steps": 0, "failed": 0})
        if res is None:
            st["skipped"] = skipped
            continue
        if res["abstraction"]:
            unfaithful.append((a["name"], res["abstraction"][:3]))
        names[a["name"]] = res["binding"]
        st["behaviours"] += res["behaviours"]
        st["steps"] += res["steps"]
        st["failed"] += res["failed_behaviours"]
        st["binding"] = res["binding"]
        ctx.evaluations += res["behaviours"]
        ctx.traces += res["behaviours"] - res["failed_behaviours"]
        for i, f in enumerate(res["fails"][:6]):
            opname = (f.get("op") or "").split("|")[0]
            ctx.violation("replay_%s_%s_%s_%d" % (a["name"], sname, f["kind"], i),
                          {"kind": "REPLAY", "archive": {k: a[k] for k in a if k != "measured"}, "set": sname, "fail": f,
                           "failed_behaviours": res["failed_behaviours"],
                           "sig": {"kind": "replay", "fail": f["kind"], "op": opname}})
    ctx.extra["replay"] = replay_stats
    if unfaithful and not ctx.violations and not ctx.known:
        # no history dependence, no crash, unknown names are errors - but a call with known names does not have the class the
        # design model gives it on a fresh handle: C08 cannot be decided on this tree / archive
        raise C.ToolError("the model's class on a fresh handle differs from the real one for calls with known names (the archive "
                          "abstraction is not faithful, or the tree is broken beyond C08): %s" % unfaithful[:2])
    ctx.extra["model_class_differs_on_fresh_handle"] = unfaithful
    if not any(a["replay"] == "full" and "skipped" not in replay_stats.get(a["name"], {}) for a in built):
        raise C.ToolError("no archive took the full replay")
    ctx.nontrivial += nontrivial_beh

    # ---- TRACE: concurrent clones + CLI --------------------------------------------------------
    ncases, nops = (5, 30) if quick else (12, 60)

    def trace(a):
        tp = os.path.join(ctx.work, "trace_%s.ndjson" % a["name"])
        C.rvh(["trace-reader", "--agc", a["agc"], "--seed", str(ctx.seed * 7 + a["seed"]), "--cases", str(ncases), "--ops", str(nops),
               "--threads-max", "8", "--out", tp], timeout=1500)
        evs = C.read_ndjson(tp)
        hdr = evs[0]
        cases, cur = [("hdr", [hdr])], None
        for e in evs[1:]:
            if e["ev"] == "start":
                cur = ("%s_run%d" % (a["name"], e["case"]), [])
                cases.append(cur)
            cur[1].append(e)
        nm = names.get(a["name"])
        if nm is None:
            nm = {"sA": hdr["batches"][0][1], "sB": hdr["batches"][-1][0], "sX": "no_such_sample", "pAll": None}
        cases.append(_cli_case(cli, a["agc"], hdr, nm))
        acc, rej, st, gen = C.validate_trace("Trace_Reader", "Trace_Reader.cfg", cases, os.path.join(ctx.work, "tv_" + a["name"]), timeout=1500)
        return a, cases, acc, rej, st, gen

    tstats = {}
    for a, cases, acc, rej, st, gen in ex.map(trace, built):
        ctx.states += st
        ctx.transitions += gen
        bad = {r["case_id"] for r in rej}
        ts = tstats.setdefault(a["name"], {"runs": 0, "events": 0, "threads_max": 0, "cli_invocations": 0, "threads_with_miss_after_hit": 0})
        for cid, evs in cases:
            if cid == "hdr":
                continue
            ctx.evaluations += 1
            if cid in bad:
                continue
            ctx.traces += 1
            if cid == "cli":
                ts["cli_invocations"] += len(evs) - 1
                if any(e.get("cls") == "err" for e in evs[1:]):
                    ctx.nontrivial += 1
                continue
            nthreads, miss = _thread_stats(evs)
            ts["runs"] += 1
            ts["events"] += len(evs)
            ts["threads_max"] = max(ts["threads_max"], nthreads)
            ts["threads_with_miss_after_hit"] += miss
            if nthreads >= 3 and miss >= 2:
                ctx.nontrivial += 1
        for r in rej:
            ev = r["event"]
            if ev.get("ev") == "cli":
                sig = {"kind": "cli", "cmd": ev.get("cmd"), "cls": ev.get("cls")}
            else:
                sig = {"kind": "trace", "ev": ev.get("ev"), "op": (ev.get("op") or {}).get("op"), "cls": ev.get("cls")}
            want = None
            if ev.get("ev") == "op":
                want = cases[0][1][0]["table"].get(ev.get("key"))
            ctx.violation("trace_%s" % r["case_id"], {"kind": "TRACE", "archive": {k: a[k] for k in a if k != "measured"},
                                                     "rejected": r, "fresh_handle_answer": want, "sig": sig})
        if a["name"] == "small":
            run0 = [c for c in cases if c[0].endswith("_run0")]
            if run0:
                ctx.sample({"trace_events": [{k: e[k] for k in ("t", "key", "cls", "dig")} for e in run0[0][1] if e["ev"] == "op"][:3]})
            ctx.sample({"cli_event": {k: v for k, v in cases[-1][1][6].items() if k in ("argv", "cls", "out", "expect")}})
    ctx.extra["trace"] = tstats
    ex.shutdown()
    ctx.rule = ("REPLAY: behaviour sets %s (full alphabet = %d calls: 13 methods + clone x abstract arguments; core = one representative per "
                "mechanism) on real handles of "
                "archives with >= 2 metadata batches; compared after every call: class vs model, class + digest vs fresh handle, panic. "
                "Non-trivial = distinct sequences in which (per the model's bookkeeping of the handle state) a call re-loads all metadata "
                "batches on a handle that already loaded them (the D4 situation: miss after hit, full table after per-sample), or a "
                "reference segment is answered from a cache filled by get_sample/get_contig/range, or a contig is decoded against a reference "
                "cached by get_reference_segment. TRACE: %d runs per archive of a parent + 2..8 clones issuing %d random calls each "
                "concurrently (+ history before cloning), non-trivial = accepted run with >= 3 handles of which >= 2 had an unknown-name "
                "call after a successful one; CLI cases (getset/listctg with 2-3 names incl. unknown, --prefix, inspect, inspect -s), "
                "non-trivial = accepted case containing failing invocations."
                % (sizes, len(alphabet), ncases, nops))
    ctx.assumptions += [
        "archives are created by ragc itself from generated collections (60-110 samples, 1-2 chromosomes of 150-600 bases, k 9-11, segment size 10-60); "
        "the archive abstraction (batches, contigs, groups per contig) is read through fresh handles, reference part metadata and batch count through the independent lexer",
        "answers are compared as (class, SHA-256 prefix of a canonical serialisation); error message text is not compared",
        "the model's class for calls with known names must agree with a fresh real handle, otherwise the run is a tool error (not decided by C08)",
    ]
