"""EXT — specification modules beyond the listed properties (DESIGN.md 14.7): each is a TLA+ design module with
exhaustive MC (incl. negative controls), TLC-generated behaviours replayed on the real code, and recorded
executions of the real code validated by TLC.  `./check EXT --tier quick|thorough [--only name]`.
Not registered in MANIFEST.checks (those are per listed property); evidence goes to evidence_ext/EXT.json."""
import json
import os

from lib import common as C

LEVEL = "model_checking"


def neg_control(ctx, module, cfg, expect, what):
    """A configuration that re-introduces a known-bad variant must be REJECTED by TLC with the expected invariant/property."""
    r = C.run_tlc(module, cfg, workdir=ctx.work, workers=4, xmx="6g", timeout=1500, coverage=False)
    if r.ok or r.violated != expect:
        raise C.ToolError("negative control %s (%s): expected violation of %s, got ok=%s violated=%s %s" % (
            cfg, what, expect, r.ok, r.violated, (r.error or "")[:500]))
    ctx.extra.setdefault("negative_controls", []).append({"cfg": cfg, "what": what, "violated": r.violated, "states": r.distinct})


# ------------------------------------------------------------------------------------------------------------
def run_bpq(ctx):
    """BoundedPQ.tla <-> ragc-core/src/priority_queue.rs (BoundedPriorityQueue, the C++-style task queue of worker.rs)."""
    quick = ctx.tier == "quick"
    for c in (["b", "c"] if quick else ["a", "b", "c"]):
        r = C.run_tlc("MC_BoundedPQ", "MC_BoundedPQ_%s.cfg" % c, workdir=ctx.work, workers=6, xmx="6g", timeout=1500)
        C.tlc_must_pass(r, "MC_BoundedPQ " + c)
        ctx.add_mc("MC_BoundedPQ_" + c, r)
    neg_control(ctx, "MC_BoundedPQ", "MC_BoundedPQ_neg_full.cfg", "NoDeadEnd", "pop_large without notify_all(cv_full): a producer sleeps forever")
    if not quick:
        neg_control(ctx, "MC_BoundedPQ", "MC_BoundedPQ_neg_mark.cfg", "NoDeadEnd", "mark_completed without notify_all(cv_empty): consumers sleep forever")
    # REPLAY: all sequences of non-blocking operations up to the depth
    for c in (["seq4"] if quick else ["seq4", "seq5"]):
        r = C.run_tlc("MC_BoundedPQ", "MC_BoundedPQ_%s.cfg" % c, workdir=ctx.work, workers=6, xmx="6g", timeout=1500, coverage=False)
        C.tlc_must_pass(r, "MC_BoundedPQ " + c)
        ctx.add_mc("MC_BoundedPQ_" + c, r)
        beh = [p[0] for (t, p) in r.printed if t == "REPLAY"]
        if not beh:
            raise C.ToolError("no REPLAY behaviours from MC_BoundedPQ_%s" % c)
        path = os.path.join(ctx.work, "bpq_%s.ndjson" % c)
        with open(path, "w") as fh:
            fh.write("\n".join(beh) + "\n")
        _, out, _, _ = C.rvh(["replay-bpq", "--in", path])
        res = json.loads(out)
        ctx.evaluations += res["behaviours"]
        ctx.traces += res["behaviours"] - len(res["fails"])
        ctx.nontrivial += sum(1 for b in beh if '"res":"normal"' in b)
        for i, f in enumerate(res["fails"][:5]):
            ctx.violation("bpq_replay_%s_%d" % (c, i), {"kind": "REPLAY-BoundedPQ", "sig": {"module": "BoundedPQ", "kind": "replay"}, "fail": f})
        if c == "seq4":
            ctx.sample({"bpq_replay_behaviour": json.loads(beh[len(beh) // 3])})
    # TRACE: concurrent runs of the unmodified object, linearizability decided by TLC
    ncases, rounds = (60, 2) if quick else (150, 6)
    for rd in range(rounds):
        tp = os.path.join(ctx.work, "bpq_trace_%d.ndjson" % rd)
        _, out, _, _ = C.rvh(["trace-bpq", "--cases", str(ncases), "--seed", str(ctx.seed * 100 + rd), "--out", tp], timeout=1200)
        summ = json.loads(out)["summary"]
        evs = C.read_ndjson(tp)
        cases, cur = [], None
        for e in evs:
            if e["ev"] == "start":
                cur = ("bpq_r%d_case%d" % (rd, e["case"]), [])
                cases.append(cur)
            cur[1].append(e)
        acc, rej, st, gen = C.validate_trace("Trace_BoundedPQ", "Trace_BoundedPQ.cfg", cases, os.path.join(ctx.work, "tbpq%d" % rd), timeout=1500)
        ctx.traces += acc
        ctx.evaluations += len(cases)
        ctx.states += st
        ctx.transitions += gen
        # non-trivial: >= 2 consumers and >= 2 producers, or a capacity small enough that an emplace had to wait for a pop
        ctx.nontrivial += sum(1 for s in summ if (s["np"] >= 2 and s["nc"] >= 2) or s["cap"] <= 2)
        if rd == 0:
            ctx.sample({"bpq_trace_case": cases[0][1][:12]})
        for r in rej:
            ctx.violation("bpq_trace_%s" % r["case_id"], {"kind": "TRACE-BoundedPQ", "sig": {"module": "BoundedPQ", "kind": "trace"}, "rejected": r})
    ctx.checker_cmds.append("tlc MC_BoundedPQ_{a,b,c}.cfg (safety, refinement, termination under fairness) + negative controls; "
                            "tlc MC_BoundedPQ_seq{4,5}.cfg -> rvh replay-bpq; rvh trace-bpq -> tlc Trace_BoundedPQ (linearizability)")


def run_segbuf(ctx):
    """SegBuffer.tla <-> ragc-core/src/segment_buffer.rs (BufferedSegments / SegmentPartList of the C++-style worker pipeline)."""
    quick = ctx.tier == "quick"
    r = C.run_tlc("MC_SegBuffer", "MC_SegBuffer.cfg", workdir=ctx.work, workers=6, xmx="6g", timeout=1500)
    C.tlc_must_pass(r, "MC_SegBuffer")
    ctx.add_mc("MC_SegBuffer", r)
    # REPLAY: random walks of the same model (12 calls each), every call compared on the real object
    total = 0
    for i in range(2 if quick else 6):
        r = C.run_tlc("MC_SegBuffer", "MC_SegBuffer_sim.cfg", workdir=ctx.work, workers=1, simulate=(30 if quick else 150), depth=13,
                      seed=ctx.seed * 50 + i, coverage=False, timeout=1500)
        if not r.ok:
            raise C.ToolError("MC_SegBuffer simulation failed: %s %s" % (r.violated, (r.error or "")[:500]))
        beh = sorted({p[0] for (t, p) in r.printed if t == "REPLAY"})
        if not beh:
            raise C.ToolError("no REPLAY behaviours from MC_SegBuffer_sim")
        path = os.path.join(ctx.work, "segbuf_%d.ndjson" % i)
        with open(path, "w") as fh:
            fh.write("\n".join(beh) + "\n")
        _, out, _, _ = C.rvh(["replay-segbuf", "--in", path])
        res = json.loads(out)
        total += res["behaviours"]
        ctx.evaluations += res["behaviours"]
        ctx.traces += res["behaviours"] - len(res["fails"])
        # non-trivial: the walk moves NEW segments into groups, or redistributes, and then reads something back
        ctx.nontrivial += sum(1 for b in beh if ('"process_new"' in b or '"distribute"' in b) and '"some":true' in b)
        if i == 0:
            ctx.sample({"segbuf_replay_behaviour": json.loads(beh[0])["steps"][:6]})
        for j, f in enumerate(res["fails"][:5]):
            ctx.violation("segbuf_replay_%d_%d" % (i, j), {"kind": "REPLAY-SegBuffer", "sig": {"module": "SegBuffer", "kind": "replay"}, "fail": f})
    ctx.checker_cmds.append("tlc MC_SegBuffer.cfg (all call sequences up to 4 calls: TypeOK, Conserved, SortedAfterSort, OneGroupPerKey); "
                            "tlc -simulate MC_SegBuffer_sim.cfg -> rvh replay-segbuf (%d behaviours)" % total)


def run_bloom(ctx):
    """Bloom.tla <-> ragc-core/src/bloom_filter.rs (hash as an uninterpreted function: laws hold for every hash assignment)."""
    r = C.run_tlc("MC_Bloom", "MC_Bloom.cfg", workdir=ctx.work, workers=6, xmx="6g", timeout=1500, coverage=False)
    C.tlc_must_pass(r, "MC_Bloom")
    ctx.add_mc("MC_Bloom", r)
    r = C.run_tlc("MC_Bloom", "MC_Bloom_replay.cfg", workdir=ctx.work, workers=6, xmx="6g", timeout=1500, coverage=False)
    C.tlc_must_pass(r, "MC_Bloom replay")
    ctx.add_mc("MC_Bloom_replay", r)
    beh = [p[0] for (t, p) in r.printed if t == "REPLAY"]
    if not beh:
        raise C.ToolError("no REPLAY behaviours from MC_Bloom_replay")
    path = os.path.join(ctx.work, "bloom.ndjson")
    with open(path, "w") as fh:
        fh.write("\n".join(beh) + "\n")
    _, out, _, _ = C.rvh(["replay-bloom", "--in", path])
    res = json.loads(out)
    ctx.evaluations += res["behaviours"]
    ctx.traces += res["behaviours"] - len(res["fails"])
    ctx.nontrivial += sum(1 for b in beh if '"insert"' in b and ('"clear"' in b or '"resize"' in b))
    ctx.sample({"bloom_replay_behaviour": json.loads(beh[len(beh) // 2])})
    for j, f in enumerate(res["fails"][:5]):
        ctx.violation("bloom_replay_%d" % j, {"kind": "REPLAY-Bloom", "sig": {"module": "Bloom", "kind": "replay"}, "fail": f})
    ctx.checker_cmds.append("tlc MC_Bloom.cfg (every hash assignment over a 3-k-mer universe x 4 call sequences: NoFalseNegative, EmptySaysNo, CountsInserts); tlc MC_Bloom_replay.cfg -> rvh replay-bloom")


def run_naming(ctx):
    """Trace_Naming.tla: ragc-common/src/stream_naming.rs against the naming rule of FormatOps.tla, dense + boundary + random ids."""
    tp = os.path.join(ctx.work, "naming.ndjson")
    _, out, _, _ = C.rvh(["trace-naming", "--out", tp, "--seed", str(ctx.seed), "--dense", "4200" if ctx.tier == "quick" else "70000"])
    n = json.loads(out)["ids"]
    evs = C.read_ndjson(tp)
    acc, rej, st, gen = C.validate_trace("Trace_Naming", "Trace_Naming.cfg", [("naming", evs)], os.path.join(ctx.work, "tnaming"), timeout=1500)
    ctx.evaluations += n
    ctx.traces += n if acc else (rej[0]["index_in_case"] if rej else 0)
    ctx.nontrivial += sum(1 for e in evs if e["id"] >= 64)       # at least two digits
    ctx.states += st
    ctx.transitions += gen
    ctx.sample({"naming_event": evs[4100]})
    for r in rej:
        ctx.violation("naming_id%s" % r["event"].get("id"), {"kind": "TRACE-Naming", "sig": {"module": "Naming", "kind": "trace"}, "rejected": {k: r[k] for k in ("event", "detail")}})
    ctx.checker_cmds.append("rvh trace-naming -> tlc Trace_Naming (B64Encode / SegStreamName of FormatOps on %d ids)" % n)


def run_preprocess(ctx):
    """Trace_Preprocess.tla: preprocessing.rs (unrolled second copy of the symbol conversion, FFI export) vs the documented normalisation."""
    tp = os.path.join(ctx.work, "preprocess.ndjson")
    _, out, _, _ = C.rvh(["trace-preprocess", "--out", tp, "--seed", str(ctx.seed), "--per-len", "6" if ctx.tier == "quick" else "60"])
    n = json.loads(out)["inputs"]
    evs = C.read_ndjson(tp)
    acc, rej, st, gen = C.validate_trace("Trace_Preprocess", "Trace_Preprocess.cfg", [("preprocess", evs)], os.path.join(ctx.work, "tprep"), timeout=1500)
    ctx.evaluations += n
    ctx.traces += n if acc else (rej[0]["index_in_case"] if rej else 0)
    ctx.nontrivial += sum(1 for e in evs if len(e["inp"]) >= 4 and len(e["out"]) not in (0, len(e["inp"])))   # main loop taken, some bytes dropped, some kept
    ctx.states += st
    ctx.transitions += gen
    ctx.sample({"preprocess_event": evs[-1]})
    for r in rej:
        ctx.violation("preprocess_%d" % r["index_in_case"], {"kind": "TRACE-Preprocess", "sig": {"module": "Preprocess", "kind": "trace"}, "rejected": {k: r[k] for k in ("event", "detail")}})
    ctx.checker_cmds.append("rvh trace-preprocess -> tlc Trace_Preprocess (%d inputs)" % n)


MODULES = {"bpq": run_bpq, "segbuf": run_segbuf, "bloom": run_bloom, "naming": run_naming, "preprocess": run_preprocess}


def run(ctx):
    C.build_harness()
    only = os.environ.get("EXT_ONLY")
    for name, fn in MODULES.items():
        if only and name != only:
            continue
        fn(ctx)
    ctx.exhaustive = True
    ctx.rule = ("per extension module: REPLAY = every TLC-generated behaviour of the bounded sequential model executed on the real object "
                "(non-trivial: contains at least one successful removal/lookup); TRACE = one concurrent or random execution of the real "
                "object validated by TLC (non-trivial: see the module's comment in checks/ext.py)")
    ctx.assumptions.append("extension modules are not tied to a listed property; a rejection here is reported as property=EXT")
