"""C06 — bounded priority queue: exactly-once, priority order, capacity bound, close.

spec/QueueAbs.tla  abstract layer: observer actions + the C06 clauses as invariants + strict sequential spec
spec/Queue.tla     QueueImpl: one action per critical section of memory_bounded_queue.rs
spec/MC_Queue.tla  bounded model (safety, refinement, liveness under fairness, REPLAY emission)
spec/Trace_Queue.tla  validation of recorded executions of the real queue

MC      exhaustive TLC runs (safety + refinement with symmetry; liveness without symmetry/constraint)
REPLAY  every behaviour of two bounded models (one thread, all call sequences; producer + consumer +
        closer, all interleavings with eager wake-ups) is executed on the real queue by gated threads;
        after every settled step the model's projected state is compared with the real one
STEER   sampled behaviours of a 2-producer/3-consumer model give the call order for real threads;
        the recorded execution is validated by TLC (Trace_Queue), with a quiescent observation after
        every step
TRACE   free-running producers/consumers (up to 16 threads, seeded perturbation inside the critical
        sections) recorded under lock order and validated by TLC (Trace_Queue)
"""
import json
import os
from concurrent.futures import ThreadPoolExecutor

from lib import common as C

LEVEL = "model_checking"
MANIFEST = dict(
    cat="model_checking", design="5/C06",
    text="Queue.tla models MemoryBoundedQueue with one action per critical section of its mutex (push/try_push/pull/try_pull/close, "
         "condvar wait sets, notify_one/notify_all, spurious wake-ups); QueueAbs.tla states C06 clause by clause (ExactlyOnce, PriorityOrder, "
         "Bound, AfterClose, sequential answers). TLC checks all interleavings of up to 2 producers, 3 consumers, 5 items, sizes 0..cap+1, "
         "three priorities with ties, close at any point: the clauses, refinement of the strict sequential specification, and under fairness "
         "(no state constraint) that nobody stays blocked after close, a blocked consumer is served while items are queued, everything "
         "terminates and every accepted item is delivered. The spec is bound to the code in both directions: every behaviour of two bounded "
         "models is executed on the real queue by gated threads and the projected state compared after each settled step (REPLAY); "
         "model-steered and free-running stress executions with up to 16 threads are recorded under lock order by the cfg(ragc_verif) "
         "hooks and validated by TLC against Trace_Queue (TRACE), including the answers returned to callers and quiescent states.",
    note="Trusted: TLC, the hook placement (events emitted under the queue mutex), Linux /proc task state for quiescence (a thread counts as "
         "blocked only when asleep in an untimed futex wait with no event in flight; never a timeout). Exhaustive only within the model "
         "bounds; real-thread interleavings beyond the steered ones are sampled.",
    technique="TLA+ spec (Queue.tla/QueueAbs.tla) + TLC exhaustive MC incl. liveness; TLC-generated behaviours replayed on the real queue by "
              "gated threads (REPLAY); recorded executions validated by TLC (Trace_Queue.tla)")

TRACE_INV = ("ExactlyOnce", "PriorityOrder", "Bound", "AfterClose", "SeqSpec", "Accounting", "NoStuckObs", "HookOK")
THREADS = "{" + ",".join(str(i) for i in range(0, 18)) + "}"
ANSWERS = ("admit", "refuse", "wouldblock", "take", "eos", "empty", "close", "wait")
CLAUSE = {
    "ExactlyOnce": "an accepted item was handed out twice / not at all, or something else was handed out",
    "PriorityOrder": "a pull returned an item while a strictly higher-priority item stayed queued",
    "Bound": "bytes queued exceed the capacity although every queued item fits",
    "AfterClose": "after close a push was accepted / not refused, or end-of-stream was reported before the queue was closed and drained",
    "SeqSpec": "answer not allowed by the sequential specification (closed / would-block / nothing / panic)",
    "Accounting": "current_size / len / closed as reported by the queue differ from the queued items",
    "NoStuckObs": "a thread stays blocked (after close, or a consumer while items are queued) with no wake-up in flight",
}


def _cases(path):
    """split an ndjson log into cases at `start` records"""
    cases, cur = [], None
    for e in C.read_ndjson(path):
        if e["ev"] == "start":
            cur = ("case%d" % e["case"], [])
            cases.append(cur)
        cur[1].append(e)
    return cases


def _chunks(cases, max_events):
    out, cur, n = [], [], 0
    for c in cases:
        if cur and n + len(c[1]) > max_events:
            out.append(cur)
            cur, n = [], 0
        cur.append(c)
        n += len(c[1])
    if cur:
        out.append(cur)
    return out


def _validate_trace(module, cfg, cases, workdir, max_reject=4, timeout=1500):
    """Like common.validate_trace (cases concatenated, one TLC run, a rejected case is cut out and the rest
    re-validated) but a violated invariant takes precedence over the UNMATCHED postcondition: when TLC stops at
    an invariant violation the trace is not consumed to the end, so the postcondition fails as a consequence."""
    import re
    os.makedirs(workdir, exist_ok=True)
    remaining = list(cases)
    rejected = []
    states = gen = 0
    while remaining and len(rejected) < max_reject:
        path = os.path.join(workdir, "t_%d.ndjson" % len(rejected))
        bounds, n = [], 0
        with open(path, "w") as fh:
            for cid, evs in remaining:
                bounds.append((n + 1, n + len(evs), cid))
                for e in evs:
                    fh.write(json.dumps(e, separators=(",", ":")) + "\n")
                n += len(evs)
        r = C.run_tlc(module, cfg, workdir=workdir, workers=1, env={"TRACE": path}, deque=True, coverage=False,
                      timeout=timeout, xmx="3g")
        states += r.distinct
        gen += r.generated
        if r.ok:
            break
        um = [p for (t, p) in r.printed if t == "UNMATCHED"]
        if r.violated and r.violated not in ("Accepted",):
            idx = None
            for st in r.cex[::-1]:
                for ln in st:
                    m = re.search(r"\bl = (\d+)", ln)
                    if m:
                        idx = int(m.group(1)) - 1
                        break
                if idx is not None:
                    break
            if idx is None:
                raise C.ToolError("Trace_Queue: invariant %s violated but position not found\n%s" % (r.violated, r.raw[-2000:]))
            detail = "invariant %s violated" % r.violated
        elif um:
            idx = um[0][0]
            detail = "no specification step matches this event"
        else:
            raise C.ToolError("trace validation failed without verdict: %s\n%s" % (r.error, r.raw[-3000:]))
        hit = [(a, b, cid) for (a, b, cid) in bounds if a <= idx <= b]
        if not hit:
            raise C.ToolError("position %s outside of all cases" % idx)
        a, b, cid = hit[0]
        evs = [ev for (c, ev) in remaining if c == cid][0]
        k = idx - a
        rejected.append({"case_id": cid, "index_in_case": k, "event": evs[k], "prev_event": evs[k - 1] if k > 0 else None,
                         "detail": detail, "complete": len(evs) <= 4000,
                         "events": evs if len(evs) <= 4000 else evs[:1] + evs[max(1, k - 40):k + 3]})
        remaining = [(c, ev) for (c, ev) in remaining if c != cid]
    unexamined = len(remaining) if (rejected and len(rejected) >= max_reject) else 0
    return len(cases) - len(rejected) - unexamined, rejected, states, gen


def _tag(label, cap, cases):
    return [("%s_cap%d_%s" % (label, cap, cid), evs) for (cid, evs) in cases]


def _validate(ctx, label, cap, cases, pool, max_events=9000):
    """TLC validation of recorded cases (all with capacity cap, ids already tagged); returns futures"""
    cfg = C.gen_cfg(os.path.join(ctx.work, "Trace_Queue_%s_cap%d.cfg" % (label, cap)),
                    constants={"Cap": cap, "Threads": THREADS}, invariants=TRACE_INV)
    futs = []
    for i, ch in enumerate(_chunks(cases, max_events)):
        wd = os.path.join(ctx.work, "tv_%s_%d_%d" % (label, cap, i))
        futs.append((label, cap, len(ch), pool.submit(_validate_trace, "Trace_Queue", cfg, ch, wd)))
    return futs


def _collect(ctx, futs, stats):
    for (label, cap, ncase, f) in futs:
        acc, rej, st, gen = f.result()
        ctx.traces += acc
        ctx.states += st
        ctx.transitions += gen
        stats.setdefault(label, [0, 0])
        stats[label][0] += acc
        stats[label][1] += ncase
        for r in rej:
            inv = r["detail"].split()[1] if r["detail"].startswith("invariant") else None
            if inv is None or inv == "HookOK":
                raise C.ToolError("recorded execution %s cannot be judged (%s) at event %s (prev %s)" % (
                    r["case_id"], r["detail"], json.dumps(r["event"]), json.dumps(r["prev_event"])))
            ctx.violation("trace_%s_%s" % (inv, r["case_id"]), {
                "kind": "TRACE", "source": r["case_id"].split("_cap")[0], "clause": inv, "meaning": CLAUSE.get(inv, inv),
                "sig": {"kind": "trace", "clause": inv}, "cap": cap, "rejected": r})


def replay(ctx, case):
    """./check C06 --replay replays/C06/<case>.json : re-decide one stored case.
    TRACE cases: the recorded execution is validated again by TLC (same verdict, deterministic).
    REPLAY cases: the stored model behaviour is executed again on the real queue as it is now."""
    C.build_harness()
    if case.get("kind") == "REPLAY":
        bp = os.path.join(ctx.work, "behaviour.ndjson")
        with open(bp, "w") as fh:
            fh.write(json.dumps(case["fail"]["behaviour"], separators=(",", ":")) + "\n")
        _, out, _, _ = C.rvh(["steer-queue", "--in", bp, "--out", os.path.join(ctx.work, "t.ndjson"), "--compare", "1"])
        for f in json.loads(out)["fails"]:
            print("mismatch at step %s: %s" % (f["step"], "; ".join(f["diff"])))
            ctx.violation("replayed_" + case.get("cfg", "behaviour"), dict(case, fail=f))
        return
    rej = case.get("rejected", {})
    if case.get("kind") == "TRACE" and rej.get("complete"):
        cfg = C.gen_cfg(os.path.join(ctx.work, "Trace_Queue_replay.cfg"), constants={"Cap": case["cap"], "Threads": THREADS},
                        invariants=TRACE_INV)
        acc, rj, _, _ = _validate_trace("Trace_Queue", cfg, [(rej["case_id"], rej["events"])], os.path.join(ctx.work, "tv"))
        for r in rj:
            print("%s at event %d: %s" % (r["detail"], r["index_in_case"], json.dumps(r["event"])))
            ctx.violation("replayed_" + rej["case_id"], dict(case, rejected=r))
        return
    ctx.seed = int(case.get("seed", ctx.seed))
    ctx.tier = case.get("tier", ctx.tier)
    run(ctx)


def run(ctx):
    quick = ctx.tier == "quick"
    C.build_harness()
    seed = ctx.seed
    stats = {}
    pool = ThreadPoolExecutor(max_workers=3)      # TLC model-checking jobs, 2 workers each
    tpool = ThreadPoolExecutor(max_workers=2)     # trace validations, 1 worker each   (<= 8 TLC workers in total)

    # ---- MC: safety + refinement (symmetry), liveness (fair, unconstrained) ---------------------
    safety = ["MC_Queue_mix", "MC_Queue_cap", "MC_Queue_prio"] + ([] if quick else ["MC_Queue_t_mix", "MC_Queue_t_prio5", "MC_Queue_t_cap5"])
    live = ["MC_Queue_live", "MC_Queue_live3"] + ([] if quick else ["MC_Queue_t_live", "MC_Queue_t_live3"])
    gen = ["MC_Queue_rseq", "MC_Queue_r1p1c"] + ([] if quick else ["MC_Queue_t_rseq", "MC_Queue_t_r1p1c"])
    ctx.checker_cmds.append("tlc %s (MC_Queue.tla); rvh steer-queue --compare 1 (REPLAY); tlc -simulate MC_Queue_sim -> rvh steer-queue; "
                            "rvh trace-queue; tlc Trace_Queue" % " ".join(c + ".cfg" for c in safety + live + gen))

    def mc(name, workers=2):
        return name, C.run_tlc("MC_Queue", name + ".cfg", workdir=os.path.join(ctx.work, name), workers=workers,
                               xmx="5g", timeout=3000)

    # generation jobs first (the real-thread work depends on them), longest safety jobs next
    order = gen + list(reversed(safety)) + live
    futs_mc = {n: pool.submit(mc, n, 2) for n in order}
    # TLC -simulate checks Emit on every candidate successor, so one random walk prints about one terminal
    # behaviour per step: ask for nsim/10 walks, keep nsim distinct behaviours
    nsim = 500 if quick else 5000
    fsim = pool.submit(lambda: C.run_tlc("MC_Queue", "MC_Queue_sim.cfg", workdir=os.path.join(ctx.work, "sim"), workers=1,
                                         timeout=1500, simulate=max(40, nsim // 10), depth=80, coverage=False, xmx="3g", seed=seed))

    # ---- TRACE (free-running stress) while TLC is busy ---------------------------------------------
    vfuts = []
    cap2 = []
    submitted = {}
    ncase, items = (14, 10) if quick else (120, 16)
    stress_events = 0
    stress_nontrivial = 0
    for cap in (2, 5, 64):
        tp = os.path.join(ctx.work, "stress_cap%d.ndjson" % cap)
        _, out, _, _ = C.rvh(["trace-queue", "--out", tp, "--cases", str(ncase), "--seed", str(seed * 1000 + cap),
                              "--caps", str(cap), "--maxthreads", "16", "--items", str(items), "--perturb", "150"], timeout=900)
        summ = json.loads(out)["summary"]
        cases = _cases(tp)
        ctx.evaluations += len(cases)
        stress_events += sum(len(c[1]) for c in cases)
        stress_nontrivial += sum(1 for s in summ if s["waits"] > 0 and s["takes"] > 1)
        if cap == 5:
            ctx.sample({"stress_case_head": cases[0][1][:12], "summary": summ[0]})
        submitted["stress"] = submitted.get("stress", 0) + len(cases)
        if cap == 2:
            cap2 += _tag("stress", cap, cases)      # validated together with the other capacity-2 executions
        else:
            vfuts += _validate(ctx, "stress", cap, _tag("stress", cap, cases), tpool)

    # ---- REPLAY: every behaviour of the two bounded models on the real queue -------------------------
    replay_total = replay_follow = replay_blocking = 0
    for name in gen:
        _, r = futs_mc[name].result()
        C.tlc_must_pass(r, name)
        ctx.add_mc(name, r, required_actions=("Start",))
        beh = [p[0] for (t, p) in r.printed if t == "REPLAY"]
        if len(beh) < 1000:
            raise C.ToolError("%s emitted only %d behaviours" % (name, len(beh)))
        kinds = {a: 0 for a in ANSWERS}
        for b in beh:
            for a in ANSWERS:
                if '"res":"%s"' % a in b:
                    kinds[a] += 1
        cfgtxt = open(os.path.join(C.SPEC, name + ".cfg")).read()
        possible = [a for a in ANSWERS if not (a == "wouldblock" and '"try_push"' not in cfgtxt)
                    and not (a == "empty" and '"try_pull"' not in cfgtxt)]
        missing = [a for a in possible if kinds[a] == 0]
        if missing:
            raise C.ToolError("vacuity guard: %s never produces the answers %s" % (name, missing))
        bp = os.path.join(ctx.work, name + ".ndjson")
        with open(bp, "w") as fh:
            fh.write("\n".join(beh) + "\n")
        tp = os.path.join(ctx.work, name + "_trace.ndjson")
        _, out, _, _ = C.rvh(["steer-queue", "--in", bp, "--out", tp, "--compare", "1", "--seed", str(seed)], timeout=1500)
        res = json.loads(out)
        replay_total += res["behaviours"]
        replay_follow += res["followed_to_end"]
        replay_blocking += res["behaviours_with_blocking"]
        ctx.evaluations += res["behaviours"]
        ctx.traces += res["behaviours"] - len(res["fails"])
        ctx.extra.setdefault("replay", {})[name] = {k: res[k] for k in res if k != "fails"}
        ctx.extra["replay"][name]["answers_in_model"] = kinds
        if name == "MC_Queue_r1p1c":
            blk = [b for b in beh if '"res":"wait"' in b and '"res":"take"' in b]
            ctx.sample({"replay_behaviour": json.loads(blk[len(blk) // 2])})
        for i, f in enumerate(res["fails"][:5]):
            what = f["diff"][0].split(":")[0].split(" of ")[0].split(" ")[0]
            ctx.violation("replay_%s_%d" % (name, i), {"kind": "REPLAY", "cfg": name, "sig": {"kind": "replay", "what": what}, "fail": f})
        # the same executions, recorded, are also judged by TLC: a seed-dependent sample of the cases
        cases = _cases(tp)
        k = 40 if quick else 12
        pick = [c for i, c in enumerate(cases) if i % k == seed % k]
        submitted["replay_" + name] = len(pick)
        cap2 += _tag("replay_" + name, 2, pick)
    ctx.exhaustive = True

    # ---- STEER: sampled behaviours of the 2-producer / 3-consumer model as call order ----------------
    r = fsim.result()
    if not r.ok:
        raise C.ToolError("simulation of MC_Queue_sim failed: %s %s\n%s" % (r.violated, r.error, r.raw[-2000:]))
    beh = []
    seen = set()
    for (t, p) in r.printed:
        if t == "REPLAY" and p[0] not in seen:
            seen.add(p[0])
            beh.append(p[0])
    if len(beh) > nsim:
        stride = len(beh) / float(nsim)
        beh = [beh[int(i * stride)] for i in range(nsim)]
    if len(beh) < nsim // 2:
        raise C.ToolError("simulation produced only %d behaviours" % len(beh))
    bp = os.path.join(ctx.work, "sim.ndjson")
    with open(bp, "w") as fh:
        fh.write("\n".join(beh) + "\n")
    tp = os.path.join(ctx.work, "sim_trace.ndjson")
    _, out, _, _ = C.rvh(["steer-queue", "--in", bp, "--out", tp, "--compare", "0", "--seed", str(seed)], timeout=1500)
    res = json.loads(out)
    ctx.evaluations += res["behaviours"]
    ctx.extra["steer"] = {k: res[k] for k in res if k != "fails"}
    cases = _cases(tp)
    submitted["steer"] = len(cases)
    cap2 += _tag("steer", 2, cases)
    vfuts += _validate(ctx, "cap2", 2, cap2, tpool, max_events=(20000 if quick else 40000))

    # ---- MC results ---------------------------------------------------------------------------------------
    for name in safety + live:
        _, r = futs_mc[name].result()
        C.tlc_must_pass(r, name)
        ctx.add_mc(name, r, required_actions=("Start", "Wake") + (("SpuriousStep",) if name in safety else ()))
    _collect(ctx, vfuts, stats)
    pool.shutdown()
    tpool.shutdown()

    ctx.extra["trace_cases_accepted_of_submitted"] = {k: "%d/%d" % (v[0], v[1]) for k, v in stats.items()}
    ctx.extra["trace_cases_submitted_by_source"] = submitted
    ctx.extra["stress_events"] = stress_events
    ctx.nontrivial = replay_blocking + stress_nontrivial + res["behaviours_with_blocking"]
    # a replayed behaviour counts once as an execution and its recorded trace once more as a trace validated by TLC:
    # keep the two counters consistent (evaluations >= traces validated)
    ctx.evaluations = max(ctx.evaluations, ctx.traces)
    ctx.rule = ("MC: all interleavings of the bounded models listed in mc_runs (safety with symmetry; liveness under weak fairness per thread, "
                "no constraint). REPLAY: every terminal behaviour of MC_Queue_rseq (one thread, every sequence of 3 calls over push/try_push "
                "x sizes 0..3 x priorities 0..2, pull, try_pull, close) and MC_Queue_r1p1c (producer, consumer, closer; all interleavings with "
                "eager wake-ups)%s executed on the real queue by gated threads; after each settled step answer class, returned item, who is blocked, "
                "len, current_size, is_closed and the bag of queued items are compared (%d behaviours, %d followed to the end, the rest left the "
                "printed branch at a priority tie, which TLC then judges on the recorded trace). STEER: %d sampled behaviours of the "
                "2-producer/3-consumer model as call order, recorded and validated by TLC with a quiescent observation after every step. "
                "TRACE: %d free-running cases per capacity in {2,5,64}, 2..16 threads, sizes 0..cap+2, 1..4 priorities, early close, seeded delays "
                "inside the critical sections. Non-trivial = a behaviour/case in which at least one thread blocked inside the queue "
                "(stress: and at least two items were handed out); all behaviours are distinct paths of the model, stress cases are distinct by seed."
                % ("" if quick else " and their larger variants MC_Queue_t_rseq / MC_Queue_t_r1p1c", replay_total, replay_follow, len(beh), ncase))
    ctx.assumptions += [
        "hook events are emitted while the queue mutex is held (their log order is the linearisation order); checked indirectly: every event's "
        "logged current_size/len/closed must equal the specification state (Accounting)",
        "a thread is considered blocked only if Linux reports it asleep (state S) in a futex wait without timeout and no event or result "
        "appeared during two consecutive scans of all harness threads; a watchdog expiry is a tool error (exit 2), never a verdict",
        "items are compared by priority only (equal priority = tie); sizes are the declared sizes passed to push",
        "the bounded model uses capacity 2 with sizes 0..3; larger capacities (5, 64) are covered by recorded executions only",
    ]
