"""C14 — a partially written archive is rejected cleanly (spec/Container.tla sink layer + CrashOutcome).
MC: the file is written front to back with the directory last (DiskIsPrefix), the complete image parses
back and no strict prefix of it does (bounded model).  Fault enumeration: EVERY strict prefix of several real
archives is opened with Archive::open and Decompressor::open (in-process, panics caught, largest single
allocation recorded) and, for a sample of offsets, with the real `ragc listset/getset`; the recorded
outcomes are validated by TLC against Trace_Container (the model predicts Err for every n < len)."""
import json
import os
import random
from concurrent.futures import ThreadPoolExecutor

from lib import common as C
from checks import c13

LEVEL = "fault_enumeration"
MANIFEST = dict(
    cat="fault_enumeration", design="5/C14",
    text="Container.tla models the buffered writer over the output file: bytes reach the disk front to back and the directory + "
         "8-byte length are last, so the crash states are exactly the strict prefixes of the final image (invariant DiskIsPrefix); on "
         "the bounded model the complete byte image parses back to the directory and no strict prefix does. For each of several real "
         "archives built with the streaming compressor (1-sample, multi-sample with LZ groups and a reverse-complemented contig, "
         "raw-group-only, 60-sample multi-batch, and a ~110 kB archive with a small directory whose last-byte truncation reads as a plausible directory length) every prefix length n in 0..len-1 is opened through Archive::open and "
         "Decompressor::open with panics caught and the largest single allocation recorded, plus `ragc listset/getset` on a sample "
         "of offsets; TLC validates every recorded outcome against Trace_Container, whose step for a crash state n < len admits only "
         "an error value (a container handle only if no sample is readable; never a panic or an allocation > file size + 1 MiB).",
    note="Release profile only (the dev-profile overflow panic is C18's subject). A hang would surface as a tool timeout (exit 2), never as a "
         "verdict. Archives are real, 0.7-5 kB plus one of ~110 kB; adversarial part contents that mimic a directory are outside the quantifier.",
    technique="TLA+ spec (Container.tla) + TLC MC of the write/crash model; exhaustive fault enumeration over all prefix lengths of real archives, outcomes validated by TLC (Trace_Container.tla)")


# glibc malloc tuning for the create children (see harness/src/container.rs run_limited): no effect on file I/O
MALLOC_ENV = {"MALLOC_MMAP_THRESHOLD_": "2147483648", "MALLOC_TRIM_THRESHOLD_": "4294967296", "MALLOC_TOP_PAD_": "268435456",
              "RUST_BACKTRACE": "0"}


def build_archives(ctx, kinds_seeds, jobs=4):
    """-> list of dict(name, kind, seed, dir, path, len, samples)"""
    def one(ks):
        kind, seed = ks
        name = "%s_s%d" % (kind, seed)
        d = os.path.join(ctx.work, "in_" + name)
        C.rvh(["mk-inputs", "--kind", kind, "--seed", str(seed), "--dir", d])
        path = os.path.join(ctx.work, name + ".agc")
        extra = ["--big"] if kind == "big" else (["--k", "21", "--seg", "1000000"] if kind == "mid" else [])
        rc, out, err, _ = C.rvh(["container-create", "--dir", d, "--out", path] + extra, check=False, timeout=1800, env=MALLOC_ENV)
        res = json.loads(out.strip().splitlines()[-1]) if out.strip() else {}
        if rc != 0 or res.get("result") != "ok":
            raise C.ToolError("building archive %s failed: rc=%s %s %s" % (name, rc, out[-300:], err[-300:]))
        samples = sorted(os.path.basename(f)[:-3] for f in os.listdir(d) if f.endswith(".fa"))
        return dict(name=name, kind=kind, seed=seed, dir=d, path=path, len=os.path.getsize(path), samples=samples)
    with ThreadPoolExecutor(max_workers=jobs) as ex:
        return list(ex.map(one, kinds_seeds))


def prefix_dir(ctx):
    """Where the prefix files live: tmpfs when available (lseek accepts any offset < 2^63 there, so a reader that
    seeks to a garbage position gets as far as its garbage-sized allocation; ext4 refuses offsets > 16 TB)."""
    import tempfile
    if getattr(ctx, "_pdir", None) is None:
        base = "/dev/shm" if os.path.isdir("/dev/shm") and os.access("/dev/shm", os.W_OK) else ctx.work
        ctx._pdir = tempfile.mkdtemp(prefix="verif_c14_", dir=base)
    return ctx._pdir


def truncate_events(ctx, a, lo, hi, tag):
    """all offsets lo..hi-1 (descending inside the harness); survives a child that dies on a garbage-sized allocation"""
    evp = os.path.join(ctx.work, "trunc_%s_%s.ndjson" % (a["name"], tag))
    open(evp, "w").close()
    extra = []
    top = hi
    restarts = 0
    while top > lo:
        rc, out, err, _ = C.rvh(["trace-truncate", "--archive", a["path"], "--from", str(lo), "--to", str(top), "--out", evp,
                                 "--tmp", prefix_dir(ctx)] + (["--compact"] if a["kind"] == "mid" else []), check=False, timeout=1500)
        if rc == 0:
            break
        done = C.read_ndjson(evp)
        last = min([e.get("n", e.get("lo")) for e in done] + [e["n"] for e in extra] + [top])
        died_at = last - 1
        if rc == 77 and "HUGEALLOC" in err:
            size = int(err.split("HUGEALLOC size=")[1].split()[0])
            extra.append({"ev": "open_prefix", "n": died_at, "len": a["len"], "a": "hugealloc", "d": "hugealloc", "streams": 0, "samples": 0,
                          "readable": 0, "huge": True, "maxalloc": min(size, 2 ** 31 - 1), "amsg": "allocation request of %d bytes" % size, "dmsg": ""})
        elif rc < 0 or rc in (134, 139):
            extra.append({"ev": "open_prefix", "n": died_at, "len": a["len"], "a": "abort", "d": "abort", "streams": 0, "samples": 0,
                          "readable": 0, "huge": False, "maxalloc": 0, "amsg": "process died rc=%s %s" % (rc, err[-200:]), "dmsg": ""})
        else:
            raise C.ToolError("trace-truncate failed rc=%s: %s" % (rc, err[-500:]))
        top = died_at
        restarts += 1
        if restarts > 40:
            break
    evs = C.read_ndjson(evp) + extra
    return sorted(evs, key=lambda e: -e.get("n", e.get("hi", 0)))


def run(ctx):
    quick = ctx.tier == "quick"
    C.build_harness()
    rnd = random.Random(ctx.seed)
    # ---- MC: write/crash model ---------------------------------------------------------------
    lim = "{" + ",".join(str(i) for i in range(0, 46)) + ",1000000}"
    cfg = c13.container_cfg(os.path.join(ctx.work, "MC_fault.cfg"), "fault", 4, 0, limits=lim, bufcap=4,
                            invs=("NoDupNames", "Layout", "RoundTrip", "DiskIsPrefix", "Reported"))
    cfg2 = c13.container_cfg(os.path.join(ctx.work, "MC_image.cfg"), "order", 4, 0,
                             invs=("Layout", "RoundTrip", "ImageReadable", "PrefixRejected"))

    def mc(x):
        return C.run_tlc("MC_Container", x, workdir=os.path.join(ctx.work, "mc_" + os.path.basename(x)), workers=3)
    # "mid": ~110 kB with a ~230-byte directory - the only kind where a crash state gets past the reader's first range check
    # (file >= 256 x directory) so that part bytes are parsed as a directory; enumerated completely in compact form
    kinds = ["tiny", "multi", "raw", "batch60", "mid"]
    seeds = [ctx.seed] if quick else [ctx.seed * 100 + i for i in range(5)]
    with ThreadPoolExecutor(max_workers=3) as ex:
        fut_arch = ex.submit(build_archives, ctx, [(k, s) for s in seeds for k in kinds], 4)
        r1, r2 = list(ex.map(mc, [cfg, cfg2]))
        archives = fut_arch.result()
    C.log("[C14] MC + %d archives built at %.0fs" % (len(archives), __import__("time").time() - ctx.t0))
    C.tlc_must_pass(r1, "MC_Container fault")
    C.tlc_must_pass(r2, "MC_Container image")
    ctx.add_mc("MC_Container_fault", r1, required_actions=("OpsFail", "FlushFail", "CloseFail", "CloseOk"))
    ctx.add_mc("MC_Container_image", r2, required_actions=("CloseOk",))
    ctx.checker_cmds.append("tlc MC_Container (fault: DiskIsPrefix/Reported; order4: ImageReadable/PrefixRejected); "
                            "rvh mk-inputs/create; rvh trace-truncate (all n); ragc listset/getset (sampled n); tlc Trace_Container")
    # ---- fault enumeration: all prefixes --------------------------------------------------------
    jobs = []
    for a in archives:
        nchunk = max(1, min(4, (a["len"] + 1) // 1200))
        step = (a["len"] + 1 + nchunk - 1) // nchunk
        for i in range(nchunk):
            jobs.append((a, i * step, min(a["len"] + 1, (i + 1) * step), "c%d" % i))
    per = {a["name"]: [] for a in archives}
    pdir = prefix_dir(ctx)
    try:
        with ThreadPoolExecutor(max_workers=8) as ex:
            for (a, lo, hi, tag), evs in zip(jobs, ex.map(lambda j: truncate_events(ctx, *j), jobs)):
                per[a["name"]] += evs
    finally:
        import shutil
        shutil.rmtree(pdir, ignore_errors=True)
    ctx.extra["prefix_files_on"] = "tmpfs (/dev/shm)" if pdir.startswith("/dev/shm") else "work directory"
    C.log("[C14] prefixes enumerated at %.0fs" % (__import__("time").time() - ctx.t0))
    # ---- the command line on a sample of crash states -----------------------------------------
    ragc = C.build_cli()
    ncli = 24 if quick else 40
    C.log("[C14] cli built at %.0fs" % (__import__("time").time() - ctx.t0))

    def cli(job):
        a, n = job
        p = os.path.join(ctx.work, "cli_%s_%d.agc" % (a["name"], n))
        with open(a["path"], "rb") as fh:
            data = fh.read()[:n]
        with open(p, "wb") as fh:
            fh.write(data)
        out = []
        for cmd, args in (("listset", [p]), ("getset", [p, a["cli_sample"]])):
            rc, so, se, _ = C.sh([ragc, cmd] + args, check=False, timeout=600, env={"RUST_BACKTRACE": "0"})
            out.append({"ev": "cli_prefix", "n": n, "cmd": cmd, "exit": rc, "panic": "panicked at" in se, "msg": (se.strip().splitlines() or [""])[0][:160]})
        os.remove(p)
        return a["name"], out
    cjobs = []
    for a in archives[:5]:
        rc, so, se, _ = C.sh([ragc, "listset", a["path"]], check=False, timeout=600)
        if rc != 0 or not so.split():
            raise C.ToolError("`ragc listset` on the complete archive %s failed: %s" % (a["name"], se[-300:]))
        a["cli_sample"] = so.split()[0]
        L = a["len"]
        ns = sorted(set([0, 1, 7, 8, 9, L - 1, L - 7, L - 8, L - 9, L // 2] + [rnd.randrange(0, L) for _ in range(ncli)]))[:ncli + 8]
        cjobs += [(a, n) for n in ns if 0 <= n < L] + [(a, L)]
    with ThreadPoolExecutor(max_workers=8) as ex:
        for name, out in ex.map(cli, cjobs):
            per[name] += out
    C.log("[C14] cli runs done at %.0fs" % (__import__("time").time() - ctx.t0))
    # ---- TLC validates every recorded outcome ---------------------------------------------------
    cases = []
    for a in archives:
        evs = per[a["name"]]
        nset = set(e["n"] for e in evs if e["ev"] == "open_prefix")
        nranged = 0
        for e in evs:
            if e["ev"] == "open_range":
                nset.update(range(e["lo"], e["hi"] + 1))
                nranged += e["hi"] - e["lo"] + 1
        if nset != set(range(0, a["len"] + 1)) or len(nset) != nranged + sum(1 for e in evs if e["ev"] == "open_prefix"):
            raise C.ToolError("prefix enumeration of %s incomplete or overlapping: %d of %d offsets" % (a["name"], len(nset), a["len"] + 1))
        full = [e for e in evs if e["ev"] == "open_prefix" and e["n"] == a["len"]][0]
        if not (full["a"] == "ok" and full["d"] == "ok" and full["samples"] == len(a["samples"]) == full["readable"]):
            raise C.ToolError("the complete archive %s does not open/extract: %s" % (a["name"], full))
        cases.append((a["name"], [{"ev": "archive", "name": a["name"], "len": a["len"]}] + evs))
    tcfg = C.gen_cfg(os.path.join(ctx.work, "Trace_Container.cfg"), constants={"BufCap": 4194304, "NoLimit": 2000000000})
    groups = [cases[i::4] for i in range(4) if cases[i::4]]
    with ThreadPoolExecutor(max_workers=4) as ex:
        res = list(ex.map(lambda ix: C.validate_trace("Trace_Container", tcfg, groups[ix], os.path.join(ctx.work, "tv%d" % ix),
                                                      max_reject=6, timeout=2400), range(len(groups))))
    classes = {}
    for ix, (acc, rej, st, gen) in enumerate(res):
        ctx.states += st
        ctx.transitions += gen
        # a rejected case is an archive with at least one bad offset; count accepted offsets of accepted archives
        bad = set(r["case_id"] for r in rej)
        for cid, evs in groups[ix]:
            n_ranged = sum(e["hi"] - e["lo"] for e in evs if e["ev"] == "open_range")      # a range record stands for hi-lo+1 opens
            ctx.evaluations += len(evs) - 1 + n_ranged
            if cid not in bad:
                ctx.traces += len(evs) - 1 + n_ranged
                ctx.nontrivial += sum(1 for e in evs if e["ev"] == "open_prefix" and 8 <= e["n"] < e["len"])
                ctx.nontrivial += sum(e["hi"] - max(e["lo"], 8) + 1 for e in evs if e["ev"] == "open_range" and e["hi"] >= 8)
            for e in evs:
                if e["ev"] == "open_prefix" and e["n"] < e["len"]:
                    k = e["a"] + ":" + e["amsg"][:48]
                    classes[k] = classes.get(k, 0) + 1
        for r in rej:
            ev = r["event"]
            sig = {"kind": ev.get("ev"), "a": ev.get("a"), "d": ev.get("d"), "huge": ev.get("huge"), "exit": ev.get("exit"), "panic": ev.get("panic")}
            arch = [a for a in archives if a["name"] == r["case_id"]][0]
            ctx.violation("%s_n%s" % (r["case_id"], ev.get("n")),
                          {"kind": "fault_enumeration", "archive": {k: arch[k] for k in ("name", "kind", "seed", "len")}, "offset": ev.get("n"),
                           "event": ev, "detail": r["detail"], "sig": {k: v for k, v in sig.items() if v is not None}})
    ctx.extra["outcome_classes"] = dict(sorted(classes.items(), key=lambda kv: -kv[1])[:12])
    ctx.extra["archives"] = [{k: a[k] for k in ("name", "len")} for a in archives]
    ctx.exhaustive = True
    ctx.sample({"archive": archives[1]["name"], "event": [e for e in per[archives[1]["name"]] if e["ev"] == "open_prefix"][3]})
    def gate_passing(path):
        b = open(path, "rb").read()
        return [n for n in range(8, len(b)) if int.from_bytes(b[n - 8:n], "little") <= n - 8]
    ctx.extra["crash_states_whose_trailing_8_bytes_read_as_a_plausible_directory_length"] = {a["name"]: gate_passing(a["path"])[:20] for a in archives}
    ctx.rule = ("one evaluation = one (archive, prefix length n) pair opened with Archive::open AND Decompressor::open (n in 0..len, the "
                "complete file as positive control) or one `ragc listset|getset` run on a sampled prefix; accepted = TLC matched the event "
                "with the model's CrashOutcome; non-trivial = distinct strict prefixes with n >= 8 (a footer length can be read)")
    ctx.assumptions += [
        "crash states of `ragc create` are prefixes of the final file: all file writes happen in finalize, front to back, directory last (model invariant DiskIsPrefix; see notes/C14.md)",
        "release profile; allocation requests are observed through the harness's counting global allocator (limit = file size + 1 MiB)",
        "an Archive::open that succeeds on a prefix is tolerated only if Decompressor::open fails and no sample is readable",
    ]
