"""C19 — extraction is invariant under how the input is presented (spec/Presentation.tla).
MC: the refinement chain records -> lines -> bytes -> container and the line-level reader are model-checked for all
bounded record lists x option combinations (Law: Abstract(Present(r, o)) = r; FeedLaw: what each file feeds to the
compressor does not depend on compression / wrapping / line ends / case);
REPLAY: the model's presented bytes of EVERY terminal state are given to the real reader, to the real create and
to the real Decompressor and compared with the model's records; archives of one SameBytesClass must have one sha256;
TRACE: generated sample sets, presented by TLC-generated option combinations and seeded random ones (widths up to
100000, many gzip members, cuts inside headers ...), created by the library call sequence of the CLI and by the real
`ragc` binary, listed and extracted by the real reader; all events validated by TLC against Trace_Presentation."""
import json
import os
import random
import time
from concurrent.futures import ThreadPoolExecutor

from lib import common as C

LEVEL = "model_checking"
MANIFEST = dict(
    cat="model_checking", design="5/C19",
    text="Presentation.tla defines a presentation of an abstract record list (sample, header, codes) as a refinement chain "
         "(per-sample files | one PanSN file -> lines wrapped at width w, upper / lower / mixed case -> bytes with LF | CR LF, "
         "optional final line end -> plain | gzip members cut at arbitrary offsets) and the reader (gzip by the .gz extension, "
         "members concatenated, line-level record reader, letter table, sample = sample#hap of a PanSN header else file stem "
         "minus .fa/.fasta[.gz]). TLC checks exhaustively for small record lists x widths {1,2,3,oo} x {LF,CRLF} x case x final "
         "EOL x file naming x container, with member cuts at EVERY byte position (all single cuts, all pairs incl. empty "
         "members, 1-byte members; inside a header, right after '>', between CR and LF), that Abstract(Present(r,o)) = r and "
         "that presentations differing only in compression / wrapping / line ends / case feed the compressor identically per "
         "file. Every terminal state's bytes are replayed on the real reader + create + Decompressor (records equal the "
         "model's, one sha256 per class). Real runs on generated sample sets (TLC-generated and random presentations, widths "
         "up to 100000, up to ~80 members, bgzip-style blocks; library call sequence and the real ragc binary with listset / "
         "getset) are validated by TLC: every extraction equals the abstract records (same sample list, identical contigs, "
         "also one PanSN file vs per-sample files) and creates of one class have one sha256 (single file: < 50 contigs).",
    note="Trusted: TLC; gzip itself (flate2 writer in the harness, decoder in ragc) - a member is its payload in the model; the "
         "harness presenter for the big inputs (compared byte for byte with the model's Present on every replayed state); "
         "sequence contents of big inputs are compared by sha256 digests computed by the harness. Threads are fixed per sample "
         "set (C04 covers thread independence). Exhaustive only within the stated bounds; large widths / many members by seeded sampling.",
    technique="TLA+ spec (Presentation.tla) + TLC exhaustive MC of the bounded option space; TLC-generated presentations replayed on the "
              "real reader/create/Decompressor; recorded real runs (library + ragc binary) validated by TLC (Trace_Presentation.tla)")

ENV = C.REUSE_HEAP_ENV
OPT_FIELDS = ("layout", "fname", "stemext", "width", "crlf", "case", "finalnl", "container")


# ---------------------------------------------------------------------------------------------
# sample sets of the TRACE direction
# ---------------------------------------------------------------------------------------------
def sample_sets(ctx):
    q = ctx.tier == "quick"
    base = [
        # id, kind, samples, chroms, len, pansn, threads, (k, seg, mm), nrandom, ntlc, cli_every (0 = no CLI run)
        ("pansn_basic", "basic", 3, 2, 1500, True, 1, (11, 100, 15), 10, 12, 9),
        ("plain_basic", "basic", 3, 2, 1500, False, 1, (11, 100, 15), 8, 8, 9),
        ("pansn_short", "short", 2, 2, 600, True, 4, (11, 80, 15), 8, 6, 0),
        ("plain_iupac", "iupac", 3, 2, 1200, False, 1, (9, 60, 12), 8, 6, 0),
        ("pansn_rc", "rc", 4, 3, 900, True, 4, (13, 150, 18), 8, 6, 0),
        ("pansn_long", "basic", 2, 1, 140000, True, 4, (15, 1000, 20), 6, 0, 0),          # --wide: lines of 4000..100000 letters
        ("plain_sweep", "basic", 1, 1, 140000, False, 1, (15, 1000, 20), 0, 0, 0),         # --sweep: line lengths around 2^6..2^16
        ("pansn_many", "manysamples", 30, 2, 200, True, 1, (9, 50, 15), 6, 4, 0),   # 60 contigs: single file is content-only
        ("plain_reorder", "reorder", 4, 3, 700, False, 4, (11, 100, 15), 8, 6, 0),
    ]
    sets = []
    for i, b in enumerate(base):
        reps = 1 if q else (2 if b[0] in ("pansn_long", "pansn_many", "plain_sweep") else 3)
        for rep in range(reps):
            d = dict(zip(("id", "kind", "samples", "chroms", "len", "pansn", "threads", "params", "nrandom", "ntlc", "cli_every"), b))
            d["id"] = "%s_%d" % (b[0], rep)
            d["seed"] = ctx.seed * 1000 + 10 * i + rep
            if not q:
                d["nrandom"] = d["nrandom"] * 2 + (4 if d["nrandom"] else 0)
                d["ntlc"] = d["ntlc"] * 2
                d["cli_every"] = 7 if rep == 0 else 0
                if b[0] == "pansn_long" and rep == 1:
                    d["len"] = 260000
            sets.append(d)
    return sets


def run_set(ctx, s, tlc_opts, cli):
    d = os.path.join(ctx.work, "set_" + s["id"])
    os.makedirs(d, exist_ok=True)
    rnd = random.Random(s["seed"])
    optf = os.path.join(d, "tlc_opts.ndjson")
    chosen = rnd.sample(tlc_opts, min(s["ntlc"], len(tlc_opts))) if s["ntlc"] else []
    with open(optf, "w") as fh:
        for o in chosen:
            fh.write(o + "\n")
    out = os.path.join(d, "events.ndjson")
    k, seg, mm = s["params"]
    args = ["trace-present", "--dir", os.path.join(d, "files"), "--id", s["id"], "--seed", str(s["seed"]), "--kind", s["kind"],
            "--samples", str(s["samples"]), "--chroms", str(s["chroms"]), "--len", str(s["len"]), "--nrandom", str(s["nrandom"]),
            "--threads", str(s["threads"]), "--k", str(k), "--seg", str(seg), "--mm", str(mm), "--opts", optf, "--out", out, "--jobs", "1"]
    if s["pansn"]:
        args.append("--pansn")
    if s["id"].startswith("pansn_long"):
        args.append("--wide")
    if s["id"].startswith("plain_sweep"):
        args.append("--sweep")
    if s["cli_every"]:
        args += ["--ragc", cli, "--cli-every", str(s["cli_every"])]
    t0 = time.time()
    _, o, _, _ = C.rvh(args, env=ENV, timeout=3000)
    info = json.loads(o.strip().splitlines()[-1])
    info["wall"] = time.time() - t0
    return s, info, C.read_ndjson(out)


def cases_of(s, evs):
    """One case per presentation: [input] + the events of the base presentation of the same layout + its own events.
    (Pure regrouping of the recorded events; every judgement is made by TLC on the case.)"""
    inp = evs[0]
    blocks, cur = [], None
    for e in evs[1:]:
        if e["ev"] == "present":
            cur = [e]
            blocks.append(cur)
        else:
            cur.append(e)
    base = {}
    first = {}     # first presentation of every (layout, file naming, extension) combination: the partner for the sha256 comparison
    for b in blocks:
        o = b[0]["opt"]
        if b[0]["src"] == "base":
            base[o["layout"]] = b
        first.setdefault((o["layout"], o["fname"], json.dumps(o["stemext"])), b)
    cases = []
    for b in blocks:
        p = b[0]
        o = p["opt"]
        bb = base[o["layout"]]
        ff = first[(o["layout"], o["fname"], json.dumps(o["stemext"]))]
        evl = [inp] + (bb if bb is not b else []) + (ff if ff is not b and ff is not bb else []) + b
        cases.append(("%s_p%d" % (s["id"], p["pid"]), evl, p, bb[0]))
    # per-sample files vs one PanSN file: one case with both base presentations (content equality of the two layouts)
    if len(base) == 2:
        cases.append(("%s_layouts" % s["id"], [inp] + base["per_sample"] + base["single"], base["single"][0], base["per_sample"][0]))
    return cases


def dims(p, b):
    return "+".join(f for f in OPT_FIELDS if p["opt"][f] != b["opt"][f]) or "same"


def classify(rej):
    e = rej["event"]
    if e["ev"] == "create":
        return "create-outcome" if e["result"] != "ok" else "sha256"
    if e["ev"] == "extract":
        return "content"
    return e["ev"]


# ---------------------------------------------------------------------------------------------
def mc_family(ctx, fam, level):
    cfg = "MC_Presentation_%s%s.cfg" % (fam, "" if level == 1 else "_full")
    r = C.run_tlc("MC_Presentation", cfg, workdir=ctx.work, workers=4, xmx="4g", timeout=3000)
    C.tlc_must_pass(r, cfg)
    beh = [p[0] for (t, p) in r.printed if t == "REPLAY"]
    if not beh:
        raise C.ToolError("no terminal states emitted by %s" % cfg)
    return fam, cfg, r, beh


def replay_chunks(ctx, fam, beh, nchunks, create_mod):
    """Lines of one (record list, SameBytesClass) go to the same process (the sha256 comparison is made there)."""
    groups = {}
    for line in beh:
        v = json.loads(line)
        groups.setdefault(json.dumps([v["recs"], v["key"]]), []).append(line)
    chunks = [[] for _ in range(nchunks)]
    for i, (k, ls) in enumerate(sorted(groups.items(), key=lambda kv: -len(kv[1]))):
        min(chunks, key=len).extend(ls)
    jobs = []
    for i, ch in enumerate(chunks):
        if not ch:
            continue
        p = os.path.join(ctx.work, "replay_%s_%d.ndjson" % (fam, i))
        with open(p, "w") as fh:
            fh.write("\n".join(ch) + "\n")
        jobs.append((fam, i, p, len(ch), create_mod))
    return jobs


def run_replay(ctx, job):
    fam, i, path, n, create_mod = job
    _, out, _, _ = C.rvh(["replay-present", "--in", path, "--dir", os.path.join(ctx.work, "rp_%s_%d" % (fam, i)), "--jobs", "1",
                          "--create-mod", str(create_mod)], env=ENV, timeout=3000)
    return fam, json.loads(out.strip().splitlines()[-1])


def selftest_trace(ctx, cfg, case):
    """negative controls of the trace spec: a changed sha256 within a class / a changed contig digest must be rejected"""
    cid, evl = case
    creates = [i for i, e in enumerate(evl) if e["ev"] == "create" and e["result"] == "ok"]
    extracts = [i for i, e in enumerate(evl) if e["ev"] == "extract" and e["contigs"]]
    if len(creates) < 2 or not extracts:
        raise C.ToolError("trace self-test: case %s has no two creates / no extraction" % cid)
    bad1 = json.loads(json.dumps(evl))
    bad1[creates[-1]]["sha256"] = "0" * 64
    bad2 = json.loads(json.dumps(evl))
    bad2[extracts[-1]]["contigs"][-1]["dig"] = "0" * 24
    for tag, bad, kind in (("sha", bad1, "create"), ("dig", bad2, "extract")):
        acc, rej, _, _ = C.validate_trace("Trace_Presentation", cfg, [("selftest_" + tag, bad)], os.path.join(ctx.work, "tv_self_" + tag))
        if acc != 0 or not rej or rej[0]["event"]["ev"] != kind:
            raise C.ToolError("trace self-test: a corrupted %s was accepted by Trace_Presentation" % tag)


def run(ctx):
    quick = ctx.tier == "quick"
    level = 1 if quick else 2
    C.build_harness()
    cli = C.build_cli()
    ctx.checker_cmds.append("tlc MC_Presentation_{opts,cuts}%s.cfg MC_Presentation.tla; rvh replay-present; rvh trace-present (lib + ragc binary); "
                            "tlc Trace_Presentation.tla" % ("" if quick else "_full"))
    # ---- MC ------------------------------------------------------------------------------------------
    t0 = time.time()
    with ThreadPoolExecutor(max_workers=2) as ex:
        mcs = list(ex.map(lambda f: mc_family(ctx, f, level), ["opts", "cuts"]))
    required = ("DoGroup", "DoWrap", "DoEncode", "DoPack", "ROpen", "RHeader", "RSeqLine", "REndFile")
    tlc_opts = []
    jobs = []
    nbeh = 0
    for fam, cfg, r, beh in mcs:
        ctx.add_mc(cfg[:-4], r, required_actions=required)
        nbeh += len(beh)
        if fam == "opts":
            tlc_opts = sorted({json.dumps(json.loads(b)["opt"], sort_keys=True) for b in beh})
        jobs += replay_chunks(ctx, fam, beh, 3, 3 if quick else 1)
    C.log("[C19] MC: %d terminal states in %.0fs" % (nbeh, time.time() - t0))
    ctx.exhaustive = True
    # ---- REPLAY (model bytes on the real code) + TRACE runs, 8 processes ----------------------------------
    t0 = time.time()
    sets = sample_sets(ctx)
    ex = ThreadPoolExecutor(max_workers=8)
    fs = [ex.submit(run_set, ctx, s, tlc_opts, cli) for s in sets]
    fr = [ex.submit(run_replay, ctx, j) for j in jobs]
    runs = [f.result() for f in fs]
    C.log("[C19] %d sample sets on the real code: %.0fs" % (len(sets), time.time() - t0))
    # the trace validation of the sets starts while the replay of the model states is still running
    cfg = C.gen_cfg(os.path.join(ctx.work, "Trace_Presentation.cfg"), constants={"PackCard": 50})
    all_cases = []
    meta = {}
    for s, info, evs in runs:
        if not evs or evs[0]["ev"] != "input":
            raise C.ToolError("set %s: no input event" % s["id"])
        for via in ("lib", "cli"):
            first = [e for e in evs if e["ev"] == "create" and e["via"] == via][:1]
            if first and first[0]["result"] != "ok":
                # the plain base presentation cannot be created: nothing can be compared (not a C19 verdict)
                raise C.ToolError("vacuity guard: the base presentation of %s cannot be created (%s): %s" % (s["id"], via, first[0]["msg"]))
        for cid, evl, p, b in cases_of(s, evs):
            all_cases.append((cid, evl))
            meta[cid] = (s, p, b)
    NG = 3
    groups = [all_cases[i::NG] for i in range(NG)]

    def val(i):
        return C.validate_trace("Trace_Presentation", cfg, groups[i], os.path.join(ctx.work, "tv_%d" % i), tag="t%d" % i, max_reject=6,
                                timeout=2400)

    tv0 = time.time()
    fv = [ex.submit(val, i) for i in range(NG)]
    replays = [f.result() for f in fr]
    C.log("[C19] replay of %d model states on the real code: %.0fs" % (nbeh, time.time() - t0))
    rp = {"behaviours": 0, "steps": 0, "creates": 0, "sha_classes": 0, "presenter_agree": 0, "nfail": 0}
    cutk = {}
    nviol = {}
    for fam, res in replays:
        if res["tool_errors"]:
            raise C.ToolError("replay-present (%s): %s" % (fam, res["tool_errors"][:3]))
        for k in rp:
            rp[k] += res[k]
        for k, v in res["cut_kinds"].items():
            cutk[k] = cutk.get(k, 0) + v
        for f in res["fails"]:
            o = f["opt"]
            sig = {"dir": "replay", "kind": f["kind"], "layout": o["layout"], "container": o["container"], "crlf": o["crlf"], "case": o["case"]}
            key = f["kind"]
            nviol[key] = nviol.get(key, 0) + 1
            if nviol[key] <= 3:      # at most 3 replay files per kind of failure (all are counted in the evidence)
                ctx.violation("replay_%s_%s_%d" % (fam, f["kind"], f["behaviour"]), {"kind": "REPLAY-" + f["kind"], "sig": sig, "fail": f})
    if rp["presenter_agree"] != rp["behaviours"]:
        raise C.ToolError("the harness presenter disagrees with the model's Present on %d states" % (rp["behaviours"] - rp["presenter_agree"]))
    ctx.traces += rp["behaviours"] - rp["nfail"]
    ctx.evaluations += rp["steps"]
    for need in ("in_header", "after_gt", "in_seq", "cr_lf", "start", "end", "line_start"):
        if cutk.get(need, 0) == 0:
            raise C.ToolError("vacuity guard: no replayed member cut of kind %s" % need)
    # ---- TRACE validation -------------------------------------------------------------------------------
    vals = [f.result() for f in fv]
    ex.shutdown()
    t0 = tv0
    rejected = []
    for acc, rej, st, gen in vals:
        ctx.states += st
        ctx.transitions += gen
        rejected += rej
    rej_ids = {r["case_id"] for r in rejected}
    # negative controls on an ACCEPTED case whose presentation is in the SameBytesClass of its base (two comparable creates)
    st_case = next((c for c in all_cases if c[0] not in rej_ids and not c[0].endswith("_layouts") and meta[c[0]][1]["src"] != "base"
                    and all(meta[c[0]][1]["opt"][f] == meta[c[0]][2]["opt"][f] for f in ("layout", "fname", "stemext"))
                    and (meta[c[0]][1]["opt"]["layout"] == "per_sample" or c[1][0]["ncontigs"] < 50)), None)
    if not rejected:         # (with rejections the verdict is exit 1 anyway; cases after the rejection limit were not examined)
        if st_case is None:
            raise C.ToolError("trace self-test: no presentation in the class of its base")
        selftest_trace(ctx, cfg, st_case)
    C.log("[C19] trace validation of %d cases: %.0fs" % (len(all_cases), time.time() - t0))
    ntr = {}
    for r in rejected:
        s, p, b = meta[r["case_id"]]
        kind = classify(r)
        # the presentation whose event was rejected (the case also holds its partners)
        evl = dict(all_cases)[r["case_id"]]
        p = [e for e in evl[:r["index_in_case"] + 1] if e["ev"] == "present"][-1] if kind not in ("present", "input") else p
        if kind == "present" or kind == "input":
            raise C.ToolError("the harness wrote a presentation outside the property's domain: %s" % json.dumps(r["event"])[:600])
        sig = {"dir": "trace", "kind": kind, "via": r["event"].get("via"), "dims": dims(p, b),
               "layout": p["opt"]["layout"], "pansn": bool(s["pansn"])}
        key = json.dumps(sig, sort_keys=True)
        ntr[key] = ntr.get(key, 0) + 1
        if ntr[key] > 1 and len(ntr) + sum(ntr.values()) > 24:
            continue     # enough replay files; every rejected case is in the evidence counters
        ctx.violation("trace_%s" % r["case_id"], {"kind": "TRACE-" + kind, "sig": sig, "set": s, "presentation": p, "base": b,
                                                   "detail": r["detail"], "event": r["event"] if len(json.dumps(r["event"])) < 20000 else "(large)",
                                                   "prev_event": r["prev_event"] if r["prev_event"] and len(json.dumps(r["prev_event"])) < 20000 else None})
    # ---- evidence: measured non-triviality --------------------------------------------------------------
    acc_cases = [c for c in all_cases if c[0] not in rej_ids]
    ctx.traces += len(acc_cases)
    ctx.evaluations += len(all_cases)
    m = dict(presentations=0, per_input_min=10 ** 9, per_input_max=0, cut_in_header=0, cut_after_gt=0, cut_cr_lf=0, crlf=0, width1=0,
             width_ge_10000=0, lower=0, mixed=0, gz_single=0, gz_ge3_members=0, gz_ge20_members=0, empty_members=0, bgzf=0,
             no_final_eol=0, other_names=0, subdirs=0, pansn_vs_per_sample_pairs=0, cli_creates=0, cli_extracts=0,
             single_ge_packcard_content_only=0, tlc_generated=0, sweep=0, max_line=0, sha_classes_all_equal=0)
    per_input = {}
    for cid, evl in acc_cases:
        s, p, b = meta[cid]
        if cid.endswith("_layouts"):
            m["pansn_vs_per_sample_pairs"] += 1
            continue
        per_input[s["id"]] = per_input.get(s["id"], 0) + 1
        o = p["opt"]
        m["presentations"] += 1
        ck = p["cutkinds"]
        m["cut_in_header"] += 1 if ck.get("in_header") else 0
        m["cut_after_gt"] += 1 if ck.get("after_gt") else 0
        m["cut_cr_lf"] += 1 if ck.get("cr_lf") else 0
        m["crlf"] += 1 if o["crlf"] else 0
        m["width1"] += 1 if o["width"] == 1 else 0
        m["width_ge_10000"] += 1 if o["width"] >= 10000 and p["max_line"] >= 10000 else 0
        m["lower"] += 1 if o["case"] == "lower" else 0
        m["mixed"] += 1 if o["case"] == "mixed" else 0
        m["gz_single"] += 1 if o["container"] == "gz" and p["max_members"] == 1 else 0
        m["gz_ge3_members"] += 1 if p["max_members"] >= 3 else 0
        m["gz_ge20_members"] += 1 if p["max_members"] >= 20 else 0
        m["empty_members"] += 1 if p["empty_members"] else 0
        m["bgzf"] += 1 if p["bgzf"] else 0
        m["no_final_eol"] += 1 if not o["finalnl"] else 0
        m["other_names"] += 1 if o["fname"] == "other" else 0
        m["subdirs"] += 1 if p["subdirs"] else 0
        m["tlc_generated"] += 1 if p["src"] == "tlc" else 0
        m["sweep"] += 1 if p["src"] == "sweep" else 0
        m["max_line"] = max(m["max_line"], p["max_line"])
        if o["layout"] == "single" and evl[0]["ncontigs"] >= 50:
            m["single_ge_packcard_content_only"] += 1
    for s, info, evs in runs:
        m["cli_creates"] += sum(1 for e in evs if e["ev"] == "create" and e["via"] == "cli")
        m["cli_extracts"] += sum(1 for e in evs if e["ev"] == "extract" and e["via"] == "cli")
        shas = {e["sha256"] for e in evs if e["ev"] == "create" and e["result"] == "ok"}
        m["sha_classes_all_equal"] += 1 if len(shas) == 1 else 0
    if per_input:
        m["per_input_min"] = min(per_input.values())
        m["per_input_max"] = max(per_input.values())
    ctx.extra["measured"] = m
    ctx.extra["replay"] = dict(rp, cut_kinds=cutk, fails_by_kind=nviol)
    ctx.extra["trace_rejected"] = len(rejected)
    ctx.extra["sets"] = [{"id": s["id"], "records": info["records"], "bases": info["bases"], "longest": info["longest"],
                          "presentations": info["presentations"], "threads": s["threads"], "wall_s": round(info["wall"], 1)} for s, info, _ in runs]
    if not ctx.violations:
        for need in ("cut_in_header", "cut_after_gt", "crlf", "width1", "lower", "mixed", "gz_ge3_members", "pansn_vs_per_sample_pairs",
                     "gz_single", "empty_members", "cli_creates", "width_ge_10000", "sweep"):
            if m[need] == 0:
                raise C.ToolError("vacuity guard: no accepted presentation of class %s" % need)
    # distinct non-trivial cases: accepted presentations that differ from the base of their layout, the layout pairs,
    # and the replayed model states that went through create
    ctx.nontrivial = sum(1 for cid, evl in acc_cases if not cid.endswith("_layouts") and dims(meta[cid][1], meta[cid][2]) != "same") \
        + m["pansn_vs_per_sample_pairs"] + (rp["creates"] if rp["nfail"] == 0 else 0)
    ctx.rule = ("REPLAY: one case = one terminal state of MC_Presentation (record list x option combination; %d states, every one "
                "through the real reader, %d through create + Decompressor, %d sha256 classes). TRACE: one case = one presentation of "
                "one generated sample set validated together with the base presentation (plain, width 60, LF, upper) of the same layout; "
                "non-trivial = accepted and different from that base in >= 1 option, plus one case per PanSN set comparing one PanSN file "
                "with per-sample files. Distinct presentations per input: %d..%d. Accepted presentations with: a member cut inside a "
                "header %d, right after '>' %d, between CR and LF %d; CRLF %d; width 1 %d; width >= 10000 with such lines %d (longest line "
                "%d); lower %d; mixed %d; gz single member %d; >= 3 members %d; >= 20 members %d; empty members %d; bgzip-style %d; no final "
                "EOL %d; arbitrary file names %d; PanSN-vs-per-sample pairs %d; via the ragc binary %d creates / %d extractions; line lengths 2^n-2..2^n+1 "
                "(n = 6..16) swept: %d." % (
                    rp["behaviours"], rp["creates"], rp["sha_classes"], m["per_input_min"], m["per_input_max"], m["cut_in_header"],
                    m["cut_after_gt"], m["cut_cr_lf"], m["crlf"], m["width1"], m["width_ge_10000"], m["max_line"], m["lower"], m["mixed"],
                    m["gz_single"], m["gz_ge3_members"], m["gz_ge20_members"], m["empty_members"], m["bgzf"], m["no_final_eol"],
                    m["other_names"], m["pansn_vs_per_sample_pairs"], m["cli_creates"], m["cli_extracts"], m["sweep"]))
    for cid, evl in acc_cases[:400]:
        s, p, b = meta[cid]
        if p["max_members"] >= 3 and p["cutkinds"].get("in_header"):
            ctx.sample({"case": cid, "opt": p["opt"], "files": [bytes(f["name"]).decode() for f in p["files"]][:3],
                        "members": p["max_members"], "cutkinds": p["cutkinds"],
                        "sha256": [e["sha256"] for e in evl if e["ev"] == "create"][-1]}, cap=3)
    ctx.assumptions += ["gzip (deflate, CRC) is not modelled: a member is its payload; the harness writes members with flate2 at levels 0/1/6/9",
                        "sequence contents of the generated sets are compared through sha256 digests of the code sequences",
                        "threads are fixed per sample set; byte identity is compared only between creates made the same way (library / binary)",
                        "byte identity is required within a layout only (per-sample files vs one PanSN file: same sample list and contigs)"]
