"""C03 -- sample and contig catalogue is preserved exactly (spec/Collection.tla, CollectionOps.tla).

MC     MC_CollNames / MC_CollDesc: the name-delta codec and the descriptor codec (5 streams, zigzag with
       prediction, in-group-id predictor) exhaustively over bounded name lists / tables; MC_Collection: the
       catalogue life cycle (register, place, store in batches of Pack, open, lazy loading passes, cursor).
REPLAY every maximal behaviour of the codec models through the REAL private serialisers (cfg-guarded
       wrappers): real encode -> real decode = input, real decode of the model's canonical bytes = input;
       real bytes that differ from the model's are decided by TLC (spec decoder), never by byte equality.
       A seeded sample of life-cycle behaviours runs through real Archive files (store_contig_batch /
       load_contig_batch, real cursor), compared after every step.
TRACE  random / adversarial catalogues (1..128 samples, several 50-sample batches, printable-ASCII names with
       runs > 100, empty fields, tabs, shared field subsets; ids that repeat / go back / are 0 / jump) through the
       wrappers, through Archive files, through Decompressor::{list_samples, list_contigs, get_all_segments}
       and through StreamingQueueCompressor::push/finalize; each recorded execution is validated by TLC
       against Trace_Collection (which reuses the actions of Collection.tla): the specification's decoder must
       read the catalogue as added from the REAL stored bytes, and every real answer must equal the
       specification's."""
import json
import os
import random
import re
import time
from concurrent.futures import ThreadPoolExecutor

from lib import common as C

LEVEL = "model_checking"
MANIFEST = dict(
    cat="model_checking", design="5/C03",
    text="Collection.tla models the catalogue (samples in first-registration order, contig names = whole header line in "
         "input order, descriptor rows) and its life cycle: batches of Pack samples on write, lazy loading passes with the "
         "cumulative sample cursor on read. CollectionOps.tla is the reference semantics of the collection format on byte "
         "sequences (prefix varint, name delta codec with same-field marker / run markers capped at 100, 5-stream "
         "descriptor table with zigzag prediction and the per-group in-group-id predictor with the C++-matching update "
         "rule). TLC checks the codec laws and the life-cycle invariants exhaustively on bounded domains; every maximal "
         "behaviour of the codec models is replayed through the real private serialisers, a seeded sample of life-cycle "
         "behaviours through real Archive files; random/adversarial catalogues (up to 128 samples = 3 batches of 50) are "
         "driven through wrappers, Archive files, the Decompressor and the streaming compressor and every recorded "
         "execution is validated by TLC against Trace_Collection.",
    note="Trusted: TLC, ZSTD and the container as identity (C12/C13 decide those), the harness projections "
         "(String<->bytes, SegmentDesc<->row, reading stored parts back). Domain: printable ASCII + tab names, distinct "
         "within a sample, values < 2^31, group ids <= 100000. Encoder choices are not prescribed: real bytes are "
         "judged by the specification's decoder.",
    technique="TLA+ spec (Collection.tla + CollectionOps.tla) + TLC exhaustive MC; TLC-generated behaviours replayed on the "
              "real code; recorded traces validated by TLC (Trace_Collection.tla)")

TRACE_INV = ("SamplesPreserved", "CataloguePreserved")
# number of maximal behaviours each bounded model must print (a lost REPLAY line is a tool error)
EXPECT = {"MC_CollNames_short2q": 30 * 29 * 28, "MC_CollNames_short2": 42 * 41 * 40, "MC_CollNames_short2t": 56 * 55 * 54,
          "MC_CollNames_short3": 39 * 38 * 37, "MC_CollNames_long": 30 * 29,
          "MC_CollDesc_ids2q": 10 ** 4, "MC_CollDesc_ids": 15 ** 4, "MC_CollDesc_ids5": 10 ** 5,
          "MC_CollDesc_lensq": 24 ** 3, "MC_CollDesc_lens": 32 ** 3, "MC_CollDesc_big": 20 ** 3,
          "MC_Collection_p1": 2 * 12 ** 3, "MC_Collection_p2": 2 * 12 ** 3, "MC_Collection_p1t": 2 * 12 ** 4}


def _nontrivial_case(evs):
    """measured on the recorded events: the delta / prediction / multi-batch machinery was really used"""
    for e in evs:
        k = e.get("ev")
        if k == "names" and any(x >= 128 for x in e["buf"]):
            return True
        if k == "details":
            gs = [r["g"] for sm in e["table"] for ct in sm for r in ct]
            if len(gs) != len(set(gs)):
                return True
        if k == "samples" and len(e["list"]) >= 2:
            return True
        if k == "store_batch" and (e["b"] >= 1 or any(x >= 128 for x in e["names"])):
            return True
    return False


def _cases_of(evs):
    cases, cur = [], None
    for e in evs:
        if e["ev"] == "start":
            cur = (e["case"], e["pack"], [])
            cases.append(cur)
        cur[2].append(e)
    return cases


def _validate(ctx, name, pack, cases, kind):
    """cases: list of (case_id, events). One TLC run of Trace_Collection with Pack = pack."""
    cfg = C.gen_cfg(os.path.join(ctx.work, "Trace_Collection_%s.cfg" % name),
                    constants={"Pack": pack, "RunCap": 100}, invariants=TRACE_INV)
    t0 = time.time()
    acc, rej, st, gen = C.validate_trace("Trace_Collection", cfg, cases, os.path.join(ctx.work, "tv_" + name),
                                         timeout=1500, xmx="4g",
                                         env={"JAVA_TOOL_OPTIONS": "-Xss1g -Dtlc2.tool.queue.IStateQueue=StateDeque "
                                                                   "-XX:ParallelGCThreads=2"})
    C.log("[C03] trace group %s: %d cases, %d accepted, %.1fs" % (name, len(cases), acc, time.time() - t0))
    bad = set(r["case_id"] for r in rej)
    nontriv = sum(1 for (cid, evs) in cases if cid not in bad and _nontrivial_case(evs)) if acc == len(cases) - len(rej) else 0
    return acc, rej, st, gen, kind, len(cases), nontriv


def _slim(e):
    """replay files stay readable: long byte lists are kept, huge catalogues are cut"""
    s = json.dumps(e)
    return e if len(s) < 20000 else {"ev": e.get("ev"), "truncated_json": s[:20000]}


def run(ctx):
    quick = ctx.tier == "quick"
    C.build_harness()
    rnd = random.Random(ctx.seed)
    stats = {"replay_bytes_equal": 0, "replay_encoder_deviations_accepted_by_spec": 0}

    # ------------------------------------------------------------------------------------------
    # MC + REPLAY
    # ------------------------------------------------------------------------------------------
    names_cfgs = ["short2q", "short3", "long"] if quick else ["short2", "short2t", "short3", "long"]
    desc_cfgs = ["ids2q", "lensq", "big"] if quick else ["ids", "ids5", "lens", "big"]
    # the life-cycle jobs first: their REPLAY goes through real files (ZSTD-bound)
    jobs = [("MC_Collection", "MC_Collection_p1%s.cfg" % ("" if quick else "t"), "life"),
            ("MC_Collection", "MC_Collection_p2.cfg", "life")]
    jobs += [("MC_CollNames", "MC_CollNames_%s.cfg" % c, "names") for c in names_cfgs]
    jobs += [("MC_CollDesc", "MC_CollDesc_%s.cfg" % c, "desc") for c in desc_cfgs]
    jobs += [("MC_CollNames", "MC_CollNames_cap.cfg", None)]
    ctx.checker_cmds.append("tlc " + " ".join(j[1] for j in jobs) + "; rvh replay-collnames / replay-colldesc / "
                            "replay-collection; rvh trace-collcodec / trace-collection; tlc Trace_Collection")
    nlife = 2 if quick else 8          # life-cycle behaviours per config through real files (7 level-19 ZSTD calls per batch)

    def mc_job(job):
        module, cfg, kind = job
        t0 = time.time()
        # the large thorough life-cycle model is the long pole: 4 of the (at most 8) TLC workers
        r = C.run_tlc(module, cfg, workdir=ctx.work, workers=4 if cfg.endswith("p1t.cfg") else 2, xmx="4g", timeout=3000)
        C.tlc_must_pass(r, cfg)
        t1 = time.time()
        beh = [p[0] for (t, p) in r.printed if t == "REPLAY"]
        res = None
        if kind is not None:
            if len(beh) != EXPECT[cfg[:-4]]:
                raise C.ToolError("expected %d REPLAY behaviours from %s, got %d" % (EXPECT[cfg[:-4]], cfg, len(beh)))
            if kind == "life":
                sel = random.Random(ctx.seed * 31 + len(cfg)).sample(beh, min(nlife, len(beh)))
                outs = []
                # the sampled behaviours go to separate rvh processes (ZSTD-19 dominates)
                chunks = [sel[i::3] for i in range(3) if sel[i::3]]
                for ci, ch in enumerate(chunks):
                    path = os.path.join(ctx.work, "replay_%s_%d.ndjson" % (cfg, ci))
                    with open(path, "w") as fh:
                        fh.write("\n".join(ch) + "\n")
                    outs.append(path)

                def one(path):
                    _, out, _, _ = C.rvh(["replay-collection", "--in", path, "--dir", os.path.join(ctx.work, "files")],
                                         timeout=2400)
                    return json.loads(out)
                with ThreadPoolExecutor(max_workers=3) as ex2:
                    parts = list(ex2.map(one, outs))
                res = {"behaviours": sum(p["behaviours"] for p in parts), "steps": sum(p["steps"] for p in parts),
                       "bytes_equal": sum(p["bytes_equal"] for p in parts),
                       "fails": [f for p in parts for f in p["fails"]],
                       "deviations": [d for p in parts for d in p["deviations"]]}
            else:
                path = os.path.join(ctx.work, "replay_%s.ndjson" % cfg)
                with open(path, "w") as fh:
                    fh.write("\n".join(beh) + "\n")
                _, out, _, _ = C.rvh(["replay-collnames" if kind == "names" else "replay-colldesc", "--in", path],
                                     timeout=2400)
                res = json.loads(out)
        C.log("[C03] %s: tlc %.1fs (%d states), replay %.1fs (%s behaviours)" % (
            cfg, t1 - t0, r.distinct, time.time() - t1, res["behaviours"] if res else "-"))
        return job, r, beh, res

    # ------------------------------------------------------------------------------------------
    # TRACE: recorded executions of the real code
    # ------------------------------------------------------------------------------------------
    # plan items: mode:pack:nsamples:maxcontigs:maxrows  (file/dec/pipe cost 7 level-19 ZSTD calls per batch)
    if quick:
        plan = ["wrap:50:1:3:6", "wrap:50:2:12:6", "wrap:50:50:3:5", "wrap:50:51:2:4", "wrap:50:128:2:3",
                "wrap:3:10:4:8", "wrap:1:4:6:60", "wrap:7:30:3:5", "wrap:2:5:30:3",
                "file:50:%d:2:3" % (120 + ctx.seed % 9), "file:2:5:3:6",
                "dec:50:101:2:3", "dec:2:4:3:5", "pipe:50:%d:2:0" % (121 + ctx.seed % 7)]
        ncodec, codec_procs = 24, 3
    else:
        plan = ["wrap:50:%d:%d:%d" % (n, c, r) for (n, c, r) in
                [(1, 4, 8), (2, 20, 6), (49, 3, 5), (50, 3, 5), (51, 3, 5), (99, 2, 4), (100, 2, 4), (101, 2, 4), (128, 2, 3),
                 (150, 2, 3), (151, 2, 2), (200, 1, 2)]]
        plan += ["wrap:%d:%d:%d:%d" % (p, n, c, r) for (p, n, c, r) in
                 [(1, 5, 6, 80), (2, 9, 5, 20), (3, 10, 4, 8), (3, 11, 4, 8), (7, 30, 3, 5), (5, 26, 3, 5), (4, 16, 8, 4),
                  (2, 5, 60, 3), (1, 2, 5, 200), (10, 95, 2, 3)]]
        plan += ["file:50:51:2:3", "file:50:100:2:3", "file:50:101:2:3", "file:50:125:2:3", "file:50:151:1:2",
                 "file:2:7:3:6", "file:1:4:4:10", "file:3:10:3:6", "file:5:21:2:5", "file:4:8:3:5"]
        plan += ["dec:50:101:2:3", "dec:50:130:2:3", "dec:3:8:3:5", "dec:2:6:3:5", "dec:50:50:3:4", "dec:1:3:3:8"]
        plan += ["pipe:50:3:3:0", "pipe:50:51:2:0", "pipe:50:%d:2:0" % (120 + ctx.seed % 9), "pipe:50:1:4:0", "pipe:50:10:6:0"]
        ncodec, codec_procs = 120, 8

    def drive(item):
        i, it = item
        out = os.path.join(ctx.work, "trace_%d.ndjson" % i)
        t0 = time.time()
        C.rvh(["trace-collection", "--seed", str(ctx.seed * 1000 + i), "--plan", it, "--tag", "t%d_" % i,
               "--dir", os.path.join(ctx.work, "files"), "--out", out], timeout=2400)
        C.log("[C03] driver %s: %.1fs" % (it, time.time() - t0))
        return C.read_ndjson(out)

    def drive_codec(i):
        out = os.path.join(ctx.work, "codec_%d.ndjson" % i)
        C.rvh(["trace-collcodec", "--seed", str(ctx.seed * 1000 + i), "--n", str(ncodec), "--out", out], timeout=1200)
        return C.read_ndjson(out)

    groups = []      # (name, pack, [(case_id, events)], kind)
    t0 = time.time()
    # the drivers (ZSTD-bound) run while TLC checks the models
    exd = ThreadPoolExecutor(max_workers=3)
    fc = [exd.submit(drive_codec, i) for i in range(codec_procs)]
    fl = [exd.submit(drive, it) for it in sorted(enumerate(plan), key=lambda x: x[1].startswith("wrap"))]
    deviations = []   # (name, pack, [(case_id, events)])
    with ThreadPoolExecutor(max_workers=3) as ex:
        for (job, r, beh, res) in ex.map(mc_job, jobs):
            module, cfg, kind = job
            ctx.add_mc(cfg[:-4], r, required_actions=("AddName",) if module == "MC_CollNames" else
                       ("AddRow",) if module == "MC_CollDesc" else
                       ("MCRegister", "MCPlaceAll", "MCStoreNames", "MCStoreBatch", "MCOpen", "MCLoad"))
            if res is None:
                continue
            ctx.evaluations += res["behaviours"]
            ctx.traces += res["behaviours"] - len(res["fails"])
            stats["replay_bytes_equal"] += res["bytes_equal"]
            ctx.extra.setdefault("replay", {})[cfg[:-4]] = {"behaviours_generated": len(beh), "replayed": res["behaviours"],
                                                            "steps": res["steps"], "bytes_equal": res["bytes_equal"],
                                                            "fails": len(res["fails"]), "deviations": len(res["deviations"])}
            # non-trivial behaviours (measured on the model's encoding): the delta / prediction paths are taken
            if kind == "names":
                ctx.nontrivial += sum(1 for b in beh if any(x >= 128 for e in json.loads(b)["enc"] for x in e))
            elif kind == "desc":
                ctx.nontrivial += sum(1 for b in beh if any(x >= 2 for x in json.loads(b)["es"]))
            else:
                ctx.nontrivial += res["behaviours"]
            if beh and len(ctx.samples) < 3:
                ctx.sample({"replay_" + cfg[:-4]: json.loads(beh[len(beh) // 2])})
            for i, f in enumerate(res["fails"][:5]):
                ctx.violation("replay_%s_%d" % (cfg[:-4], i),
                              {"kind": "REPLAY", "config": cfg, "sig": {"kind": "replay-" + kind, "step": str(f.get("step"))[:40]},
                               "fail": f})
            if res["deviations"]:
                if kind == "life":
                    cs = [(evs[0]["case"] + "_%s_%d" % (cfg[:-4], i), evs) for i, evs in enumerate(res["deviations"])]
                    pack = res["deviations"][0][0]["pack"]
                else:
                    start = {"ev": "start", "case": "dev_" + cfg[:-4], "mode": "codec", "pack": 50, "pl": 0}
                    cs = [("dev_%s_%d" % (cfg[:-4], i), [start, {k: v for k, v in d.items() if not k.startswith("model_")}])
                          for i, d in enumerate(res["deviations"])]
                    pack = 50
                deviations.append(("dev_" + cfg[:-4], pack, cs, kind))
    ctx.exhaustive = True


    codec = [f.result() for f in fc]
    life = [f.result() for f in fl]
    exd.shutdown()
    C.log("[C03] MC + REPLAY + drivers: %.1fs" % (time.time() - t0))
    trace_stats = {"codec_events": 0, "lifecycle_cases": 0, "lifecycle_events": 0, "max_samples": 0, "max_batches": 0,
                   "cases_with_ge2_batches": 0, "cases_with_ge3_batches": 0}
    for i, evs in enumerate(codec):
        # one case per event so that a rejected event does not hide the others
        start = evs[0]
        cs = [("codec%d_%d_%s" % (i, j, e["ev"]), [start, e]) for j, e in enumerate(evs[1:])]
        trace_stats["codec_events"] += len(cs)
        groups.append(("codec%d" % i, 50, cs, "trace-codec"))
    bypack = {}
    for evs in life:
        for (cid, pack, ce) in _cases_of(evs):
            bypack.setdefault(pack, []).append((cid, ce))
            nb = sum(1 for e in ce if e["ev"] == "store_batch")
            ns = max([e.get("nsamples", 0) for e in ce if e["ev"] == "register"] +
                     [len(e["samples"]) for e in ce if e["ev"] == "open"] + [0])
            trace_stats["lifecycle_cases"] += 1
            trace_stats["lifecycle_events"] += len(ce)
            trace_stats["max_samples"] = max(trace_stats["max_samples"], ns)
            trace_stats["max_batches"] = max(trace_stats["max_batches"], nb)
            trace_stats["cases_with_ge2_batches"] += 1 if nb >= 2 else 0
            trace_stats["cases_with_ge3_batches"] += 1 if nb >= 3 else 0
    for pack, cs in bypack.items():
        # big cases get a TLC run of their own (parallelism), small ones share one
        cs.sort(key=lambda c: -sum(len(json.dumps(e)) for e in c[1]))
        nchunks = min(len(cs), 6 if pack == 50 else 1)
        for k in range(nchunks):
            groups.append(("life_p%d_%d" % (pack, k), pack, cs[k::nchunks], "trace-lifecycle"))
    for (name, pack, cs, kind) in deviations:
        groups.append((name, pack, cs, "deviation-" + kind))

    groups.sort(key=lambda g: -sum(len(c[1]) for c in g[2]))
    with ThreadPoolExecutor(max_workers=6) as ex:
        results = list(ex.map(lambda g: _validate(ctx, g[0], g[1], g[2], g[3]), groups))
    for (acc, rej, st, gen, kind, ncases, nontriv) in results:
        ctx.states += st
        ctx.transitions += gen
        if kind.startswith("deviation-"):
            # real bytes differ from the canonical encoding: a verdict only if the spec's decoder rejects them
            stats["replay_encoder_deviations_accepted_by_spec"] += acc
        else:
            ctx.traces += acc
            ctx.evaluations += ncases
            ctx.nontrivial += nontriv
        for r in rej:
            ev = r["event"]
            sig = {"kind": kind, "ev": ev.get("ev")}
            if ev.get("ev") == "failure" or "failure" in ev:
                # stable signature: panic location (file:line) or the leading words of the error
                msg = str(ev.get("detail", ev.get("failure")))
                m = re.search(r"@ \S*?([\w.]+\.rs:\d+)", msg)
                sig["failure"] = ("panic@" + m.group(1)) if m else msg[:60]
            ctx.violation("%s_%s" % (kind, r["case_id"]),
                          {"kind": "TRACE", "sig": sig, "detail": r["detail"], "case_id": r["case_id"],
                           "failure": str(ev.get("detail", ev.get("failure", "")))[:600],
                           "index_in_case": r["index_in_case"], "event": _slim(ev),
                           "prev_event": _slim(r["prev_event"]) if r["prev_event"] else None,
                           "events": [_slim(e) for e in r["events"][:60]]})
    for evs in life[:2]:
        e = [x for x in evs if x["ev"] == "store_batch"]
        if e:
            ctx.sample({"trace_case": evs[0], "first_store_batch_names_bytes": e[0]["names"][:120]})
    ctx.extra["trace"] = trace_stats
    ctx.extra.update(stats)
    ctx.rule = ("REPLAY (exhaustive within bounds): name lists = all lists of 3 distinct names over 42 / 39 short names "
                "(1..3 fields: empty, equal-/unequal-length, tab) and all ordered pairs over 30 long names (fields of 99..201 "
                "equal characters around the run cap); descriptor tables = all tables of %d rows over 3 groups x 5 ids, 3 rows "
                "over 32 (id, orientation, length near/far from segment_size+k) rows and 3 rows over 20 large-value rows; "
                "life cycle = seeded sample of %d behaviours per Pack in {1,2} through real files. non-trivial = the model's "
                "encoding uses a marker byte (names) / a predicted id code >= 2 (tables). TRACE: %d codec events + %d life-cycle "
                "cases (up to %d samples, %d cases with >= 3 batches); an accepted case is non-trivial when its recorded bytes show a name "
                "marker byte (>= 128), a group id occurring twice in one table, >= 2 sample names, or a second batch."
                % (4 if quick else 5, nlife, trace_stats["codec_events"], trace_stats["lifecycle_cases"],
                   trace_stats["max_samples"], trace_stats["cases_with_ge3_batches"]))
    ctx.assumptions += [
        "names: printable ASCII + tab, no NUL, no byte >= 128; contig names distinct within a sample; sample names non-empty",
        "all integers < 2^31 (TLC); group ids <= 100000 (the real predictor table is a dense Vec indexed by group id)",
        "ZSTD and the archive container are treated as the identity (decided by C12 / C13); stored parts are read back with "
        "ragc's Archive reader + zstd and handed to the TLA+ decoder as bytes",
        "FASTA header trimming (genome_io) is outside this check: names enter at register_sample_contig / push",
        "wrapper-level (`wrap`) cases use the harness's batch cursor Pack*b; the real cursor is exercised by file/dec/pipe cases",
    ]
