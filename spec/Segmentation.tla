---------------------------- MODULE Segmentation ----------------------------
(* Splitting one contig into segments that overlap by exactly k bases at       *)
(* splitter k-mers (ragc-core/src/segment.rs: split_at_splitters_with_size,    *)
(* split_at_splitters).                                                        *)
(*                                                                             *)
(* The specification is deliberately NON-DETERMINISTIC: a boundary MAY be      *)
(* placed after any base e (1-based count of bases consumed) such that the k   *)
(* bases ending at e are all A/C/G/T and their canonical k-mer is a splitter.   *)
(* It is never forced: `split_at_splitters_with_size` restarts its k-mer window *)
(* after a split (so it skips occurrences that overlap the previous boundary),  *)
(* `split_at_splitters` does not; both are behaviours of this specification,    *)
(* and so is any other policy of choosing among the eligible positions.  What   *)
(* is NOT a behaviour: an overlap other than k, a boundary k-mer that is not a  *)
(* splitter or is recorded wrongly, a dropped / duplicated base, a lost tail.   *)
(*                                                                             *)
(* State: the input (contig, k, splitters - fixed by Init / the start event),   *)
(*   segStart  0-based index of the first base of the segment being built       *)
(*   front     k-mer recorded at the front of the segment being built           *)
(*   segs      the segments emitted so far; s,e are ghost positions: the segment *)
(*             covers bases s+1..e of the contig (1-based), i.e. [s,e) 0-based   *)
(*   done      the final segment has been emitted                                *)
(* Actions are "big steps": Split(e) stands for scanning forward to e and        *)
(* cutting there (the scan itself changes nothing the property talks about; the  *)
(* code-shaped scanning model that refines this one is SegScan.tla).             *)
EXTENDS Naturals, Sequences, FiniteSets, Sym

VARIABLES contig, k, splitters, segStart, front, segs, done
vars  == <<contig, k, splitters, segStart, front, segs, done>>
input == <<contig, k, splitters>>

N == Len(contig)
LastEnd == IF segs = <<>> THEN 0 ELSE segs[Len(segs)].e

\* the k bases ending at base e
Window(e) == SubSeq(contig, e - k + 1, e)
CleanWindow(e) == e >= k /\ e <= N /\ \A i \in (e - k + 1)..e : IsACGT(contig[i])
\* a boundary may be placed after base e
Eligible(e) == CleanWindow(e) /\ Canon(Window(e)) \in splitters
NoSplitterOccurs == \A e \in 1..N : ~Eligible(e)

Seg(s, e, f, b) == [s |-> s, e |-> e, data |-> SubSeq(contig, s + 1, e), front |-> f, back |-> b]

InitState(c, kk, sp) ==
  /\ contig = c /\ k = kk /\ splitters = sp
  /\ segStart = 0 /\ front = MISSING /\ segs = <<>> /\ done = FALSE

\* segment.rs:142-214 / 402-425: cut after base e; the next segment starts k bases back
Split(e) ==
  /\ ~done
  /\ e > LastEnd
  /\ Eligible(e)
  /\ LET km == Canon(Window(e)) IN
       /\ segs' = Append(segs, Seg(segStart, e, front, km))
       /\ front' = km
  /\ segStart' = e - k
  /\ UNCHANGED <<input, done>>

\* segment.rs:237-316 / 432-471: the rest of the contig (all of it when nothing was cut)
Finish ==
  /\ ~done
  /\ segs' = Append(segs, Seg(segStart, N, front, MISSING))
  /\ done' = TRUE
  /\ UNCHANGED <<input, segStart, front>>

SplitSome == \E e \in 1..N : Split(e)
Next == Finish \/ SplitSome

-----------------------------------------------------------------------------
\* --- C10 as invariants -----------------------------------------------------
Drop(w, n) == SubSeq(w, n + 1, Len(w))

\* "dropping the first k bases of every later segment and concatenating"
RECURSIVE JoinUpTo(_, _)
JoinUpTo(ss, n) ==
  IF n = 0 THEN <<>>
  ELSE IF n = 1 THEN ss[1].data
  ELSE JoinUpTo(ss, n - 1) \o Drop(ss[n].data, k)
Join(ss) == JoinUpTo(ss, Len(ss))

\* positions and data agree (s,e are ghosts of data)
PositionsAt(i) ==
  /\ segs[i].s <= segs[i].e /\ segs[i].e <= N
  /\ segs[i].data = SubSeq(contig, segs[i].s + 1, segs[i].e)
Positions == \A i \in 1..Len(segs) : PositionsAt(i)

\* first segment starts at the first base; each later one begins exactly k bases before the
\* previous one ends and has at least k bases; when finished the last one ends at the last base
TilingAt(i) ==
  IF i = 1 THEN segs[1].s = 0
  ELSE /\ segs[i].s + k = segs[i - 1].e
       /\ Len(segs[i].data) >= k
       /\ FirstN(segs[i].data, k) = LastN(segs[i - 1].data, k)
TilingEnds ==
  /\ done => (segs # <<>> /\ segs[Len(segs)].e = N)
  /\ ~done => segStart = (IF segs = <<>> THEN 0 ELSE LastEnd - k)
Tiling == TilingEnds /\ \A i \in 1..Len(segs) : TilingAt(i)

\* drop-k-and-concatenate reproduces the contig (the prefix consumed so far while running)
JoinPrefix == Join(segs) = SubSeq(contig, 1, LastEnd)
JoinDone   == done => Join(segs) = contig

\* each internal boundary k-mer is a splitter, is the canonical form of the k overlapping
\* bases, and is recorded as back of one segment and front of the next
BoundaryAt(i) ==
  LET w == LastN(segs[i].data, k) IN
    /\ Len(w) = k /\ \A j \in 1..k : IsACGT(w[j])
    /\ segs[i].back = Canon(w)
    /\ segs[i + 1].front = Canon(w)
    /\ Canon(w) \in splitters
    /\ segs[i].back # MISSING
Boundaries == \A i \in 1..(Len(segs) - 1) : BoundaryAt(i)

\* Incremental forms for trace validation: segs only grows by Append, so checking the newest
\* segment (and the newest boundary) in every state checks all of them; linear instead of
\* quadratic in the number of segments.
PositionsLast  == segs # <<>> => PositionsAt(Len(segs))
TilingLast     == TilingEnds /\ (segs # <<>> => TilingAt(Len(segs)))
BoundariesLast == Len(segs) >= 2 => BoundaryAt(Len(segs) - 1)

\* a contig without splitters or shorter than k is one segment with both k-mers missing
Single ==
  (done /\ (N < k \/ NoSplitterOccurs)) =>
     /\ Len(segs) = 1
     /\ segs[1].data = contig
     /\ segs[1].front = MISSING /\ segs[1].back = MISSING

\* the eligibility rule agrees with the sliding window of Kmer.tla / Sym.tla (window restarted
\* at every non-ACGT code): used by the bounded model only
WindowAgrees ==
  (segs = <<>> /\ ~done) =>      \* a function of the input: evaluated on initial states only
  \A e \in 1..N :
     LET p == SubSeq(contig, 1, e) IN
       /\ CleanWindow(e) <=> HasWindow(p, k)
       /\ CleanWindow(e) => Window(e) = WindowAt(p, k)
=============================================================================
