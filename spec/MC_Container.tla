--------------------------- MODULE MC_Container ---------------------------
(* Bounded model of Container.tla + REPLAY generation.  A history variable h    *)
(* records every call with its arguments, the model's result and the observable *)
(* post-state; every complete behaviour (ops; flush; close; open; reads) is     *)
(* printed as one JSON line for `rvh replay-container`.                         *)
(* Profiles (constant Profile) select the quantified domain:                    *)
(*  "order"  op histories <= MaxOps over register(a|b, repeated) / add_part /   *)
(*           add_part_buffered / flush_buffers / set_raw_size on any registered *)
(*           stream; data empty or non-empty (unique per call), one boundary    *)
(*           metadata value per call index                                      *)
(*  "meta"   one stream, every metadata / raw-size boundary value x data size   *)
(*  "reads"  two streams, short write histories, then every sequence of         *)
(*           <= MaxReads get_part / get_part_by_id calls                        *)
(*  "fault"  small histories x every first-failing-write offset in Limits with  *)
(*           a tiny BufWriter (no REPLAY: decided by fault enumeration)         *)
EXTENDS Container, TLC, Json

CONSTANTS Profile, MaxOps, MaxReads, Limits

VARIABLES h, phase, nreads
mcvars == <<vars, h, phase, nreads>>

NameA == <<97>>
NameB == <<98, 50>>
MetaSeq == <<<<>>>> \o [n \in 1..8 |-> Pow(n)] \o [n \in 1..8 |-> Ones(n)] \o <<[i \in 1..8 |-> IF i = 1 THEN 128 ELSE 0]>>
AllMetas == {MetaSeq[i] : i \in 1..Len(MetaSeq)}

I == Len(h) + 1                                     \* index of the call being made
Fresh(i, n) == [len |-> n, id |-> i]
NameChoices == IF Profile \in {"meta", "fault"} THEN {NameA} ELSE {NameA, NameB}
DataChoices == CASE Profile = "meta"  -> {EmptyD, Fresh(I, 2)}
                 [] Profile = "fault" -> {EmptyD, Fresh(I, 2), Fresh(I, 5)}
                 [] OTHER             -> {EmptyD, Fresh(I, 1 + (I % 3))}
MetaChoices == CASE Profile = "meta"  -> AllMetas
                 [] OTHER             -> {MetaSeq[((I * 5) % Len(MetaSeq)) + 1]}
RawChoices  == CASE Profile = "meta"  -> AllMetas
                 [] Profile = "order" -> {MetaSeq[((I * 7) % Len(MetaSeq)) + 1]}
                 [] OTHER             -> {}

Obs == [names |-> IF mode = "reading" THEN rd.names ELSE names,
        nparts |-> [s \in Ids |-> Len(dir[s])],
        raw |-> IF mode = "reading" THEN rd.raw ELSE raw,
        mode |-> mode]

MCInit == /\ InitWith(Limits) /\ h = <<>> /\ phase = "ops" /\ nreads = 0
          /\ (Profile = "reads" => TRUE)

Log(r) == h' = Append(h, r)
Keep == UNCHANGED <<phase, nreads>>

OpReg == \E n \in NameChoices :
           /\ (Profile \in {"meta", "fault"} => names = <<>>)
           /\ Register(n) /\ Log([op |-> "reg", name |-> n, res |-> RegisterResult(n), obs |-> Obs']) /\ Keep
OpAdd == \E s \in Ids, d \in DataChoices, m \in MetaChoices :
           AddPart(s, d, m) /\ Log([op |-> "add", s |-> s - 1, data |-> d, meta |-> m, obs |-> Obs']) /\ Keep
OpBuf == \E s \in Ids, d \in DataChoices, m \in MetaChoices :
           AddPartBuffered(s, d, m) /\ Log([op |-> "buf", s |-> s - 1, data |-> d, meta |-> m, obs |-> Obs']) /\ Keep
OpFlush == FlushBuffers /\ Log([op |-> "flush", obs |-> Obs']) /\ Keep
OpRaw == \E s \in Ids, r \in RawChoices :
           SetRawSize(s, r) /\ Log([op |-> "raw", s |-> s - 1, val |-> r, obs |-> Obs']) /\ Keep

Ops == /\ phase = "ops" /\ mode = "writing" /\ Len(h) < MaxOps
       /\ (OpReg \/ OpAdd \/ OpBuf \/ OpFlush \/ OpRaw)
\* the domain of the property: flush, then close, then reopen
Fin1 == /\ phase = "ops" /\ mode = "writing" /\ h # <<>> /\ FlushBuffers
        /\ Log([op |-> "flush", obs |-> Obs']) /\ phase' = "fin" /\ UNCHANGED nreads
Fin2 == /\ phase = "fin" /\ mode = "writing" /\ Close /\ Log([op |-> "close", obs |-> Obs']) /\ Keep
Fin3 == /\ phase = "fin" /\ Open /\ Log([op |-> "open", obs |-> Obs']) /\ Keep
RdGet == \E s \in 1..Len(rd.names) :
           GetPart(s) /\ Log([op |-> "get", s |-> s - 1, res |-> GetPartResult(s)])
RdGetId == \E s \in 1..Len(rd.names) : \E i \in 0..(Len(rd.dir[s]) - 1) :
           GetPartById(s, i) /\ Log([op |-> "getid", s |-> s - 1, i |-> i, res |-> GetPartByIdResult(s, i)])
Reads == /\ mode = "reading" /\ nreads < MaxReads /\ (RdGet \/ RdGetId) /\ nreads' = nreads + 1 /\ UNCHANGED phase

\* split by outcome so that the coverage report shows that failing writes were explored
OpsOk == Ops /\ mode' # "failed"
OpsFail == Ops /\ mode' = "failed"
FlushOk == Fin1 /\ mode' # "failed"
FlushFail == Fin1 /\ mode' = "failed"
CloseOk == Fin2 /\ mode' = "closed"
CloseFail == Fin2 /\ mode' = "failed"
MCNext == OpsOk \/ OpsFail \/ FlushOk \/ FlushFail \/ CloseOk \/ CloseFail \/ Fin3 \/ Reads
MCSpec == MCInit /\ [][MCNext]_mcvars

\* every result a read returns is what the property prescribes for that part
ReadsRight ==
  (h # <<>> /\ h[Len(h)].op \in {"get", "getid"}) =>
    LET e == h[Len(h)] s == e.s + 1 IN
    IF e.op = "getid" THEN e.res = Expect(adone[s][e.i + 1])
    ELSE LET k == Cardinality({j \in 1..(Len(h) - 1) : h[j].op = "get" /\ h[j].s = e.s}) IN
         IF k < Len(adone[s]) THEN e.res = Expect(adone[s][k + 1]) ELSE e.res = None

Terminal == mode = "reading" /\ (nreads = MaxReads \/ rd.names = <<>> \/ MaxReads = 0)
Emit == (Profile # "fault" /\ Terminal) =>
          PrintT(<<"REPLAY", ToJson([steps |-> h,
                                      expect |-> [s \in Ids |-> [i \in 1..Len(adone[s]) |-> Expect(adone[s][i])]]])>>)
===========================================================================
