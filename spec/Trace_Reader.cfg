SPECIFICATION TSpec
CONSTANTS
  Batches <- TBatches
  ContigsOf <- TContigsOf
  SegGroups <- TSegGroups
  RefKind <- TRefKind
  PrefixMatch <- TPrefixMatch
  Handles = {0, 1, 2, 3, 4, 5, 6, 7, 8}
  CursorReset = TRUE
  RefPath = "meta"
  RangeCheck = "afterLookup"
INVARIANTS TableSane CacheSane
POSTCONDITION Accepted
CHECK_DEADLOCK FALSE
