SPECIFICATION Spec
CONSTANTS K = 3
          Contig <- C16
          Cuts <- Cuts16k3
          RcRule = "format"
INVARIANTS PartsContiguous ReassembleEqualsInput PiecesLongEnough
CHECK_DEADLOCK FALSE
