SPECIFICATION DesignSpec
CONSTANTS
  Batches <- MCBatches
  ContigsOf <- MCContigsOf
  SegGroups <- MCSegGroups
  RefKind <- MCRefKind
  PrefixMatch <- MCPrefixMatch
  Handles = {1}
  CursorReset = TRUE
  RefPath = "meta"
  RangeCheck = "early"
  MaxLen = 0
  Alpha = "full"
INVARIANTS UnknownIsError

CHECK_DEADLOCK FALSE
