SPECIFICATION MCSpec
CONSTANTS Ref <- RefB
          MinMatch = 5
          LitCodes = {1}
          NRunLens = {4,104}
          MatchLens = {5,6,7,8,9,10,11,12,13,14,15,16,17}
          MaxTok = 2
INVARIANTS Types ParseLaw DecodeLaw DecodesToLaw SepLaw TruncStrict Emit
PROPERTIES StepIsApply
CHECK_DEADLOCK FALSE
