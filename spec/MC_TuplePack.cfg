\* example for manual runs (checks/c12.py generates one cfg per alphabet and tier): boundary maxima
SPECIFICATION Spec
CONSTANTS Alphabet = {0,3,4,5,6,15,16,255}
          MaxLen = 4
          InjLen = 3
          Levels = {17}
INVARIANTS Lossless BlobLaw PackLaws ChooseLaw Emit
CHECK_DEADLOCK FALSE
