SPECIFICATION TSpec
POSTCONDITION Accepted
CHECK_DEADLOCK FALSE
