SPECIFICATION MCSpec
CONSTANTS Profile = "order"
          MaxOps = 4
          MaxReads = 0
          Limits = {1000000}
          NoLimit = 1000000
          BufCap = 1000000
INVARIANTS NoDupNames Layout RoundTrip ReadsRight DiskIsPrefix Reported ImageReadable PrefixRejected Emit
CHECK_DEADLOCK FALSE
