SPECIFICATION MCSpec
CONSTANTS MaxRows = 3
          PredLen = 60031
          RowSet <- R_big
INVARIANTS Law Emit
CHECK_DEADLOCK FALSE
