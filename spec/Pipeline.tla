------------------------------ MODULE Pipeline ------------------------------
(* The streaming compression pipeline of ragc (agc_compressor.rs):               *)
(*   one producer (push / drain / sync_and_flush / finalize),                     *)
(*   N workers (worker_thread), the byte-bounded priority queue (inlined at its   *)
(*   linearisation points, see Queue.tla for the mutex/condvar refinement),       *)
(*   the 4-phase barrier round triggered by N sync tokens, per-worker raw         *)
(*   buffers, classification of the whole batch by worker 0.                      *)
(*                                                                                *)
(* One action per critical section of the code:                                   *)
(*   PushContig / PushToken  queue.push under the queue mutex (blocks when full)   *)
(*   WaitEmpty               the polling loops of drain / sync_and_flush           *)
(*   CloseQ, Join            finalize                                              *)
(*   Pull                    queue.pull (contig, token, or end-of-stream)          *)
(*   Segment                 split + append to this worker's raw buffer            *)
(*   Arrive / Release        std::sync::Barrier::wait (release is atomic)          *)
(*   Classify                worker 0 between barrier 1 and 2: the batch is fixed   *)
(*   Claim                   phase-3 work stealing                                 *)
(* Output abstraction: the archive is a deterministic function of the SEQUENCE OF   *)
(* BATCH COMPOSITIONS (classification sorts the batch; results are applied in      *)
(* group-id order; writes are flushed in stream-id order) — checked on the real     *)
(* code by Trace_Pipeline (same batches => same bytes).                            *)
EXTENDS Naturals, Integers, Sequences, FiniteSets, FiniteSetsExt, TLC

CONSTANTS
  N,          \* number of worker threads
  Contigs,    \* sequence of [sample |-> s, size |-> n]  in push (file) order
  Mode,       \* "single" (one PanSN file: concatenated mode) or "multi" (one file per sample)
  PackB,      \* pack cardinality: token round every PackB contigs in single mode
  Cap,        \* queue capacity in bytes
  TokenRule,  \* "fixed"  : tokens take the next value of the global decreasing counter, per-sample map restarted
              \* "pinned" : new per-sample priority + 1_000_000 in i32 (wraps below everything) — the defective rule
  RefSamples  \* multi mode: number of leading samples pushed before drain + sync_and_flush (the reference = 1)

Workers == 0..(N - 1)
NC == Len(Contigs)
MaxP == 1000          \* stands for i32::MAX
Low  == 1             \* stands for 1_000_000: below every contig priority
Wrapped == 0          \* stands for a wrapped (negative) i32: below everything

-----------------------------------------------------------------------------
\* ---- producer program ------------------------------------------------------
\* ops: [op |-> "contig", i], [op |-> "tokens", why], [op |-> "wait"], [op |-> "close"], [op |-> "join"]
SampleOf(i) == Contigs[i].sample
FirstChange == IF \E i \in 2..NC : SampleOf(i) # SampleOf(1) THEN CHOOSE i \in 2..NC : SampleOf(i) # SampleOf(1) /\ \A j \in 2..(i - 1) : SampleOf(j) = SampleOf(1) ELSE 0
RECURSIVE SingleScript(_)
SingleScript(i) ==
  IF i > NC THEN <<>>
  ELSE (IF i = FirstChange THEN <<[op |-> "wait", i |-> 0, why |-> "drain"]>> ELSE <<>>)          \* drain() at the first sample change
       \o (IF i % PackB = 0 THEN <<[op |-> "tokens", i |-> i, why |-> "pack"]>> ELSE <<>>)        \* pushed inside push(), before the contig
       \o <<[op |-> "contig", i |-> i, why |-> ""]>> \o SingleScript(i + 1)
RECURSIVE MultiScript(_)
MultiScript(i) ==
  IF i > NC THEN <<>>
  ELSE (IF i > 1 /\ SampleOf(i) > RefSamples /\ SampleOf(i - 1) <= RefSamples
        THEN <<[op |-> "wait", i |-> 0, why |-> "drain"], [op |-> "tokens", i |-> 0, why |-> "flush"], [op |-> "wait", i |-> 0, why |-> "flush"]>> ELSE <<>>)
       \o <<[op |-> "contig", i |-> i, why |-> ""]>> \o MultiScript(i + 1)
Tail3 == <<[op |-> "tokens", i |-> 0, why |-> "final"], [op |-> "close", i |-> 0, why |-> ""], [op |-> "join", i |-> 0, why |-> ""]>>
Script == (IF Mode = "single" THEN SingleScript(1) ELSE MultiScript(1)) \o Tail3

-----------------------------------------------------------------------------
VARIABLES
  pcP,        \* index into Script
  tokLeft,    \* tokens still to push for the current "tokens" op (0 = not started)
  nextP,      \* next_priority: global decreasing counter
  prio,       \* per-sample priority map (function sample -> priority, partial)
  seq,        \* next_sequence
  queue,      \* set of queued items [id, kind, prio, cost, seq, size]
  closed,
  tokId,      \* counter for token identities
  pcW,        \* worker program counter
  held,       \* item a worker is processing
  rawBuf,     \* per-worker raw segment buffer: set of contig ids
  arrived,    \* set of workers waiting at the current barrier
  claimNext,  \* phase-3 work-stealing index
  nBuf,       \* number of buffers prepared for phase 3
  batches,    \* sequence of batch compositions (sets of contig ids) — the output abstraction
  rounds      \* number of completed synchronisation rounds

vars == <<pcP, tokLeft, nextP, prio, seq, queue, closed, tokId, pcW, held, rawBuf, arrived, claimNext, nBuf, batches, rounds>>

\* (FoldSet is evaluated natively; a RECURSIVE operator over a set argument is re-evaluated
\*  exponentially often by TLC inside actions, where lazy argument values are not cached)
QSize == FoldSet(LAMBDA x, acc : x.size + acc, 0, queue)

\* ContigTask::cmp : higher priority, then higher cost, then lower sequence
Before(a, b) == \/ a.prio > b.prio
                \/ a.prio = b.prio /\ a.cost > b.cost
                \/ a.prio = b.prio /\ a.cost = b.cost /\ a.seq < b.seq
                \/ a.prio = b.prio /\ a.cost = b.cost /\ a.seq = b.seq /\ a.id < b.id   \* heap order among equal keys: any; ids make it a total order for the model
\* Items with identical keys are the N tokens of one round: they are indistinguishable, so the model
\* hands them out in id order (no behaviour is lost, and the state space stays linear in N).
IsMax(x) == x \in queue /\ \A y \in queue \ {x} : Before(x, y)

Init ==
  /\ pcP = 1 /\ tokLeft = 0 /\ nextP = MaxP /\ prio = [s \in {} |-> 0] /\ seq = 0
  /\ queue = {} /\ closed = FALSE /\ tokId = 0
  /\ pcW = [w \in Workers |-> "pull"] /\ held = [w \in Workers |-> [kind |-> "none"]]
  /\ rawBuf = [w \in Workers |-> {}] /\ arrived = {} /\ claimNext = 0 /\ nBuf = 0
  /\ batches = <<>> /\ rounds = 0

Op == Script[pcP]
Done == pcP > Len(Script)

\* ---- producer ---------------------------------------------------------------
\* push(): the admission rule of MemoryBoundedQueue::push (after the fix: an oversize item is
\* admitted once no bytes are queued)
CanAdmit(sz) == QSize + sz <= Cap \/ QSize = 0

\* priority bookkeeping of push() for contig i; returns [p: this contig's priority, prio', nextP', token: token priority or -1]
PrioStep(i) ==
  LET s  == SampleOf(i)
      known == s \in DOMAIN prio
      cur == IF known THEN prio[s] ELSE nextP
      np1 == IF known THEN nextP ELSE nextP - 1
      pr1 == IF known THEN prio ELSE [x \in (DOMAIN prio) \cup {s} |-> IF x = s THEN cur ELSE prio[x]]
      sync == Mode = "single" /\ i % PackB = 0
  IN IF ~sync THEN [p |-> cur, prio |-> pr1, nextP |-> np1, token |-> -1]
     ELSE IF TokenRule = "pinned"
          THEN \* sample priority decremented; tokens get new + 1_000_000 which wraps in i32
               [p |-> cur - 1, prio |-> [pr1 EXCEPT ![s] = cur - 1], nextP |-> np1, token |-> Wrapped]
          ELSE \* tokens take the next value of the global counter; the per-sample map restarts below it
               [p |-> np1 - 1, prio |-> [x \in {s} |-> np1 - 1], nextP |-> np1 - 2, token |-> np1]

\* In single mode the "tokens pack" op and the following "contig" op belong to ONE push() call: the
\* priority bookkeeping (producer-local state) is done together with the first token push.
PushToken ==
  /\ ~Done /\ Op.op = "tokens"
  /\ ~closed
  /\ CanAdmit(0)
  /\ LET first == tokLeft = 0
         st    == IF first /\ Op.why = "pack" THEN PrioStep(Op.i) ELSE [p |-> 0, prio |-> prio, nextP |-> nextP, token |-> -1]
         seq1  == IF first /\ Op.why \in {"pack", "flush"} THEN seq + 1 ELSE seq   \* sequence taken by this push()/sync_and_flush() call
         left  == IF first THEN N ELSE tokLeft
         tp    == IF Op.why = "pack" THEN (IF TokenRule = "pinned" THEN Wrapped ELSE st.prio[SampleOf(Op.i)] + 1) ELSE Low
         ts    == IF Op.why = "final" THEN 0 ELSE seq1 - 1
     IN /\ queue' = queue \cup {[id |-> 1000 + tokId, kind |-> "t", prio |-> tp, cost |-> 0, seq |-> ts, size |-> 0]}
        /\ prio' = st.prio /\ nextP' = st.nextP /\ seq' = seq1
        /\ tokLeft' = left - 1
        /\ pcP' = IF left = 1 THEN pcP + 1 ELSE pcP
  /\ tokId' = tokId + 1
  /\ UNCHANGED <<closed, pcW, held, rawBuf, arrived, claimNext, nBuf, batches, rounds>>

PushContig ==
  /\ ~Done /\ Op.op = "contig" /\ ~closed
  /\ LET i == Op.i
         sync == Mode = "single" /\ i % PackB = 0
         st == IF sync THEN [p |-> prio[SampleOf(i)], prio |-> prio, nextP |-> nextP, token |-> -1] ELSE PrioStep(i)
         sq == IF sync THEN seq - 1 ELSE seq
     IN /\ CanAdmit(Contigs[i].size)
        /\ queue' = queue \cup {[id |-> i, kind |-> "c", prio |-> st.p, cost |-> Contigs[i].size, seq |-> sq, size |-> Contigs[i].size]}
        /\ prio' = st.prio /\ nextP' = st.nextP
        /\ seq' = IF sync THEN seq ELSE seq + 1
  /\ pcP' = pcP + 1
  /\ UNCHANGED <<tokLeft, closed, tokId, pcW, held, rawBuf, arrived, claimNext, nBuf, batches, rounds>>

WaitEmpty ==     \* drain() / the tail of sync_and_flush(): poll until queue.len() = 0
  /\ ~Done /\ Op.op = "wait" /\ queue = {}
  /\ pcP' = pcP + 1
  /\ UNCHANGED <<tokLeft, nextP, prio, seq, queue, closed, tokId, pcW, held, rawBuf, arrived, claimNext, nBuf, batches, rounds>>

CloseQ ==
  /\ ~Done /\ Op.op = "close"
  /\ closed' = TRUE /\ pcP' = pcP + 1
  /\ UNCHANGED <<tokLeft, nextP, prio, seq, queue, tokId, pcW, held, rawBuf, arrived, claimNext, nBuf, batches, rounds>>

Join ==
  /\ ~Done /\ Op.op = "join" /\ \A w \in Workers : pcW[w] = "exited"
  /\ pcP' = pcP + 1
  /\ UNCHANGED <<tokLeft, nextP, prio, seq, queue, closed, tokId, pcW, held, rawBuf, arrived, claimNext, nBuf, batches, rounds>>

Producer == PushToken \/ PushContig \/ WaitEmpty \/ CloseQ \/ Join

\* ---- workers ------------------------------------------------------------------
Pull(w) ==
  /\ pcW[w] = "pull"
  /\ \/ /\ queue # {}
        /\ \E x \in queue : IsMax(x)
             /\ queue' = queue \ {x}
             /\ held' = [held EXCEPT ![w] = x]
             /\ pcW' = [pcW EXCEPT ![w] = IF x.kind = "c" THEN "seg" ELSE "b1"]
     \/ /\ queue = {} /\ closed                    \* end of stream: exit
        /\ pcW' = [pcW EXCEPT ![w] = "exited"] /\ UNCHANGED <<queue, held>>
  /\ UNCHANGED <<pcP, tokLeft, nextP, prio, seq, closed, tokId, rawBuf, arrived, claimNext, nBuf, batches, rounds>>

Segment(w) ==
  /\ pcW[w] = "seg"
  /\ rawBuf' = [rawBuf EXCEPT ![w] = @ \cup {held[w].id}]
  /\ held' = [held EXCEPT ![w] = [kind |-> "none"]]
  /\ pcW' = [pcW EXCEPT ![w] = "pull"]
  /\ UNCHANGED <<pcP, tokLeft, nextP, prio, seq, queue, closed, tokId, arrived, claimNext, nBuf, batches, rounds>>

\* barrier b (1..4): a worker at "b<b>" arrives; when all N have arrived all are released to the next stage
NextStage(b) == CASE b = 1 -> "p2" [] b = 2 -> "p3" [] b = 3 -> "p4" [] b = 4 -> "pull"
BName(b) == CASE b = 1 -> "b1" [] b = 2 -> "b2" [] b = 3 -> "b3" [] b = 4 -> "b4"
WName(b) == CASE b = 1 -> "w1" [] b = 2 -> "w2" [] b = 3 -> "w3" [] b = 4 -> "w4"
\* `pre`: the program counters from which worker w reaches barrier b (trace validation passes the
\* hook-less stages that precede the barrier as well)
ArriveP(w, b, pre) ==
  /\ pcW[w] \in pre
  /\ IF Cardinality(arrived) = N - 1
     THEN /\ arrived' = {}
          /\ pcW' = [x \in Workers |-> IF x = w \/ x \in arrived THEN NextStage(b) ELSE pcW[x]]
          /\ rounds' = IF b = 4 THEN rounds + 1 ELSE rounds
     ELSE /\ arrived' = arrived \cup {w}
          /\ pcW' = [pcW EXCEPT ![w] = WName(b)]
          /\ UNCHANGED rounds
  /\ held' = IF b = 1 THEN [held EXCEPT ![w] = [kind |-> "none"]] ELSE held
  /\ UNCHANGED <<pcP, tokLeft, nextP, prio, seq, queue, closed, tokId, rawBuf, claimNext, nBuf, batches>>
Arrive(w, b) == ArriveP(w, b, {BName(b)})

\* phase 2: worker 0 classifies everything in the raw buffers — this fixes the batch
Classify(w) ==
  /\ pcW[w] = "p2"
  /\ IF w = 0
     THEN /\ batches' = Append(batches, UNION {rawBuf[x] : x \in Workers})
          /\ rawBuf' = [x \in Workers |-> {}]
          /\ nBuf' = Cardinality(UNION {rawBuf[x] : x \in Workers})      \* some number of group buffers to compress
          /\ claimNext' = 0
     ELSE UNCHANGED <<batches, rawBuf, nBuf, claimNext>>
  /\ pcW' = [pcW EXCEPT ![w] = "b2"]
  /\ UNCHANGED <<pcP, tokLeft, nextP, prio, seq, queue, closed, tokId, held, arrived, rounds>>

\* phase 3a: claim loop
Claim(w) ==
  /\ pcW[w] = "p3"
  /\ IF claimNext < nBuf
     THEN claimNext' = claimNext + 1 /\ UNCHANGED pcW
     ELSE pcW' = [pcW EXCEPT ![w] = "b3"] /\ UNCHANGED claimNext
  /\ UNCHANGED <<pcP, tokLeft, nextP, prio, seq, queue, closed, tokId, held, rawBuf, arrived, nBuf, batches, rounds>>

\* phase 3b/4: worker 0 flushes and cleans up; everybody goes to barrier 4
Flush(w) ==
  /\ pcW[w] = "p4"
  /\ pcW' = [pcW EXCEPT ![w] = "b4"]
  /\ UNCHANGED <<pcP, tokLeft, nextP, prio, seq, queue, closed, tokId, held, rawBuf, arrived, claimNext, nBuf, batches, rounds>>

Worker(w) == Pull(w) \/ Segment(w) \/ (\E b \in 1..4 : Arrive(w, b)) \/ Classify(w) \/ Claim(w) \/ Flush(w)

Next == Producer \/ \E w \in Workers : Worker(w)

Fairness == WF_vars(Producer) /\ \A w \in Workers : WF_vars(Worker(w))
Spec == Init /\ [][Next]_vars /\ Fairness

-----------------------------------------------------------------------------
\* ---- properties -----------------------------------------------------------------
Terminated == Done /\ \A w \in Workers : pcW[w] = "exited"

\* C05 (liveness): pushing and finalizing completes, every worker exits
Termination == <>Terminated

\* C05 (safety parts)
NoLostContig == Terminated => UNION {batches[i] : i \in 1..Len(batches)} = 1..NC /\ queue = {}
                              /\ \A w \in Workers : rawBuf[w] = {}
EachOnce == \A i, j \in 1..Len(batches) : i # j => batches[i] \cap batches[j] = {}
BarrierSane == Cardinality(arrived) < N /\ \A w \in arrived : pcW[w] \in {"w1", "w2", "w3", "w4"}
\* all workers waiting at a barrier wait at the SAME barrier
SameBarrier == \A a, b \in arrived : pcW[a] = pcW[b]

\* C04: the sequence of batch compositions is a function of the push history alone
NumTokenOps == Cardinality({i \in 1..Len(Script) : Script[i].op = "tokens"})
RECURSIVE ExpectedFrom(_, _, _)
ExpectedFrom(i, cur, acc) ==
  IF i > Len(Script) THEN acc
  ELSE IF Script[i].op = "contig" THEN ExpectedFrom(i + 1, cur \cup {Script[i].i}, acc)
  ELSE IF Script[i].op = "tokens" THEN ExpectedFrom(i + 1, {}, Append(acc, cur))
  ELSE ExpectedFrom(i + 1, cur, acc)
ExpectedBatches == ExpectedFrom(1, {}, <<>>)
Deterministic == Terminated => batches = ExpectedBatches
\* stronger, stepwise: every batch fixed so far is the expected one
PrefixDeterministic == \A i \in 1..Len(batches) : i <= Len(ExpectedBatches) /\ batches[i] = ExpectedBatches[i]

\* C18: priorities stay in the machine range (MaxP stands for i32::MAX; Wrapped = out of range)
PriorityInRange == \A x \in queue : x.prio >= Low /\ x.prio <= MaxP
=============================================================================
