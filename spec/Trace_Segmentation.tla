------------------------ MODULE Trace_Segmentation ------------------------
(* Trace validation for Segmentation.tla.  One case = one call of the real      *)
(* split_at_splitters_with_size / split_at_splitters:                           *)
(*   start  the input: contig (codes 0..15), k, splitter set (symbol sequences)  *)
(*   seg    one returned segment: data, front / back k-mer (symbols or MISSING), *)
(*          last = it is the final element of the returned vector                *)
(*   end    number of segments returned                                          *)
(* Every seg event must be a Split / Finish step of the specification whose      *)
(* emitted segment has exactly the logged bases, and the k-mers the property      *)
(* speaks about must be the specification's:                                     *)
(*   - the back k-mer of every segment that is followed by another one and the    *)
(*     front k-mer of every segment that follows another one (the internal        *)
(*     boundary, = canonical k-mer of the k overlapping bases, a splitter);       *)
(*   - both k-mers MISSING when the contig is shorter than k or holds no splitter *)
(*     occurrence (then Split is never enabled, so there is exactly one segment).  *)
(* The front k-mer of the first and the back k-mer of the last of several         *)
(* segments are not constrained by the property and are not compared.             *)
EXTENDS Segmentation, TLC, Json, IOUtils

Rec == ndJsonDeserialize(IOEnv.TRACE)

VARIABLE l
tvars == <<vars, l>>

IsEvent(e) == l <= Len(Rec) /\ Rec[l].ev = e /\ l' = l + 1

TStart ==
  /\ IsEvent("start")
  /\ LET ev == Rec[l] IN
       /\ ev.k \in 1..32
       /\ \A i \in 1..Len(ev.splitters) : Len(ev.splitters[i]) = ev.k
       /\ contig' = ev.contig /\ k' = ev.k
       /\ splitters' = {ev.splitters[i] : i \in 1..Len(ev.splitters)}
       /\ segStart' = 0 /\ front' = MISSING /\ segs' = <<>> /\ done' = FALSE

TSeg ==
  /\ IsEvent("seg")
  /\ LET ev == Rec[l]
         e  == segStart + Len(ev.data)
     IN
       /\ IF ev.last THEN Finish ELSE Split(e)
       /\ LET sg == segs'[Len(segs')] IN
            /\ sg.data = ev.data
            /\ ev.lowzero
            /\ segs # <<>> => ev.front = sg.front
            /\ ~ev.last => ev.back = sg.back
            /\ (ev.last /\ segs = <<>> /\ (N < k \/ NoSplitterOccurs)) =>
                  (ev.front = MISSING /\ ev.back = MISSING)

TEnd == IsEvent("end") /\ done /\ Rec[l].n = Len(segs) /\ UNCHANGED vars

TNext == TStart \/ TSeg \/ TEnd
TInit == InitState(<<>>, 1, {}) /\ l = 1
TSpec == TInit /\ [][TNext]_tvars

Accepted ==
  LET d == TLCGet("stats").diameter IN
  IF d - 1 = Len(Rec) THEN TRUE ELSE PrintT(<<"UNMATCHED", d>>) /\ FALSE
===========================================================================
