SPECIFICATION MCSpec
CONSTANTS K = 4
          MaxLen = 7
          Alphabet = {0,1,2,3,4}
INVARIANTS Refinement CanonicalLaws RestartLaw Emit
CHECK_DEADLOCK FALSE
