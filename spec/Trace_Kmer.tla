---------------------------- MODULE Trace_Kmer ----------------------------
(* Trace validation for Kmer.tla: every call on the real `Kmer` objects is one  *)
(* event; it must be a step of the specification and the logged post-state must *)
(* equal the specification's.  K comes from the cfg generated per k.            *)
EXTENDS Kmer, TLC, Json, IOUtils

Rec == ndJsonDeserialize(IOEnv.TRACE)

VARIABLE l
tvars == <<vars, l>>

IsEvent(e) == l <= Len(Rec) /\ Rec[l].ev = e /\ l' = l + 1

TStart == IsEvent("start") /\ Rec[l].k = K
          /\ hist' = <<>> /\ dir' = <<>> /\ rc' = <<>> /\ size' = 0

TStep ==
  /\ IsEvent("step")
  /\ LET e == Rec[l] IN
     /\ Step(e.sym)
     /\ size' = e.size /\ dir' = e.dir /\ rc' = e.rc
     /\ e.full = Full' /\ e.lowzero /\ e.modes
     /\ Full' => /\ e.canon = DataCanon' /\ e.isdir = DirFlag'
                 /\ LET w == WindowAt(hist', K) IN
                    /\ e.fn_canon = Canon(w) /\ e.fn_rc = RC(w)
                    /\ e.fn_canon_of_rc = Canon(w) /\ e.fn_rcrc = w /\ e.fn_lowzero

TEnum == IsEvent("enum") /\ Rec[l].result = Enumerate(hist) /\ UNCHANGED vars

\* function-level API on one explicit window (exhaustive 4^k sweep)
TWin == /\ IsEvent("win") /\ UNCHANGED vars
        /\ LET e == Rec[l] IN
             /\ Len(e.w) = K
             /\ e.fn_canon = Canon(e.w) /\ e.fn_rc = RC(e.w) /\ e.fn_rcrc = e.w
             /\ e.fn_canon_of_rc = Canon(e.w) /\ e.fn_lowzero
             /\ LexLeq(e.fn_canon, e.w) /\ LexLeq(e.fn_canon, RC(e.w))

TNext == TStart \/ TStep \/ TEnum \/ TWin
TInit == Init /\ l = 1
TSpec == TInit /\ [][TNext]_tvars

Accepted ==
  LET d == TLCGet("stats").diameter IN
  IF d - 1 = Len(Rec) THEN TRUE ELSE PrintT(<<"UNMATCHED", d>>) /\ FALSE
===========================================================================
