------------------------------- MODULE Kmer -------------------------------
(* Sliding canonical k-mer window (ragc-core/src/kmer.rs, kmer_extract.rs).    *)
(* Abstract state: hist, every symbol fed so far (non-ACGT symbols included).  *)
(* Implementation-shaped state: the three registers of `Kmer`                  *)
(*   dir  - left-aligned packing of the window     (sequence of symbols)       *)
(*   rc   - left-aligned packing of its reverse complement                     *)
(*   size - cur_size                                                            *)
(* Actions are the calls the code makes per input symbol: Insert(s) for an      *)
(* ACGT symbol, Reset for anything else (enumerate_kmers, segment.rs, ...).     *)
EXTENDS Naturals, Sequences, FiniteSets, Sym

CONSTANTS K,        \* k-mer length
          MaxLen,   \* bound on |hist| for the exhaustive model
          Alphabet  \* symbols fed (subset of 0..4; 4 stands for any non-ACGT code)

VARIABLES hist, dir, rc, size
vars == <<hist, dir, rc, size>>

Init == hist = <<>> /\ dir = <<>> /\ rc = <<>> /\ size = 0

\* insert_canonical(symbol): kmer.rs:74-88
Insert(s) ==
  /\ IsACGT(s)
  /\ hist' = Append(hist, s)
  /\ rc'   = FirstN(<<Comp(s)>> \o rc, K)        \* >>=2 ; += rc(s)<<62 ; &= mask
  /\ dir'  = IF size = K THEN Append(Tail(dir), s) ELSE Append(dir, s)
  /\ size' = IF size = K THEN K ELSE size + 1

\* reset(): kmer.rs:66-70, called by every user on a non-ACGT symbol
Reset(s) ==
  /\ ~IsACGT(s)
  /\ hist' = Append(hist, s)
  /\ dir' = <<>> /\ rc' = <<>> /\ size' = 0

Step(s) == Insert(s) \/ Reset(s)
Next == Len(hist) < MaxLen /\ \E s \in Alphabet : Step(s)
Spec == Init /\ [][Next]_vars

-----------------------------------------------------------------------------
\* accessors
Full       == size = K
DataCanon  == IF LexLeq(dir, rc) THEN dir ELSE rc          \* min(kmer_dir, kmer_rc)
DirFlag    == LexLeq(dir, rc)                              \* kmer_dir <= kmer_rc

\* --- C20 as invariants ---
\* refinement: registers are a function of the history alone ("from scratch")
Refinement ==
  /\ dir  = WindowAt(hist, K)
  /\ rc   = RC(WindowAt(hist, K))
  /\ size = Len(WindowAt(hist, K))
  /\ Full <=> HasWindow(hist, K)

\* sliding value = from-scratch value = canonical value of the RC window = the smaller packing
CanonicalLaws ==
  Full =>
    LET w == WindowAt(hist, K) IN
      /\ DataCanon = Canon(w)
      /\ DataCanon = Canon(RC(w))
      /\ (LexLeq(DataCanon, w) /\ LexLeq(DataCanon, RC(w)) /\ DataCanon \in {w, RC(w)})
      /\ DirFlag = IsDir(w)
      /\ (DirFlag <=> ~LexLess(RC(w), w))
      /\ RC(RC(w)) = w

\* a non-ACGT symbol restarts the window
RestartLaw ==
  (hist # <<>> /\ ~IsACGT(hist[Len(hist)])) => (size = 0 /\ dir = <<>> /\ rc = <<>>)

\* enumerate_kmers: canonical k-mers of all full windows, in order
RECURSIVE EnumUpTo(_, _)
EnumUpTo(w, n) ==
  IF n = 0 THEN <<>>
  ELSE LET p == SubSeq(w, 1, n) IN
       IF HasWindow(p, K) THEN Append(EnumUpTo(w, n - 1), Canon(WindowAt(p, K)))
       ELSE EnumUpTo(w, n - 1)
Enumerate(w) == EnumUpTo(w, Len(w))
=============================================================================
