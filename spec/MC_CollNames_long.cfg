SPECIFICATION MCSpec
CONSTANTS RunCap = 100
          MaxNames = 2
          DoEmit = TRUE
          NameSet <- N_long
INVARIANTS Law Emit
CHECK_DEADLOCK FALSE
