SPECIFICATION MCSpec
CONSTANTS Cap = 2
 c1 = c1
 c2 = c2
 m = m
 p1 = p1
 p2 = p2
 Threads = {c1,c2,m,p1,p2}
 Producers = {p1,p2}
 Consumers = {c1,c2}
 Closers = {m}
 Extra = {}
 NPush = 2
 NPull = 2
 NClose = 1
 Sizes = {0,1,2,3}
 Prios = {0}
 PModes = {"push","try_push"}
 CModes = {"pull","try_pull"}
 Spur = TRUE
 Eager = FALSE
 NoBlock = FALSE
 Hist = FALSE
SYMMETRY Sym
INVARIANTS TypeOK ExactlyOnce PriorityOrder Bound AfterClose SeqSpec NoStuck NoWaitClosed
PROPERTIES Refines
CHECK_DEADLOCK FALSE
