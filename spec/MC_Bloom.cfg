SPECIFICATION MSpec
CONSTANTS
  Kmers = {1, 2, 3}
  NH = 2
  Sizes = {1, 64, 65, 100}
  HSpace <- AllH
  MaxOps = 4
  Emit = FALSE
INVARIANTS TypeOK NoFalseNegative EmptySaysNo CountsInserts
VIEW NoHistView
CHECK_DEADLOCK FALSE
