SPECIFICATION Spec
CONSTANTS
  N = 3
  Contigs <- C6
  Mode = "single"
  PackB = 2
  Cap = 2
  TokenRule = "fixed"
  RefSamples = 1
INVARIANTS NoLostContig EachOnce BarrierSane SameBarrier Deterministic PrefixDeterministic PriorityInRange
PROPERTIES Termination
CHECK_DEADLOCK FALSE
