\* Trace validation: TRACE=<file.ndjson> in the environment (lib/common.validate_trace generates the same cfg).
SPECIFICATION TSpec
INVARIANTS TSingletonOnly TDisjoint
POSTCONDITION Accepted
CHECK_DEADLOCK FALSE
