SPECIFICATION Spec
CONSTANTS
  W = 128
  TextSizes <- MCTextSizesBig
  Bounds <- MCBounds
  RefLen = 17
  KeyLen = 3
  MinMatch = 6
  HStep = 4
  Variant = "estimate"
  FinalRule = "wrapping"
INVARIANTS TypeOK NoPlainWrap IndexInRange OvershootPaid FinalValueRepresentable
CHECK_DEADLOCK FALSE
