SPECIFICATION Spec
CONSTANTS K = 2
          Contig <- C12
          Cuts <- Cuts12k2
          RcRule = "format"
INVARIANTS PartsContiguous ReassembleEqualsInput PiecesLongEnough
CHECK_DEADLOCK FALSE
