------------------------------- MODULE MC_Cli -------------------------------
(* Bounded model of Cli.tla + REPLAY emission.                                             *)
(* Families (constant Family):                                                             *)
(*  "getset"  an archive with the catalogue Setup.samples is at the path; every reader      *)
(*            command of the bounded request space is issued once (request lists of        *)
(*            length <= MaxReq over the catalogue names + unknown names, with repeats;     *)
(*            every prefix of every catalogue name + a prefix matching nothing;            *)
(*            destinations stdout / -o file / unwritable -o); and nothing / something      *)
(*            unreadable is at the archive path (same commands, single names).             *)
(*  "create"  [create of an older archive at the same path;] create with every flag         *)
(*            combination x input shape x fault; after exit 0: listset, listctg of every    *)
(*            catalogue name, getset with the empty prefix.                                 *)
(* Every maximal behaviour is printed as one JSON line: the commands, the archive before   *)
(* each command, the outcome of the mechanism model and the outcomes the contract allows.  *)
(* The catalogue of the "getset" family is read from the file named by the environment     *)
(* variable CLI_SETUP when set (the catalogue `ragc listset`/`listctg` report for the      *)
(* archive the real binary has built), else the default below.                             *)
EXTENDS Cli, TLC, Json, IOUtils

CONSTANTS Family, MaxReq,
          Level,      \* 1 = quick, 2 = thorough (more unknown names, invalid capacity)
          WithPre,    \* create family: also start from an older archive at the output path
          Threads     \* create family: values of -t

VARIABLES h, phase
mcvars == <<vars, h, phase>>

AsSeq(f) == <<>> \o f
Smp(n, k) == [name |-> n, nrec |-> k]
S1 == Smp(<<1, 2>>, 2)    S2 == Smp(<<1, 1>>, 3)    S3 == Smp(<<2, 1>>, 1)      \* "ab" "aa" "ba"
P1 == Smp(<<1, 2, 4, 5>>, 2)  P2 == Smp(<<1, 1, 4, 5>>, 1)  P3 == Smp(<<2, 1, 4, 6>>, 2)   \* "ab#0" "aa#0" "ba#1"
Old == Smp(<<3, 1>>, 1)                                                          \* "ca"

DefaultSetup == [samples |-> <<S1, S2, S3>>]
Setup == IF "CLI_SETUP" \in DOMAIN IOEnv THEN JsonDeserialize(IOEnv.CLI_SETUP) ELSE DefaultSetup
SetupArch == Good(Setup.samples)

Cmd0 == [cmd |-> "none", mode |-> "names", names |-> <<>>, prefix |-> <<>>, dest |-> "stdout",
         batch |-> FALSE, adaptive |-> FALSE, concat |-> FALSE, threads |-> 1, qcap |-> "default",
         inputs |-> <<>>, outpath |-> "ok"]

\* ---- reader commands -------------------------------------------------------------------
CatNames == Range(SetupArch.cat)
Unknowns == IF Level >= 2 THEN {<<3, 3>>, <<1>>, <<1, 2, 1>>} ELSE {<<3, 3>>}   \* "cc"; a proper prefix / extension of a name
ReqNames == CatNames \cup Unknowns
ReqLists == UNION {[1..n -> ReqNames] : n \in 1..MaxReq}
Prefixes == UNION {{SubSeq(n, 1, k) : k \in 0..Len(n)} : n \in CatNames} \cup {<<3>>}
Dests    == {"stdout", "file"}

GetsetNames(r, d) == [Cmd0 EXCEPT !.cmd = "getset", !.mode = "names", !.names = AsSeq(r), !.dest = d]
GetsetPrefix(p, d) == [Cmd0 EXCEPT !.cmd = "getset", !.mode = "prefix", !.prefix = p, !.dest = d]
Listset(d) == [Cmd0 EXCEPT !.cmd = "listset", !.dest = d]
Listctg(r, d) == [Cmd0 EXCEPT !.cmd = "listctg", !.names = AsSeq(r), !.dest = d]

ShortLists == UNION {[1..n -> ReqNames] : n \in 1..(IF MaxReq < 2 THEN MaxReq ELSE 2)}
OneLists == [1..1 -> ReqNames]
\* on a missing / unreadable archive every command has to fail: single names are enough
BadCmds ==
  {GetsetNames(r, d) : r \in OneLists, d \in Dests} \cup
  {GetsetPrefix(p, d) : p \in Prefixes, d \in Dests} \cup
  {Listset(d) : d \in Dests} \cup
  {Listctg(r, d) : r \in OneLists, d \in Dests}
ReadCmds ==
  {GetsetNames(r, d) : r \in ReqLists, d \in Dests} \cup
  {GetsetPrefix(p, d) : p \in Prefixes, d \in Dests} \cup
  {Listset(d) : d \in Dests} \cup
  {Listctg(r, d) : r \in ShortLists, d \in Dests} \cup
  \* an -o path that cannot be written
  {GetsetNames(r, "badfile") : r \in [1..1 -> CatNames]} \cup {GetsetPrefix(<<>>, "badfile"), Listset("badfile")} \cup
  {Listctg(r, "badfile") : r \in [1..1 -> CatNames]}

\* ---- create commands -------------------------------------------------------------------
File(samples, readable) == [readable |-> readable, samples |-> samples]
Shapes == {"one", "pansn", "several"}
Faults(shape) == IF shape = "several" THEN {"none", "in1", "inlater", "out"} ELSE {"none", "in1", "out"}
Inputs(shape, fault) ==
  CASE shape = "one"     -> <<File(<<S1>>, fault # "in1")>>
    [] shape = "pansn"   -> <<File(<<P1, P2, P3>>, fault # "in1")>>
    [] shape = "several" -> <<File(<<S1>>, fault # "in1"), File(<<S2>>, fault # "inlater"), File(<<S3>>, TRUE)>>
QCaps == IF Level >= 2 THEN {"small", "default", "invalid"} ELSE {"small", "default"}
Create(b, a, c, t, q, shape, fault) ==
  [Cmd0 EXCEPT !.cmd = "create", !.batch = b, !.adaptive = a, !.concat = c, !.threads = t, !.qcap = q,
               !.inputs = Inputs(shape, fault), !.outpath = IF fault = "out" THEN "unwritable" ELSE "ok"]
AllCreates == {Create(b, a, c, t, q, s, f) : b \in BOOLEAN, a \in BOOLEAN, c \in BOOLEAN, t \in Threads, q \in QCaps,
                                             s \in Shapes, f \in {"none", "in1", "out"}} \cup
              {Create(b, a, c, t, q, "several", "inlater") : b \in BOOLEAN, a \in BOOLEAN, c \in BOOLEAN, t \in Threads, q \in QCaps}
MinT == CHOOSE t \in Threads : \A u \in Threads : t <= u
PreCmd == [Cmd0 EXCEPT !.cmd = "create", !.inputs = <<File(<<Old>>, TRUE)>>]
\* over an older archive: one thread count / capacity is enough (the path state is what varies)
PreCreates == {c \in AllCreates : c.threads = MinT /\ c.qcap = "default"}

\* ---- scheduling of commands --------------------------------------------------------------
NextCmds ==
  CASE Family = "getset" -> IF phase # "start" THEN {} ELSE IF arch.kind = "good" THEN ReadCmds ELSE BadCmds
    [] Family = "create" ->
         CASE phase = "start"   -> AllCreates \cup (IF WithPre THEN {PreCmd} ELSE {})
           [] phase = "pre"     -> IF res.exit = "ok" THEN PreCreates ELSE {}
           [] phase = "created" -> IF res.exit = "ok" THEN {Listset("stdout")} ELSE {}
           [] phase = "listed"  -> {Listctg(arch.cat, "stdout")}
           [] phase = "ctgs"    -> {GetsetPrefix(<<>>, "file")}
           [] OTHER             -> {}
NextPhase(c) ==
  CASE Family = "getset" -> "end"
    [] phase = "start" /\ c = PreCmd /\ WithPre -> "pre"
    [] phase \in {"start", "pre"} -> "created"
    [] phase = "created" -> "listed"
    [] phase = "listed" -> "ctgs"
    [] OTHER -> "end"

InitArchs == IF Family = "getset" THEN {SetupArch, NoArch, BadArch} ELSE {NoArch}

Entry == [cmd |-> op, pre |-> pre, chosen |-> Result,
          allowed |-> IF op.cmd = "create" THEN {} ELSE ReadOutcomes(op, pre),
          mustfail |-> IF op.cmd = "create" THEN MustFail(op) ELSE FALSE,
          lists |-> IF op.cmd = "create" THEN InputSamples(op) ELSE <<>>]

MCInit == /\ \E a \in InitArchs : InitWith(a)
          /\ h = <<>> /\ phase = "start"
MCIssue == /\ pc \in {"idle", "done"}
           /\ \E c \in NextCmds : Issue(c) /\ phase' = NextPhase(c)
           /\ UNCHANGED h
Hist == h' = (IF pc' = "done" THEN Append(h, Entry') ELSE h) /\ UNCHANGED phase
\* one named disjunct per mechanism action (TLC reports coverage per disjunct: vacuity guard of the check)
MGsOpen     == GsOpen /\ Hist
MGsSample   == GsSample /\ Hist
MGsEnd      == GsEnd /\ Hist
MLsRun      == LsRun /\ Hist
MCrDispatch == CrDispatch /\ Hist
MCrPush     == CrPush /\ Hist
MCrFinalize == CrFinalize /\ Hist
MCNext == MCIssue \/ MGsOpen \/ MGsSample \/ MGsEnd \/ MLsRun \/ MCrDispatch \/ MCrPush \/ MCrFinalize
MCSpec == MCInit /\ [][MCNext]_mcvars

Terminal == pc = "done" /\ NextCmds = {}
Emit == Terminal => PrintT(<<"REPLAY", ToJson([family |-> Family, steps |-> h])>>)

\* the contract itself composes: a request list answers the concatenation of its singles
ASSUME \A r \in ReqLists :
         LET c == GetsetNames(r, "stdout")
             whole == ReadOutcomes(c, SetupArch) IN
         (\A i \in DOMAIN r : Known(SetupArch, r[i])) =>
            /\ Cardinality(whole) = 1
            /\ \A o \in whole :
                 /\ o.exit = "ok"
                 /\ o.out = Flat([i \in DOMAIN r |->
                              (CHOOSE s \in ReadOutcomes(GetsetNames(<<r[i]>>, "stdout"), SetupArch) : TRUE).out])
=============================================================================
