SPECIFICATION DesignSpec
CONSTANTS
  Batches <- MCBatches
  ContigsOf <- MCContigsOf
  SegGroups <- MCSegGroups
  RefKind <- MCRefKind
  PrefixMatch <- MCPrefixMatch
  Handles = {1}
  CursorReset = FALSE
  RefPath = "meta"
  RangeCheck = "afterLookup"
  MaxLen = 0
  Alpha = "full"
INVARIANTS NoPanic

CHECK_DEADLOCK FALSE
