-------------------------- MODULE Trace_Collection --------------------------
(* Trace validation for Collection.tla.  One event per call on the real objects   *)
(* (CollectionV3 through an Archive file or through the cfg-guarded codec          *)
(* wrappers, Decompressor, StreamingQueueCompressor.push).  Each event must be a   *)
(* step of the design specification; logged results must equal the specification's.*)
(* Stored bytes are the REAL bytes (read back from the file / returned by the      *)
(* wrapper): the specification's decoder must map them to the catalogue as added   *)
(* (StoreBatch guard), and everything the real reader later returns must equal     *)
(* what the specification's decoder makes of the same bytes.                       *)
(*                                                                                 *)
(* Stateless codec events (`names`, `details`, `samples`) check one name list /    *)
(* descriptor table / sample list:  spec-decode(real bytes) = input = real-decode. *)
EXTENDS Collection, TLC, Json, IOUtils

Rec == ndJsonDeserialize(IOEnv.TRACE)

VARIABLE l
tvars == <<vars, l>>

IsEvent(e) == l <= Len(Rec) /\ Rec[l].ev = e /\ l' = l + 1

TStart == /\ IsEvent("start") /\ Rec[l].pack = Pack
          /\ cat' = <<>> /\ arch' = EmptyArch /\ rcat' = <<>> /\ cursor' = 0 /\ nextB' = 0
          /\ phase' = "write" /\ predLen' = Rec[l].pl

\* ---- writer ------------------------------------------------------------------
TRegister == /\ IsEvent("register")
             /\ LET e == Rec[l] IN
                  /\ Register(e.s, e.c)
                  /\ e.new = (cat' # cat)
                  /\ e.nsamples = Len(cat')
                  /\ e.ncontigs = Len(cat'[SampleIdx(cat', e.s)].contigs)
\* StreamingQueueCompressor::push registers (sample, header) synchronously; nothing is returned
TPush == IsEvent("push") /\ Register(Rec[l].s, Rec[l].c)
TPlace == IsEvent("place") /\ Place(Rec[l].s, Rec[l].c, Rec[l].rows)
\* get_samples_list(false) / get_contig_list on the writer
TWriterList == /\ IsEvent("wlist") /\ UNCHANGED vars
               /\ Rec[l].samples = SampleNames(cat) /\ Rec[l].contigs = NameLists(cat)

TStoreNames == IsEvent("store_names") /\ StoreSampleNames(Rec[l].bytes)

\* descriptor rows decided by the real compressor (pipeline cases): the catalogue adopts the
\* rows the specification's decoder reads from the stored bytes; shape and names are checked.
SameShape(t, u) == /\ Len(t) = Len(u)
                   /\ \A i \in 1..Len(t) : Len(t[i]) = Len(u[i])
WithRows(sl, t) == [i \in 1..Len(sl) |-> [name |-> sl[i].name, contigs |->
                      [j \in 1..Len(sl[i].contigs) |-> [name |-> sl[i].contigs[j].name, segs |-> t[i][j]]]]]
StoreBatchAdopt(nameBytes, detStreams) ==
  /\ phase = "store"
  /\ LET b == Len(arch.names)  from == BatchFrom(b)  to == BatchTo(cat, b)
         sl == Slice(cat, from, to)  t == DecDetails(detStreams, predLen) IN
       /\ b < NoBatches(cat)
       /\ DecNamesBuf(nameBytes) = NameLists(sl)
       /\ SameShape(t, Table(sl))
       /\ \A i \in 1..Len(t) : \A j \in 1..Len(t[i]) : \A p \in 1..Len(t[i][j]) : t[i][j][p].g # BAD
       /\ cat' = SubSeq(cat, 1, from) \o WithRows(sl, t) \o SubSeq(cat, to + 1, Len(cat))
  /\ arch' = [arch EXCEPT !.names = Append(@, nameBytes), !.det = Append(@, detStreams)]
  /\ UNCHANGED <<predLen, rcat, cursor, nextB, phase>>
TStoreBatch == /\ IsEvent("store_batch") /\ Rec[l].b = Len(arch.names)
               /\ IF Rec[l].rows_known THEN StoreBatch(Rec[l].names, Rec[l].det)
                  ELSE StoreBatchAdopt(Rec[l].names, Rec[l].det)

\* ---- reader ------------------------------------------------------------------
\* `cat` (the real reader's whole catalogue right after opening: no contigs yet) is logged where
\* the harness can see it (CollectionV3 level); the Decompressor shows the sample list only
TOpen == /\ IsEvent("open") /\ OpenRead /\ Rec[l].samples = ListSamples(rcat')
         /\ ("cat" \in DOMAIN Rec[l]) => Rec[l].cat = rcat'
\* the real catalogue after the call is logged as a difference to the one before the call
TLoad == /\ IsEvent("load") /\ LoadBatch(Rec[l].b)
         /\ LET e == Rec[l]
                ch == [i \in {e.changed[k].i : k \in 1..Len(e.changed)} |->
                         (CHOOSE k \in 1..Len(e.changed) : e.changed[k].i = i)] IN
              /\ e.n = Len(rcat')
              /\ \A i \in 1..Len(rcat') :
                   IF i \in DOMAIN ch THEN rcat'[i] = e.changed[ch[i]].sample ELSE rcat'[i] = rcat[i]

\* Decompressor::list_contigs: loads all batches iff the sample has no contigs loaded yet
TListContigs ==
  /\ IsEvent("list_contigs") /\ phase = "read" /\ nextB = 0
  /\ LET e == Rec[l]  si == SampleIdx(rcat, e.s) IN
       /\ si # 0
       /\ IF rcat[si].contigs = <<>> THEN LoadPass ELSE UNCHANGED vars
       /\ e.result = ListContigs(rcat', e.s)
\* Decompressor::get_all_segments: loads all batches, then (sample, contig, rows) in catalogue order
Flat(rc) == Flatten([i \in 1..Len(rc) |-> [j \in 1..Len(rc[i].contigs) |->
               [s |-> rc[i].name, c |-> rc[i].contigs[j].name, segs |-> rc[i].contigs[j].segs]]])
TAllSegments == /\ IsEvent("all_segments") /\ LoadPass /\ Rec[l].result = Flat(rcat')
TListSamples == /\ IsEvent("list_samples") /\ phase = "read" /\ UNCHANGED vars
                /\ Rec[l].result = ListSamples(rcat)

\* ---- stateless codec events (cfg-guarded wrappers) ----------------------------
TNames == /\ IsEvent("names") /\ UNCHANGED vars
          /\ LET e == Rec[l] IN DecNamesBuf(e.buf) = e.lists /\ e.dec = e.lists
TDetails == /\ IsEvent("details") /\ UNCHANGED vars
            /\ LET e == Rec[l] IN DecDetails(e.streams, e.pl) = e.table /\ e.dec = e.table
TSamples == /\ IsEvent("samples") /\ UNCHANGED vars
            /\ LET e == Rec[l] IN DecSampleNames(e.buf) = e.list /\ e.dec = e.list

TNext == \/ TStart \/ TRegister \/ TPush \/ TPlace \/ TWriterList \/ TStoreNames \/ TStoreBatch
         \/ TOpen \/ TLoad \/ TListContigs \/ TAllSegments \/ TListSamples
         \/ TNames \/ TDetails \/ TSamples
TInit == /\ cat = <<>> /\ arch = EmptyArch /\ rcat = <<>> /\ cursor = 0 /\ nextB = 0
         /\ phase = "write" /\ predLen = 0 /\ l = 1
TSpec == TInit /\ [][TNext]_tvars

Accepted ==
  LET d == TLCGet("stats").diameter IN
  IF d - 1 = Len(Rec) THEN TRUE ELSE PrintT(<<"UNMATCHED", d>>) /\ FALSE
===========================================================================
