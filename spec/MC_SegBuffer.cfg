SPECIFICATION MSpec
CONSTANTS
  Parts = {}
  G0 = 2
  MaxG = 4
  MaxOps = 4
  Emit = FALSE
INVARIANTS TypeOK Conserved SortedAfterSort OneGroupPerKey
VIEW ViewNoHist
CHECK_DEADLOCK FALSE
