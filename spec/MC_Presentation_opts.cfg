SPECIFICATION MCSpec
CONSTANTS Family = "opts"
          Level = 1
INVARIANTS ChainInv DoneInv PackInv WidthInv Emit
CHECK_DEADLOCK FALSE
