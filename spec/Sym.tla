------------------------------- MODULE Sym -------------------------------
(* Symbols of the AGC nucleotide code and the sequence operators every other   *)
(* module uses.  Codes: A=0 C=1 G=2 T=3, N=4, other IUPAC codes 5..15, the     *)
(* unknown-letter code 30.  k-mers are sequences of 2-bit symbols (TLC ints are *)
(* 32 bit, a packed u64 cannot be represented): the numeric order of            *)
(* left-aligned packed values of equal length equals the lexicographic order    *)
(* of the symbol sequences.                                                     *)
EXTENDS Naturals, Sequences, FiniteSets

ACGT == 0..3
IsACGT(s) == s \in ACGT

\* The FORMAT's complement: only A,C,G,T are complemented; every other code is kept.
Comp(s) == IF s < 4 THEN 3 - s ELSE s

Rev(w) == [i \in 1..Len(w) |-> w[Len(w) + 1 - i]]
RC(w)  == [i \in 1..Len(w) |-> Comp(w[Len(w) + 1 - i])]

MinOf(S) == CHOOSE x \in S : \A y \in S : x <= y
MaxOf(S) == CHOOSE x \in S : \A y \in S : y <= x

\* lexicographic order on sequences of naturals of EQUAL length
LexLeq(a, b) ==
  LET d == {i \in 1..Len(a) : a[i] # b[i]}
  IN  d = {} \/ a[MinOf(d)] < b[MinOf(d)]
LexLess(a, b) == a # b /\ LexLeq(a, b)

\* canonical form of a window of ACGT symbols and the direction flag
Canon(w) == IF LexLeq(w, RC(w)) THEN w ELSE RC(w)
IsDir(w) == LexLeq(w, RC(w))

\* last n elements / first n elements
LastN(w, n)  == IF Len(w) <= n THEN w ELSE SubSeq(w, Len(w) - n + 1, Len(w))
FirstN(w, n) == IF Len(w) <= n THEN w ELSE SubSeq(w, 1, n)

\* The longest suffix of w made of ACGT symbols only
RECURSIVE CleanSuffixLen(_, _)
CleanSuffixLen(w, i) == IF i = 0 \/ ~IsACGT(w[i]) THEN 0 ELSE 1 + CleanSuffixLen(w, i - 1)
CleanSuffix(w) == LastN(w, CleanSuffixLen(w, Len(w)))

\* the k-window "from scratch" at the end of history w: last k symbols of the clean suffix
WindowAt(w, k) == LastN(CleanSuffix(w), k)
HasWindow(w, k) == Len(CleanSuffix(w)) >= k

\* MISSING k-mer: a distinct top element (u64::MAX in the code)
MISSING == <<99>>
==========================================================================
