---------------------------- MODULE Trace_Naming ----------------------------
(* Stream naming (ragc-common/src/stream_naming.rs) against the format's naming   *)
(* rule as written in FormatOps.tla (custom base-64, least significant digit       *)
(* first, alphabet 0-9 A-Z a-z _ #; "x<digits>r" / "x<digits>d").  Growth of the    *)
(* specification beyond the listed properties (DESIGN.md 14.7): C02 sees only the    *)
(* names of the groups that occur in generated archives (ids up to a few hundred);   *)
(* here the real functions are recorded for dense and boundary ids up to 2^31-1.     *)
EXTENDS Naturals, Sequences, TLC, Json, IOUtils
F == INSTANCE FormatOps

Rec == ndJsonDeserialize(IOEnv.TRACE)
VARIABLE l
E == Rec[l]

\* one record = one id with the three names the code produced (as byte sequences)
NameOK(e) ==
  LET ds == F!B64Encode(e.id)
      p == F!SegStreamName(e.ref)
      q == F!SegStreamName(e.delta)
  IN /\ e.base = <<120>> \o ds                         \* "x" + digits
     /\ e.ref = <<120>> \o ds \o <<114>>               \* ... + "r"
     /\ e.delta = <<120>> \o ds \o <<100>>             \* ... + "d"
     /\ p.ok /\ p.gid = e.id /\ p.kind = "r"            \* and the reader's parse of the name gives the id back
     /\ q.ok /\ q.gid = e.id /\ q.kind = "d"

TInit == l = 1
TNext == l <= Len(Rec) /\ NameOK(E) /\ l' = l + 1
TSpec == TInit /\ [][TNext]_l
Accepted ==
  LET d == TLCGet("stats").diameter IN
  IF d - 1 = Len(Rec) THEN TRUE ELSE PrintT(<<"UNMATCHED", d>>) /\ FALSE
=============================================================================
