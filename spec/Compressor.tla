------------------------------ MODULE Compressor ------------------------------
(* Orientation and part-number bookkeeping of segment classification           *)
(* (classify_raw_segments_at_barrier, agc_compressor.rs 4200-4690) against the   *)
(* READER's reassembly rule (FormatOps: Orient, JoinContig).                     *)
(*                                                                               *)
(* For one contig the model walks its segmentation S_1 .. S_n (consecutive       *)
(* segments overlap by K symbols). For each segment the classification makes      *)
(* choices that depend on the group registry, terminators and LZ cost estimates;  *)
(* the model abstracts ALL of them as nondeterministic inputs:                    *)
(*   sr      should_reverse (front k-mer > back k-mer, or candidate search)       *)
(*   dec     "whole" | "split" | "left" | "right"  (known group / new group /     *)
(*            SplitAt / AssignToLeft / AssignToRight)                             *)
(*   pos     split position (K+1 .. len-K-1: find_split_by_cost post-processing)   *)
(*   lr, rr  orientation flags of the two pieces, ar of an assigned whole segment  *)
(* and keeps exactly what the code computes from them: which bytes are stored,     *)
(* with which flag, under which part number. The property is that the reader's     *)
(* rule reproduces the contig for EVERY such choice — so C01 cannot depend on the   *)
(* registry state, on cost estimates or on thread timing.                          *)
EXTENDS Naturals, Sequences, FiniteSets, Sym

CONSTANTS K,        \* k-mer length (overlap)
          Contig,   \* the contig: a sequence of symbol codes (incl. non-ACGT codes)
          Cuts,     \* segmentation: increasing sequence of end positions; segment i = (start_i, Cuts[i]) with K overlap
          RcRule    \* "format": complement only codes < 4 (data_rc, decompressor)
                    \* "mapN"  : reverse_complement_sequence before the fix (every code > 3 becomes N)

RCx(w) == IF RcRule = "format" THEN RC(w)
          ELSE [i \in 1..Len(w) |-> LET c == w[Len(w) + 1 - i] IN IF c < 4 THEN 3 - c ELSE 4]

NSeg == Len(Cuts)
SegStart(i) == IF i = 1 THEN 1 ELSE Cuts[i - 1] - K + 1
Seg(i) == SubSeq(Contig, SegStart(i), Cuts[i])

VARIABLES i,        \* next segment to classify
          partNo,   \* seg_part_no counter of this contig
          placed    \* set of [part, data, rev] registered for this contig
vars == <<i, partNo, placed>>

Init == i = 1 /\ partNo = 0 /\ placed = {}

HalfCeil == (K + 1) \div 2

\* known group or new group: stored in key orientation
Whole(sr) ==
  LET S == Seg(i)
      data == IF sr THEN RC(S) ELSE S          \* raw_seg.data_rc / raw_seg.data (precomputed with the format's RC)
  IN /\ placed' = placed \cup {[part |-> partNo, data |-> data, rev |-> sr]}
     /\ partNo' = partNo + 1 /\ i' = i + 1

\* AssignToLeft / AssignToRight: whole segment into an existing neighbour group with its own flag
Assign(sr, ar) ==
  LET S == Seg(i)
      segData == IF sr THEN RC(S) ELSE S
      data == IF ar # sr THEN RCx(segData) ELSE segData      \* reverse_complement_sequence
  IN /\ placed' = placed \cup {[part |-> partNo, data |-> data, rev |-> ar]}
     /\ partNo' = partNo + 1 /\ i' = i + 1

\* SplitAt(pos): two pieces with K overlap, flags lr / rr, part numbers swapped when reversed
Split(sr, pos, lr, rr) ==
  LET S == Seg(i)
      segData == IF sr THEN RC(S) ELSE S
      q == IF pos > HalfCeil THEN pos - HalfCeil ELSE 0           \* seg2_start_pos (saturating_sub)
      left == SubSeq(segData, 1, q + K)
      right == SubSeq(segData, q + 1, Len(segData))
      lfin == IF lr # sr THEN RCx(left) ELSE left
      rfin == IF rr # sr THEN RCx(right) ELSE right
      lpart == IF sr THEN partNo + 1 ELSE partNo
      rpart == IF sr THEN partNo ELSE partNo + 1
  IN /\ pos >= K + 1 /\ pos + K + 1 <= Len(S)                      \* find_split_by_cost: min_size = k + 1 at both ends
     /\ placed' = placed \cup {[part |-> lpart, data |-> lfin, rev |-> lr], [part |-> rpart, data |-> rfin, rev |-> rr]}
     /\ partNo' = partNo + 2 /\ i' = i + 1

Classify ==
  /\ i <= NSeg
  /\ \E sr \in BOOLEAN :
        \/ Whole(sr)
        \/ \E ar \in BOOLEAN : Assign(sr, ar)
        \/ \E pos \in 1..Len(Seg(i)), lr, rr \in BOOLEAN : Split(sr, pos, lr, rr)

Next == Classify
Spec == Init /\ [][Next]_vars

-----------------------------------------------------------------------------
\* the READER: descriptors in part order, Orient, drop K from every later piece
Parts == {p.part : p \in placed}
PieceAt(n) == CHOOSE p \in placed : p.part = n
Drop(s, n) == IF n >= Len(s) THEN <<>> ELSE SubSeq(s, n + 1, Len(s))
RECURSIVE Reassemble(_)
Reassemble(n) ==    \* pieces 0..n-1
  IF n = 0 THEN <<>>
  ELSE LET p == PieceAt(n - 1)
           o == IF p.rev THEN RC(p.data) ELSE p.data
       IN IF n = 1 THEN o ELSE Reassemble(n - 1) \o Drop(o, K)

\* part numbers are exactly 0 .. partNo-1, each once
PartsContiguous == Parts = 0..(partNo - 1) /\ Cardinality(placed) = partNo
\* what has been classified so far reassembles to the corresponding prefix of the contig
PrefixEnd == IF i = 1 THEN 0 ELSE Cuts[i - 1]
ReassembleEqualsInput == PartsContiguous => Reassemble(partNo) = SubSeq(Contig, 1, PrefixEnd)
\* every later piece is at least K long (the reader refuses shorter ones)
PiecesLongEnough == \A p \in placed : p.part > 0 => Len(p.data) >= K
=============================================================================
