SPECIFICATION MCSpec
CONSTANTS Ref <- RefA
          MinMatch = 5
          LitCodes = {0,3,4,15,30}
          NRunLens = {4,5,14}
          MatchLens = {5,6,7}
          MaxTok = 4
INVARIANTS Types ParseLaw DecodeLaw DecodesToLaw SepLaw TruncStrict Emit
PROPERTIES StepIsApply
CHECK_DEADLOCK FALSE
