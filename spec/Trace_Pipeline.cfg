SPECIFICATION TSpec
CONSTANTS
  N <- TN
  Contigs <- TContigs
  Mode <- TMode
  PackB <- TPack
  Cap <- TCap
  TokenRule = "fixed"
  RefSamples = 1
INVARIANTS NoLostContig EachOnce BarrierSane SameBarrier PrefixDeterministic PriorityInRange EndState StuckReport
POSTCONDITION Accepted
CHECK_DEADLOCK FALSE
