SPECIFICATION MCSpec
CONSTANTS Pack = 2
          RunCap = 100
          MaxReg = 3
          PL = 10
INVARIANTS SamplesPreserved CataloguePreserved PassPreserved WriterShape Progress Emit
CHECK_DEADLOCK FALSE
