---------------------------- MODULE CollectionOps ----------------------------
(* Constant operators: the AGC v3 *collection* (catalogue) format as a          *)
(* reference semantics on byte / integer sequences.  No variables, no           *)
(* CONSTANTS: the module can be EXTENDed / INSTANCEd by any other module        *)
(* (Collection.tla, Trace_Collection.tla, the whole-archive semantics).         *)
(*                                                                              *)
(* Source of the rules: ragc-common/src/collection.rs                           *)
(*   prefix varint                    :101-204                                  *)
(*   predictive zigzag                :224-260                                  *)
(*   sample names buffer              :509-536                                  *)
(*   contig-name delta codec          :539-762                                  *)
(*   descriptor table (5 streams)     :784-1044                                 *)
(* Bytes are integers 0..255.  A "name" is a byte sequence.  A signed byte      *)
(* -n (n in 1..127) is the integer 256-n.  TLC integers are 32 bit: every       *)
(* value handled here must be < 2^31 (the harness keeps ids/lengths below).     *)
(*                                                                              *)
(* Decoders are TOTAL: on a malformed input they return a value that contains   *)
(* BAD (-1), which never equals a real catalogue, instead of raising a TLC      *)
(* evaluation error -- a malformed encoding is a verdict, not a tool error.     *)
EXTENDS Naturals, Integers, Sequences, FiniteSets

BAD  == -1
SP   == 32            \* field separator ' '
NUL  == 0             \* string terminator
SAME == 129           \* (-127 as i8): "field equal to the previous name's field"

Rep(c, n) == [i \in 1..n |-> c]

\* ------------------------------------------------------------------------------
\* prefix varint: 1..5 bytes, prefixes 0 / 10 / 110 / 1110 / 1111xxxx
\* ------------------------------------------------------------------------------
THR1 == 128
THR2 == THR1 + 16384
THR3 == THR2 + 2097152
THR4 == THR3 + 268435456

VarintEnc(n) ==
  IF n < THR1 THEN <<n>>
  ELSE IF n < THR2 THEN LET m == n - THR1 IN <<128 + (m \div 256), m % 256>>
  ELSE IF n < THR3 THEN LET m == n - THR2 IN <<192 + (m \div 65536), (m \div 256) % 256, m % 256>>
  ELSE IF n < THR4 THEN LET m == n - THR3 IN
         <<224 + (m \div 16777216), (m \div 65536) % 256, (m \div 256) % 256, m % 256>>
  ELSE LET m == n - THR4 IN
         <<240, (m \div 16777216) % 256, (m \div 65536) % 256, (m \div 256) % 256, m % 256>>

\* number of bytes of the varint that starts with byte f
VarintLen(f) == IF f < 128 THEN 1 ELSE IF f < 192 THEN 2 ELSE IF f < 224 THEN 3 ELSE IF f < 240 THEN 4 ELSE 5

\* value of the varint at position p of b (p..p+len-1 must exist); [v |-> value, n |-> next position]
\* v = BAD when the buffer ends inside the varint or the value does not fit TLC's integers.
VarintAt(b, p) ==
  IF p > Len(b) THEN [v |-> BAD, n |-> p]
  ELSE LET f == b[p]  k == VarintLen(f) IN
    IF p + k - 1 > Len(b) THEN [v |-> BAD, n |-> Len(b) + 1]
    ELSE [n |-> p + k,
          v |-> CASE k = 1 -> f
                  [] k = 2 -> (f - 128) * 256 + b[p+1] + THR1
                  [] k = 3 -> (f - 192) * 65536 + b[p+1] * 256 + b[p+2] + THR2
                  [] k = 4 -> (f - 224) * 16777216 + b[p+1] * 65536 + b[p+2] * 256 + b[p+3] + THR3
                  [] OTHER -> IF b[p+1] >= 111 THEN BAD      \* would not fit 31 bits
                              ELSE b[p+1] * 16777216 + b[p+2] * 65536 + b[p+3] * 256 + b[p+4] + THR4]

\* all varints of a byte stream, in order (a whole descriptor stream)
RECURSIVE VarintAllFrom(_, _, _)
VarintAllFrom(b, p, acc) ==
  IF p > Len(b) THEN acc
  ELSE LET r == VarintAt(b, p) IN
       IF r.v = BAD THEN Append(acc, BAD) ELSE VarintAllFrom(b, r.n, Append(acc, r.v))
VarintAll(b) == VarintAllFrom(b, 1, <<>>)

RECURSIVE VarintEncAll(_)
VarintEncAll(s) == IF s = <<>> THEN <<>> ELSE VarintEnc(Head(s)) \o VarintEncAll(Tail(s))

\* ------------------------------------------------------------------------------
\* predictive zigzag (collection.rs:240-260)
\* ------------------------------------------------------------------------------
ZigEnc(c, q) == IF c < q THEN 2 * (q - c) - 1 ELSE IF c < 2 * q THEN 2 * (c - q) ELSE c
ZigDec(x, q) == IF x >= 2 * q THEN x ELSE IF x % 2 = 1 THEN (2 * q - x) \div 2 ELSE (x + 2 * q) \div 2

\* ------------------------------------------------------------------------------
\* byte strings: NUL-terminated strings, split / join on ' '
\* ------------------------------------------------------------------------------
\* position of the first byte equal to c at or after p (Len(b)+1 if none)
RECURSIVE FindByte(_, _, _)
FindByte(b, c, p) == IF p > Len(b) THEN p ELSE IF b[p] = c THEN p ELSE FindByte(b, c, p + 1)

\* fields of b separated by SP: always at least one field; "a  b" has an empty middle field
RECURSIVE SplitFrom(_, _, _)
SplitFrom(b, p, acc) ==
  LET q == FindByte(b, SP, p) IN
  IF q > Len(b) THEN Append(acc, SubSeq(b, p, Len(b)))
  ELSE SplitFrom(b, q + 1, Append(acc, SubSeq(b, p, q - 1)))
Split(b) == SplitFrom(b, 1, <<>>)

RECURSIVE JoinFrom(_, _)
JoinFrom(fs, i) == IF i > Len(fs) THEN <<>> ELSE <<SP>> \o fs[i] \o JoinFrom(fs, i + 1)
Join(fs) == IF fs = <<>> THEN <<>> ELSE fs[1] \o JoinFrom(fs, 2)

\* ------------------------------------------------------------------------------
\* contig-name delta codec against the previous name OF THE SAME SAMPLE
\* ------------------------------------------------------------------------------
\* encoder of one equal-length field (run-length of positions equal to the previous field,
\* runs cut at `cap`): collection.rs:553-577.  cnt = length of the pending run.
RECURSIVE EncRun(_, _, _, _, _)
EncRun(p, c, j, cnt, cap) ==
  LET flush == IF cnt > 0 THEN <<256 - cnt>> ELSE <<>> IN
  IF j > Len(c) THEN flush
  ELSE IF p[j] = c[j]
       THEN IF cnt = cap THEN <<256 - cnt>> \o EncRun(p, c, j + 1, 1, cap)
            ELSE EncRun(p, c, j + 1, cnt + 1, cap)
       ELSE flush \o <<c[j]>> \o EncRun(p, c, j + 1, 0, cap)

EncField(p, c, cap) ==
  IF p = c THEN <<SAME>>
  ELSE IF Len(p) # Len(c) THEN c
  ELSE EncRun(p, c, 1, 0, cap)

\* the canonical (C++-AGC-equal) encoding of `name` after a name whose fields were prevSplit
\* (prevSplit = <<>> for the first name of a sample)
EncName(prevSplit, name, cap) ==
  LET cs == Split(name) IN
  IF Len(cs) # Len(prevSplit) THEN name
  ELSE Join([i \in 1..Len(cs) |-> EncField(prevSplit[i], cs[i], cap)])

\* decoder of one field: literal bytes (< 128) are copied, a byte 256-n copies n bytes of the
\* previous field from the current position.  pi = bytes produced so far.
RECURSIVE DecRun(_, _, _, _)
DecRun(p, e, i, pi) ==
  IF i > Len(e) THEN <<>>
  ELSE IF e[i] < 128 THEN <<e[i]>> \o DecRun(p, e, i + 1, pi + 1)
  ELSE LET n == 256 - e[i] IN
       IF pi + n > Len(p) THEN <<BAD>>                         \* run beyond the previous field
       ELSE SubSeq(p, pi + 1, pi + n) \o DecRun(p, e, i + 1, pi + n)

DecField(p, e) == IF e = <<SAME>> THEN p ELSE DecRun(p, e, 1, 0)

\* [name |-> decoded name, split |-> its fields (the next prevSplit)]
DecName(prevSplit, enc) ==
  LET es == Split(enc) IN
  IF prevSplit = <<>> \/ Len(es) # Len(prevSplit) THEN [name |-> enc, split |-> es]
  ELSE LET ds == [i \in 1..Len(es) |-> DecField(prevSplit[i], es[i])] IN
       [name |-> Join(ds), split |-> ds]

\* a list of names of one sample  <->  the list of their encoded byte strings
RECURSIVE EncNameListFrom(_, _, _, _)
EncNameListFrom(names, i, prevSplit, cap) ==
  IF i > Len(names) THEN <<>>
  ELSE <<EncName(prevSplit, names[i], cap)>> \o EncNameListFrom(names, i + 1, Split(names[i]), cap)
EncNameList(names, cap) == EncNameListFrom(names, 1, <<>>, cap)

RECURSIVE DecNameListFrom(_, _, _)
DecNameListFrom(encs, i, prevSplit) ==
  IF i > Len(encs) THEN <<>>
  ELSE LET d == DecName(prevSplit, encs[i]) IN <<d.name>> \o DecNameListFrom(encs, i + 1, d.split)
DecNameList(encs) == DecNameListFrom(encs, 1, <<>>)

\* decoder state (the fields of the last decoded name) after a list of encoded names
RECURSIVE DecSplitAfterFrom(_, _, _)
DecSplitAfterFrom(encs, i, prevSplit) ==
  IF i > Len(encs) THEN prevSplit ELSE DecSplitAfterFrom(encs, i + 1, DecName(prevSplit, encs[i]).split)
DecSplitAfter(encs) == DecSplitAfterFrom(encs, 1, <<>>)

\* --- buffers -----------------------------------------------------------------
RECURSIVE CStrs(_)
CStrs(ss) == IF ss = <<>> THEN <<>> ELSE Head(ss) \o <<NUL>> \o CStrs(Tail(ss))

\* n NUL-terminated strings starting at position p: [strs, n (next position)]; BAD string if truncated
RECURSIVE ReadCStrs(_, _, _, _)
ReadCStrs(b, p, n, acc) ==
  IF n = 0 THEN [strs |-> acc, n |-> p]
  ELSE LET q == FindByte(b, NUL, p) IN
       IF q > Len(b) THEN [strs |-> Append(acc, <<BAD>>), n |-> q]
       ELSE ReadCStrs(b, q + 1, n - 1, Append(acc, SubSeq(b, p, q - 1)))

\* collection-samples part: varint(#samples), #samples x (name NUL)
EncSampleNames(names) == VarintEnc(Len(names)) \o CStrs(names)
DecSampleNames(b) ==
  LET h == VarintAt(b, 1) IN
  IF h.v = BAD THEN <<<<BAD>>>>
  ELSE LET r == ReadCStrs(b, h.n, h.v, <<>>) IN
       IF r.n # Len(b) + 1 THEN Append(r.strs, <<BAD>>) ELSE r.strs      \* trailing bytes are malformed

\* collection-contigs part: varint(#samples), per sample: varint(#contigs), #contigs x (enc NUL)
\* nameLists: sequence (per sample) of sequences of names
RECURSIVE EncNamesBufFrom(_, _, _)
EncNamesBufFrom(nameLists, i, cap) ==
  IF i > Len(nameLists) THEN <<>>
  ELSE VarintEnc(Len(nameLists[i])) \o CStrs(EncNameList(nameLists[i], cap)) \o EncNamesBufFrom(nameLists, i + 1, cap)
EncNamesBuf(nameLists, cap) == VarintEnc(Len(nameLists)) \o EncNamesBufFrom(nameLists, 1, cap)

RECURSIVE DecNamesBufFrom(_, _, _, _)
DecNamesBufFrom(b, p, n, acc) ==
  IF n = 0 THEN (IF p # Len(b) + 1 THEN Append(acc, <<<<BAD>>>>) ELSE acc)
  ELSE LET h == VarintAt(b, p) IN
       IF h.v = BAD THEN Append(acc, <<<<BAD>>>>)
       ELSE LET r == ReadCStrs(b, h.n, h.v, <<>>) IN
            DecNamesBufFrom(b, r.n, n - 1, Append(acc, DecNameList(r.strs)))
DecNamesBuf(b) ==
  LET h == VarintAt(b, 1) IN
  IF h.v = BAD THEN <<<<<<BAD>>>>>> ELSE DecNamesBufFrom(b, h.n, h.v, <<>>)

\* ------------------------------------------------------------------------------
\* descriptor table.  Row == [g, id, rc, len]; predictor table: group id -> largest id so far
\* ------------------------------------------------------------------------------
BADROW == [g |-> BAD, id |-> BAD, rc |-> BAD, len |-> BAD]
PredGet(pred, g) == IF g \in DOMAIN pred THEN pred[g] ELSE -1
PredSet(pred, g, v) == [x \in (DOMAIN pred) \cup {g} |-> IF x = g THEN v ELSE pred[x]]
NoPred == [x \in {} |-> 0]

EncId(p, id) == IF p = -1 THEN id ELSE IF id = 0 THEN 0 ELSE IF id = p + 1 THEN 1 ELSE ZigEnc(id, p + 1) + 1
DecId(p, e)  == IF p = -1 THEN e  ELSE IF e = 0  THEN 0 ELSE IF e = 1      THEN p + 1 ELSE ZigDec(e - 1, p + 1)
\* the C++-matching update rule: raise the predictor only when the id grows and is > 0
PredUpd(pred, g, id) == IF id > PredGet(pred, g) /\ id > 0 THEN PredSet(pred, g, id) ELSE pred

\* rows -> the four parallel integer streams  [gs, es, ls, os]
RECURSIVE EncRowsFrom(_, _, _, _, _)
EncRowsFrom(rows, i, pred, predLen, acc) ==
  IF i > Len(rows) THEN acc
  ELSE LET r == rows[i] IN
       EncRowsFrom(rows, i + 1, PredUpd(pred, r.g, r.id), predLen,
                   [gs |-> Append(acc.gs, r.g),
                    es |-> Append(acc.es, EncId(PredGet(pred, r.g), r.id)),
                    ls |-> Append(acc.ls, ZigEnc(r.len, predLen)),
                    os |-> Append(acc.os, r.rc)])
EncRows(rows, predLen) == EncRowsFrom(rows, 1, NoPred, predLen, [gs |-> <<>>, es |-> <<>>, ls |-> <<>>, os |-> <<>>])

\* four integer streams -> rows.  Any non-zero orientation value reads as "reverse" (:1009)
RECURSIVE DecRowsFrom(_, _, _, _, _, _, _)
DecRowsFrom(gs, es, ls, os, i, pred, predLen) ==
  IF i > Len(gs) THEN <<>>
  ELSE LET id == DecId(PredGet(pred, gs[i]), es[i]) IN
       <<[g |-> gs[i], id |-> id, rc |-> IF os[i] # 0 THEN 1 ELSE 0, len |-> ZigDec(ls[i], predLen)]>>
       \o DecRowsFrom(gs, es, ls, os, i + 1, PredUpd(pred, gs[i], id), predLen)
DecRows(gs, es, ls, os, predLen) ==
  IF Len(es) # Len(gs) \/ Len(ls) # Len(gs) \/ Len(os) # Len(gs) THEN <<BADROW>>
  ELSE DecRowsFrom(gs, es, ls, os, 1, NoPred, predLen)

\* predictor tables after a whole table, on the encoder and on the decoder side
RECURSIVE PredAfterEncFrom(_, _, _)
PredAfterEncFrom(rows, i, pred) ==
  IF i > Len(rows) THEN pred ELSE PredAfterEncFrom(rows, i + 1, PredUpd(pred, rows[i].g, rows[i].id))
PredAfterEnc(rows) == PredAfterEncFrom(rows, 1, NoPred)
RECURSIVE PredAfterDecFrom(_, _, _, _)
PredAfterDecFrom(gs, es, i, pred) ==
  IF i > Len(gs) THEN pred
  ELSE PredAfterDecFrom(gs, es, i + 1, PredUpd(pred, gs[i], DecId(PredGet(pred, gs[i]), es[i])))
PredAfterDec(gs, es) == PredAfterDecFrom(gs, es, 1, NoPred)

\* --- the 5-stream part -------------------------------------------------------
\* table: sequence (per sample) of sequences (per contig) of sequences of rows.
\* stream 0 = varint(#samples), per sample: varint(#contigs), per contig varint(#segments);
\* streams 1..4 = varints of gs / es / ls / os over all rows in table order.
RECURSIVE Flatten(_)
Flatten(ss) == IF ss = <<>> THEN <<>> ELSE Head(ss) \o Flatten(Tail(ss))
AllRows(table) == Flatten([s \in 1..Len(table) |-> Flatten(table[s])])

RECURSIVE CountsFrom(_, _)
CountsFrom(table, s) ==
  IF s > Len(table) THEN <<>>
  ELSE <<Len(table[s])>> \o [c \in 1..Len(table[s]) |-> Len(table[s][c])] \o CountsFrom(table, s + 1)
Counts(table) == <<Len(table)>> \o CountsFrom(table, 1)

EncDetails(table, predLen) ==
  LET e == EncRows(AllRows(table), predLen) IN
  <<VarintEncAll(Counts(table)), VarintEncAll(e.gs), VarintEncAll(e.es), VarintEncAll(e.ls), VarintEncAll(e.os)>>

\* cut the flat row list `rows` (from position p) into the shape given by the count list cs
\* (cs = integers of stream 0).  q = position in cs.
RECURSIVE ShapeContigs(_, _, _, _, _, _)
ShapeContigs(cs, q, n, rows, p, acc) ==      \* n contigs: returns [contigs, q, p]
  IF n = 0 THEN [contigs |-> acc, q |-> q, p |-> p]
  ELSE IF q > Len(cs) \/ cs[q] = BAD \/ p + cs[q] - 1 > Len(rows) THEN [contigs |-> Append(acc, <<BADROW>>), q |-> Len(cs) + 1, p |-> p]
  ELSE ShapeContigs(cs, q + 1, n - 1, rows, p + cs[q], Append(acc, SubSeq(rows, p, p + cs[q] - 1)))
RECURSIVE ShapeSamples(_, _, _, _, _, _)
ShapeSamples(cs, q, n, rows, p, acc) ==
  IF n = 0 THEN (IF q # Len(cs) + 1 \/ p # Len(rows) + 1 THEN Append(acc, <<<<BADROW>>>>) ELSE acc)
  ELSE IF q > Len(cs) \/ cs[q] = BAD THEN Append(acc, <<<<BADROW>>>>)
  ELSE LET r == ShapeContigs(cs, q + 1, cs[q], rows, p, <<>>) IN
       ShapeSamples(cs, r.q, n - 1, rows, r.p, Append(acc, r.contigs))

EndsBad(s) == s # <<>> /\ s[Len(s)] = BAD      \* VarintAll puts BAD last, if at all
DecDetails(streams, predLen) ==
  LET cs == VarintAll(streams[1])
      gs == VarintAll(streams[2])  es == VarintAll(streams[3])
      ls == VarintAll(streams[4])  os == VarintAll(streams[5]) IN
  IF cs = <<>> \/ cs[1] = BAD \/ EndsBad(gs) \/ EndsBad(es) \/ EndsBad(ls) \/ EndsBad(os)
  THEN <<<<<<BADROW>>>>>>
  ELSE LET rows == DecRows(gs, es, ls, os, predLen) IN
       IF rows = <<BADROW>> THEN <<<<<<BADROW>>>>>> ELSE ShapeSamples(cs, 2, cs[1], rows, 1, <<>>)
\* ------------------------------------------------------------------------------
\* codec laws (invariants of MC_CollNames / MC_CollDesc)
\* ------------------------------------------------------------------------------
\* names: distinct names of one sample; cap: run cap of the canonical encoder
NameLaw(names, cap) ==
  LET encs == EncNameList(names, cap) IN
  /\ DecNameList(encs) = names
  /\ DecSplitAfter(encs) = (IF names = <<>> THEN <<>> ELSE Split(names[Len(names)]))   \* decoder state = encoder state
  /\ \A i \in 1..Len(encs) : \A j \in 1..Len(encs[i]) : encs[i][j] # NUL
  /\ DecNamesBuf(EncNamesBuf(<<names>>, cap)) = <<names>>
DescLaw(rows, pl) ==
  LET e == EncRows(rows, pl) IN
  /\ DecRows(e.gs, e.es, e.ls, e.os, pl) = rows
  /\ PredAfterDec(e.gs, e.es) = PredAfterEnc(rows)                                    \* predictor tables agree
  /\ \A i \in 1..Len(rows) : e.es[i] >= 0 /\ e.ls[i] >= 0
=============================================================================
