SPECIFICATION TSpec
CONSTANTS
  W = 1073741824
  TextSizes = {}
  Bounds = {}
  RefLen = 0
  KeyLen = 1
  MinMatch = 4
  HStep = 4
  Variant = "estimate"
  FinalRule = "wrapping"
INVARIANTS Accept TraceNoPlainWrap
CHECK_DEADLOCK FALSE
