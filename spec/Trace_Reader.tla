---------------------------- MODULE Trace_Reader ----------------------------
(* Trace validation for Reader.tla (C08): recorded runs of the real Decompressor  *)
(* in which a parent handle and its clone_for_thread clones (one per thread) issue *)
(* calls concurrently.                                                             *)
(*  hdr    first record: the archive the specification is parameterised with       *)
(*         (batches, contigs, groups of every contig, kind of every reference      *)
(*         part, prefix matches) and `table`: call key -> class and digest of the   *)
(*         answer of a FRESH handle (the stateless answer).                        *)
(*  start  a new run: handle 0 fresh, all others closed.                           *)
(*  clone  clone_for_thread on handle `from`, the clone is handle `t`.             *)
(*  op     one call on handle t (= thread t): it must be a step of the             *)
(*         specification; the class must be the one the specification computes     *)
(*         from the handle's code-shaped state AND the one it requires (Spec), and *)
(*         class and digest must equal the table's.  Handles are independent in    *)
(*         the specification, so every interleaving of the threads is a behaviour  *)
(*         and the order of the records needs no clock.                            *)
(*  cli    one invocation of the real `ragc` binary = a fresh handle answering the *)
(*         listed calls in order (getset / listctg / inspect); the exit class must *)
(*         be the class of the first failing call (or ok) and, when ok, the output  *)
(*         must be the concatenation of the outputs of the single-query runs.      *)
EXTENDS Reader, Json, IOUtils

Rec == ndJsonDeserialize(IOEnv.TRACE)
Hdr == Rec[1]
TBatches == Hdr.batches
TContigsOf == Hdr.contigs
TSegGroups == Hdr.seggroups
TRefKind == Hdr.refkind
TPrefixMatch == Hdr.prefixes

VARIABLE l
tvars == <<vars, l>>

IsEvent(e) == l <= Len(Rec) /\ Rec[l].ev = e /\ l' = l + 1
E == Rec[l]

THdr   == IsEvent("hdr") /\ l = 1 /\ UNCHANGED vars
TStart == IsEvent("start") /\ hs' = [h \in Handles |-> IF h = 0 THEN Fresh ELSE Closed]
TClone == IsEvent("clone") /\ E.cls = "ok" /\ CloneForThread(E.from, E.t)
TOp ==
  /\ IsEvent("op")
  /\ LET r == Result(E.t, E.op)
         f == Hdr.table[E.key] IN
     /\ E.cls = r.cls                      \* what the code-shaped state yields
     /\ r = Spec(E.op)                     \* ... is the stateless answer (HistoryIndependent, per step)
     /\ E.cls = f.cls /\ E.dig = f.dig     \* and the real answer is the one of a fresh handle
     /\ (NamesUnknown(E.op) => E.cls = "err")
  /\ Call(E.t, E.op)

RECURSIVE RunSeq(_, _)
RunSeq(st, ops) ==        \* the classes of the calls of one CLI invocation, up to the first failure
  IF ops = <<>> THEN <<>>
  ELSE LET r == Do(st, Head(ops)) IN
       IF r.res.cls # "ok" THEN <<r.res.cls>> ELSE <<"ok">> \o RunSeq(r.st, Tail(ops))
TCli ==
  /\ IsEvent("cli") /\ UNCHANGED vars
  /\ LET cs == RunSeq(Fresh, E.ops)
         want == IF cs = <<>> THEN "ok" ELSE cs[Len(cs)] IN
     /\ \A i \in 1..Len(cs) : cs[i] = Spec(E.ops[i]).cls
     /\ E.cls = want
     /\ (E.cls = "ok" => E.out = E.expect)

TNext == THdr \/ TStart \/ TClone \/ TOp \/ TCli
TInit == Init /\ l = 1
TSpec == TInit /\ [][TNext]_tvars

Accepted ==
  LET d == TLCGet("stats").diameter IN
  IF d - 1 = Len(Rec) THEN TRUE ELSE PrintT(<<"UNMATCHED", d>>) /\ FALSE
=============================================================================
