----------------------------- MODULE LzDiffOps -----------------------------
(* LZ-diff V2 text format of AGC v3 (ragc-core/src/lz_diff.rs): CONSTANT-LEVEL     *)
(* operators only (no variables, no CONSTANTS) so that any module can EXTEND or      *)
(* INSTANCE it:                                                                       *)
(*    token constructors, Serialize(tokens), Parse(bytes),                           *)
(*    Decode(ref, bytes, minMatch), WellFormed(ref, bytes, minMatch),                *)
(*    DecodeEntry(ref, bytes, minMatch)   (empty text = "same as reference").        *)
(*                                                                                    *)
(* The text is a sequence of bytes (0..255), a concatenation of tokens:              *)
(*   literal   one byte  LIT_BASE + code        code = symbol code (0..15, 30)       *)
(*   bang      one byte  '!'                     = reference symbol at position pred  *)
(*   N-run     NRUN_START <decimal n-NRUN_MIN> N_CODE       n >= NRUN_MIN symbols N   *)
(*   match     <decimal d> ',' <decimal len-minMatch> '.'   copy ref[p, p+len),       *)
(*   match-to-end  <decimal d> '.'                          copy ref[p, |ref|)        *)
(*             with p = pred + d  (d may be negative: leading '-')                    *)
(* Decoder state: pred, the predicted reference position (0-based): +1 per literal    *)
(* or bang, unchanged by an N-run, p+len after a match.  Sequences are 1-based, so    *)
(* the reference symbol at 0-based position p is ref[p+1].                            *)
(* The format constants are definitions with the format's values: a change of one of  *)
(* them in the code, even if applied to encoder and decoder alike, is rejected.       *)
EXTENDS Naturals, Integers, Sequences

LIT_BASE   == 65      \* 'A'
BANG       == 33      \* '!'
NRUN_START == 30
N_CODE     == 4       \* symbol code of N; also the byte that closes an N-run token
NRUN_MIN   == 4
COMMA      == 44
PERIOD     == 46
MINUS      == 45
DIGIT0     == 48
SEP        == 255     \* pack separator: never part of an LZ text
MAX_LIT    == 30      \* largest symbol code (the unknown-letter code)

SymCodes == (0..15) \cup {30}     \* the symbol codes ragc uses

-----------------------------------------------------------------------------
\* tokens: uniform records so that TLC can compare any two of them
TLit(c)        == [k |-> "lit",   a |-> c, b |-> 0]
TBang          == [k |-> "bang",  a |-> 0, b |-> 0]
TNRun(n)       == [k |-> "nrun",  a |-> n, b |-> 0]
TMatch(d, len) == [k |-> "match", a |-> d, b |-> len]
TMEnd(d)       == [k |-> "mend",  a |-> d, b |-> 0]
TBad           == [k |-> "bad",   a |-> 0, b |-> 0]

-----------------------------------------------------------------------------
\* decimal integers as the encoder writes them (append_int): "0", no leading zeros, '-' prefix
RECURSIVE NatBytes(_)
NatBytes(n) == IF n < 10 THEN <<DIGIT0 + n>> ELSE Append(NatBytes(n \div 10), DIGIT0 + (n % 10))
IntBytes(x) == IF x < 0 THEN <<MINUS>> \o NatBytes(0 - x) ELSE NatBytes(x)

TokBytes(t, mm) ==
  CASE t.k = "lit"   -> <<LIT_BASE + t.a>>
    [] t.k = "bang"  -> <<BANG>>
    [] t.k = "nrun"  -> <<NRUN_START>> \o NatBytes(t.a - NRUN_MIN) \o <<N_CODE>>
    [] t.k = "match" -> IntBytes(t.a) \o <<COMMA>> \o NatBytes(t.b - mm) \o <<PERIOD>>
    [] t.k = "mend"  -> IntBytes(t.a) \o <<PERIOD>>

RECURSIVE SerializeUpTo(_, _, _)
SerializeUpTo(ts, n, mm) == IF n = 0 THEN <<>> ELSE SerializeUpTo(ts, n - 1, mm) \o TokBytes(ts[n], mm)
Serialize(ts, mm) == SerializeUpTo(ts, Len(ts), mm)

-----------------------------------------------------------------------------
\* lexer: all operators work on (b, i) = byte sequence and 1-based index; nothing is copied
IsDigit(x)   == x >= DIGIT0 /\ x <= DIGIT0 + 9
IsLitByte(x) == x >= LIT_BASE /\ x <= LIT_BASE + MAX_LIT
IsLitOrBang(x) == IsLitByte(x) \/ x = BANG

RECURSIVE DigitsEnd(_, _)          \* first index >= i that is not a digit (Len(b)+1 if none)
DigitsEnd(b, i) == IF i <= Len(b) /\ IsDigit(b[i]) THEN DigitsEnd(b, i + 1) ELSE i

RECURSIVE DecVal(_, _, _)          \* value of the digits b[i .. j-1]
DecVal(b, i, j) == IF j <= i THEN 0 ELSE DecVal(b, i, j - 1) * 10 + (b[j - 1] - DIGIT0)

\* signed integer at i: [ok, v, next]; at least one digit is required
IntAt(b, i) ==
  LET neg == i <= Len(b) /\ b[i] = MINUS
      s   == IF neg THEN i + 1 ELSE i
      e   == DigitsEnd(b, s)
  IN  IF e = s THEN [ok |-> FALSE, v |-> 0, next |-> i]
      ELSE [ok |-> TRUE, v |-> IF neg THEN 0 - DecVal(b, s, e) ELSE DecVal(b, s, e), next |-> e]

\* the token starting at index i (1 <= i <= Len(b)): [tok, next]; tok = TBad if none
TokAt(b, i, mm) ==
  LET x == b[i] IN
  IF IsLitByte(x) THEN [tok |-> TLit(x - LIT_BASE), next |-> i + 1]
  ELSE IF x = BANG THEN [tok |-> TBang, next |-> i + 1]
  ELSE IF x = NRUN_START THEN
    LET e == DigitsEnd(b, i + 1) IN
    IF e > i + 1 /\ e <= Len(b) /\ b[e] = N_CODE
      THEN [tok |-> TNRun(DecVal(b, i + 1, e) + NRUN_MIN), next |-> e + 1]
      ELSE [tok |-> TBad, next |-> i]
  ELSE
    LET p == IntAt(b, i) IN
    IF ~p.ok \/ p.next > Len(b) THEN [tok |-> TBad, next |-> i]
    ELSE IF b[p.next] = PERIOD THEN [tok |-> TMEnd(p.v), next |-> p.next + 1]
    ELSE IF b[p.next] = COMMA THEN
      LET e == DigitsEnd(b, p.next + 1) IN
      IF e > p.next + 1 /\ e <= Len(b) /\ b[e] = PERIOD
        THEN [tok |-> TMatch(p.v, DecVal(b, p.next + 1, e) + mm), next |-> e + 1]
        ELSE [tok |-> TBad, next |-> i]
    ELSE [tok |-> TBad, next |-> i]

\* Parse: the token sequence of a text; ends with TBad (and stops) where no token starts.
\* (Results are built on the way back: no accumulator is kept alive in the recursion.)
RECURSIVE ParseFrom(_, _, _)
ParseFrom(b, i, mm) ==
  IF i > Len(b) THEN <<>>
  ELSE LET r == TokAt(b, i, mm) IN
       IF r.tok.k = "bad" THEN <<TBad>> ELSE <<r.tok>> \o ParseFrom(b, r.next, mm)
Parse(b, mm) == ParseFrom(b, 1, mm)
Parses(b, mm) == LET ts == Parse(b, mm) IN ts = <<>> \/ ts[Len(ts)].k # "bad"

-----------------------------------------------------------------------------
\* token semantics (shared by the state machine LzDiff.tla and the function Decode)
\* enabling condition of token t at predicted position pred against reference ref
TokOk(ref, mm, pred, t) ==
  CASE t.k = "lit"   -> t.a >= 0 /\ t.a <= MAX_LIT
    [] t.k = "bang"  -> pred < Len(ref)
    [] t.k = "nrun"  -> t.a >= NRUN_MIN
    [] t.k = "match" -> /\ pred + t.a >= 0 /\ t.b >= mm /\ pred + t.a + t.b <= Len(ref)
    [] t.k = "mend"  -> pred + t.a >= 0 /\ pred + t.a <= Len(ref)
    [] OTHER         -> FALSE

\* symbols produced
TokOut(ref, pred, t) ==
  CASE t.k = "lit"   -> <<t.a>>
    [] t.k = "bang"  -> <<ref[pred + 1]>>
    [] t.k = "nrun"  -> [j \in 1..t.a |-> N_CODE]
    [] t.k = "match" -> SubSeq(ref, pred + t.a + 1, pred + t.a + t.b)
    [] t.k = "mend"  -> SubSeq(ref, pred + t.a + 1, Len(ref))

\* next predicted position
TokPred(ref, pred, t) ==
  CASE t.k = "lit"   -> pred + 1
    [] t.k = "bang"  -> pred + 1
    [] t.k = "nrun"  -> pred
    [] t.k = "match" -> pred + t.a + t.b
    [] t.k = "mend"  -> Len(ref)

\* decoder over a token sequence: [ok, out]  (out = the symbols decoded before the first
\* token that is not enabled, if any)
RECURSIVE DecodeToksFrom(_, _, _, _, _)
DecodeToksFrom(ref, mm, ts, n, pred) ==
  IF n > Len(ts) THEN [ok |-> TRUE, out |-> <<>>]
  ELSE IF ~TokOk(ref, mm, pred, ts[n]) THEN [ok |-> FALSE, out |-> <<>>]
  ELSE LET r == DecodeToksFrom(ref, mm, ts, n + 1, TokPred(ref, pred, ts[n]))
       IN  [ok |-> r.ok, out |-> TokOut(ref, pred, ts[n]) \o r.out]
DecodeToks(ref, mm, ts) == DecodeToksFrom(ref, mm, ts, 1, 0)

-----------------------------------------------------------------------------
\* Decoder over bytes.  A maximal run of literal/bang bytes is handled as ONE chunk (a
\* function constructor), so the cost is linear in the text for the long, literal-heavy
\* texts of real archives; semantically it is the token-by-token decoder (law DecodeLaw
\* of MC_LzDiff: DecodeR(ref, Serialize(ts)) = DecodeToks(ref, ts)).
RECURSIVE LitRunEnd(_, _)
LitRunEnd(b, i) == IF i <= Len(b) /\ IsLitOrBang(b[i]) THEN LitRunEnd(b, i + 1) ELSE i

\* symbols of the literal/bang run b[i .. e-1] read at predicted position pred
LitRunOut(ref, b, i, e, pred) ==
  [j \in 1..(e - i) |-> IF b[i + j - 1] = BANG THEN ref[pred + j] ELSE b[i + j - 1] - LIT_BASE]
LitRunOk(ref, b, i, e, pred) ==
  \A j \in 1..(e - i) : b[i + j - 1] = BANG => pred + j - 1 < Len(ref)

RECURSIVE DecodeFrom(_, _, _, _, _)
DecodeFrom(ref, mm, b, i, pred) ==
  IF i > Len(b) THEN [ok |-> TRUE, out |-> <<>>]
  ELSE IF IsLitOrBang(b[i]) THEN
    LET e == LitRunEnd(b, i) IN
    IF ~LitRunOk(ref, b, i, e, pred) THEN [ok |-> FALSE, out |-> <<>>]
    ELSE LET r == DecodeFrom(ref, mm, b, e, pred + (e - i))
         IN  [ok |-> r.ok, out |-> LitRunOut(ref, b, i, e, pred) \o r.out]
  ELSE
    LET t == TokAt(b, i, mm) IN
    IF t.tok.k = "bad" \/ ~TokOk(ref, mm, pred, t.tok) THEN [ok |-> FALSE, out |-> <<>>]
    ELSE LET r == DecodeFrom(ref, mm, b, t.next, TokPred(ref, pred, t.tok))
         IN  [ok |-> r.ok, out |-> TokOut(ref, pred, t.tok) \o r.out]

\* The same decoder as a CHECK against a given target: nothing is constructed, the symbols
\* are compared in place (cost linear in |b| + |tgt|).  Law DecodesToLaw of MC_LzDiff:
\*   DecodesTo(ref, b, mm, tgt)  <=>  DecodeR(ref, b, mm) = [ok |-> TRUE, out |-> tgt]
RECURSIVE DecodesFrom(_, _, _, _, _, _, _)
DecodesFrom(ref, mm, b, tgt, i, pred, o) ==      \* o = number of target symbols already produced
  IF i > Len(b) THEN o = Len(tgt)
  ELSE IF IsLitOrBang(b[i]) THEN
    LET e == LitRunEnd(b, i)
        n == e - i
    IN  /\ LitRunOk(ref, b, i, e, pred)
        /\ o + n <= Len(tgt)
        /\ \A j \in 1..n : tgt[o + j] = IF b[i + j - 1] = BANG THEN ref[pred + j] ELSE b[i + j - 1] - LIT_BASE
        /\ DecodesFrom(ref, mm, b, tgt, e, pred + n, o + n)
  ELSE
    LET t == TokAt(b, i, mm) IN
    /\ t.tok.k # "bad"
    /\ TokOk(ref, mm, pred, t.tok)
    /\ LET k == t.tok.k
           n == CASE k = "nrun" -> t.tok.a [] k = "match" -> t.tok.b [] k = "mend" -> Len(ref) - (pred + t.tok.a)
           p == pred + t.tok.a           \* source position of a match
       IN  /\ o + n <= Len(tgt)
           /\ IF k = "nrun" THEN \A j \in 1..n : tgt[o + j] = N_CODE
                            ELSE \A j \in 1..n : tgt[o + j] = ref[p + j]
           /\ DecodesFrom(ref, mm, b, tgt, t.next, TokPred(ref, pred, t.tok), o + n)
DecodesTo(ref, b, mm, tgt) == DecodesFrom(ref, mm, b, tgt, 1, 0, 0)

DecodeR(ref, b, mm)    == DecodeFrom(ref, mm, b, 1, 0)
WellFormed(ref, b, mm) == DecodeR(ref, b, mm).ok
Decode(ref, b, mm)     == DecodeR(ref, b, mm).out      \* if not WellFormed: the symbols decoded before the failure

\* a stored delta entry: the empty text stands for "identical to the reference"
DecodeEntry(ref, b, mm) == IF b = <<>> THEN ref ELSE Decode(ref, b, mm)

NoSep(b) == \A i \in 1..Len(b) : b[i] # SEP

\* C09 for one (reference, target, minMatch, encoder output) observation:
\*   decoding returns the target; empty only when target = reference; no separator byte
InvertsTo(ref, tgt, mm, enc) ==
  /\ NoSep(enc)
  /\ IF enc = <<>> THEN tgt = ref
     ELSE DecodesTo(ref, enc, mm, tgt)
=============================================================================
