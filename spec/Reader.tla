------------------------------- MODULE Reader -------------------------------
(* An open archive handle: ragc-core/src/decompressor.rs (`Decompressor`) over   *)
(* the lazily loaded catalogue of ragc-common/src/collection.rs.  C08: the       *)
(* answer to a query does not depend on the queries issued before on the same    *)
(* handle, nor on what other (cloned) handles do; unknown names give an error    *)
(* value, never a crash.                                                         *)
(*                                                                               *)
(* Two layers:                                                                   *)
(*  REQUIRED   Spec(op): the answer is a function of the ARCHIVE alone           *)
(*             (constants Batches, ContigsOf, SegGroups, RefKind, PrefixMatch).  *)
(*  CODE-SHAPED  per handle: `desc` (the sample table: slot i holds the contig   *)
(*             table of sample desc[i], 0 = not loaded), `cursor` (the           *)
(*             cumulative `samples_loaded` of load_contig_batch), `cache`        *)
(*             (group -> decoded reference segment; filled by get_segment =      *)
(*             path A and by get_reference_segment = path B).  Do(st, op) is     *)
(*             what the code computes from that state.                           *)
(* HistoryIndependent says that the two agree after every history; the switches  *)
(* CursorReset / RefPath / RangeCheck select the historical variants (defects D4, *)
(* D5 and the pre-b612229 range rule) as negative controls.                      *)
(*                                                                               *)
(* Values are symbolic: a decoded contig is <<"seq", sample, contig, refs>>      *)
(* where refs are the reference values its LZ segments were decoded against, so  *)
(* a wrongly filled slot or cache entry shows in the value.  The harness maps    *)
(* real results to digests; equality of digests with those of a fresh handle is  *)
(* the image of equality of the symbolic values.                                 *)
EXTENDS Integers, Sequences, FiniteSets, TLC

CONSTANTS
  Batches,      \* <<batch_1, ..>>, a batch = sequence of sample names (format: 50 per batch)
  ContigsOf,    \* [sample -> sequence of contig names]
  SegGroups,    \* [sample -> [contig -> sequence of group ids of its segments]]
  RefKind,      \* [group id -> "raw" | "zstd" | "none"]: reference part stored raw (metadata 0) /
                \*   compressed (metadata = raw size, trailing marker) / raw group (id < 16, no reference stream)
  PrefixMatch,  \* [prefix -> sequence of the samples whose name starts with it]
  Handles,      \* handle ids
  CursorReset,  \* TRUE: load_contig_batch(0) restarts the cursor (fix 2852cbe); FALSE = D4
  RefPath,      \* "meta": get_reference_segment honours metadata = 0 (fix e508402); "ignoreMeta" = D5
  RangeCheck    \* "afterLookup": empty range answered after the name lookup (fix b612229); "early" = before it

VARIABLE hs     \* [handle -> handle state]
vars == <<hs>>

-----------------------------------------------------------------------------
\* ---- the archive ---------------------------------------------------------------------
RECURSIVE Flatten(_)
Flatten(ss) == IF ss = <<>> THEN <<>> ELSE Head(ss) \o Flatten(Tail(ss))
Samples == Flatten(Batches)
N == Len(Samples)
NB == Len(Batches)
RECURSIVE Before(_)
Before(b) == IF b <= 1 THEN 0 ELSE Before(b - 1) + Len(Batches[b - 1])   \* samples in batches < b
Ran(q) == {q[i] : i \in DOMAIN q}
Known(s) == \E i \in 1..N : Samples[i] = s
Idx(s) == CHOOSE i \in 1..N : Samples[i] = s
BatchOf(s) == CHOOSE b \in 1..NB : s \in Ran(Batches[b])
HasContig(s, c) == Known(s) /\ c \in Ran(ContigsOf[s])
IsGroup(g) == g \in DOMAIN RefKind
HasRef(g) == IsGroup(g) /\ RefKind[g] # "none"
Min(a, b) == IF a <= b THEN a ELSE b

\* ---- operations and results --------------------------------------------------------------
O(op, s, c, r, g, p) == [op |-> op, s |-> s, c |-> c, r |-> r, g |-> g, p |-> p]
Ok(v) == [cls |-> "ok", val |-> v]
Err == [cls |-> "err", val |-> <<>>]
Panic == [cls |-> "panic", val |-> <<>>]
RangeKinds == {"head", "all", "empty", "beyond"}    \* first segment only / whole contig / start >= end / start >= length

\* ---- REQUIRED: the answer as a function of the archive -----------------------------------
RefTrue(g) == <<"ref", g>>
Touched(s, c, r) == LET gs == SegGroups[s][c] IN
                    CASE r = "all" -> gs
                      [] r = "head" -> IF gs = <<>> THEN <<>> ELSE <<gs[1]>>
                      [] OTHER -> <<>>
RefsTrue(gs) == [i \in 1..Len(gs) |-> IF HasRef(gs[i]) THEN RefTrue(gs[i]) ELSE <<"rawseg">>]
SeqTrue(s, c) == <<"seq", s, c, RefsTrue(SegGroups[s][c])>>
SampleTrue(s) == <<"sample", [i \in 1..Len(ContigsOf[s]) |-> <<ContigsOf[s][i], SeqTrue(s, ContigsOf[s][i])>>]>>

Spec(op) ==
  LET s == op.s  c == op.c IN
  CASE op.op = "list_samples" -> Ok(Samples)
    [] op.op = "list_samples_with_prefix" -> Ok(PrefixMatch[op.p])
    [] op.op = "get_compression_stats" -> Ok(<<"cstats">>)
    [] op.op = "list_contigs" -> IF Known(s) THEN Ok(ContigsOf[s]) ELSE Err
    [] op.op = "get_contig_length" -> IF HasContig(s, c) THEN Ok(<<"len", s, c>>) ELSE Err
    [] op.op = "get_contig_segments_desc" -> IF HasContig(s, c) THEN Ok(<<"segs", s, c>>) ELSE Err
    [] op.op = "get_contig" -> IF HasContig(s, c) THEN Ok(SeqTrue(s, c)) ELSE Err
    [] op.op = "get_contig_range" ->
         IF ~HasContig(s, c) THEN Err
         ELSE IF op.r \in {"empty", "beyond"} THEN Ok(<<>>)
         ELSE Ok(<<"range", s, c, op.r, RefsTrue(Touched(s, c, op.r))>>)
    [] op.op = "get_sample" -> IF Known(s) THEN Ok(SampleTrue(s)) ELSE Err
    [] op.op = "get_samples_by_prefix" ->
         LET m == PrefixMatch[op.p] IN Ok(<<"byprefix", [i \in 1..Len(m) |-> <<m[i], SampleTrue(m[i])>>]>>)
    [] op.op = "get_all_segments" -> Ok(<<"allsegs", [i \in 1..N |-> i]>>)
    [] op.op = "get_group_statistics" -> Ok(<<"gstats", [i \in 1..N |-> i]>>)
    [] op.op = "get_reference_segment" -> IF HasRef(op.g) THEN Ok(RefTrue(op.g)) ELSE Err
    [] op.op = "clone_for_thread" -> Ok(<<>>)

\* the second sentence of the property: a query naming an unknown sample or contig
NamesUnknown(op) ==
  \/ op.op \in {"list_contigs", "get_sample"} /\ ~Known(op.s)
  \/ op.op \in {"get_contig", "get_contig_range", "get_contig_length", "get_contig_segments_desc"} /\ ~HasContig(op.s, op.c)

-----------------------------------------------------------------------------
\* ---- CODE-SHAPED handle state --------------------------------------------------------------
NoCache == [g \in {} |-> 0]
Fresh  == [open |-> TRUE,  desc |-> [i \in 1..N |-> 0], cursor |-> 0, cache |-> NoCache]
Closed == [open |-> FALSE, desc |-> [i \in 1..N |-> 0], cursor |-> 0, cache |-> NoCache]

\* load_contig_batch(b): names and details of the batch's samples are written at the cursor
\* (collection.rs: deserialize_contig_names / _details index sample_desc[i_sample + j]); an index
\* past the table is the out-of-bounds panic of D4.
LoadBatch(x, b) ==
  LET st   == x.st
      cur0 == IF b = 1 /\ CursorReset THEN 0 ELSE st.cursor
      n    == Len(Batches[b])
      top  == Min(cur0 + n, N)
      d2   == [i \in 1..N |-> IF i > cur0 /\ i <= top THEN Before(b) + (i - cur0) ELSE st.desc[i]]
  IN IF cur0 + n > N THEN [st |-> [st EXCEPT !.desc = d2, !.cursor = cur0], panic |-> TRUE]
     ELSE [st |-> [st EXCEPT !.desc = d2, !.cursor = cur0 + n], panic |-> FALSE]
RECURSIVE LoadRec(_, _)
LoadRec(x, b) == IF b > NB THEN x ELSE IF x.panic THEN x ELSE LoadRec(LoadBatch(x, b), b + 1)
LoadAll(st) == LoadRec([st |-> st, panic |-> FALSE], 1)

Src(st, s) == Samples[st.desc[Idx(s)]]                       \* whose contig table sits in s's slot
ContigList(st, s) == IF st.desc[Idx(s)] = 0 THEN <<>> ELSE ContigsOf[Src(st, s)]
\* get_no_contigs(s).is_none_or(|n| n == 0): the load-all-on-miss trigger
NoContigs(st, s) == IF Known(s) THEN ContigList(st, s) = <<>> ELSE TRUE
MaybeLoad(st, s) == IF NoContigs(st, s) THEN LoadAll(st) ELSE [st |-> st, panic |-> FALSE]
Found(st, s, c) == IF Known(s) THEN c \in Ran(ContigList(st, s)) ELSE FALSE

\* reference cache: path A (get_segment: metadata 0 => raw, else strip marker + decompress)
\*                  path B (get_reference_segment: the same under RefPath = "meta"; "ignoreMeta"
\*                          sends a raw-stored part through the marker/ZSTD path, which fails)
FillA(cache, gs) ==
  LET need == {gs[i] : i \in DOMAIN gs} IN
  [g \in DOMAIN cache \cup {x \in need : HasRef(x)} |-> IF g \in DOMAIN cache THEN cache[g] ELSE RefTrue(g)]
PathBOk(g) == IF RefPath = "meta" THEN TRUE ELSE RefKind[g] = "zstd"
Refs(cache, gs) == [i \in 1..Len(gs) |-> IF HasRef(gs[i]) THEN cache[gs[i]] ELSE <<"rawseg">>]
SeqVal(cache, src, c) == <<"seq", src, c, Refs(cache, SegGroups[src][c])>>
RECURSIVE GroupsOf(_, _)
GroupsOf(src, cs) == IF cs = <<>> THEN <<>> ELSE SegGroups[src][Head(cs)] \o GroupsOf(src, Tail(cs))

\* get_sample on a state whose catalogue is loaded
SampleOn(st, s) ==
  LET src == Src(st, s)
      cs  == ContigList(st, s)
      ca  == IF cs = <<>> THEN st.cache ELSE FillA(st.cache, GroupsOf(src, cs))
  IN [st |-> [st EXCEPT !.cache = ca],
      val |-> <<"sample", [i \in 1..Len(cs) |-> <<cs[i], SeqVal(ca, src, cs[i])>>]>>]

RECURSIVE ByPrefix(_, _, _)
ByPrefix(st, m, acc) ==          \* get_samples_by_prefix: get_sample for every match, first failure wins
  IF m = <<>> THEN [st |-> st, res |-> Ok(<<"byprefix", acc>>)]
  ELSE LET x == MaybeLoad(st, Head(m)) IN
       IF x.panic THEN [st |-> x.st, res |-> Panic]
       ELSE LET y == SampleOn(x.st, Head(m)) IN ByPrefix(y.st, Tail(m), Append(acc, <<Head(m), y.val>>))

Do(st, op) ==
  LET s == op.s  c == op.c  g == op.g
      Same(r) == [st |-> st, res |-> r]
      x  == MaybeLoad(st, s)                                \* the six per-sample calls load on a miss
      t  == x.st
      xp == [st |-> x.st, res |-> Panic]
      y  == LoadAll(st)                                     \* the two full-table calls load unconditionally
      yp == [st |-> y.st, res |-> Panic]
  IN
  CASE op.op = "list_samples" -> Same(Ok(Samples))
    [] op.op = "list_samples_with_prefix" -> Same(Ok(PrefixMatch[op.p]))
    [] op.op = "get_compression_stats" -> Same(Ok(<<"cstats">>))
    [] op.op = "list_contigs" ->
         IF x.panic THEN xp ELSE [st |-> t, res |-> IF Known(s) THEN Ok(ContigList(t, s)) ELSE Err]
    [] op.op = "get_contig_length" ->
         IF x.panic THEN xp ELSE [st |-> t, res |-> IF Found(t, s, c) THEN Ok(<<"len", Src(t, s), c>>) ELSE Err]
    [] op.op = "get_contig_segments_desc" ->
         IF x.panic THEN xp ELSE [st |-> t, res |-> IF Found(t, s, c) THEN Ok(<<"segs", Src(t, s), c>>) ELSE Err]
    [] op.op = "get_contig" ->
         IF x.panic THEN xp
         ELSE IF ~Found(t, s, c) THEN [st |-> t, res |-> Err]
         ELSE LET ca == FillA(t.cache, SegGroups[Src(t, s)][c]) IN
              [st |-> [t EXCEPT !.cache = ca], res |-> Ok(SeqVal(ca, Src(t, s), c))]
    [] op.op = "get_contig_range" ->
         IF RangeCheck = "early" /\ op.r = "empty" THEN Same(Ok(<<>>))
         ELSE IF x.panic THEN xp
         ELSE IF ~Found(t, s, c) THEN [st |-> t, res |-> Err]
         ELSE IF op.r \in {"empty", "beyond"} THEN [st |-> t, res |-> Ok(<<>>)]
         ELSE LET gs == Touched(Src(t, s), c, op.r)
                  ca == FillA(t.cache, gs) IN
              [st |-> [t EXCEPT !.cache = ca], res |-> Ok(<<"range", Src(t, s), c, op.r, Refs(ca, gs)>>)]
    [] op.op = "get_sample" ->
         IF x.panic THEN xp
         ELSE IF ~Known(s) THEN [st |-> t, res |-> Err]
         ELSE LET z == SampleOn(t, s) IN [st |-> z.st, res |-> Ok(z.val)]
    [] op.op = "get_samples_by_prefix" -> ByPrefix(st, PrefixMatch[op.p], <<>>)
    [] op.op = "get_all_segments" -> IF y.panic THEN yp ELSE [st |-> y.st, res |-> Ok(<<"allsegs", y.st.desc>>)]
    [] op.op = "get_group_statistics" -> IF y.panic THEN yp ELSE [st |-> y.st, res |-> Ok(<<"gstats", y.st.desc>>)]
    [] op.op = "get_reference_segment" ->
         IF g \in DOMAIN st.cache THEN Same(Ok(st.cache[g]))
         ELSE IF ~HasRef(g) THEN Same(Err)                      \* "Reference stream not found"
         ELSE IF ~PathBOk(g) THEN Same(Err)
         ELSE [st |-> [st EXCEPT !.cache = [q \in DOMAIN st.cache \cup {g} |-> IF q = g THEN RefTrue(g) ELSE st.cache[q]]],
               res |-> Ok(RefTrue(g))]

-----------------------------------------------------------------------------
\* ---- actions: one per public method of Decompressor, + clone_for_thread, + close -----------
First == CHOOSE x \in Handles : \A y \in Handles : x <= y
Init == hs = [h \in Handles |-> IF h = First THEN Fresh ELSE Closed]

Result(h, op) == Do(hs[h], op).res                          \* what the call returns in the current state
Call(h, op) == /\ hs[h].open
               /\ hs' = [hs EXCEPT ![h] = Do(hs[h], op).st]  \* no other handle is touched

ListSamples(h)             == Call(h, O("list_samples", "", "", "", "", ""))
ListSamplesWithPrefix(h, p) == Call(h, O("list_samples_with_prefix", "", "", "", "", p))
GetCompressionStats(h)     == Call(h, O("get_compression_stats", "", "", "", "", ""))
ListContigs(h, s)          == Call(h, O("list_contigs", s, "", "", "", ""))
GetContigLength(h, s, c)   == Call(h, O("get_contig_length", s, c, "", "", ""))
GetContigSegmentsDesc(h, s, c) == Call(h, O("get_contig_segments_desc", s, c, "", "", ""))
GetContig(h, s, c)         == Call(h, O("get_contig", s, c, "", "", ""))
GetContigRange(h, s, c, r) == Call(h, O("get_contig_range", s, c, r, "", ""))
GetSample(h, s)            == Call(h, O("get_sample", s, "", "", "", ""))
GetSamplesByPrefix(h, p)   == Call(h, O("get_samples_by_prefix", "", "", "", "", p))
GetAllSegments(h)          == Call(h, O("get_all_segments", "", "", "", "", ""))
GetGroupStatistics(h)      == Call(h, O("get_group_statistics", "", "", "", "", ""))
GetReferenceSegment(h, g)  == Call(h, O("get_reference_segment", "", "", "", g, ""))
\* clone_for_thread reopens the file: the clone starts from the state of a fresh handle
CloneForThread(h, h2) == hs[h].open /\ ~hs[h2].open /\ hs' = [hs EXCEPT ![h2] = Fresh]
Close(h) == hs[h].open /\ hs' = [hs EXCEPT ![h] = Closed]

-----------------------------------------------------------------------------
\* ---- the property, over a set Q of queries: in every reachable state, on every open handle, --
\* ---- the next answer to every query is the stateless one -----------------------------------
OpenH == {h \in Handles : hs[h].open}
HistoryIndependentOn(Q) == \A h \in OpenH : \A op \in Q : Result(h, op) = Spec(op)
\* the same, without fixing the function: the answer is the one a fresh handle gives
SameAsFreshOn(Q)        == \A h \in OpenH : \A op \in Q : Result(h, op) = Do(Fresh, op).res
NoPanicOn(Q)            == \A h \in OpenH : \A op \in Q : Result(h, op).cls # "panic"
UnknownIsErrorOn(Q)     == \A h \in OpenH : \A op \in Q : NamesUnknown(op) => Result(h, op).cls = "err"
\* the code-shaped state is sane: the loaded table is the identity, cached references are the right ones
TableSane == \A h \in OpenH : \A i \in 1..N : hs[h].desc[i] \in {0, i}
CacheSane == \A h \in Handles : \A g \in DOMAIN hs[h].cache : hs[h].cache[g] = RefTrue(g)
\* handles are independent: a step changes the state of at most one handle
Isolated == [][Cardinality({h \in Handles : hs'[h] # hs[h]}) <= 1]_vars
=============================================================================
