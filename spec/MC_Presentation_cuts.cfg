SPECIFICATION MCSpec
CONSTANTS Family = "cuts"
          Level = 1
INVARIANTS ChainInv DoneInv PackInv WidthInv Emit
CHECK_DEADLOCK FALSE
