--------------------------- MODULE MC_LzEstimate ---------------------------
(* Bounded model of LzEstimate.tla: all text sizes 0..MaxT, every oracle choice.  *)
EXTENDS LzEstimate, TLC
MaxT == 10
MCTextSizes == 0..MaxT
MCTextSizesBig == 0..18
MCBounds == {2, 1000}      \* a bound that triggers the early return, and one that never does
============================================================================
