-------------------------------- MODULE Queue --------------------------------
(* QueueImpl: MemoryBoundedQueue<T> as the code implements it                  *)
(* (ragc-core/src/memory_bounded_queue.rs; line numbers of the tree with the   *)
(* fix cc10eb9 "push of an item larger than the queue capacity no longer       *)
(* blocks forever").                                                           *)
(*                                                                             *)
(* One mutex guards (items, current_size, closed); two condition variables     *)
(* not_full / not_empty.  Every action below is ONE critical section of that   *)
(* mutex (lock .. unlock, or lock .. Condvar::wait which releases it           *)
(* atomically, or wake-up .. unlock/wait).  The abstract state and the C06      *)
(* clauses come from QueueAbs; this module adds, per thread,                   *)
(*   pc[t]  "idle"    not inside a blocking queue call                         *)
(*          "pwait"   blocked in not_full.wait   (push, :115)                  *)
(*          "pwoken"  notified / spuriously woken, has not re-acquired the mutex*)
(*          "cwait"   blocked in not_empty.wait  (pull, :212)                  *)
(*          "cwoken"                                                            *)
(*   arg[t] the item a blocked push is carrying                                *)
(* Condvar semantics: notify_one makes one thread that is blocked on the        *)
(* condvar runnable (any of them - which one is not specified), notify_all all  *)
(* of them; a blocked thread may also wake spuriously.                         *)
EXTENDS QueueAbs

CONSTANT Threads

VARIABLES pc, arg
implvars == <<pc, arg>>
vars == <<q, closed, acc, rets, last, pc, arg>>

NoArg == [id |-> 0, sz |-> 0, pr |-> 0]

Init == AbsInit /\ pc = [t \in Threads |-> "idle"] /\ arg = [t \in Threads |-> NoArg]

Blocked(k) == {t \in Threads : pc[t] = k}

\* Condvar::notify_one after the caller's own pc update pcx
NotifyOne(pcx, k, woken) ==
  LET W == {u \in Threads : pcx[u] = k} IN
  IF W = {} THEN pc' = pcx
  ELSE \E u \in W : pc' = [pcx EXCEPT ![u] = woken]

-----------------------------------------------------------------------------
\* push(item, size)                                                    :103-147
MustWaitPush(x) == Bytes + x.sz > Cap /\ Bytes > 0 /\ ~closed        \* :109-111
PushBody(t, x) ==
  IF MustWaitPush(x)
  THEN /\ pc' = [pc EXCEPT ![t] = "pwait"]                            \* :115
       /\ arg' = [arg EXCEPT ![t] = x]
       /\ UNCHANGED absvars
  ELSE IF closed
  THEN /\ ORefuse                                                     \* :121-124
       /\ pc' = [pc EXCEPT ![t] = "idle"]
       /\ arg' = [arg EXCEPT ![t] = NoArg]
  ELSE /\ OAdmit(x)                                               \* :133-139
       /\ arg' = [arg EXCEPT ![t] = NoArg]
       /\ NotifyOne([pc EXCEPT ![t] = "idle"], "cwait", "cwoken")     \* :144
Push(t, x)  == pc[t] = "idle" /\ PushBody(t, x)
PushWake(t) == pc[t] = "pwoken" /\ PushBody(t, arg[t])                \* :115-117, loop test again

\* try_push(item, size)                                                :152-187
TryPush(t, x) ==
  /\ pc[t] = "idle"
  /\ IF closed THEN ORefuse /\ UNCHANGED implvars                      \* :155
     ELSE IF Bytes + x.sz > Cap THEN OWouldBlock(x.sz) /\ UNCHANGED implvars   \* :161
     ELSE /\ OAdmit(x) /\ UNCHANGED arg
          /\ NotifyOne(pc, "cwait", "cwoken")                          \* :184

\* pull()                                                              :205-234
PullBody(t) ==
  IF q = {} /\ ~closed                                                 \* :209
  THEN /\ pc' = [pc EXCEPT ![t] = "cwait"]                             \* :212
       /\ UNCHANGED <<absvars, arg>>
  ELSE IF q = {}
  THEN /\ OEos                                                         \* :218-221
       /\ pc' = [pc EXCEPT ![t] = "idle"]
       /\ UNCHANGED arg
  ELSE /\ \E x \in Maxima(q) : OTake(x.id)                             \* :225 BinaryHeap::pop
       /\ UNCHANGED arg
       /\ NotifyOne([pc EXCEPT ![t] = "idle"], "pwait", "pwoken")      \* :231
Pull(t)     == pc[t] = "idle" /\ PullBody(t)
PullWake(t) == pc[t] = "cwoken" /\ PullBody(t)

\* try_pull()                                                          :239-258
TryPull(t) ==
  /\ pc[t] = "idle"
  /\ IF q = {} THEN OEmpty /\ UNCHANGED implvars                        \* :242
     ELSE /\ \E x \in Maxima(q) : OTake(x.id)
          /\ UNCHANGED arg
          /\ NotifyOne(pc, "pwait", "pwoken")                          \* :255

\* close()                                                             :266-275
Close(t) ==
  /\ pc[t] = "idle"
  /\ OClose
  /\ pc' = [u \in Threads |-> IF pc[u] = "pwait" THEN "pwoken"          \* :273 notify_all
                              ELSE IF pc[u] = "cwait" THEN "cwoken"     \* :274 notify_all
                              ELSE pc[u]]
  /\ UNCHANGED arg

\* spurious wake-up of a blocked thread (allowed by Condvar::wait)
Spurious(t) ==
  /\ pc[t] \in {"pwait", "cwait"}
  /\ pc' = [pc EXCEPT ![t] = IF pc[t] = "pwait" THEN "pwoken" ELSE "cwoken"]
  /\ UNCHANGED <<absvars, arg>>

-----------------------------------------------------------------------------
TypeOK ==
  /\ pc \in [Threads -> {"idle", "pwait", "pwoken", "cwait", "cwoken"}]
  /\ closed \in BOOLEAN
  /\ \A t \in Threads : pc[t] \in {"idle", "cwait", "cwoken"} => arg[t] = NoArg

\* Safety form of "no thread stays blocked": in a state where no wake-up is in flight
\*  - after close nobody is blocked,
\*  - a consumer is blocked only if nothing is queued.
\* (A blocked PRODUCER whose item would fit is possible in the code as written: a take
\*  wakes one producer only, see notes/C06.md; that is not part of C06.)
Quiet == \A t \in Threads : pc[t] \notin {"pwoken", "cwoken"}
NoStuckCore == /\ closed => \A t \in Threads : pc[t] = "idle"
               /\ Blocked("cwait") # {} => q = {}
NoStuck == Quiet => NoStuckCore

\* nobody is blocked on a closed queue (close wakes everybody, later callers see `closed`)
NoWaitClosed == closed => \A t \in Threads : pc[t] \notin {"pwait", "cwait"}
=============================================================================
