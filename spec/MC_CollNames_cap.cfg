SPECIFICATION MCSpec
CONSTANTS RunCap = 3
          MaxNames = 2
          DoEmit = FALSE
          NameSet <- N_cap
INVARIANTS Law Emit
CHECK_DEADLOCK FALSE
