----------------------------- MODULE MC_LzDiff -----------------------------
(* Bounded model of LzDiff.tla: ALL token sequences of length <= MaxTok over a small  *)
(* reference.  h records, per step, the token, its bytes and the model's output; the  *)
(* laws relate the state machine, the byte grammar and the function-level decoder of  *)
(* LzDiffOps; every maximal behaviour is printed for `rvh replay-lz`, which feeds      *)
(* Serialize(tokens) prefix by prefix to the REAL decoder.                             *)
EXTENDS LzDiff, TLC, Json

CONSTANTS Ref,        \* the reference (sequence of symbol codes)
          MinMatch,   \* minimum match length
          LitCodes,   \* literal codes offered (subset of SymCodes)
          NRunLens,   \* N-run lengths offered
          MatchLens,  \* match lengths offered (filtered by the action guards)
          MaxTok      \* behaviours have exactly MaxTok tokens

\* references of the configs (a .cfg file cannot hold a tuple): Ref <- RefA etc.
RefA == <<0, 1, 2, 3, 4, 0, 30>>                                   \* ACGT, N, code 30
RefB == <<0, 1, 1, 2, 3, 3, 0, 2, 1, 3, 0, 0, 2, 3, 1, 0, 2>>      \* 17 symbols: 2-digit deltas/lengths

RefC == <<3, 0, 2, 1, 1, 3, 2, 0, 0, 1, 3, 2, 2, 0, 1, 3, 3, 1, 0, 2, 1, 0>> \* 22 symbols for min match 20

VARIABLE h
mcvars == <<out, pred, h>>

\* every token whose action may be enabled in the current state
Toks ==
  {TLit(c) : c \in LitCodes} \cup {TBang} \cup {TNRun(n) : n \in NRunLens}
  \cup {TMatch(p - pred, len) : p \in 0..Len(Ref), len \in MatchLens}
  \cup {TMEnd(p - pred) : p \in 0..Len(Ref)}

MCInit == Init /\ h = <<>>
MCNext ==
  /\ Len(h) < MaxTok
  /\ \E t \in Toks :
       /\ Step(Ref, MinMatch, t)
       /\ h' = Append(h, [tok |-> t, bytes |-> TokBytes(t, MinMatch), out |-> out'])
MCSpec == MCInit /\ [][MCNext]_mcvars

HToks == [i \in 1..Len(h) |-> h[i].tok]
Txt   == Serialize(HToks, MinMatch)

\* --- laws ---------------------------------------------------------------------------
Types == TypeOK(Ref) /\ \A i \in 1..Len(out) : out[i] \in 0..MAX_LIT

\* the grammar is uniquely decodable: parsing the serialisation returns the tokens
ParseLaw == Parse(Txt, MinMatch) = HToks /\ Parses(Txt, MinMatch)

\* the function-level decoders (over tokens, over bytes) agree with the state machine
DecodeLaw ==
  /\ DecodeToks(Ref, MinMatch, HToks) = [ok |-> TRUE, out |-> out]
  /\ DecodeR(Ref, Txt, MinMatch) = [ok |-> TRUE, out |-> out]
  /\ (Txt # <<>> => InvertsTo(Ref, out, MinMatch, Txt))

\* the checking form of the decoder (used by trace validation) accepts exactly the decoded output
DecodesToLaw ==
  /\ DecodesTo(Ref, Txt, MinMatch, out)
  /\ ~DecodesTo(Ref, Txt, MinMatch, Append(out, 0))
  /\ out # <<>> =>
       /\ ~DecodesTo(Ref, Txt, MinMatch, SubSeq(out, 1, Len(out) - 1))
       /\ \A i \in {1, (Len(out) + 1) \div 2, Len(out)} :      \* first, middle, last symbol changed
            ~DecodesTo(Ref, Txt, MinMatch, [out EXCEPT ![i] = IF @ = 0 THEN 1 ELSE 0])

\* no token contains the pack separator
SepLaw == NoSep(Txt)

\* a text cut inside its last token is not a text: a truncated match / N-run cannot be
\* taken for something else (literal and bang are single bytes)
TruncStrict ==
  h # <<>> =>
    LET lb == h[Len(h)].bytes IN
    \A c \in 1..(Len(lb) - 1) : ~Parses(SubSeq(Txt, 1, Len(Txt) - c), MinMatch)

\* each specialised action is the generic token semantics of LzDiffOps
StepIsApply == [][\A t \in Toks : Step(Ref, MinMatch, t) <=> Apply(Ref, MinMatch, t)]_mcvars

Emit == Len(h) = MaxTok =>
          PrintT(<<"REPLAY", ToJson([ref |-> Ref, mm |-> MinMatch, steps |-> h])>>)
=============================================================================
