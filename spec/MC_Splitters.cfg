\* Hand-runnable example of the bounded model (checks/c11.py generates one cfg per bound set:
\* quick  k2_c2 / k2_long / k3_c1 / k3_c2, thorough adds k2_c3, k2_c1, k2_longt, k3_long).
\* This one: k = 2, segment sizes 2 and 3, references of <= 2 contigs over {A,C,G,T,N}, <= 4 symbols.
SPECIFICATION MCSpec
CONSTANTS
  Ks = {2}
  Segs = {2,3}
  Alphabet = {0,1,2,3,4}
  MaxContigs = 2
  MaxLen = 4
  MinTotal = 1
  MaxTotal = 4
INVARIANTS CountDeterministic SingletonOnly Disjoint Spaced ResultDeterministic MCSymmetric ScanSane Emit
CHECK_DEADLOCK FALSE
