SPECIFICATION MCSpec
CONSTANTS K = 1
          MaxLen = 4
          Alphabet = {0,1,2,3,4}
INVARIANTS Refinement CanonicalLaws RestartLaw Emit
CHECK_DEADLOCK FALSE
