SPECIFICATION Spec
CONSTANTS
  N = 2
  Contigs <- C3z
  Mode = "multi"
  PackB = 2
  Cap = 1
  TokenRule = "fixed"
  RefSamples = 1
INVARIANTS NoLostContig EachOnce BarrierSane SameBarrier Deterministic PrefixDeterministic PriorityInRange
PROPERTIES Termination
CHECK_DEADLOCK FALSE
