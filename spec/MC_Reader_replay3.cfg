SPECIFICATION ReplaySpec
CONSTANTS
  Batches <- MCBatches
  ContigsOf <- MCContigsOf
  SegGroups <- MCSegGroups
  RefKind <- MCRefKind
  PrefixMatch <- MCPrefixMatch
  Handles = {1, 2}
  CursorReset = TRUE
  RefPath = "meta"
  RangeCheck = "afterLookup"
  MaxLen = 3
  Alpha = "full"
INVARIANTS StepsRight Emit

CHECK_DEADLOCK FALSE
