\* exhaustive model check (quick tier): all token sequences of length <= 5 over the 7 default tokens, every
\* line-ending mode, terminated / unterminated last line.  checks/c16.py generates the cfgs it runs; this one is
\* for running TLC by hand:  tlc -config MC_Fasta_quick.cfg MC_Fasta.tla
SPECIFICATION MCSpec
CONSTANTS Variant = "design"
          MaxLen = 5
          FullLen = 5
          SampleMod = 1
          BoringMod = 1
          ThinMod = 1
          Seed = 1
          CrlfModes = {0, 1, 2}
INVARIANTS TypeOK RefinesAndContract
CHECK_DEADLOCK FALSE
