SPECIFICATION MCSpec
CONSTANTS K = 5
          MaxLen = 8
          Alphabet = {0,1,2,3,4}
INVARIANTS Refinement CanonicalLaws RestartLaw Emit
CHECK_DEADLOCK FALSE
