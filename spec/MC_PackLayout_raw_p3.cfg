SPECIFICATION Spec
CONSTANTS PACK = 3
          IsRaw = TRUE
          Segs = {"a", "b", "c"}
          MaxSegs = 10
INVARIANTS AddressingOK CompleteAfterFinalize PackShape IdRule
CHECK_DEADLOCK FALSE
