-------------------------- MODULE MC_Segmentation --------------------------
(* Bounded exhaustive model of Segmentation.tla: every contig over Alphabet of   *)
(* length 0..MaxLen, k = K, every subset of the canonical k-mers that occur in   *)
(* the contig (plus, optionally, one k-mer that need not occur: a non-empty splitter set without occurrence), and every way of placing *)
(* boundaries the specification allows.  TLC checks the C10 laws on every state.  *)
EXTENDS Segmentation, TLC

CONSTANTS K, MaxLen, Alphabet,
          WithExtra  \* TRUE: the k-mer A..AC is offered as a splitter even when it does not occur

RECURSIVE SeqsOfLen(_)
SeqsOfLen(n) == IF n = 0 THEN {<<>>} ELSE {Append(w, a) : w \in SeqsOfLen(n - 1), a \in Alphabet}
Contigs == UNION {SeqsOfLen(n) : n \in 0..MaxLen}

\* canonical k-mers of all clean windows of c
Occurring(c) ==
  {Canon(SubSeq(c, e - K + 1, e)) :
     e \in {x \in K..Len(c) : \A i \in (x - K + 1)..x : IsACGT(c[i])}}

RECURSIVE As(_)
As(n) == IF n = 0 THEN <<>> ELSE Append(As(n - 1), 0)
Extra == IF WithExtra THEN {Append(As(K - 1), 1)} ELSE {}     \* canonical for every K

MCInit == \E c \in Contigs : \E sp \in SUBSET (Occurring(c) \cup Extra) : InitState(c, K, sp)
MCSpec == MCInit /\ [][Next]_vars

=============================================================================
