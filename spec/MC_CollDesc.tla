--------------------------- MODULE MC_CollDesc ---------------------------
(* Exhaustive model of the segment-descriptor codec (CollectionOps!DescLaw):       *)
(* every table of <= MaxRows rows drawn from RowSet.  Decoder inverts the          *)
(* canonical encoder; encoder-side and decoder-side predictor tables agree after   *)
(* every table (hence after every row: every prefix is a state).  REPLAY: every    *)
(* table of maximal length is printed with its integer streams and with the five   *)
(* byte streams of a two-sample / three-contig shaped part, for                    *)
(* `rvh replay-colldesc`.  The state IS the table.                                 *)
EXTENDS CollectionOps, TLC, Json

CONSTANTS RowSet,    \* substituted by one of the sets below
          MaxRows,
          PredLen    \* segment_size + k

VARIABLE rows
mcvars == <<rows>>

MCInit == rows = <<>>
AddRow == Len(rows) < MaxRows /\ \E r \in RowSet : rows' = Append(rows, r)
MCNext == AddRow
MCSpec == MCInit /\ [][MCNext]_mcvars

\* the table cut into samples / contigs: sample 1 = {first row}, {} ; sample 2 = {the rest}
Shaped(rs) == IF Len(rs) < 2 THEN <<<<rs>>>>
              ELSE <<<<SubSeq(rs, 1, 1), <<>>>>, <<SubSeq(rs, 2, Len(rs))>>>>

Law == /\ DescLaw(rows, PredLen)
       /\ DecDetails(EncDetails(Shaped(rows), PredLen), PredLen) = Shaped(rows)

Emit == Len(rows) = MaxRows =>
          LET e == EncRows(rows, PredLen) IN
          PrintT(<<"REPLAY", ToJson([pl |-> PredLen, rows |-> rows, es |-> e.es, ls |-> e.ls,
                                     shape |-> Counts(Shaped(rows)),
                                     streams |-> EncDetails(Shaped(rows), PredLen)])>>)

\* ---- row sets ----------------------------------------------------------------
Row(g, id, rc, len) == [g |-> g, id |-> id, rc |-> rc, len |-> len]
\* ids that repeat, go back, are 0, jump; three groups (one far away: 2-byte varint)
R_ids  == {Row(g, id, 0, PredLen) : g \in {0, 1, 300}, id \in 0..4}
R_ids2 == {Row(g, id, 0, PredLen) : g \in {0, 300}, id \in 0..4}
\* lengths near and far from the prediction, both orientations, ids 0 and a jump
Lens8 == {0, PredLen - 1, PredLen, PredLen + 1, 2 * PredLen - 1, 2 * PredLen, 2 * PredLen + 1, 5 * PredLen + 3}
R_lens  == {Row(0, id, rc, len) : id \in {0, 2}, rc \in {0, 1}, len \in Lens8}                       \* 32 rows (thorough)
R_lensq == {Row(0, id, rc, len) : id \in {0, 2}, rc \in {0, 1}, len \in Lens8 \ {PredLen, 2 * PredLen + 1}}  \* 24 rows
\* large values: 3-, 4- and 5-byte varints
R_big  == {Row(g, id, 1, len) : g \in {7, 100000}, id \in {0, 1, 16511, 2113664, 270549120}, len \in {1, 300000000}}
==========================================================================
