-------------------------- MODULE Trace_TuplePack --------------------------
(* Trace validation for TuplePack.tla: every call of the real API               *)
(* (compress_reference_segment, compress_segment_configured,                    *)
(* decompress_segment_with_marker, bytes_to_tuples/tuples_to_bytes) is one      *)
(* event and must be a step of the specification; the logged results (marker,   *)
(* payload after an independent un-ZSTD, decompressed bytes) must equal the     *)
(* specification's primed variables.                                            *)
(*                                                                              *)
(* Added state (the anchor "thread-local ZSTD context"):                        *)
(*   inputs  did -> byte string (inputs of the case)                            *)
(*   did     the selected input                                                 *)
(*   calls   thread -> number of compressions its context has done (its age)    *)
(*   memo    <<level, marker, did>> -> digest of the compressed bytes           *)
(* In the specification Z(x, lvl) is a function of (x, lvl) alone.  The real    *)
(* compressed bytes are opaque, so the same is demanded of their digest: the    *)
(* same (input to ZSTD, level) must give the same bytes whatever thread ran it  *)
(* and whatever that thread's context compressed before.                        *)
EXTENDS TuplePack, TLC, Json, IOUtils

Rec == ndJsonDeserialize(IOEnv.TRACE)
NoDid == 99999999

VARIABLES l, inputs, did, calls, memo
tvars == <<vars, l, inputs, did, calls, memo>>

IsEvent(e) == l <= Len(Rec) /\ Rec[l].ev = e /\ l' = l + 1
Has(e, f)  == f \in DOMAIN e

\* case boundary: everything is re-initialised
TStart == /\ IsEvent("start")
          /\ SetInput(<<>>)
          /\ inputs' = <<>> /\ did' = NoDid /\ calls' = <<>> /\ memo' = <<>>

TThread == /\ IsEvent("thread")
           /\ LET e == Rec[l] IN
                /\ e.t \notin DOMAIN calls
                /\ calls' = (e.t :> e.n0) @@ calls
           /\ UNCHANGED <<vars, inputs, did, memo>>

\* SetInput: the first selection of an input carries its bytes
TSelect == /\ IsEvent("select")
           /\ LET e == Rec[l] IN
                /\ IF e.did \in DOMAIN inputs
                   THEN /\ ~Has(e, "data")
                        /\ SetInput(inputs[e.did]) /\ UNCHANGED inputs
                   ELSE /\ Has(e, "data")
                        /\ \A i \in 1..Len(e.data) : e.data[i] \in Byte
                        /\ SetInput(e.data)
                        /\ inputs' = (e.did :> e.data) @@ inputs
                /\ did' = e.did
           /\ UNCHANGED <<calls, memo>>

\* compress_reference_segment: StoreRef with the marker the code chose (either marker is a step
\* of the specification: the repetitiveness rule Choose is not part of the verdict)
TRef == /\ IsEvent("ref")
        /\ did \in DOMAIN inputs
        /\ LET e == Rec[l] IN
             /\ StoreRef(e.marker)
             /\ UnZ(blob'.payload) = e.unz
        /\ UNCHANGED <<inputs, did, calls, memo>>

\* compress_segment_configured(level)
TDelta == /\ IsEvent("delta")
          /\ did \in DOMAIN inputs
          /\ LET e == Rec[l] IN
               /\ e.level \in 1..22
               /\ StoreDelta(e.level)
               /\ UnZ(blob'.payload) = e.unz
          /\ UNCHANGED <<inputs, did, calls, memo>>

\* the compression just logged ran on thread t whose context had done n compressions before;
\* its bytes must be the ones seen for the same (ZSTD input, level) anywhere in this case
TCtx == /\ IsEvent("ctx")
        /\ blob # NoBlob /\ out = NoOut
        /\ LET e   == Rec[l]
               key == <<blob.payload.lvl, blob.marker, did>>
           IN /\ e.t \in DOMAIN calls /\ calls[e.t] = e.n
              /\ calls' = [calls EXCEPT ![e.t] = e.n + 1]
              /\ IF key \in DOMAIN memo
                 THEN memo[key] = e.zh /\ UNCHANGED memo
                 ELSE memo' = (key :> e.zh) @@ memo
        /\ UNCHANGED <<vars, inputs, did>>

\* decompress_segment_with_marker(payload, stored marker) [and decompress_segment for marker 0]
TLoad == /\ IsEvent("load")
         /\ out = NoOut
         /\ LET e == Rec[l] IN
              /\ Load
              /\ out' = e.dec
              /\ Has(e, "dec2") => (blob.marker = 0 /\ e.dec2 = out')
         /\ UNCHANGED <<inputs, did, calls, memo>>

\* bytes_to_tuples / tuples_to_bytes called directly on the selected input
TPack == /\ IsEvent("pack")
         /\ did \in DOMAIN inputs
         /\ LET e == Rec[l] IN
              /\ e.packed = Pack(inp)
              /\ e.unpacked = Unpack(e.packed)
              /\ e.unpacked = inp
         /\ UNCHANGED <<vars, inputs, did, calls, memo>>

TNext == TStart \/ TThread \/ TSelect \/ TRef \/ TDelta \/ TCtx \/ TLoad \/ TPack
TInit == Init /\ l = 1 /\ inputs = <<>> /\ did = NoDid /\ calls = <<>> /\ memo = <<>>
TSpec == TInit /\ [][TNext]_tvars

Accepted ==
  LET d == TLCGet("stats").diameter IN
  IF d - 1 = Len(Rec) THEN TRUE ELSE PrintT(<<"UNMATCHED", d>>) /\ FALSE
===========================================================================
