----------------------------- MODULE TuplePack -----------------------------
(* Segment / pack compression of ragc (C12).                                    *)
(*   ragc-core/src/tuple_packing.rs       bytes_to_tuples / tuples_to_bytes      *)
(*   ragc-core/src/segment_compression.rs compress_reference_segment,            *)
(*                                        compress_segment_configured,           *)
(*                                        decompress_segment_with_marker         *)
(*   ragc-core/src/zstd_pool.rs           one ZSTD context per thread            *)
(*                                                                              *)
(* Byte strings are sequences over 0..255.  ZSTD is the abstract lossless box   *)
(* Z / UnZ (trusted base): its output is a function of (input, level) alone.    *)
(*                                                                              *)
(* State machine (one codec "session"):                                         *)
(*   inp   the byte string submitted                                            *)
(*   blob  NoBlob or the stored result [marker, payload]                        *)
(*   out   NoOut or what decompress_segment_with_marker returned                *)
(* Actions are the API calls: SetInput / Extend (choose the input), StoreRef    *)
(* (compress_reference_segment), StoreDelta (compress_segment_configured), Load *)
(* (decompress_segment_with_marker with the stored marker).                     *)
EXTENDS Naturals, Sequences, FiniteSets, Sym

Byte == 0..255

\* ---------------------------------------------------------------------------
\* tuple packing: tuple_packing.rs
\* ---------------------------------------------------------------------------
RAW_MARKER == 16                                  \* 0x10 : width 1, no packing

\* width (symbols per byte) and radix by the maximum symbol: tuple_packing.rs:11-24
Width(m) == IF m < 4 THEN 4 ELSE IF m < 6 THEN 3 ELSE IF m < 16 THEN 2 ELSE 1
Radix(m) == IF m < 4 THEN 4 ELSE IF m < 6 THEN 6 ELSE IF m < 16 THEN 16 ELSE 256
\* the decoder only sees the width (marker >> 4): tuple_packing.rs:47-51
RadixOfWidth(w) == IF w = 4 THEN 4 ELSE IF w = 3 THEN 6 ELSE IF w = 2 THEN 16 ELSE 256

MaxSym(b) == MaxOf({b[i] : i \in 1..Len(b)})      \* b non-empty

RECURSIVE Pow(_, _)
Pow(r, n) == IF n = 0 THEN 1 ELSE r * Pow(r, n - 1)

\* value of the n symbols b[from .. from+n-1] read as a base-r number, first symbol most
\* significant (pack_tuples: c = c * MAX + bytes[i + j]); n = 0 gives 0
RECURSIVE TupleVal(_, _, _, _)
TupleVal(b, from, n, r) ==
  IF n = 0 THEN 0 ELSE TupleVal(b, from, n - 1, r) * r + b[from + n - 1]

\* bytes_to_tuples
Pack(b) ==
  IF b = <<>> THEN <<RAW_MARKER>>
  ELSE LET m == MaxSym(b)
           w == Width(m)
           r == Radix(m)
           n == Len(b)
           T == n \div w                           \* number of full tuples
       IN  IF w = 1 THEN Append(b, RAW_MARKER)
           ELSE [i \in 1..(T + 2) |->
                   IF i <= T THEN TupleVal(b, (i - 1) * w + 1, w, r)
                   ELSE IF i = T + 1 THEN TupleVal(b, T * w + 1, n % w, r)   \* trailing tuple, ALWAYS present
                   ELSE w * 16 + (n % w)]                                     \* marker (width<<4) | (len mod width)

\* what tuples_to_bytes accepts without panicking / reading out of bounds
WellFormed(t) ==
  /\ t # <<>>
  /\ LET mk == t[Len(t)] w == mk \div 16 tr == mk % 16 IN
       \/ w = 1
       \/ w \in 2..4 /\ Len(t) >= 2 /\ tr < w

\* tuples_to_bytes (defined from the decoder's point of view: only the packed bytes are known)
Unpack(t) ==
  IF t = <<>> THEN <<>>
  ELSE LET mk == t[Len(t)]
           w  == mk \div 16
           tr == mk % 16
       IN  IF w = 1 THEN SubSeq(t, 1, Len(t) - 1)
           ELSE LET r == RadixOfWidth(w)
                    n == (Len(t) - 2) * w + tr        \* output size
                    F == n \div w                      \* full tuples
                IN [j \in 1..n |->
                      LET q == (j - 1) \div w           \* tuple index (0-based)
                          p == (j - 1) % w              \* position inside the tuple
                          k == IF q < F THEN w ELSE n % w   \* digits in that tuple
                      IN (t[q + 1] \div Pow(r, k - 1 - p)) % r]

\* --- laws of the packing (checked for every string of the bounded model) ---
PackRoundTrip(b) == Unpack(Pack(b)) = b
PackShape(b) ==
  LET t == Pack(b) IN
  /\ WellFormed(t)
  /\ \A i \in 1..Len(t) : t[i] \in Byte                     \* `c as u8` never truncates
  /\ IF b = <<>> THEN t = <<RAW_MARKER>>
     ELSE LET w == Width(MaxSym(b)) IN
          /\ t[Len(t)] = w * 16 + (IF w = 1 THEN 0 ELSE Len(b) % w)
          /\ Len(t) = IF w = 1 THEN Len(b) + 1 ELSE Len(b) \div w + 2
InjectiveOn(S) == Cardinality({Pack(b) : b \in S}) = Cardinality(S)

\* ---------------------------------------------------------------------------
\* reference / delta compression: segment_compression.rs
\* ---------------------------------------------------------------------------
REF_TUPLES_LEVEL == 13
REF_PLAIN_LEVEL  == 19
DELTA_LEVEL      == 17

\* ZSTD as an abstract lossless box
Z(x, lvl) == [z |-> x, lvl |-> lvl]
UnZ(p)    == p.z

\* check_repetitiveness (segment_compression.rs:27-62) as integer inequalities:
\* best_frac >= 0.5  <=>  some offset 4..31 has cur_size > 0 and 2*cnt >= cur_size
\* (cnt counts equal pairs of ANY symbol, cur_size only positions holding a symbol < 4)
RepCnt(d, off)  == Cardinality({j \in 1..(Len(d) - off) : d[j] = d[j + off]})
RepSize(d, off) == Cardinality({j \in 1..(Len(d) - off) : d[j] < 4})
Repetitive(d) == \E off \in 4..31 : Len(d) > off /\ RepSize(d, off) > 0 /\ 2 * RepCnt(d, off) >= RepSize(d, off)
\* the marker the code chooses (informational: ANY marker in {0,1} keeps the property)
Choose(d) == IF Repetitive(d) THEN 0 ELSE 1

EncodeRef(d, m) == [marker  |-> m,
                    payload |-> IF m = 1 THEN Z(Pack(d), REF_TUPLES_LEVEL) ELSE Z(d, REF_PLAIN_LEVEL)]
CompressRef(d)  == EncodeRef(d, Choose(d))
EncodeDelta(d, lvl) == [marker |-> 0, payload |-> Z(d, lvl)]
\* decompress_segment_with_marker: marker 0 plain, any other marker = ZSTD + tuple unpacking
Decompress(p, m) == IF m = 0 THEN UnZ(p) ELSE Unpack(UnZ(p))

\* ---------------------------------------------------------------------------
\* state machine
\* ---------------------------------------------------------------------------
CONSTANTS Alphabet,   \* symbols of the bounded model
          MaxLen,     \* bound on |inp| in the bounded model
          Levels      \* ZSTD levels of compress_segment_configured in the bounded model

VARIABLES inp, blob, out
vars == <<inp, blob, out>>

NoBlob == [marker |-> 99]
NoOut  == <<999>>

Init == inp = <<>> /\ blob = NoBlob /\ out = NoOut

SetInput(d) == inp' = d /\ blob' = NoBlob /\ out' = NoOut
Extend(s)   == blob = NoBlob /\ Len(inp) < MaxLen /\ SetInput(Append(inp, s))

\* compress_reference_segment: the marker is the code's choice; the property must hold for both
StoreRef(m) == /\ m \in {0, 1}
               /\ blob' = EncodeRef(inp, m) /\ out' = NoOut /\ UNCHANGED inp
\* compress_segment_configured / compress_segment (delta packs): marker 0
StoreDelta(lvl) == blob' = EncodeDelta(inp, lvl) /\ out' = NoOut /\ UNCHANGED inp
\* decompress_segment_with_marker(payload, stored marker)
Load == /\ blob # NoBlob
        /\ out' = Decompress(blob.payload, blob.marker) /\ UNCHANGED <<inp, blob>>

AnyExtend     == \E s \in Alphabet : Extend(s)
AnyStoreRef   == blob = NoBlob /\ \E m \in {0, 1} : StoreRef(m)
AnyStoreDelta == blob = NoBlob /\ \E lvl \in Levels : StoreDelta(lvl)
DoLoad        == out = NoOut /\ Load
Next == AnyExtend \/ AnyStoreRef \/ AnyStoreDelta \/ DoLoad
Spec == Init /\ [][Next]_vars

\* --- C12 as invariants ---
\* decompressing with the stored marker returns the bytes that were compressed
Lossless == out # NoOut => out = inp
\* a stored tuple-packed payload is exactly the packing of the input, a plain one the input
BlobLaw  == blob # NoBlob =>
              /\ blob.marker \in {0, 1}
              /\ UnZ(blob.payload) = IF blob.marker = 1 THEN Pack(inp) ELSE inp
\* tuple packing alone is a bijection onto its image (left inverse + shape), every state's input
PackLaws == blob = NoBlob => PackRoundTrip(inp) /\ PackShape(inp)
\* the code's own marker choice is one of the allowed ones
ChooseLaw == blob = NoBlob => Choose(inp) \in {0, 1}
=============================================================================
