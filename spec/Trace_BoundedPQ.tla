--------------------------- MODULE Trace_BoundedPQ ---------------------------
(* Linearizability check of recorded concurrent executions of the UNMODIFIED    *)
(* ragc_core::priority_queue::BoundedPriorityQueue against the sequential        *)
(* specification of BoundedPQ.tla (A* actions).                                  *)
(*                                                                               *)
(* The object has no hooks.  The harness threads take a number from one global   *)
(* atomic counter immediately before each call and immediately after it returns; *)
(* the log is sorted by that number, so "ret of a precedes call of b in the log"  *)
(* is a real happens-before.  Between its call and its ret record an operation    *)
(* takes effect at ONE internal step (TLin) - the linearisation point - which the  *)
(* log does not show.  The call record already carries the answer the call gave    *)
(* (the log is written after the threads have finished), so TLin is only enabled   *)
(* with the recorded answer: validation does not guess results.                    *)
(*                                                                               *)
(* Records:                                                                       *)
(*   start  cap, nprod                               a fresh queue                 *)
(*   call   t, op = "emplace" (id, pr, cost) | "many" (id, pr, n) | "pop" | "mark"  *)
(*          res = "unit" | "normal" (rid, rpr, rcost) | "completed" | "empty" | "blocked" *)
(*   ret    t                                                                     *)
(*   stuck  blocked = threads asleep in an untimed futex wait with a call pending,  *)
(*          and no harness thread runnable: nothing will ever move again           *)
(*   end    items, cost, empty, completed   (get_size / is_empty / is_completed after all threads joined) *)
EXTENDS Naturals, FiniteSets, Sequences, TLC, Json, IOUtils

Rec == ndJsonDeserialize(IOEnv.TRACE)

VARIABLES q, cur, nprod, cap,   \* abstract queue: set of [id, pr, cost, k], current cost, producers, capacity
          l,                     \* next record
          pend                   \* per thread: its pending call record (with lin flag) or None
vars == <<q, cur, nprod, cap, l, pend>>

None == [op |-> "-"]
E == Rec[l]
IsEvent(e) == l <= Len(Rec) /\ Rec[l].ev = e /\ l' = l + 1
\* highest record index reached; evaluated LAST in every record-consuming action (TLC evaluates conjuncts in order)
Bump == TLCSet(1, IF TLCGet(1) < l + 1 THEN l + 1 ELSE TLCGet(1))

Less(a, b) == a.pr < b.pr \/ (a.pr = b.pr /\ a.cost < b.cost)
Maxima(S) == {x \in S : \A y \in S : ~Less(x, y)}
ThreadsSeen == DOMAIN pend

TInit == /\ q = {} /\ cur = 0 /\ nprod = 0 /\ cap = 0 /\ l = 1
         /\ pend = <<>>
         /\ TLCSet(1, 1)

TStart == /\ IsEvent("start")
          /\ q' = {} /\ cur' = 0 /\ nprod' = E.nprod /\ cap' = E.cap
          /\ pend' = [t \in 1..E.threads |-> None]
          /\ Bump

TCall == /\ IsEvent("call")
         /\ pend[E.t] = None
         /\ pend' = [pend EXCEPT ![E.t] = [op |-> E.op, c |-> E, lin |-> FALSE]]
         /\ UNCHANGED <<q, cur, nprod, cap>>
         /\ Bump

\* the linearisation point of thread t's pending call, with the answer it is recorded to have given
TLin(t) ==
  /\ pend[t] # None /\ ~pend[t].lin
  /\ LET c == pend[t].c IN
     /\ c.res # "blocked"
     /\ IF c.op = "emplace" THEN
               /\ c.res = "unit"
               /\ cur < cap                                   \* blocks while current_cost >= max_cost
               /\ q' = q \cup {[id |-> c.id, pr |-> c.pr, cost |-> c.cost, k |-> 1]}
               /\ cur' = cur + c.cost
               /\ UNCHANGED nprod
        ELSE IF c.op = "many" THEN
               /\ c.res = "unit"
               /\ q' = q \cup {[id |-> c.id, pr |-> c.pr, cost |-> 0, k |-> k] : k \in 1..c.n}
               /\ UNCHANGED <<cur, nprod>>
        ELSE IF c.op = "mark" THEN
               /\ c.res = "unit" /\ nprod > 0
               /\ nprod' = nprod - 1
               /\ UNCHANGED <<q, cur>>
        ELSE IF c.res = "normal" THEN                          \* pop
               \E e \in {x \in Maxima(q) : x.id = c.rid} :     \* a maximal entry by (priority, cost) at this point
                      /\ q' = q \ {e}
                      /\ cur' = cur - e.cost
                      /\ UNCHANGED nprod
        ELSE /\ c.res = "completed"                           \* "empty" is never a legal answer of the blocking pop
             /\ q = {} /\ nprod = 0
             /\ UNCHANGED <<q, cur, nprod>>
  /\ pend' = [pend EXCEPT ![t].lin = TRUE]
  /\ UNCHANGED <<cap, l>>

TRet == /\ IsEvent("ret")
        /\ pend[E.t] # None /\ pend[E.t].lin
        /\ pend' = [pend EXCEPT ![E.t] = None]
        /\ UNCHANGED <<q, cur, nprod, cap>>
        /\ Bump

\* an operation of thread t could take effect in the current state
CouldProceed(t) ==
  LET c == pend[t].c IN
  CASE c.op = "emplace" -> cur < cap
    [] c.op = "pop" -> q # {} \/ nprod = 0
    [] OTHER -> TRUE

\* nothing will ever move again: accepted only if, in the specification too, none of the pending calls can proceed
TStuck == /\ IsEvent("stuck")
          /\ \A i \in 1..Len(E.blocked) :
                LET t == E.blocked[i] IN pend[t] # None /\ ~pend[t].lin /\ ~CouldProceed(t)
          /\ \A t \in DOMAIN pend : pend[t] # None => \E i \in 1..Len(E.blocked) : E.blocked[i] = t
          /\ UNCHANGED <<q, cur, nprod, cap, pend>>
          /\ Bump

TEnd == /\ IsEvent("end")
        /\ \A t \in DOMAIN pend : pend[t] = None
        /\ E.items = Cardinality(q) /\ E.cost = cur
        /\ (E.empty = 1) = (q = {}) /\ (E.completed = 1) = (q = {} /\ nprod = 0)
        /\ UNCHANGED <<q, cur, nprod, cap, pend>>
        /\ Bump

TNext == TStart \/ TCall \/ TRet \/ TStuck \/ TEnd \/ \E t \in DOMAIN pend : TLin(t)
TSpec == TInit /\ [][TNext]_vars

\* (the order clause is a guard of TLin: a trace is accepted iff SOME linearisation exists in which every pop returns a maximal entry)
CostNonNeg == cur >= 0

Accepted ==
  IF TLCGet(1) = Len(Rec) + 1 THEN TRUE
  ELSE PrintT(<<"UNMATCHED", TLCGet(1)>>) /\ FALSE
=============================================================================
