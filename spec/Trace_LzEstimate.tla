------------------------- MODULE Trace_LzEstimate -------------------------
(* Trace validation for LzEstimate.tla at the granularity of a CALL: every call of *)
(* the real LZDiff::estimate / LZDiff::encode (public API, overflow-checked build)  *)
(* on a (reference, target) pair is one event carrying its arguments and result.    *)
(* The specification re-runs the scan with the SAME register actions as the design  *)
(* module (LoopHeadP, LiteralP, NRunP, MatchP, FinalP) while the oracle's choices   *)
(* are dictated by the real sequence data (what find_best_match_lp can return on    *)
(* these sequences), one TLC step per loop iteration, and then requires              *)
(*   estimate: the returned value = the model's est                                  *)
(*   encode  : the token stream (literal / N-run(len-4) / match(delta, len-mm|end))  *)
(*             = the model's tokens (index projection: literal bytes are not compared)*)
(* and NoPlainWrap on every state.  A call that panicked matches no step.            *)
(* Acceptance (python): the line <<"ACCEPTED", n>> is printed; otherwise the largest  *)
(* <<"AT", l>> is the index of the event that no behaviour of the spec reaches.       *)
(* Ties between equally long candidate matches (resolved by hash-table probe order   *)
(* in the code) are left open: any of them is allowed.                                *)
EXTENDS LzEstimate, TLC, Json, IOUtils

Rec == ndJsonDeserialize(IOEnv.TRACE)

VARIABLES l,      \* next event
          ref, tgt, \* the pair (symbol codes), loaded by the "pair" event
          par,    \* [rl, kl, mm, hs]
          hp,     \* hashed reference positions (sparse index with a valid k-mer)
          mode,   \* "idle" | "estimate" | "encode"
          out     \* encode: the model's token list
tvars == <<vars, l, ref, tgt, par, hp, mode, out>>

Ev == Rec[l]
TS == Len(tgt)
\* 0-based accessors as in the code
T(i) == tgt[i + 1]
RefP(p) == IF p < par.rl THEN ref[p + 1] ELSE 31             \* reference padded with key_len x 31

\* ---- what the data dictates -------------------------------------------------------
KeyValidT(i) == \A j \in 0..(par.kl - 1) : T(i + j) <= 3
RECURSIVE RunFrom(_, _)
RunFrom(i, n) == IF n < TS - i /\ T(i + n) = 4 THEN RunFrom(i, n + 1) ELSE n
NRunLenT(i) == IF TS - i >= 3 /\ T(i) = 4 /\ T(i + 1) = 4 /\ T(i + 2) = 4 THEN RunFrom(i, 3) ELSE 0

RECURSIVE FwdLen(_, _, _, _)
FwdLen(i, p, n, lim) == IF n < lim /\ T(i + n) = RefP(p + n) THEN FwdLen(i, p, n + 1, lim) ELSE n
RECURSIVE BackLen(_, _, _, _)
BackLen(i, p, n, lim) == IF n < lim /\ T(i - n - 1) = RefP(p - n - 1) THEN BackLen(i, p, n + 1, lim) ELSE n
Min2(a, b) == IF a < b THEN a ELSE b

HashedPositions(r, rl, kl, hs) ==
  {p \in 0..(rl - 1) : p % hs = 0 /\ p + kl <= rl /\ \A j \in 1..kl : r[p + j] <= 3}

\* candidates as find_best_match_lp sees them (246-378): same k-mer, forward length bounded by max_len
\* and by the padded reference, backward extension over at most no_prev_literals symbols
Cands(i, nl) ==
  LET K == {p \in hp : \A j \in 0..(par.kl - 1) : RefP(p + j) = T(i + j)}
  IN {[mp |-> p, f |-> FwdLen(i, p, 0, Min2(TS - i, par.rl + par.kl - p)),
       b |-> BackLen(i, p, 0, Min2(nl, Min2(p, i)))] : p \in K}
Best(i, nl) ==
  LET Q == {c \in Cands(i, nl) : c.b + c.f > par.mm}       \* `b_len + f_len > min_to_update`, initially min_match_len
  IN {c \in Q : \A d \in Q : d.b + d.f <= c.b + c.f}

-----------------------------------------------------------------------------
TInit == /\ l = 1 /\ ref = <<>> /\ tgt = <<>> /\ par = [rl |-> 0, kl |-> 1, mm |-> 4, hs |-> 4] /\ hp = {}
         /\ mode = "idle" /\ out = <<>>
         /\ st = S0(0) /\ pc = "idle" /\ bound = 0 /\ res = -1

KeepData == UNCHANGED <<ref, tgt, par, hp>>

TPair ==
  /\ mode = "idle" /\ l <= Len(Rec) /\ Ev.ev = "pair"
  /\ ref' = Ev.ref /\ tgt' = Ev.tgt
  /\ par' = [rl |-> Len(Ev.ref), kl |-> Ev.mm - Ev.hs + 1, mm |-> Ev.mm, hs |-> Ev.hs]
  /\ hp' = HashedPositions(Ev.ref, Len(Ev.ref), Ev.mm - Ev.hs + 1, Ev.hs)
  /\ l' = l + 1 /\ PrintT(<<"AT", l>>)
  /\ UNCHANGED <<vars, mode, out>>

SameAsRef == TS = par.rl /\ tgt = ref

\* ---- a call starts -------------------------------------------------------------
TStart ==
  /\ mode = "idle" /\ l <= Len(Rec) /\ Ev.ev \in {"estimate", "encode"}
  /\ mode' = Ev.ev /\ out' = <<>>
  /\ st' = S0(TS) /\ res' = -1
  /\ bound' = IF Ev.ev = "estimate" THEN Ev.bound ELSE 0
  /\ pc' = IF SameAsRef THEN "equal" ELSE "head"          \* the equal-sequences shortcut of both functions
  /\ UNCHANGED l /\ KeepData

THead == mode # "idle" /\ LoopHeadP(par, mode) /\ UNCHANGED <<l, mode, out>> /\ KeepData

\* the projected token of a match in the encoder: delta = (mp - b) - (pred - b), length field or -1 (to the end)
MatchTok(c) ==
  LET total == c.b + c.f
      isEnd == (st.i - c.b + total = TS) /\ (c.mp + c.f = par.rl)
  IN <<2, (c.mp - c.b) - (st.pred - c.b), IF isEnd THEN -1 ELSE total - par.mm>>
Lit == <<0, 0, 0>>
Drop(s, n) == SubSeq(s, 1, Len(s) - n)

TBody ==
  /\ mode # "idle" /\ pc = "body"
  /\ IF ~KeyValidT(st.i)
     THEN LET n == NRunLenT(st.i) IN
          IF n >= MinNRun
          THEN NRunP(mode, n) /\ out' = (IF mode = "encode" THEN Append(out, <<1, n - MinNRun, 0>>) ELSE out)
          ELSE LiteralP(mode) /\ out' = (IF mode = "encode" THEN Append(out, Lit) ELSE out)
     ELSE LET B == Best(st.i, st.nLit) IN
          IF B = {}
          THEN LiteralP(mode) /\ out' = (IF mode = "encode" THEN Append(out, Lit) ELSE out)
          ELSE \E c \in B :
                 /\ MatchP(par, mode, c)
                 /\ out' = (IF mode = "encode" THEN Append(Drop(out, c.b), MatchTok(c)) ELSE out)   \* the b literals are popped
  /\ UNCHANGED <<l, mode>> /\ KeepData

TFinal ==
  /\ mode # "idle" /\ FinalP(mode, "wrapping")
  \* coverage report: this real call reaches the final subtraction with the index past the text
  /\ IF mode = "estimate" /\ st.i > st.ts THEN PrintT(<<"OVERSHOOT", l>>) ELSE TRUE
  /\ out' = (IF mode = "encode" THEN out \o [j \in 1..(TS - st.i) |-> Lit] ELSE out)
  /\ UNCHANGED <<l, mode>> /\ KeepData

\* ---- the call returns: compare with what the real code returned ------------------
\* PROPERTY part: the call returned (a panicking call matches no step).
\* BINDING part: the returned value is the model's; a difference is reported as <<"DRIFT", l>> (the model no
\* longer describes the code: a tool-level error, not a verdict on C18) and the event is consumed.
TReturn ==
  /\ mode # "idle" /\ pc \in {"done", "equal"}
  /\ Ev.panic = ""
  /\ LET same == IF mode = "estimate"
                 THEN ~Ev.big /\ Ev.res = (IF pc = "equal" THEN 0 ELSE res)
                 ELSE Ev.toks = (IF pc = "equal" THEN <<>> ELSE out)
     IN IF same THEN PrintT(<<"MATCH", l>>) ELSE PrintT(<<"DRIFT", l>>)
  /\ l' = l + 1 /\ PrintT(<<"AT", l>>)
  /\ mode' = "idle" /\ pc' = "idle" /\ out' = <<>>
  /\ UNCHANGED <<st, bound, res>> /\ KeepData

TNext == TPair \/ TStart \/ THead \/ TBody \/ TFinal \/ TReturn
TSpec == TInit /\ [][TNext]_tvars

\* printed once when some behaviour consumed every event
Accept == (l = Len(Rec) + 1) => PrintT(<<"ACCEPTED", Len(Rec)>>)
\* the range invariant on the states of real executions
TraceNoPlainWrap == st.ovf = {}
===========================================================================
