------------------------------ MODULE MC_Bloom ------------------------------
EXTENDS Bloom, TLC, Json, Sequences
CONSTANTS MaxOps, Emit
\* every hash assignment over the universe with values from a small set (collisions, values >= size, equal hashes of one k-mer)
HVals == {0, 63, 64, 130}
AllH == [Kmers -> [1..NH -> HVals]]
OneH == {[k \in Kmers |-> [i \in 1..NH |-> 0]]}
VARIABLES n, h, s0
mvars == <<vars, n, h, s0>>
MInit == Init /\ n = 0 /\ h = <<>> /\ s0 = size
Post == [size |-> size', items |-> items', cap |-> size' \div 8]
MNext == /\ n < MaxOps /\ n' = n + 1 /\ s0' = s0
         /\ \/ \E k \in Kmers : Insert(k) /\ h' = Append(h, [op |-> "insert", k |-> k, post |-> Post, must |-> ins', empty |-> FALSE])
            \/ Clear /\ h' = Append(h, [op |-> "clear", post |-> Post, must |-> {}, empty |-> TRUE])
            \/ \E m \in Sizes : Resize(m) /\ h' = Append(h, [op |-> "resize", n |-> m, post |-> Post, must |-> {}, empty |-> TRUE])
MSpec == MInit /\ [][MNext]_mvars
NoHistView == <<vars, n>>
ReplayOut == (Emit /\ n = MaxOps) => PrintT(<<"REPLAY", ToJson([size0 |-> s0, steps |-> h])>>)
=============================================================================
