--------------------------- MODULE MC_Collection ---------------------------
(* Bounded model of the catalogue life cycle (Collection.tla) with the canonical  *)
(* encoder, and REPLAY emission.  History h: the operations with the model's      *)
(* observable post-state; every complete behaviour (writer, store, open, two      *)
(* loading passes) is printed for `rvh replay-collection`.                         *)
EXTENDS Collection, TLC, Json

CONSTANTS MaxReg,        \* number of register calls
          PL             \* segment_size + k
VARIABLE h
mcvars == <<vars, h>>

s1 == <<115, 49>>  s2 == <<115, 50>>  s3 == <<115, 51>>
SampleSet == {s1, s2, s3}
\* "a", "a b", "a c", "b  c" : field kept / same length / field count change / empty field
ContigSet == {<<97>>, <<97, 32, 98>>, <<97, 32, 99>>, <<98, 32, 32, 99>>}

Row(g, id, rc, len) == [g |-> g, id |-> id, rc |-> rc, len |-> len]
\* two deterministic descriptor patterns: (i, j) = sample / contig position
RowsFor(pat, i, j) ==
  IF pat = 1 THEN [p \in 1..((i + j) % 3) |-> Row(j % 2, i + p - 2 + j, (i + p) % 2, PL + p - 2)]
  ELSE [p \in 1..(1 + (i % 2)) |-> Row(0, IF p = 1 THEN 3 - i ELSE 0, 1, 2 * PL + i)]
Placed(pat) == [i \in 1..Len(cat) |-> [name |-> cat[i].name, contigs |->
                   [j \in 1..Len(cat[i].contigs) |-> [name |-> cat[i].contigs[j].name,
                                                       segs |-> [p \in DOMAIN RowsFor(pat, i, j) |->
                                                                   LET r == RowsFor(pat, i, j)[p] IN
                                                                   Row(r.g, IF r.id < 0 THEN 0 ELSE r.id, r.rc, r.len)]]]]]

MCInit == /\ cat = <<>> /\ arch = EmptyArch /\ rcat = <<>> /\ cursor = 0 /\ nextB = 0
          /\ phase = "write" /\ predLen = PL /\ h = <<>>

NReg == Cardinality({i \in 1..Len(h) : h[i].op = "register"})
MCRegister == /\ NReg < MaxReg
              /\ \A i \in 1..Len(h) : h[i].op = "register"
              /\ \E sn \in SampleSet, cn \in ContigSet :
                   /\ Register(sn, cn)
                   /\ h' = Append(h, [op |-> "register", s |-> sn, c |-> cn, new |-> cat' # cat,
                                      nsamples |-> Len(cat')])
\* all placements at once (one Place per contig in the real run)
MCPlaceAll == /\ phase = "write" /\ NReg = MaxReg /\ h[Len(h)].op = "register"
              /\ \E pat \in {1, 2} : cat' = Placed(pat) /\ h' = Append(h, [op |-> "place", cat |-> cat'])
              /\ UNCHANGED <<predLen, arch, rcat, cursor, nextB, phase>>
MCStoreNames == /\ h # <<>> /\ h[Len(h)].op = "place" /\ StoreSampleNamesCanon
                /\ h' = Append(h, [op |-> "store_names", bytes |-> arch'.samples])
MCStoreBatch == /\ StoreBatchCanon
                /\ h' = Append(h, [op |-> "store_batch", b |-> Len(arch.names),
                                   names |-> arch'.names[Len(arch'.names)], det |-> arch'.det[Len(arch'.det)]])
MCOpen == OpenRead /\ h' = Append(h, [op |-> "open", samples |-> ListSamples(rcat')])
NLoad == Cardinality({i \in 1..Len(h) : h[i].op = "load"})
MCLoad == /\ NLoad < 2 * Len(arch.names)            \* two passes
          /\ LoadBatch(nextB)
          /\ h' = Append(h, [op |-> "load", b |-> nextB, cat |-> rcat'])

MCNext == MCRegister \/ MCPlaceAll \/ MCStoreNames \/ MCStoreBatch \/ MCOpen \/ MCLoad
MCSpec == MCInit /\ [][MCNext]_mcvars

Terminal == phase = "read" /\ NLoad = 2 * Len(arch.names)
Emit == Terminal => PrintT(<<"REPLAY", ToJson([pack |-> Pack, pl |-> PL, ops |-> h])>>)
\* the canonical encoder is always an admissible choice: no reachable state is stuck before Terminal
Progress == Terminal \/ ENABLED MCNext
==========================================================================
