---------------------------- MODULE Trace_Fasta ----------------------------
(* Trace validation for Fasta.tla (property C16).  One case is one real `create` followed   *)
(* by listing and extracting every listed sample, recorded by `rvh replay-fasta` /          *)
(* `rvh trace-fasta`:                                                                       *)
(*   [ev |-> "start", id, via, ...]                                                         *)
(*   [ev |-> "file", bytes]            one per input file, in command-line order            *)
(*   [ev |-> "outcome", kind, samples] kind "error" | "archive" | "unreadable";             *)
(*                                     samples = <<[name, status, records = <<[name, seq]>>]>> *)
(* TLC computes the expected records from the RAW BYTES of the files (RecordsOf, Normalise: *)
(* the contract layer), runs the design automaton on them as well (ReadText) and evaluates  *)
(* the parts of Contract on the recorded outcome.  The verdict is kept in a variable so     *)
(* that a rejected case is reported as the violated part of the property.                   *)
(* Report = FALSE: the parts of the property are INVARIANTS (a violated one stops the run).   *)
(* Report = TRUE : one pass over all cases; every violated part of every case is printed as  *)
(*                 <<"REJECT", index of the outcome event, name of the part>>; a case whose   *)
(*                 input is outside the property's quantifier is reported as "OUTDOM".        *)
EXTENDS Fasta, TLC, Json, IOUtils

CONSTANT Report

Rec == ndJsonDeserialize(IOEnv.TRACE)

VARIABLES l, expected, indom, agrees, verdict
tvars == <<vars, l, expected, indom, agrees, verdict>>

AllTrue == [readable |-> TRUE, extracts |-> TRUE, noneleft |-> TRUE, equal |-> TRUE]

IsEvent(e) == l <= Len(Rec) /\ Rec[l].ev = e /\ l' = l + 1

TStart ==
  /\ IsEvent("start")
  /\ Becomes(S0) /\ expected' = <<>> /\ indom' = TRUE /\ agrees' = TRUE /\ verdict' = AllTrue

TFile ==
  /\ IsEvent("file")
  /\ LET b == Rec[l].bytes
         E == RecordsOf(b)
         T == ReadText(b)
     IN  /\ Becomes(T)
         /\ expected' = expected \o E
         /\ indom' = (indom /\ InDomain(b))
         /\ agrees' = (agrees /\ Extracted(T.records) = E /\ T.orphan = Orphan(b))
         /\ (Report /\ ~(Extracted(T.records) = E /\ T.orphan = Orphan(b))) => PrintT(<<"SPECBUG", l, "DesignAgrees">>)
  /\ verdict' = AllTrue

TOutcome ==
  /\ IsEvent("outcome")
  /\ LET o == Rec[l]
         v == IF ~indom \/ o.kind = "error" THEN AllTrue
              ELSE IF o.kind # "archive" THEN [AllTrue EXCEPT !.readable = FALSE]
              ELSE [readable |-> TRUE,
                    extracts |-> ListedSamplesExtract(o),
                    noneleft |-> NoRecordLeftOut(expected, o),
                    equal    |-> ExtractionEqualsInput(expected, o)]
     IN  /\ verdict' = v
         /\ (Report /\ ~indom) => PrintT(<<"OUTDOM", l, o.kind>>)        \* nothing is demanded for this input
         /\ (Report /\ ~v.readable) => PrintT(<<"REJECT", l, "ArchiveReadable">>)
         /\ (Report /\ ~v.extracts) => PrintT(<<"REJECT", l, "EverySampleExtracts">>)
         /\ (Report /\ ~v.noneleft) => PrintT(<<"REJECT", l, "NoRecordIsLeftOut">>)
         /\ (Report /\ ~v.equal)    => PrintT(<<"REJECT", l, "ExtractionIsTheInput">>)
  /\ UNCHANGED <<vars, expected, indom, agrees>>

TNext == TStart \/ TFile \/ TOutcome
TInit == Init /\ l = 1 /\ expected = <<>> /\ indom = TRUE /\ agrees = TRUE /\ verdict = AllTrue
TSpec == TInit /\ [][TNext]_tvars

\* the parts of the property (a violated one names the reason of the rejection)
ArchiveReadable       == verdict.readable
EverySampleExtracts   == verdict.extracts
NoRecordIsLeftOut     == verdict.noneleft
ExtractionIsTheInput  == verdict.equal
\* not a verdict on the code: the design automaton and the declarative RecordsOf agree on this text
DesignAgrees          == agrees

Accepted ==
  LET d == TLCGet("stats").diameter IN
  IF d - 1 = Len(Rec) THEN TRUE ELSE PrintT(<<"UNMATCHED", d>>) /\ FALSE
============================================================================
