SPECIFICATION SeqSpec
CONSTANTS
  p1 = p1  p2 = p2  c1 = c1  c2 = c2  c3 = c3
  Producers = {p1}
  Consumers = {c1}
  MaxCost = 3
  SeqCap = 3
  Items <- ItemsB
  MarkNotifies = TRUE
  PopNotifiesFull = TRUE
  SeqDepth = 5
  SeqProd = 2
  Prios = {1, 2}
  Costs = {0, 1, 3}
INVARIANTS SeqInv SeqReplay
CHECK_DEADLOCK FALSE
