------------------------------ MODULE Profiles ------------------------------
(* C18: behaviour independent of integer-overflow checking (build profile).        *)
(*                                                                                  *)
(* Part 1 - the two integer semantics.  One program (any sequence of additions and  *)
(* subtractions on an unsigned register of width W) is executed by two machines:    *)
(*   rel : the optimised build   - every operation wraps modulo W                    *)
(*   chk : the checked build     - a PLAIN operation (`+ - += -=`) whose mathematical *)
(*         result leaves 0..W-1 stops the machine with an arithmetic panic; an       *)
(*         EXPLICIT operation (wrapping_add / wrapping_sub) wraps in both            *)
(* The invariants state why running the real code in the checked build is a monitor  *)
(* of the range invariants and why a panic-free checked run fixes the optimised one: *)
(*   Monitor   : chk panicked  <=>  some plain operation left the range              *)
(*   Agreement : chk did not panic => both machines hold the same value              *)
(*   NoRelianceOnWrap : no plain operation left the range and no explicit one was    *)
(*               used => the value is the mathematical one                           *)
(*                                                                                  *)
(* Part 2 - the arithmetic sites of ragc that the other specifications abstract,     *)
(* as operators with their range conditions (used by MC_Profiles on small domains    *)
(* and by Trace_Profiles on the numbers of real executions):                         *)
(*   footer offset      ragc-common/src/archive.rs  deserialize()  file_size-8-footer *)
(*   overlap            ragc-core/src/decompressor.rs 271, 342     raw_length - k     *)
(*   sync-token priority agc_compressor.rs push()  (Pipeline.tla: PriorityInRange)    *)
EXTENDS Naturals, Integers, Sequences, FiniteSets

CONSTANTS W,          \* register modulus (MC: small)
          MaxSteps,   \* MC: program length
          Operands,   \* MC: set of operand values
          FooterRule, \* "checked" (fix 4d3a4d1: checked_sub) | "plain" (pinned: file_size - 8 - footer_size)
          TokenRule   \* "counter" (fix 35d8b7d: token priority from the global decreasing counter)
                      \* | "boost" (pinned: new_priority + 1_000_000)

PANIC == -1
InU(x) == x >= 0 /\ x < W

VARIABLES rel, chk, math, left, explicitUsed, steps
vars == <<rel, chk, math, left, explicitUsed, steps>>

Init == /\ rel \in Operands /\ chk = rel /\ math = rel
        /\ left = FALSE /\ explicitUsed = FALSE /\ steps = 0

Apply(op, x, c) == IF op = "add" THEN x + c ELSE x - c

Exec(op, c, kind) ==
  /\ steps < MaxSteps /\ steps' = steps + 1
  /\ math' = Apply(op, math, c)
  /\ rel' = Apply(op, rel, c) % W
  /\ chk' = IF chk = PANIC THEN PANIC
            ELSE IF kind = "plain" /\ ~InU(Apply(op, chk, c)) THEN PANIC
            ELSE Apply(op, chk, c) % W
  \* the range invariant of this operation, evaluated on the optimised machine's operand
  /\ left' = (left \/ (chk # PANIC /\ kind = "plain" /\ ~InU(Apply(op, rel, c))))
  /\ explicitUsed' = (explicitUsed \/ kind = "explicit")

Next == \E op \in {"add", "sub"}, c \in Operands, kind \in {"plain", "explicit"} : Exec(op, c, kind)
Spec == Init /\ [][Next]_vars

Monitor == (chk = PANIC) <=> left
Agreement == chk # PANIC => rel = chk
NoRelianceOnWrap == (~left /\ ~explicitUsed) => (rel = math /\ chk = math)

-----------------------------------------------------------------------------
\* ---- Part 2: arithmetic sites ---------------------------------------------------
\* Archive::deserialize (archive.rs 369-390): n = file size, f = the little-endian u64 in the last 8 bytes.
\* Result: "err" | <<"seek", offset>>; `inRange` = every plain subtraction evaluated stayed in range.
FooterStart(rule, n, f) ==
  IF n < 8 THEN [out |-> "err", inRange |-> TRUE]                 \* seek(End(-8)) fails before any arithmetic
  ELSE IF rule = "checked"
       THEN IF f > n - 8 THEN [out |-> "err", inRange |-> TRUE]    \* checked_sub(8).and_then(checked_sub(f)) = None
            ELSE [out |-> <<"seek", n - 8 - f>>, inRange |-> TRUE]
       ELSE [out |-> <<"seek", (n - 8 - f) % W>>, inRange |-> n - 8 - f >= 0]
FooterInRange(rule, n, f) == FooterStart(rule, n, f).inRange
\* (the two result shapes cannot be compared with = by TLC: the error case as a predicate of its own)
FooterIsErr(rule, n, f) == n < 8 \/ (rule = "checked" /\ f > n - 8)

\* Decompressor::get_contig_length / get_contig_range (decompressor.rs 265-273, 340-346)
RECURSIVE SumOverlap(_, _, _)
SumOverlap(raws, k, j) == IF j > Len(raws) THEN 0 ELSE (IF j = 1 THEN raws[1] ELSE raws[j] - k) + SumOverlap(raws, k, j + 1)
ContigLen(raws, k) == SumOverlap(raws, k, 1)
OverlapInRange(raws, k) == \A j \in 2..Len(raws) : raws[j] >= k

\* priorities of queued items are i32; real values: contigs count down from i32::MAX, flush/final tokens 1_000_000
MaxP == 2147483647
LowP == 1000000
PrioInRange(p) == p >= LowP /\ p <= MaxP
\* MC works on the distance d = i32::MAX - priority (TLC integers are 32 bit): in range <=> 0 <= d <= MaxP - LowP.
\* Distance of the pack-boundary tokens when the current contig priority has distance d and the global
\* counter has distance nextD: the pinned rule computes (p - 1) + 1_000_000.
PrioDistInRange(d) == d >= 0 /\ d <= MaxP - LowP
TokenDist(rule, nextD, d) == IF rule = "counter" THEN nextD ELSE (d + 1) - 1000000

\* ---- MC: the sites on small domains (constant-level, checked as invariants) -----
FooterSafe(maxFile, fields) == \A n \in 0..maxFile : \A f \in fields : FooterInRange(FooterRule, n, f)
TokenSafe == \A d \in 0..5 : PrioDistInRange(TokenDist(TokenRule, d + 1, d))
=============================================================================
