SPECIFICATION MCSpec
CONSTANTS K = 3
          MaxLen = 6
          Alphabet = {0,1,2,3,4}
INVARIANTS Refinement CanonicalLaws RestartLaw Emit
CHECK_DEADLOCK FALSE
