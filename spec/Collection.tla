------------------------------ MODULE Collection ------------------------------
(* The sample / contig catalogue of an AGC v3 archive and its life cycle          *)
(* (ragc-common/src/collection.rs, CollectionV3; agc_compressor.rs finalize        *)
(* :2066-2076; decompressor.rs :166-208, :1126-1155).                              *)
(*                                                                                 *)
(*   writer:  Register(sample, contig)*  Place(sample, contig, rows)*              *)
(*            StoreSampleNames  StoreBatch(0) StoreBatch(1) ...   (Pack samples each)*)
(*   reader:  OpenRead  ( LoadBatch(0) LoadBatch(1) ... LoadBatch(n-1) )*          *)
(*                                                                                 *)
(* cat    the catalogue as added: sequence of samples in order of FIRST            *)
(*        registration, each with its contigs (name = whole header line, a byte    *)
(*        string) in registration order, each with its descriptor rows.            *)
(* arch   what the archive holds (ZSTD and the container are the identity here:    *)
(*        C12 / C13 decide those): the sample-names part, and per batch the        *)
(*        contig-names part and the five descriptor streams, as BYTES.             *)
(* rcat   the reader's catalogue; cursor = `samples_loaded`, the index of the      *)
(*        first sample of the next batch; nextB = batch the reader loads next.     *)
(*                                                                                 *)
(* The encoder is not prescribed: StoreBatch accepts ANY bytes that the format     *)
(* decoder (CollectionOps) maps back to the batch's slice of the catalogue.  The   *)
(* canonical C++-AGC encoder (the CollectionOps Enc.. operators) is one such choice: that is    *)
(* the codec law checked by MC_CollNames / MC_CollDesc / MC_Collection.            *)
EXTENDS Naturals, Integers, Sequences, FiniteSets, CollectionOps

CONSTANTS Pack,      \* samples per metadata batch (format: 50)
          RunCap     \* longest run marker the canonical encoder emits (format: 100)

VARIABLES cat, predLen, arch, rcat, cursor, nextB, phase
vars == <<cat, predLen, arch, rcat, cursor, nextB, phase>>

EmptyArch == [samples |-> <<>>, names |-> <<>>, det |-> <<>>]

Init == /\ cat = <<>> /\ arch = EmptyArch /\ rcat = <<>> /\ cursor = 0 /\ nextB = 0
        /\ phase = "write"
        /\ predLen \in Nat          \* segment_size + k (set_config); MC / traces fix it

\* ---------------------------------------------------------------- projections
SampleIdx(c, sn) == LET S == {i \in 1..Len(c) : c[i].name = sn} IN IF S = {} THEN 0 ELSE CHOOSE i \in S : TRUE
ContigIdx(s, cn) == LET S == {j \in 1..Len(s.contigs) : s.contigs[j].name = cn} IN IF S = {} THEN 0 ELSE CHOOSE j \in S : TRUE
SampleNames(c) == [i \in 1..Len(c) |-> c[i].name]
ContigNames(s) == [j \in 1..Len(s.contigs) |-> s.contigs[j].name]
NameLists(c)   == [i \in 1..Len(c) |-> ContigNames(c[i])]
Table(c)       == [i \in 1..Len(c) |-> [j \in 1..Len(c[i].contigs) |-> c[i].contigs[j].segs]]
Slice(c, from, to) == SubSeq(c, from + 1, to)              \* samples with 0-based index in [from, to)
NoBatches(c)   == (Len(c) + Pack - 1) \div Pack
BatchFrom(b)   == Pack * b
BatchTo(c, b)  == IF Pack * (b + 1) < Len(c) THEN Pack * (b + 1) ELSE Len(c)

\* ---------------------------------------------------------------- writer
\* register_sample_contig :351-383.  A sample is created at its first registration and keeps
\* that position; a contig name is appended to its sample unless the sample already has it.
Register(sn, cn) ==
  /\ phase = "write" /\ sn # <<>>
  /\ LET si == SampleIdx(cat, sn) IN
       IF si = 0 THEN cat' = Append(cat, [name |-> sn, contigs |-> <<[name |-> cn, segs |-> <<>>]>>])
       ELSE IF ContigIdx(cat[si], cn) # 0 THEN cat' = cat
       ELSE cat' = [cat EXCEPT ![si].contigs = Append(@, [name |-> cn, segs |-> <<>>])]
  /\ UNCHANGED <<predLen, arch, rcat, cursor, nextB, phase>>
Registered(sn, cn) == LET si == SampleIdx(cat, sn) IN si # 0 /\ ContigIdx(cat[si], cn) # 0

\* add_segment_placed :386-428, all places 0..n-1 of one contig (in any order): the contig's
\* table becomes `rows` (rows[p+1] is the descriptor placed at p).
Place(sn, cn, rows) ==
  /\ phase = "write" /\ Registered(sn, cn)
  /\ LET si == SampleIdx(cat, sn)  ci == ContigIdx(cat[si], cn) IN
       cat' = [cat EXCEPT ![si].contigs[ci].segs = rows]
  /\ UNCHANGED <<predLen, arch, rcat, cursor, nextB, phase>>

\* store_batch_sample_names :1047-1059
StoreSampleNames(bytes) ==
  /\ phase = "write" /\ cat # <<>>
  /\ DecSampleNames(bytes) = SampleNames(cat)
  /\ arch' = [arch EXCEPT !.samples = bytes]
  /\ phase' = "store"
  /\ UNCHANGED <<cat, predLen, rcat, cursor, nextB>>

\* store_contig_batch :1165-1214 for the next batch [Pack*b, min(Pack*(b+1), n)), b = #batches stored
StoreBatch(nameBytes, detStreams) ==
  /\ phase = "store"
  /\ LET b == Len(arch.names)  sl == Slice(cat, BatchFrom(b), BatchTo(cat, b)) IN
       /\ b < NoBatches(cat)
       /\ DecNamesBuf(nameBytes) = NameLists(sl)
       /\ DecDetails(detStreams, predLen) = Table(sl)
  /\ arch' = [arch EXCEPT !.names = Append(@, nameBytes), !.det = Append(@, detStreams)]
  /\ UNCHANGED <<cat, predLen, rcat, cursor, nextB, phase>>

\* the canonical encoder's choice
CanonNames(b) == EncNamesBuf(NameLists(Slice(cat, BatchFrom(b), BatchTo(cat, b))), RunCap)
CanonDet(b)   == EncDetails(Table(Slice(cat, BatchFrom(b), BatchTo(cat, b))), predLen)
StoreSampleNamesCanon == StoreSampleNames(EncSampleNames(SampleNames(cat)))
StoreBatchCanon == LET b == Len(arch.names) IN StoreBatch(CanonNames(b), CanonDet(b))

\* ---------------------------------------------------------------- reader
\* Decompressor::open -> load_batch_sample_names :1062-1084 (contigs are loaded lazily)
OpenRead ==
  /\ phase = "store" /\ Len(arch.names) = NoBatches(cat)
  /\ rcat' = LET ns == DecSampleNames(arch.samples) IN [i \in 1..Len(ns) |-> [name |-> ns[i], contigs |-> <<>>]]
  /\ cursor' = 0 /\ nextB' = 0 /\ phase' = "read"
  /\ UNCHANGED <<cat, predLen, arch>>

\* the reader's catalogue after decoding batch b into positions base+1 .. base+n
Zip(names, tab) == [j \in 1..Len(names) |-> [name |-> names[j], segs |-> IF j <= Len(tab) THEN tab[j] ELSE <<BADROW>>]]
Loaded(rc, base, b) ==
  LET dn == DecNamesBuf(arch.names[b + 1])
      dd == DecDetails(arch.det[b + 1], predLen) IN
  [i \in 1..Len(rc) |->
     IF base < i /\ i <= base + Len(dn)
     THEN [name |-> rc[i].name,
           contigs |-> Zip(dn[i - base], IF i - base <= Len(dd) THEN dd[i - base] ELSE <<>>)]
     ELSE rc[i]]
BatchSamples(b) == Len(DecNamesBuf(arch.names[b + 1]))

\* load_contig_batch :1088-1161.  Batches are loaded in order 0..n-1 (every Decompressor
\* entry point does so), possibly again and again; batch 0 restarts the cursor.
LoadBatch(b) ==
  /\ phase = "read" /\ b = nextB /\ b < Len(arch.names)
  /\ LET base == IF b = 0 THEN 0 ELSE cursor IN
       /\ base + BatchSamples(b) <= Len(rcat)
       /\ rcat' = Loaded(rcat, base, b)
       /\ cursor' = base + BatchSamples(b)
  /\ nextB' = IF b + 1 = Len(arch.names) THEN 0 ELSE b + 1
  /\ UNCHANGED <<cat, predLen, arch, phase>>

\* result of loading all batches in order (what list_contigs / get_all_segments do first)
RECURSIVE LoadFrom(_, _, _)
LoadFrom(rc, cur, b) ==
  IF b >= Len(arch.names) THEN rc
  ELSE LoadFrom(Loaded(rc, cur, b), cur + BatchSamples(b), b + 1)
LoadAllFrom(rc) == LoadFrom(rc, 0, 0)

\* a whole pass as one step (the composition of LoadBatch(0) .. LoadBatch(n-1))
RECURSIVE CursorFrom(_, _)
CursorFrom(cur, b) == IF b >= Len(arch.names) THEN cur ELSE CursorFrom(cur + BatchSamples(b), b + 1)
LoadPass ==
  /\ phase = "read" /\ nextB = 0
  /\ rcat' = LoadAllFrom(rcat) /\ cursor' = CursorFrom(0, 0) /\ nextB' = 0
  /\ UNCHANGED <<cat, predLen, arch, phase>>

\* ---------------------------------------------------------------- observations
ListSamples(rc)      == SampleNames(rc)                                  \* list_samples
ListContigs(rc, sn)  == ContigNames(rc[SampleIdx(rc, sn)])               \* list_contigs
AllSegments(rc)      == Table(rc)                                        \* get_all_segments

\* ---------------------------------------------------------------- C03
\* samples: exactly those added, in order of first registration (as soon as the archive is open)
SamplesPreserved == phase = "read" => ListSamples(rcat) = SampleNames(cat)
\* while a pass is under way, everything below the cursor is the catalogue as added;
\* after a full pass (nextB wrapped to 0 with cursor > 0) the whole catalogue is
CataloguePreserved ==
  phase = "read" =>
    /\ cursor <= Len(cat)
    /\ (nextB # 0 => cursor = BatchTo(cat, nextB - 1))
    /\ \A i \in 1..cursor : rcat[i] = cat[i]
    /\ (cursor > 0 /\ nextB = 0) => rcat = cat
\* from every reader state a full pass yields the catalogue (lazy loading is idempotent)
PassPreserved == (phase = "read" /\ nextB = 0) => LoadAllFrom(rcat) = cat
\* writer side: sample order is first-registration order, no duplicates
WriterShape ==
  /\ \A i, j \in 1..Len(cat) : cat[i].name = cat[j].name => i = j
  /\ \A i \in 1..Len(cat) : \A j, k \in 1..Len(cat[i].contigs) :
        cat[i].contigs[j].name = cat[i].contigs[k].name => j = k
\* The codec laws CollectionOps!NameLaw / DescLaw (decoder inverts the canonical encoder, both
\* sides keep the same predictor / previous-name state) are checked exhaustively by
\* MC_CollNames / MC_CollDesc; they are what makes StoreBatchCanon enabled in every state.
=============================================================================
