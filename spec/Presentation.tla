---------------------------- MODULE Presentation ----------------------------
(* C19 - extraction is invariant under how the input is presented.                         *)
(*                                                                                         *)
(* The ABSTRACT input of `ragc create` is a list of records                                *)
(*     [sample |-> bytes, header |-> bytes, seq |-> codes 0..15]                           *)
(* (all records of one sample adjacent, samples in archive order).  A PRESENTATION of it   *)
(* is a list of files; it is obtained by a chain of refinements                            *)
(*     records --Groups-->  one record group per file        (per-sample files | one file) *)
(*             --Lines--->  text lines   (">"+header, sequence wrapped at width w, case)   *)
(*             --Bytes--->  byte string  (LF | CR LF after every line, final EOL optional) *)
(*             --Pack---->  container    (plain | gzip members cut at arbitrary offsets)   *)
(* and `Abstract` is what the reader of ragc does with a list of files (genome_io.rs,      *)
(* contig_iterator.rs MultiFileIterator): gzip chosen by the `.gz` extension, all members  *)
(* concatenated, text split at LF, a line starting with '>' opens a record whose header is *)
(* the trimmed rest, every other line contributes its bytes in 65..127 through the letter  *)
(* table (case folded; bytes <= 64 - CR, blanks - dropped); the sample of a record is       *)
(* `sample#hap` of a PanSN header, else the file stem minus .fa/.fasta[.gz].                *)
(*                                                                                         *)
(* Laws (checked by MC_Presentation for all bounded records x options):                    *)
(*   Law          Abstract(Present(r, o)) = r                                              *)
(*   FeedLaw      what the compressor is fed PER FILE (CreateInput) is the same for two    *)
(*                presentations of the same SameBytesClass  => byte-identical archives,    *)
(*                because create is a function of (parameters, per-file push sequences)    *)
(*   ContentLaw   the concatenation over the files is r for every presentation (per-sample *)
(*                files or one PanSN file): same sample list, identical contigs.           *)
(* gzip itself (deflate, CRC) is not modelled: a member is its payload.                    *)
EXTENDS Naturals, Sequences, FiniteSets, SequencesExt

LF == 10   CR == 13   GT == 62   HASH == 35   DOT == 46
WS == {9, 10, 11, 12, 13, 32}
EXT_GZ    == <<46, 103, 122>>                   \* ".gz"
EXT_FA    == <<46, 102, 97>>                    \* ".fa"
EXT_FASTA == <<46, 102, 97, 115, 116, 97>>      \* ".fasta"

\* ---- symbols ------------------------------------------------------------------------------
Code2Char == <<65, 67, 71, 84, 78, 82, 89, 83, 87, 75, 77, 66, 68, 72, 86, 85>>   \* ACGTNRYSWKMBDHVU
LowerB(b) == IF b \in 65..90 THEN b + 32 ELSE b
UpperB(b) == IF b \in 97..122 THEN b - 32 ELSE b
\* genome_io.rs CNV_NUM for the bytes the reader keeps (65..127)
Cnv(b) == IF b = 96 THEN 32
          ELSE LET u == UpperB(b) IN
               IF \E i \in 1..16 : Code2Char[i] = u THEN (CHOOSE i \in 1..16 : Code2Char[i] = u) - 1 ELSE 30
Kept(b) == b > 64 /\ b < 128
CodesOf(line) == LET k == SelectSeq(line, Kept) IN [i \in 1..Len(k) |-> Cnv(k[i])]

Concat(ss) == FlattenSeq(ss)
MinN(a, b) == IF a <= b THEN a ELSE b

\* ---- the sample-naming rule ---------------------------------------------------------------
\* fields of s separated by byte d
SplitOn(s, d) ==
  LET r == FoldLeft(LAMBDA p, b : IF b = d THEN <<Append(p[1], p[2]), <<>>>> ELSE <<p[1], Append(p[2], b)>>,
                    <<<<>>, <<>>>>, s)
  IN  Append(r[1], r[2])
IsPanSN(h)     == Len(SplitOn(h, HASH)) >= 3
PanSNSample(h) == LET f == SplitOn(h, HASH) IN f[1] \o <<HASH>> \o f[2]
HasSuffix(s, x)  == Len(s) >= Len(x) /\ SubSeq(s, Len(s) - Len(x) + 1, Len(s)) = x
DropSuffix(s, x) == IF HasSuffix(s, x) THEN SubSeq(s, 1, Len(s) - Len(x)) ELSE s
IsGzName(n) == HasSuffix(n, EXT_GZ)
\* file stem minus .fa / .fasta [.gz]
Stem(n) == LET a == DropSuffix(n, EXT_GZ) IN
           IF HasSuffix(a, EXT_FASTA) THEN DropSuffix(a, EXT_FASTA) ELSE DropSuffix(a, EXT_FA)
SampleOf(header, fname) == IF IsPanSN(header) THEN PanSNSample(header) ELSE Stem(fname)

\* ---- options ------------------------------------------------------------------------------
\* o = [layout    : "per_sample" | "single",
\*      fname     : "sample" | "other"      file names carry the sample name | arbitrary names (PanSN headers only)
\*      stemext   : EXT_FA | EXT_FASTA
\*      width     : 0 (one line) | 1..100000
\*      crlf      : BOOLEAN
\*      case      : "upper" | "lower" | "mixed",  phase : 0 | 1   (mixed: position i is lower iff (i + phase) even)
\*      finalnl   : BOOLEAN                 the last line of every file is terminated
\*      container : "plain" | "gz",  cuts : non-decreasing byte offsets (clamped to the text length):
\*                  gz with n cuts = n + 1 members, an empty piece is an empty member]
Layouts == {"per_sample", "single"}
Cases   == {"upper", "lower", "mixed"}

\* ---- records -> groups -> lines -> bytes -> container ------------------------------------------
\* maximal runs of records of one sample
Groups(recs) ==
  FoldLeft(LAMBDA gs, r : IF gs # <<>> /\ Last(gs)[1].sample = r.sample
                          THEN Append(Front(gs), Append(Last(gs), r)) ELSE Append(gs, <<r>>),
           <<>>, recs)
SampleList(recs) == LET gs == Groups(recs) IN [i \in 1..Len(gs) |-> gs[i][1].sample]

CharOf(code, o, pos) ==
  LET u == Code2Char[code + 1] IN
  CASE o.case = "upper" -> u
    [] o.case = "lower" -> LowerB(u)
    [] OTHER            -> IF (pos + o.phase) % 2 = 0 THEN LowerB(u) ELSE u
SeqChars(r, o) == [i \in 1..Len(r.seq) |-> CharOf(r.seq[i], o, i)]
Chunks(s, w) ==
  IF w = 0 \/ Len(s) <= w THEN <<s>>
  ELSE [j \in 1..((Len(s) + w - 1) \div w) |-> SubSeq(s, (j - 1) * w + 1, MinN(j * w, Len(s)))]
RecLines(r, o)    == <<<<GT>> \o r.header>> \o Chunks(SeqChars(r, o), o.width)
GroupLines(g, o)  == Concat([i \in 1..Len(g) |-> RecLines(g[i], o)])
Eol(o)            == IF o.crlf THEN <<CR, LF>> ELSE <<LF>>
LinesToBytes(ls, o) ==
  Concat([i \in 1..Len(ls) |-> IF i = Len(ls) /\ ~o.finalnl THEN ls[i] ELSE ls[i] \o Eol(o)])
\* members of a text cut at the offsets c (non-decreasing)
Cut(t, c) ==
  LET b == <<0>> \o [i \in 1..Len(c) |-> MinN(c[i], Len(t))] \o <<Len(t)>>
  IN  [j \in 1..(Len(b) - 1) |-> SubSeq(t, b[j] + 1, b[j + 1])]
RECURSIVE Dec(_)
Dec(i) == IF i < 10 THEN <<48 + i>> ELSE Dec(i \div 10) \o <<48 + (i % 10)>>     \* decimal digits
FileName(g, i, o) ==
  (IF o.fname = "sample" /\ o.layout = "per_sample" THEN g[1].sample
   ELSE IF o.fname = "sample" THEN <<112, 97, 110, 115, 110>>      \* "pansn"
   ELSE <<102>> \o Dec(i))                                           \* "f<i>"
  \o o.stemext \o (IF o.container = "gz" THEN EXT_GZ ELSE <<>>)
FileGroups(recs, o) == IF o.layout = "single" THEN <<recs>> ELSE Groups(recs)
FileText(g, o) == LinesToBytes(GroupLines(g, o), o)
Pack(text, o)  == IF o.container = "gz" THEN Cut(text, o.cuts) ELSE <<text>>
Present(recs, o) ==
  LET gs == FileGroups(recs, o) IN
  [i \in 1..Len(gs) |-> [name |-> FileName(gs[i], i, o), gz |-> o.container = "gz",
                         members |-> Pack(FileText(gs[i], o), o)]]

\* ---- the reader ---------------------------------------------------------------------------
\* gunzip of all members, concatenated (MultiGzDecoder); gzip is chosen by the name alone
FormatOk(f) == IsGzName(f.name) = f.gz
TextOf(f)   == Concat(f.members)
\* BufRead::read_until(LF): lines without their LF; an unterminated last line counts
SplitLines(t) ==
  LET r == FoldLeft(LAMBDA p, b : IF b = LF THEN <<Append(p[1], p[2]), <<>>>> ELSE <<p[1], Append(p[2], b)>>,
                    <<<<>>, <<>>>>, t)
  IN  IF r[2] = <<>> THEN r[1] ELSE Append(r[1], r[2])
\* header text: all leading '>' dropped, then white space trimmed at both ends
DropGT(s)  == IF s = <<>> \/ s[1] # GT THEN s
              ELSE LET k == CHOOSE j \in 1..(Len(s) + 1) : (\A i \in 1..(j - 1) : s[i] = GT) /\ (j = Len(s) + 1 \/ s[j] # GT)
                   IN  SubSeq(s, k, Len(s))
TrimWs(s)  == LET idx == {i \in 1..Len(s) : s[i] \notin WS} IN
              IF idx = {} THEN <<>>
              ELSE SubSeq(s, CHOOSE i \in idx : \A j \in idx : i <= j, CHOOSE i \in idx : \A j \in idx : j <= i)
HeaderOf(line) == TrimWs(DropGT(line))
IsHeaderLine(line) == line # <<>> /\ line[1] = GT
Blank(line) == \A i \in 1..Len(line) : line[i] \in WS

\* line-level reader: state [out, has, hdr, seq, raw, err]; one step per line, Flush at a header / EOF
RInit == [out |-> <<>>, has |-> FALSE, hdr |-> <<>>, seq |-> <<>>, err |-> FALSE]
Flush(st) == IF st.has /\ st.hdr # <<>> /\ st.seq # <<>> THEN Append(st.out, [header |-> st.hdr, seq |-> st.seq]) ELSE st.out
RLine(st, line) ==
  IF IsHeaderLine(line) THEN [out |-> Flush(st), has |-> TRUE, hdr |-> HeaderOf(line), seq |-> <<>>, err |-> st.err]
  ELSE IF st.has /\ st.hdr # <<>> THEN [st EXCEPT !.seq = st.seq \o CodesOf(line)]
  ELSE IF Blank(line) THEN st                      \* blank lines where a header is expected are skipped
  ELSE [st EXCEPT !.err = TRUE]                    \* sequence data without a header line: an error
REof(st) == [st EXCEPT !.out = Flush(st), !.has = FALSE]
ReadLines(ls) == REof(FoldLeft(RLine, RInit, ls))

\* what one file feeds to the compressor: (sample, header, codes) in order
AbstractFile(f) ==
  LET rs == ReadLines(SplitLines(TextOf(f))).out IN
  [i \in 1..Len(rs) |-> [sample |-> SampleOf(rs[i].header, f.name), header |-> rs[i].header, seq |-> rs[i].seq]]
ReadOk(f)          == FormatOk(f) /\ ~ReadLines(SplitLines(TextOf(f))).err
CreateInput(files) == [i \in 1..Len(files) |-> AbstractFile(files[i])]
Abstract(files)    == Concat(CreateInput(files))

\* ---- well-formed (records, options) -----------------------------------------------------------
CleanHeader(h) == /\ h # <<>> /\ h[1] # GT /\ TrimWs(h) = h
                  /\ \A i \in 1..Len(h) : h[i] # LF /\ h[i] # CR
NameSafe(s) == /\ s # <<>> /\ ~HasSuffix(s, EXT_FA) /\ ~HasSuffix(s, EXT_FASTA) /\ ~HasSuffix(s, EXT_GZ)
               /\ \A i \in 1..Len(s) : s[i] # 47 /\ s[i] # 0
WFRecords(recs) ==
  /\ recs # <<>>
  /\ \A i \in 1..Len(recs) :
       /\ CleanHeader(recs[i].header) /\ recs[i].seq # <<>>
       /\ \A j \in 1..Len(recs[i].seq) : recs[i].seq[j] \in 0..15
       /\ IsPanSN(recs[i].header) => recs[i].sample = PanSNSample(recs[i].header)
       /\ NameSafe(recs[i].sample)
  /\ LET sl == SampleList(recs) IN \A i, j \in 1..Len(sl) : sl[i] = sl[j] => i = j      \* samples sorted (no revisit)
AllPanSN(recs) == \A i \in 1..Len(recs) : IsPanSN(recs[i].header)
Sorted(c) == \A i \in 1..(Len(c) - 1) : c[i] <= c[i + 1]
WFOpts(recs, o) ==
  /\ o.layout \in Layouts /\ o.case \in Cases /\ o.phase \in {0, 1} /\ o.width \in Nat
  /\ o.stemext \in {EXT_FA, EXT_FASTA} /\ o.fname \in {"sample", "other"} /\ o.container \in {"plain", "gz"}
  /\ Sorted(o.cuts) /\ (o.container = "plain" => o.cuts = <<>>)
  /\ (o.layout = "single" \/ o.fname = "other") => AllPanSN(recs)   \* the file name says nothing: the headers must
WF(recs, o) == WFRecords(recs) /\ WFOpts(recs, o)

\* ---- equivalence classes of presentations ---------------------------------------------------------
\* differ only in compression (container, cuts, the .gz suffix), wrapping, line ends (CR LF, final EOL), case
BytesKey(o) == <<o.layout, o.fname, o.stemext>>
SameBytesClass(o1, o2)   == BytesKey(o1) = BytesKey(o2)
\* additionally per-sample files vs one PanSN file, and the (irrelevant) file names
SameContentClass(o1, o2) == TRUE
Canon(o) == [o EXCEPT !.width = 0, !.crlf = FALSE, !.case = "upper", !.phase = 0, !.finalnl = TRUE,
                      !.container = "plain", !.cuts = <<>>]

Law(recs, o)        == LET p == Present(recs, o) IN (\A i \in 1..Len(p) : ReadOk(p[i])) /\ Abstract(p) = recs
FeedLaw(recs, o)    == CreateInput(Present(recs, o)) = CreateInput(Present(recs, Canon(o)))
ContentLaw(recs, o) == /\ Abstract(Present(recs, o)) = recs
                       /\ SampleList(Abstract(Present(recs, o))) = SampleList(recs)

\* the letter table inverts the symbol table in both cases (16 codes)
ASSUME \A c \in 0..15 : Cnv(Code2Char[c + 1]) = c /\ Cnv(LowerB(Code2Char[c + 1])) = c
=============================================================================
