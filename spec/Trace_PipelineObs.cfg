SPECIFICATION TSpec
INVARIANTS NoBad EndState
POSTCONDITION Accepted
CHECK_DEADLOCK FALSE
