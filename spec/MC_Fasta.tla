----------------------------- MODULE MC_Fasta -----------------------------
(* Bounded model of Fasta.tla + REPLAY emission.                                            *)
(* A behaviour feeds a sequence of line TOKENS (header h1, header h2 with blanks inside,    *)
(* empty header, ACGT line, line with unknown letters / lower case / IUPAC, line of digits  *)
(* and gaps, blank line) of length <= MaxLen to the reader automaton, every line terminated *)
(* by LF, CR LF or alternating (crlf = 0, 1, 2), the last one possibly unterminated         *)
(* (nofinal), then Eof.  At the end TLC checks, on the materialised BYTES:                  *)
(*   Refines              the incremental automaton = the whole-text reader = RecordsOf     *)
(*                        (declarative) and Decode(Encode) = Normalise;                     *)
(*   ReaderMeetsContract  every outcome built from what the reader stored (one sample,      *)
(*                        empty records kept / dropped, two samples) and the error outcome  *)
(*                        satisfy Contract;                                                 *)
(*   ContractRejects      the contract is not vacuous: a lost record, an altered base, a    *)
(*                        failing sample, an unreadable result are rejected.                *)
(* With Variant # "design" (negative controls) ReaderMeetsContract must FAIL.               *)
(* Emit prints the selected behaviours as JSON lines for `rvh replay-fasta`: all of length   *)
(* <= FullLen, with CONSTRAINT Thin a seeded 1/ThinMod of the extensions beyond that, and of  *)
(* those longer than FullLen + 1 a seeded 1/SampleMod; of the behaviours without any          *)
(* base-carrying record 1/BoringMod; one line-ending / final-newline combination per token   *)
(* sequence (seeded).                                                                        *)
(* The token table comes from the file named by FASTA_SETUP (written by `rvh fasta-setup`:  *)
(* the sequence tokens are pieces of the fixed reference sample) or the default below.      *)
EXTENDS Fasta, TLC, Json, IOUtils

CONSTANTS MaxLen, FullLen, SampleMod, ThinMod, BoringMod, Seed, CrlfModes

VARIABLES toks, crlf, nofinal, done, tb
mcvars == <<vars, toks, crlf, nofinal, done, tb>>

Tok(n, b) == [name |-> n, bytes |-> b]
DefaultTokens ==
  << Tok("H1", <<62, 104, 49>>),                                  \* >h1
     Tok("H2", <<62, 104, 50, 32, 100, 32, 32, 101>>),            \* >h2 d  e
     Tok("HE", <<62>>),                                           \* >
     Tok("SA", <<65, 67, 71, 84, 65, 67>>),                       \* ACGTAC
     Tok("SX", <<97, 88, 82, 110, 120, 85>>),                     \* aXRnxU
     Tok("SD", <<49, 50, 45, 42, 46>>),                           \* 12-*.
     Tok("BL", <<>>) >>
Tokens == IF "FASTA_SETUP" \in DOMAIN IOEnv THEN JsonDeserialize(IOEnv.FASTA_SETUP).tokens ELSE DefaultTokens

HasCR(i) == crlf = 1 \/ (crlf = 2 /\ i % 2 = 1)
\* the line as the reader sees it (LF removed) / the bytes of the file
LineOf(i, t, terminated) == tb[t].bytes \o (IF terminated /\ HasCR(i) THEN <<CR>> ELSE <<>>)
RawOf(i, t, terminated)  == LineOf(i, t, terminated) \o (IF terminated THEN <<LF>> ELSE <<>>)

MCInit == /\ Init /\ toks = <<>> /\ crlf \in CrlfModes /\ nofinal = FALSE /\ done = FALSE
          /\ tb = Tokens

Feed(t) ==
  /\ ~done /\ ~nofinal /\ Len(toks) < MaxLen
  /\ Line(LineOf(Len(toks) + 1, t, TRUE))
  /\ toks' = Append(toks, t) /\ UNCHANGED <<crlf, nofinal, done, tb>>

FeedUnterminated(t) ==
  /\ ~done /\ ~nofinal /\ Len(toks) < MaxLen
  /\ Line(LineOf(Len(toks) + 1, t, FALSE))
  /\ toks' = Append(toks, t) /\ nofinal' = TRUE /\ UNCHANGED <<crlf, done, tb>>

Finish == ~done /\ Eof /\ done' = TRUE /\ UNCHANGED <<toks, crlf, nofinal, tb>>

FeedLine == \E t \in 1..Len(tb) : Feed(t)
FeedLastLine == \E t \in 1..Len(tb) : FeedUnterminated(t)
MCNext == FeedLine \/ FeedLastLine \/ Finish
MCSpec == MCInit /\ [][MCNext]_mcvars

\* ---- the materialised text --------------------------------------------------------------------
Term(i) == i < Len(toks) \/ ~nofinal
RECURSIVE Cat(_)
Cat(i) == IF i > Len(toks) THEN <<>> ELSE RawOf(i, toks[i], Term(i)) \o Cat(i + 1)
Bytes == Cat(1)

\* ---- invariants -------------------------------------------------------------------------------
Sample(nm, rs) == [name |-> nm, status |-> "ok", records |-> rs]
Archive(ss) == [kind |-> "archive", samples |-> ss]
ErrorOutcome == [kind |-> "error", samples |-> <<>>]
Odd(rs)  == SelectSeq([i \in 1..Len(rs) |-> [i |-> i, r |-> rs[i]]], LAMBDA x : x.i % 2 = 1)
Even(rs) == SelectSeq([i \in 1..Len(rs) |-> [i |-> i, r |-> rs[i]]], LAMBDA x : x.i % 2 = 0)
Unwrap(xs) == [i \in 1..Len(xs) |-> xs[i].r]
IdealOutcomes(R) ==
  { Archive(<<Sample(<<115>>, R)>>),                                           \* empty records kept
    Archive(<<Sample(<<116>>, Unwrap(Even(NonEmpty(R)))), Sample(<<115>>, Unwrap(Odd(NonEmpty(R)))),
              Sample(<<117>>, <<>>)>>),                                        \* dropped; several samples
    ErrorOutcome }

\* ---- selection of the behaviours to replay ----------------------------------------------------

Hash == LET f[i \in 0..Len(toks)] == IF i = 0 THEN Seed % 9973 ELSE (f[i - 1] * 31 + toks[i] + 7) % 1000003
        IN  f[Len(toks)]
FlagIndex == crlf * 2 + (IF nofinal THEN 1 ELSE 0)
NFlags == 2 * Cardinality(CrlfModes)
FlagOrder == LET s == {c * 2 + n : c \in CrlfModes, n \in {0, 1}} IN Cardinality({x \in s : x < FlagIndex})
\* CONSTRAINT of the emission runs: beyond FullLen tokens only a seeded 1/ThinMod of the extensions is explored
\* (always kept: the same named header twice, each followed by a line with bases)
IsHdrTok(t) == IsHeaderLine(tb[t].bytes) /\ HeaderText(tb[t].bytes) # <<>>
IsSeqTok(t) == ~IsHeaderLine(tb[t].bytes) /\ HasSymbol(tb[t].bytes)
DupShape == Len(toks) = 4 /\ toks[1] = toks[3] /\ IsHdrTok(toks[1]) /\ IsSeqTok(toks[2]) /\ IsSeqTok(toks[4])
Thin == Len(toks) <= FullLen \/ DupShape \/ (Hash \div 11) % ThinMod = 0
\* behaviours without any base-carrying record say little about the property: 1/BoringMod of them
HasBases == \E i \in 1..Len(records) : records[i].seq # <<>>
Selected ==
  /\ done /\ ~orphan /\ Len(toks) >= 1
  /\ (Hash \div 7) % NFlags = FlagOrder
  /\ HasBases \/ (Hash \div 5) % BoringMod = 0
  /\ Len(toks) <= FullLen + 1 \/ Hash % SampleMod = 0

\* One evaluation of the materialised text per terminal state (LET definitions are evaluated at most
\* once); Checks selects what is evaluated: "refines", "contract", "rejects", "domain".
TableOK == \A i \in 1..Len(tb) : Decode(Encode(tb[i].bytes)) = Normalise(tb[i].bytes)

DropLast(rs) == SubSeq(rs, 1, Len(rs) - 1)
Alter(rs) == [rs EXCEPT ![1].seq[1] = IF @ = 65 THEN 67 ELSE 65]
Rejects(E) ==
  LET X == NonEmpty(E)
  IN  X # <<>> =>
        /\ ~Contract(E, Archive(<<Sample(<<115>>, DropLast(X))>>))
        /\ ~Contract(E, Archive(<<>>))
        /\ ~Contract(E, Archive(<<Sample(<<115>>, Alter(X))>>))
        /\ ~Contract(E, Archive(<<Sample(<<115>>, X), [name |-> <<116>>, status |-> "fail", records |-> <<>>]>>))
        /\ ~Contract(E, [kind |-> "unreadable", samples |-> <<>>])
        /\ ~Contract(E, Archive(<<Sample(<<115>>, X \o <<[name |-> <<122>>, seq |-> <<>>]>>)>>))
        /\ (Len(X) >= 2 /\ X[1] # X[2]) =>
              ~Contract(E, Archive(<<Sample(<<115>>, <<X[2], X[1]>> \o SubSeq(X, 3, Len(X)))>>))

\* the incremental automaton = the whole-text reader = the declarative records
RefinesAt(b, E, T) == St = T /\ orphan = Orphan(b) /\ Extracted(records) = E
\* every outcome built from what the reader stored satisfies the contract
ContractAt(E, T) == \A o \in IdealOutcomes(Extracted(T.records)) : Contract(E, o)

AtEnd(checks) ==
  LET b == Bytes
      E == RecordsOf(b)
      T == ReadText(b)
      dom == IF "domain" \in checks THEN InDomain(b) ELSE ~T.orphan
  IN  /\ "refines" \in checks => RefinesAt(b, E, T)
      /\ "domain" \in checks => (InDomain(b) <=> ~Orphan(b))          \* the tokens are inside the property's domain
      /\ dom => /\ "contract" \in checks => ContractAt(E, T)
                /\ "rejects" \in checks => Rejects(E)

Refines             == (toks = <<>> /\ ~done => TableOK) /\ (done => AtEnd({"refines"}))
ReaderMeetsContract == done => AtEnd({"contract"})
RefinesAndContract  == (toks = <<>> /\ ~done => TableOK) /\ (done => AtEnd({"refines", "contract"}))
ContractRejects     == done => AtEnd({"rejects", "domain"})
SelectedOK          == Selected => AtEnd({"refines", "contract", "domain"})

\* ---- REPLAY emission --------------------------------------------------------------------------
StepsJson ==
  [i \in 1..Len(toks) |->
     LET S == RunLines(S0, [j \in 1..i |-> LineOf(j, toks[j], j < i \/ Term(i))])
     IN  [raw |-> RawOf(i, toks[i], Term(i)), tok |-> tb[toks[i]].name, state |-> S.state,
          eof |-> Extracted(DoEof(S).records)]]

Emit ==
  Selected => PrintT(<<"REPLAY", ToJson([toks |-> [i \in 1..Len(toks) |-> tb[toks[i]].name],
                                        crlf |-> crlf, nofinal |-> nofinal, bytes |-> Bytes,
                                        steps |-> StepsJson,
                                        records |-> Extracted(records)])>>)
===========================================================================
