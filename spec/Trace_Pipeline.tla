--------------------------- MODULE Trace_Pipeline ---------------------------
(* Trace validation of real `create` runs against Pipeline.tla.                  *)
(* One TLC run per recorded execution.  Rec[1] is the header (thread count, mode, *)
(* pack cardinality, capacity, contigs in push order); every further record is    *)
(* one event recorded by the cfg(ragc_verif) hooks, ordered by the global         *)
(* sequence number (queue events: taken under the queue mutex).                   *)
(*                                                                                *)
(* Each event is matched by the corresponding action of Pipeline.tla with the     *)
(* logged arguments bound; steps of the code that have no hook (bookkeeping at    *)
(* the start of a token round, a non-zero worker passing phase 2, the claim loop, *)
(* the flush phase) are composed in as silent steps, bounded by the event they    *)
(* precede.  The invariants of Pipeline.tla are evaluated in every state.         *)
EXTENDS Pipeline, Json, IOUtils

Rec == ndJsonDeserialize(IOEnv.TRACE)
Hdr == Rec[1]
TN == Hdr.n
TContigs == Hdr.contigs
TMode == Hdr.mode
TPack == Hdr.pack
TCap == Hdr.cap
ExpectSha == IF "EXPECT_SHA" \in DOMAIN IOEnv THEN IOEnv.EXPECT_SHA ELSE ""

VARIABLE l
tvars == <<vars, l>>

Ev == Rec[l]
IsEvent(e) == l <= Len(Rec) /\ Rec[l].ev = e /\ l' = l + 1

\* producer events -------------------------------------------------------------------------
TPushToken ==
  /\ IsEvent("PushToken")
  /\ ~Done /\ Op.op = "tokens" /\ Op.why = Ev.why
  /\ PushToken
  /\ \E x \in queue' \ queue :
        /\ x.kind = "t"
        /\ IF Ev.why = "pack" THEN MaxP - x.prio = Ev.dprio ELSE (x.prio = Low /\ Ev.low)
  /\ QSize' = Ev.cur /\ Cardinality(queue') = Ev.len

TPushContig ==
  /\ IsEvent("PushContig")
  /\ ~Done /\ Op.op = "contig" /\ Op.i = Ev.i
  /\ PushContig
  /\ \E x \in queue' \ queue : x.id = Ev.i /\ MaxP - x.prio = Ev.dprio /\ x.cost = Ev.cost /\ x.seq = Ev.qseq
  /\ QSize' = Ev.cur /\ Cardinality(queue') = Ev.len

\* the producer is blocked in push(): only possible while the item does not fit and bytes are queued
TPushWait ==
  /\ IsEvent("PushWait")
  /\ ~CanAdmit(Ev.size) /\ QSize = Ev.cur /\ ~closed
  /\ UNCHANGED vars

TWait   == IsEvent("Wait") /\ ~Done /\ Op.op = "wait" /\ Op.why = Ev.why /\ WaitEmpty
TClose  == IsEvent("Close") /\ CloseQ
TJoined == IsEvent("Joined") /\ Join

\* worker events ---------------------------------------------------------------------------
TPull ==
  /\ IsEvent("Pull")
  /\ Ev.w \in Workers
  /\ Pull(Ev.w)
  /\ held'[Ev.w].kind = Ev.kind
  /\ Ev.kind = "c" => held'[Ev.w].id = Ev.i
  /\ QSize' = Ev.cur /\ Cardinality(queue') = Ev.len

TEos == IsEvent("Eos") /\ Ev.w \in Workers /\ Pull(Ev.w) /\ pcW'[Ev.w] = "exited"
TExit == IsEvent("Exit") /\ Ev.w \in Workers /\ pcW[Ev.w] = "exited" /\ UNCHANGED vars

TSegmented == IsEvent("Segmented") /\ Ev.w \in Workers /\ held[Ev.w].kind = "c" /\ held[Ev.w].id = Ev.i /\ Segment(Ev.w)

\* Stages of the code without a hook that a worker passes before calling barrier b: a non-zero
\* worker in phase 2 (nothing to do), the claim loop of phase 3, the flush phase 4. They change no
\* shared variable of the model other than the claim counter, so they are folded into the arrival.
SilentPre(w, b) == CASE b = 1 -> {} [] b = 2 -> (IF w # 0 THEN {"p2"} ELSE {}) [] b = 3 -> {"p3"} [] b = 4 -> {"p4"}
TArrive ==
  /\ IsEvent("Arrive")
  /\ Ev.w \in Workers /\ Ev.b \in 1..4
  /\ ArriveP(Ev.w, Ev.b, {BName(Ev.b)} \cup SilentPre(Ev.w, Ev.b))

\* leaving barrier b: the barrier has been released in the model (start/end observation)
TLeave ==
  /\ IsEvent("Leave")
  /\ Ev.w \in Workers
  /\ pcW[Ev.w] \notin {BName(Ev.b), WName(Ev.b)}
  /\ UNCHANGED vars

TClassify ==
  /\ IsEvent("Classify")
  /\ Ev.w = 0
  /\ Classify(0)
  /\ batches'[Len(batches')] = {Ev.batch[j] : j \in 1..Len(Ev.batch)}

TNext == TPushToken \/ TPushContig \/ TPushWait \/ TWait \/ TClose \/ TJoined
         \/ TPull \/ TEos \/ TExit \/ TSegmented \/ TArrive \/ TLeave \/ TClassify

TInit == Init /\ l = 2
TSpec == TInit /\ [][TNext]_tvars

\* ---- acceptance -----------------------------------------------------------------------------
\* complete run: every event consumed, the model has terminated, result ok, same bytes as the first run
RunOK == /\ Hdr.result = "ok"
         /\ ExpectSha = "" \/ Hdr.sha = ExpectSha

Accepted ==
  LET d == TLCGet("stats").diameter IN
  IF d = Len(Rec) THEN (IF Hdr.stalled THEN TRUE ELSE RunOK \/ (PrintT(<<"RESULT", Hdr.result, Hdr.sha>>) /\ FALSE))
  ELSE PrintT(<<"UNMATCHED", d + 1>>) /\ FALSE

\* evaluated in every state: at the end of a complete trace the model must have terminated
EndState == (l = Len(Rec) + 1 /\ ~Hdr.stalled) => Terminated
\* a stalled run: is the model stuck as well (no step enabled)?  printed, decided by the orchestrator
StuckReport == (l = Len(Rec) + 1 /\ Hdr.stalled) => PrintT(<<"STUCK", ~Terminated /\ ~ENABLED Next>>)
=============================================================================
