SPECIFICATION MCSpec
CONSTANTS Variant = "fixed"
          Family = "create"
          MaxReq = 1
          Level = 1
          Threads = {1, 4}
          WithPre = FALSE
INVARIANTS Conforms SingleLaw CompositionLaw PrefixLaw ExitTruth CreateTruth ReadOnly Emit
CHECK_DEADLOCK FALSE
