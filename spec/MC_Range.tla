------------------------------ MODULE MC_Range ------------------------------
(* Exhaustive model for Range.tla (C07).                                         *)
(* Every descriptor list with k in Ks, 1..MaxSegs segments of raw length          *)
(* k..k+Extra (a lone segment: 1..k+Extra, i.e. also contigs shorter than k), every *)
(* orientation pattern (RcMode "all": all 2^m; "some": none / all / alternating),  *)
(* laid over the contig <<0,1,...,L-1>> whose bases are pairwise different codes   *)
(* (L <= 16), so that any wrong index, dropped or doubled base or missing          *)
(* re-orientation changes the answer.  From each such handle every query           *)
(* (a,b) in (0..L+2 \cup {MaxUsize})^2 and the length query are asked once;        *)
(* RangeAgrees / LengthAgrees (Range.tla) must hold in every answer state.         *)
(* This includes a trailing segment of raw length k (contributes 0 bases),          *)
(* contributions of 1 base, a first segment of exactly k bases, and ranges that     *)
(* start / end inside the k overlap.  The query actions are split by class only     *)
(* so that the coverage statistics show each class was exercised.                   *)
EXTENDS Range, TLC

CONSTANTS Ks, MaxSegs, Extra, RcMode, MaxUsize

Positional(L) == [i \in 1..L |-> i - 1]

LenLists(kk) ==
  {<<n>> : n \in 1..(kk + Extra)} \cup UNION {[1..m -> kk..(kk + Extra)] : m \in 2..MaxSegs}

RcChoices(m) ==
  IF RcMode = "all" THEN [1..m -> BOOLEAN]
  ELSE {[i \in 1..m |-> FALSE], [i \in 1..m |-> TRUE], [i \in 1..m |-> i % 2 = 0], [i \in 1..m |-> i % 2 = 1]}

VARIABLES lay,      \* = Layout(Lens(segs), k) while the handle is idle (a function of the state; <<>> afterwards)
          pairs     \* the queries (a,b), partitioned by the number of segments they meet (computed once per handle)
mcvars == <<vars, lay, pairs>>

PosOf(total) == 0..(total + 2) \cup {MaxUsize}
\* number of segments whose (non-empty) contribution meets [a, min(b, total))  (= Cardinality(Touched(..)), see ModelSane)
NTouchedIn(ly, a, b) ==
  LET e == Min2(b, ly[Len(ly)].e) IN
  IF a >= e THEN 0 ELSE Cardinality({i \in DOMAIN ly : ly[i].s < e /\ ly[i].e > a /\ ly[i].s < ly[i].e})
Partition(ly) ==
  LET P   == PosOf(ly[Len(ly)].e) \X PosOf(ly[Len(ly)].e)
      cls == [p \in P |-> NTouchedIn(ly, p[1], p[2])]
  IN  [empty |-> {p \in P : cls[p] = 0}, single |-> {p \in P : cls[p] = 1}, multi |-> {p \in P : cls[p] >= 2}]

MCInit ==
  \E kk \in Ks : \E lens \in LenLists(kk) : \E rcs \in RcChoices(Len(lens)) :
    /\ LengthImpl(lens, kk) <= 16
    /\ segs = BuildSegs(Positional(LengthImpl(lens, kk)), lens, rcs, kk)
    /\ k = kk
    /\ ans = Idle
    /\ lay = Layout(lens, kk)
    /\ pairs = Partition(Layout(lens, kk))

Total == lay[Len(lay)].e
Pos   == PosOf(Total)
Asked == lay' = <<>> /\ pairs' = <<>>

QEmpty  == ans.op = "idle" /\ Asked /\ \E p \in pairs.empty  : QueryRange(p[1], p[2])
QSingle == ans.op = "idle" /\ Asked /\ \E p \in pairs.single : QueryRange(p[1], p[2])
QMulti  == ans.op = "idle" /\ Asked /\ \E p \in pairs.multi  : QueryRange(p[1], p[2])
QLen    == ans.op = "idle" /\ Asked /\ QueryLength

MCNext == QEmpty \/ QSingle \/ QMulti \/ QLen
MCSpec == MCInit /\ [][MCNext]_mcvars

\* model sanity: the constructed descriptor list really lays out the positional contig
ModelSane ==
  ans.op = "idle" => /\ Join(segs, k) = Positional(Total)
                     /\ WellFormed(Lens(segs), k)
                     /\ lay = Layout(Lens(segs), k)
                     /\ pairs.empty \cup pairs.single \cup pairs.multi = Pos \X Pos
                     /\ \A p \in Pos \X Pos : NTouchedIn(lay, p[1], p[2]) = Cardinality(Touched(Lens(segs), k, p[1], p[2]))
=============================================================================
