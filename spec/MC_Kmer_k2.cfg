SPECIFICATION MCSpec
CONSTANTS K = 2
          MaxLen = 5
          Alphabet = {0,1,2,3,4}
INVARIANTS Refinement CanonicalLaws RestartLaw Emit
CHECK_DEADLOCK FALSE
