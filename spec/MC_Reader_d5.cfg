SPECIFICATION DesignSpec
CONSTANTS
  Batches <- MCBatches
  ContigsOf <- MCContigsOf
  SegGroups <- MCSegGroups
  RefKind <- MCRefKind
  PrefixMatch <- MCPrefixMatch
  Handles = {1}
  CursorReset = TRUE
  RefPath = "ignoreMeta"
  RangeCheck = "afterLookup"
  MaxLen = 0
  Alpha = "full"
INVARIANTS SameAsFresh

CHECK_DEADLOCK FALSE
