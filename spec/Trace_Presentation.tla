------------------------- MODULE Trace_Presentation -------------------------
(* Trace validation for Presentation.tla (C19).  Recorded executions of the real code:      *)
(*   input    the abstract record list of one generated sample set (sample, header, length, *)
(*            digest of the codes) and the fixed create parameters (k, segment, min match,  *)
(*            threads) - starts a case                                                      *)
(*   present  one presentation of it: options + the file names / member counts written      *)
(*   create   outcome + sha256 of the archive (via the library call sequence of the CLI or  *)
(*            via the real `ragc create`)                                                   *)
(*   extract  sample list + (sample, name, length, digest) of every contig as the real      *)
(*            reader returns them (via Decompressor or via `ragc listset` / `ragc getset`)  *)
(* A case is accepted iff                                                                   *)
(*   - every presentation is one of the property's domain: the sample-naming rule           *)
(*     SampleOf(header, file name) gives the abstract sample of every record, gzip <=> .gz  *)
(*   - ContentLaw: every extraction gives the abstract records (hence the same sample list  *)
(*     and identical contigs for all presentations, per-sample files or one PanSN file)     *)
(*   - BytesLaw: two creates (same way of creating) of presentations in the same            *)
(*     SameBytesClass have the same sha256 (single file: only below PackCard contigs)       *)
(*   - create has the same outcome for every presentation.                                  *)
EXTENDS Presentation, TLC, Json, IOUtils

CONSTANT PackCard      \* pack cardinality of the format (50): the single-file byte-identity bound

Rec == ndJsonDeserialize(IOEnv.TRACE)

VARIABLES l, inp, cur, shas, outcome
tvars == <<l, inp, cur, shas, outcome>>

None == [ev |-> "none"]
IsEvent(e) == l <= Len(Rec) /\ Rec[l].ev = e /\ l' = l + 1

\* records of an input event carry len/dig instead of the codes
WFInput(recs) ==
  /\ recs # <<>>
  /\ \A i \in 1..Len(recs) :
       /\ CleanHeader(recs[i].header) /\ recs[i].len > 0 /\ NameSafe(recs[i].sample)
       /\ IsPanSN(recs[i].header) => recs[i].sample = PanSNSample(recs[i].header)
  /\ LET sl == SampleList(recs) IN \A i, j \in 1..Len(sl) : sl[i] = sl[j] => i = j

TInput ==
  /\ IsEvent("input")
  /\ (WFInput(Rec[l].records)) = TRUE
  /\ inp' = Rec[l] /\ cur' = None /\ shas' = {} /\ outcome' = {}

\* the presentation is in the domain of the property (the naming rule makes the file names irrelevant)
Legal(recs, e) ==
  LET o  == e.opt
      gs == FileGroups(recs, o) IN
  /\ o.layout \in Layouts /\ o.case \in Cases /\ o.width \in 1..100000
  /\ o.stemext \in {EXT_FA, EXT_FASTA} /\ o.fname \in {"sample", "other"} /\ o.container \in {"plain", "gz"}
  /\ Len(e.files) = Len(gs)
  /\ \A i \in 1..Len(gs) :
       /\ IsGzName(e.files[i].name) = (o.container = "gz")
       /\ e.files[i].members >= 1 /\ (o.container = "plain" => e.files[i].members = 1)
       /\ \A j \in 1..Len(gs[i]) : SampleOf(gs[i][j].header, e.files[i].name) = gs[i][j].sample

TPresent ==
  /\ IsEvent("present") /\ inp.ev = "input"
  /\ (Legal(inp.records, Rec[l])) = TRUE
  /\ cur' = Rec[l]
  /\ UNCHANGED <<inp, shas, outcome>>

\* the byte-identity part applies (the property bounds it for a single PanSN file)
Comparable == cur.opt.layout = "per_sample" \/ Len(inp.records) < PackCard
ShaKey(e)  == <<e.via, BytesKey(cur.opt)>>

TCreate ==
  /\ IsEvent("create") /\ cur.ev = "present"
  /\ LET e == Rec[l] IN
       /\ e.result \in {"ok", "err", "panic"}
       /\ (\A t \in outcome : t[1] = e.via => t[2] = e.result) = TRUE           \* same outcome for every presentation
       /\ outcome' = outcome \cup {<<e.via, e.result>>}
       /\ IF e.result = "ok" /\ Comparable
          THEN /\ (\A t \in shas : t[1] = ShaKey(e) => t[2] = e.sha256) = TRUE  \* BytesLaw
               /\ shas' = shas \cup {<<ShaKey(e), e.sha256>>}
          ELSE UNCHANGED shas
  /\ UNCHANGED <<inp, cur>>

Matches(c, r) == c.sample = r.sample /\ c.name = r.header /\ c.len = r.len /\ c.dig = r.dig
TExtract ==
  /\ IsEvent("extract") /\ cur.ev = "present"
  /\ LET e == Rec[l]
         recs == inp.records IN
       (/\ e.result = "ok"
        /\ e.samples = SampleList(recs)                                          \* same sample list
        /\ Len(e.contigs) = Len(recs)
        /\ \A i \in 1..Len(recs) : Matches(e.contigs[i], recs[i])) = TRUE         \* identical extracted contigs
  /\ UNCHANGED <<inp, cur, shas, outcome>>

TNext == TInput \/ TPresent \/ TCreate \/ TExtract
TInit == l = 1 /\ inp = None /\ cur = None /\ shas = {} /\ outcome = {}
TSpec == TInit /\ [][TNext]_tvars

Accepted ==
  LET d == TLCGet("stats").diameter IN
  IF d - 1 = Len(Rec) THEN TRUE ELSE PrintT(<<"UNMATCHED", d>>) /\ FALSE
=============================================================================
