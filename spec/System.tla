------------------------------- MODULE System -------------------------------
(* Composition of the specification: the whole-archive reader (ArchiveSemantics, *)
(* which uses the decoder operators of FormatOps) is tied to the per-area design  *)
(* modules, each of which is bound to the code by its own REPLAY / TRACE:          *)
(*                                                                                *)
(*   Fasta -> Pipeline( Segmentation, Compressor, PackLayout ) -> Collection      *)
(*         -> Container -> Reader                                                 *)
(*                                                                                *)
(* This module states the INTERFACE LAWS between the layers and has TLC check     *)
(* them on bounded domains (ASSUME-level, no behaviour):                          *)
(*   L1  FormatOps!TupleUnpack inverts TuplePack!Pack              (C12 <-> C02)  *)
(*   L2  FormatOps!LzDecode = LzDiffOps!Decode on serialized token sequences      *)
(*       (same text format; C09 <-> C02)                                          *)
(*   L3  FormatOps!DecodeNames inverts CollectionOps!EncNameList   (C03 <-> C02)  *)
(*   L4  FormatOps!DecodeDescs inverts CollectionOps!EncRows       (C03 <-> C02)  *)
(*   L5  FormatOps addressing (PackOf / EntryOf) = PackLayout reader arithmetic   *)
(*   L6  Compressor / FormatOps agree on orientation and the k-overlap join       *)
(* so a change of the format understanding in one module is detected against the  *)
(* others, and the end-to-end statement                                           *)
(*   Extract(Create(inputs)) = Normalise(inputs)                                  *)
(* decomposes into the per-layer properties C16/C19 (Fasta), C04/C05 (Pipeline),  *)
(* C10 (Segmentation), C01 (Compressor, PackLayout), C09, C12, C03, C13, C07/C08. *)
EXTENDS Naturals, Integers, Sequences, FiniteSets, TLC

F == INSTANCE FormatOps
L == INSTANCE LzDiffOps
C == INSTANCE CollectionOps
T == INSTANCE TuplePack WITH Alphabet <- {}, MaxLen <- 0, Levels <- {}, inp <- <<>>, blob <- <<>>, out <- <<>>

\* all sequences over S of length <= n
RECURSIVE SeqsUpTo(_, _)
SeqsUpTo(S, n) == IF n = 0 THEN {<<>>} ELSE LET P == SeqsUpTo(S, n - 1) IN P \cup {Append(p, x) : p \in P, x \in S}

\* ---- L1 ------------------------------------------------------------------------------
L1 == \A b \in SeqsUpTo({0, 3}, 6) \cup SeqsUpTo({0, 4, 5}, 5) \cup SeqsUpTo({1, 6, 15}, 4) \cup SeqsUpTo({2, 16, 30}, 3) :
        LET u == F!TupleUnpack(T!Pack(b)) IN u.ok /\ u.out = b

\* ---- L2 ------------------------------------------------------------------------------
Ref7 == <<0, 1, 2, 3, 0, 4, 2>>
MM == 3
Toks == {L!TLit(0), L!TLit(4), L!TLit(30), L!TBang, L!TNRun(4), L!TNRun(11), L!TMatch(0, 3), L!TMatch(1, 4), L!TMatch(-1, 3), L!TMEnd(0), L!TMEnd(2)}
L2 == \A ts \in SeqsUpTo(Toks, 3) :
        LET txt == L!Serialize(ts, MM)
            a == F!LzDecode(Ref7, txt, MM)
            b == L!DecodeR(Ref7, txt, MM)
        IN  txt = <<>> \/ (a.ok = b.ok /\ (a.ok => a.out = b.out))

\* ---- L3 ------------------------------------------------------------------------------
Names == {<<97>>, <<97, 32, 98>>, <<97, 98, 32, 98>>, <<97, 32, 32, 98>>, <<98, 98, 32, 97>>, <<97, 32, 98, 32, 97>>, <<9, 97>>}
L3 == \A ns \in SeqsUpTo(Names, 3) :
        LET d == F!DecodeNames(C!EncNameList(ns, 100)) IN d.ok /\ d.names = ns
\* long equal runs: the run cap (100) of the encoder is transparent to the decoder
LongName(n, c) == [i \in 1..n |-> c]
L3long == \A n \in {99, 100, 101, 201} :
        LET ns == <<LongName(n, 97) \o <<32, 120>>, LongName(n, 97) \o <<32, 121>>, LongName(n - 1, 97) \o <<98, 32, 121>>>>
            d == F!DecodeNames(C!EncNameList(ns, 100)) IN d.ok /\ d.names = ns

\* ---- L4 ------------------------------------------------------------------------------
Rows == {[g |-> g, id |-> id, rc |-> rc, len |-> len] : g \in {0, 17}, id \in {0, 1, 2, 5}, rc \in {0, 1}, len \in {7, 60, 61, 200}}
L4 == \A rs \in SeqsUpTo({r \in Rows : r.rc = 0 \/ r.len = 60}, 3) :
        LET e == C!EncRows(rs, 60)
            d == F!DecodeDescs(e.gs, e.es, e.ls, e.os, 60)
        IN  d = [i \in 1..Len(rs) |-> [gid |-> rs[i].g, id |-> rs[i].id, len |-> rs[i].len, rev |-> rs[i].rc = 1]]

\* ---- L5 ------------------------------------------------------------------------------
\* the reader arithmetic used by ArchiveSemantics is the one model-checked in PackLayout (PACK = 50 there as a constant)
L5 == \A id \in 1..160 :
        /\ F!PackOf(16, id) = (id - 1) \div F!PACK /\ F!EntryOf(16, id) = (id - 1) % F!PACK
        /\ F!PackOf(3, id) = id \div F!PACK /\ F!EntryOf(3, id) = id % F!PACK

\* ---- L6 ------------------------------------------------------------------------------
\* orientation is an involution that keeps non-ACGT codes, and joining pieces that overlap by k reproduces the whole
L6 == \A w \in SeqsUpTo({0, 1, 3, 4, 9}, 5) :
        /\ F!Orient(F!Orient(w, TRUE), TRUE) = w
        /\ \A k \in 1..2, cut \in 1..Len(w) :
              (cut >= k /\ cut < Len(w)) => F!JoinContig(<<SubSeq(w, 1, cut), SubSeq(w, cut - k + 1, Len(w))>>, k) = w

ASSUME L1
ASSUME L2
ASSUME L3 /\ L3long
ASSUME L4
ASSUME L5
ASSUME L6

VARIABLE dummy
Init == dummy = 0
Next == UNCHANGED dummy
Spec == Init /\ [][Next]_dummy
=============================================================================
