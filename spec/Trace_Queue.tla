---------------------------- MODULE Trace_Queue ----------------------------
(* Trace validation for Queue.tla / QueueAbs.tla (C06).                         *)
(* Rec = ndjson log of one or more executions ("cases") of the real              *)
(* MemoryBoundedQueue.  Queue events are the cfg(ragc_verif) hook events; they    *)
(* are emitted while the queue mutex is held, so their order in the log is the    *)
(* lock order = the linearisation order.  Harness events: `ret` (what the call    *)
(* returned to its caller), `quiescent` (every harness thread is finished or      *)
(* blocked in an untimed futex wait and nothing moved: no wake-up is in flight),  *)
(* `end` (all threads joined).                                                    *)
(* Every linearisation event is applied with the PERMISSIVE observer action of    *)
(* QueueAbs; the verdict is given by the C06 clause invariants.  The waiting      *)
(* mechanics (wait / wake events) only maintain who is blocked - no verdict       *)
(* depends on which waiter woke or how often.                                     *)
EXTENDS Queue, Sequences, TLC, Json, IOUtils

Rec == ndJsonDeserialize(IOEnv.TRACE)

VARIABLES l,      \* next record
          pend,   \* per thread: answer of its last linearised operation, not yet returned
          log,    \* state fields logged by the last queue event [cur, len, closed]
          quiet,  \* the last record was a `quiescent` observation
          hook    \* FALSE when the log itself is inconsistent (a return without an event, ...)
tvars == <<q, closed, acc, rets, last, pc, arg, l, pend, log, quiet, hook>>

None == [cls |-> "-", uid |-> 0]
A(cls, uid) == [cls |-> cls, uid |-> uid]

IsEvent(e) == l <= Len(Rec) /\ Rec[l].ev = e /\ l' = l + 1
E == Rec[l]
Logged == [cur |-> E.cur, len |-> E.len, closed |-> E.closed = 1]
Here == [cur |-> Bytes, len |-> Cardinality(q), closed |-> closed]

TInit == /\ Init /\ l = 1 /\ pend = [t \in Threads |-> None]
         /\ log = [cur |-> 0, len |-> 0, closed |-> FALSE] /\ quiet = FALSE /\ hook = TRUE

\* case boundary: a fresh queue of capacity Cap
TStart ==
  /\ IsEvent("start") /\ E.cap = Cap
  /\ q' = {} /\ closed' = FALSE /\ acc' = {} /\ rets' = {}
  /\ last' = V("init", TRUE, TRUE, TRUE, TRUE)
  /\ pc' = [t \in Threads |-> "idle"] /\ arg' = [t \in Threads |-> NoArg]
  /\ pend' = [t \in Threads |-> None]
  /\ log' = [cur |-> 0, len |-> 0, closed |-> FALSE] /\ quiet' = FALSE /\ hook' = TRUE

\* common part of a linearisation event of thread E.t answering `ans`
Lin(ans) ==
  /\ pc' = [pc EXCEPT ![E.t] = "idle"]
  /\ arg' = [arg EXCEPT ![E.t] = NoArg]
  /\ pend' = [pend EXCEPT ![E.t] = ans]
  /\ log' = Logged /\ quiet' = FALSE /\ hook' = hook

TAdmit == /\ IsEvent("admit")
          /\ OAdmit([id |-> E.ticket, sz |-> E.size, pr |-> E.pr, uid |-> E.uid])
          /\ Lin(A("ok", 0))
TTake  == /\ IsEvent("take")
          /\ OTake(E.ticket)
          /\ LET its == {x \in q : x.id = E.ticket} IN
             Lin(A("item", IF its = {} THEN 0 ELSE (CHOOSE x \in its : TRUE).uid))
TRefuse     == IsEvent("refuse")     /\ ORefuse             /\ Lin(A("closed", 0))
TWouldBlock == IsEvent("wouldblock") /\ OWouldBlock(E.size) /\ Lin(A("wouldblock", 0))
TEos        == IsEvent("eos")        /\ OEos                /\ Lin(A("none", 0))
TEmpty      == IsEvent("empty")      /\ OEmpty              /\ Lin(A("none", 0))
TClose      == IsEvent("close")      /\ OClose              /\ Lin(A("unit", 0))

\* waiting mechanics: bookkeeping only
Mech(newpc, newarg) ==
  /\ pc' = [pc EXCEPT ![E.t] = newpc]
  /\ arg' = [arg EXCEPT ![E.t] = newarg]
  /\ UNCHANGED <<absvars, pend, hook>>
  /\ log' = Logged /\ quiet' = FALSE
TPushWait == IsEvent("push_wait") /\ Mech("pwait", [id |-> 0, sz |-> E.size, pr |-> 0])
TPushWake == IsEvent("push_wake") /\ Mech("pwoken", arg[E.t])
TPullWait == IsEvent("pull_wait") /\ Mech("cwait", NoArg)
TPullWake == IsEvent("pull_wake") /\ Mech("cwoken", NoArg)

\* what the call handed back to its caller must be the answer of its linearisation event
TRet ==
  /\ IsEvent("ret")
  /\ LET p == pend[E.t] IN
     /\ hook' = (hook /\ (p # None \/ E.cls \in {"item", "panic"}))
     /\ last' = V("ret",
                  \* nothing is handed out but the item taken at the linearisation point
                  E.cls = "item" => (p.cls = "item" /\ p.uid = E.uid),
                  TRUE, TRUE,
                  \* the answer class is the one decided under the lock (a panic is never one)
                  (E.cls # "panic") /\ ((p # None /\ E.cls # "item") => p.cls = E.cls))
  /\ pend' = [pend EXCEPT ![E.t] = None]
  /\ UNCHANGED <<q, closed, acc, rets, pc, arg, log>>
  /\ quiet' = FALSE

\* the harness observed: nothing can move any more without a new call.
\* E.blocked = threads that are inside a queue call (must be the ones the log shows waiting);
\* the public observers len() / current_size() / is_closed() were read in that state.
TQuiescent ==
  /\ IsEvent("quiescent")
  /\ hook' = (hook /\ {E.blocked[i] : i \in 1..Len(E.blocked)} = Blocked("pwait") \cup Blocked("cwait")
                   /\ \A t \in Threads : pc[t] \notin {"pwoken", "cwoken"})
  /\ log' = [cur |-> E.api_cur, len |-> E.api_len, closed |-> E.api_closed = 1]
  /\ quiet' = TRUE
  /\ UNCHANGED <<absvars, pc, arg, pend>>

\* all harness threads have been joined: nobody is blocked, every answer was returned
TEnd ==
  /\ IsEvent("end")
  /\ hook' = (hook /\ \A t \in Threads : pc[t] = "idle" /\ pend[t] = None)
  /\ log' = [cur |-> E.api_cur, len |-> E.api_len, closed |-> E.api_closed = 1]
  /\ quiet' = TRUE
  /\ UNCHANGED <<absvars, pc, arg, pend>>

TNext == \/ TStart \/ TAdmit \/ TTake \/ TRefuse \/ TWouldBlock \/ TEos \/ TEmpty \/ TClose
         \/ TPushWait \/ TPushWake \/ TPullWait \/ TPullWake \/ TRet \/ TQuiescent \/ TEnd
TSpec == TInit /\ [][TNext]_tvars

-----------------------------------------------------------------------------
\* invariants evaluated on every state of the recorded execution:
\*   ExactlyOnce PriorityOrder Bound AfterClose SeqSpec          (QueueAbs)
\* plus
\* current_size / len / closed as the code reports them are the abstract state
Accounting == log = Here
\* no thread stays blocked: at a quiescent point (no wake-up in flight) nobody is blocked after
\* close, and no consumer is blocked while items are queued
NoStuckObs == quiet => NoStuckCore
\* the log is well formed (otherwise the run cannot be judged: tool error, not a verdict)
HookOK == hook

Accepted ==
  LET d == TLCGet("stats").diameter IN
  IF d - 1 = Len(Rec) THEN TRUE ELSE PrintT(<<"UNMATCHED", d>>) /\ FALSE
=============================================================================
