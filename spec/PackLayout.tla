----------------------------- MODULE PackLayout -----------------------------
(* Per-group pack state machine of the compressor (flush_pack_compress_only,    *)
(* finalize: agc_compressor.rs) and the READER's addressing arithmetic           *)
(* (FormatOps!PackOf / EntryOf = decompressor.rs get_segment).                   *)
(*                                                                               *)
(* State per group: next in-group id, pending deltas with their ids, the packs    *)
(* already written, whether the raw-group placeholder / the reference exist.      *)
(* Property (C02 addressing, C01): at every moment every descriptor handed out    *)
(* so far, whose pack has been written, is found by the reader's arithmetic, and  *)
(* after Finalize that holds for all of them.                                     *)
EXTENDS Naturals, Sequences, FiniteSets

CONSTANTS PACK,      \* pack cardinality (format: 50; small stand-in for exhaustive checking)
          IsRaw,     \* TRUE: raw group (ids 0..15): no reference, placeholder entry; FALSE: LZ group
          Segs,      \* set of possible segment contents (abstract values); "ref" relationship below
          MaxSegs    \* bound on segments added

\* LZ delta of a segment against the reference: the reference itself encodes as EMPTY
EMPTY == "empty"
PLACE == "placeholder"

VARIABLES nextId, pending, pendingIds, packs, placeholder, ref, placed, finalized
vars == <<nextId, pending, pendingIds, packs, placeholder, ref, placed, finalized>>

Init == /\ nextId = 0 /\ pending = <<>> /\ pendingIds = <<>> /\ packs = <<>>
        /\ placeholder = FALSE /\ ref = "none" /\ placed = <<>> /\ finalized = FALSE

Delta(s) == IF IsRaw THEN s ELSE IF s = ref THEN EMPTY ELSE s

\* pack bytes: optional placeholder entry, then the pending deltas (each followed by the separator)
MakePack(withPlaceholder, ds) == (IF withPlaceholder THEN <<PLACE>> ELSE <<>>) \o ds

Threshold == IF IsRaw /\ ~placeholder THEN PACK - 1 ELSE PACK

AddSegment(s) ==
  /\ ~finalized /\ Len(placed) < MaxSegs
  /\ IF ~IsRaw /\ ref = "none"
     THEN \* first segment of an LZ group becomes the reference: own stream, id 0
          /\ ref' = s /\ placed' = Append(placed, [seg |-> s, id |-> 0])
          /\ UNCHANGED <<nextId, pending, pendingIds, packs, placeholder, finalized>>
     ELSE LET d == Delta(s) IN
          IF ~IsRaw /\ d = EMPTY
          THEN /\ placed' = Append(placed, [seg |-> s, id |-> 0])      \* same as reference
               /\ UNCHANGED <<nextId, pending, pendingIds, packs, placeholder, ref, finalized>>
          ELSE IF \E i \in 1..Len(pending) : pending[i] = d
          THEN LET i == CHOOSE j \in 1..Len(pending) : pending[j] = d /\ \A m \in 1..(j - 1) : pending[m] # d IN
               /\ placed' = Append(placed, [seg |-> s, id |-> pendingIds[i]])   \* duplicate in the pending pack: reuse
               /\ UNCHANGED <<nextId, pending, pendingIds, packs, placeholder, ref, finalized>>
          ELSE LET id == IF nextId = 0 THEN 1 ELSE nextId
                   np == Append(pending, d)
                   ni == Append(pendingIds, id) IN
               /\ placed' = Append(placed, [seg |-> s, id |-> id])
               /\ nextId' = id + 1
               /\ IF Len(np) = Threshold
                  THEN /\ packs' = Append(packs, MakePack(IsRaw /\ ~placeholder, np))
                       /\ placeholder' = (placeholder \/ IsRaw)
                       /\ pending' = <<>> /\ pendingIds' = <<>>
                  ELSE /\ pending' = np /\ pendingIds' = ni
                       /\ UNCHANGED <<packs, placeholder>>
               /\ UNCHANGED <<ref, finalized>>

Finalize ==
  /\ ~finalized /\ finalized' = TRUE
  /\ IF pending # <<>>
     THEN /\ packs' = Append(packs, MakePack(IsRaw /\ ~placeholder, pending))
          /\ placeholder' = (placeholder \/ IsRaw)
          /\ pending' = <<>> /\ pendingIds' = <<>>
     ELSE UNCHANGED <<packs, placeholder, pending, pendingIds>>
  /\ UNCHANGED <<nextId, ref, placed>>

Next == (\E s \in Segs : AddSegment(s)) \/ Finalize
Spec == Init /\ [][Next]_vars

-----------------------------------------------------------------------------
\* the READER's arithmetic (format rule)
Pos(id)     == IF IsRaw THEN id ELSE id - 1
PackOf(id)  == Pos(id) \div PACK          \* 0-based
EntryOf(id) == Pos(id) % PACK             \* 0-based
Written(id) == PackOf(id) + 1 <= Len(packs) /\ EntryOf(id) + 1 <= Len(packs[PackOf(id) + 1])
Lookup(id)  == packs[PackOf(id) + 1][EntryOf(id) + 1]

Stored(p) == IF ~IsRaw /\ p.id = 0 THEN p.seg = ref ELSE Written(p.id) /\ Lookup(p.id) = Delta(p.seg)

\* every descriptor whose pack is on disk is found where the reader looks
AddressingOK ==
  \A i \in 1..Len(placed) :
     LET p == placed[i] IN
     (~IsRaw /\ p.id = 0) \/ (Written(p.id) => Lookup(p.id) = Delta(p.seg)) 
\* after Finalize nothing is missing
CompleteAfterFinalize == finalized => \A i \in 1..Len(placed) : Stored(placed[i])
\* format shape: every non-final pack is full, placeholder only as entry 0 of pack 0 of a raw group
PackShape ==
  /\ \A j \in 1..Len(packs) : (j < Len(packs) \/ ~finalized) => Len(packs[j]) = PACK      \* only the final pack may be partial
  /\ \A j \in 1..Len(packs) : \A e \in 1..Len(packs[j]) : packs[j][e] = PLACE <=> (IsRaw /\ j = 1 /\ e = 1)
  /\ \A j \in 1..Len(packs) : Len(packs[j]) \in 1..PACK
\* ids in a raw group never use 0 (entry 0 is the placeholder); LZ id 0 is the reference only
IdRule == \A i \in 1..Len(placed) : IF IsRaw THEN placed[i].id >= 1 ELSE (placed[i].id = 0 <=> placed[i].seg = ref)
=============================================================================
