-------------------------- MODULE Trace_PipelineObs --------------------------
(* PERMISSIVE observer for property C05 ("the compression pipeline always       *)
(* terminates") over one recorded execution of the real pipeline.                *)
(*                                                                               *)
(* Trace_Pipeline.tla checks that a run is a behaviour of the DESIGN              *)
(* (Pipeline.tla): queue order, priorities, batch compositions ... - a deviation   *)
(* there is a matter of C04 (determinism), not necessarily of termination.  This  *)
(* module applies every recorded event whatever it is and evaluates exactly the    *)
(* clauses of C05 on the resulting history:                                        *)
(*   - the run finished (not stalled) and finalize returned Ok,                     *)
(*   - every worker enters and leaves every synchronisation round: each worker's     *)
(*     events follow  pull -> (token) arrive1 leave1 arrive2 leave2 arrive3 leave3    *)
(*     arrive4 leave4 -> pull, a worker leaves barrier b of round r only when all N   *)
(*     workers have arrived at it, and every round has exactly N tokens,              *)
(*   - all workers exit after the close, and the producer's join follows,             *)
(*   - all queued contigs are compressed: each pushed contig is pulled once,           *)
(*     segmented once and classified in exactly one round.                             *)
(* `bad` records the first clause that failed ("" = none); NoBad is the invariant.     *)
EXTENDS Naturals, Sequences, FiniteSets, TLC, Json, IOUtils

Rec == ndJsonDeserialize(IOEnv.TRACE)
Hdr == Rec[1]
N == Hdr.n
Workers == 0..(N - 1)

VARIABLES l, stage, rnd, pushed, pulled, segd, batched, tokPushed, tokPulled, closed, joined, bad
vars == <<l, stage, rnd, pushed, pulled, segd, batched, tokPushed, tokPulled, closed, joined, bad>>

Ev == Rec[l]
IsEvent(e) == l <= Len(Rec) /\ Rec[l].ev = e /\ l' = l + 1

\* stage of a worker, uniformly a pair: <<"pull",0>>, <<"held",0>> (has a contig), <<"tok",0>> (has a token),
\* <<"at",b>>, <<"left",b>>, <<"exited",0>>
SPull == <<"pull", 0>>
SHeld == <<"held", 0>>
STok == <<"tok", 0>>
SExited == <<"exited", 0>>
At(b) == <<"at", b>>
Left(b) == <<"left", b>>
\* progress inside the worker's current round rnd[w]
Prog(s) == IF s[1] = "tok" THEN 0 ELSE IF s[1] = "at" THEN 2 * s[2] - 1 ELSE IF s[1] = "left" THEN 2 * s[2] ELSE 9
ArrivedAt(v, r, b) == rnd[v] > r \/ (rnd[v] = r /\ Prog(stage[v]) >= 2 * b - 1)

Fail(msg) == IF bad = "" THEN msg ELSE bad

TInit == /\ l = 2 /\ stage = [w \in Workers |-> SPull] /\ rnd = [w \in Workers |-> 0]
         /\ pushed = {} /\ pulled = {} /\ segd = {} /\ batched = {} /\ tokPushed = 0 /\ tokPulled = 0
         /\ closed = FALSE /\ joined = FALSE /\ bad = ""

Keep(vs) == UNCHANGED vs

TPushContig == /\ IsEvent("PushContig")
               /\ pushed' = pushed \cup {Ev.i}
               /\ bad' = IF Ev.i \in pushed THEN Fail("contig pushed twice") ELSE IF closed THEN Fail("push after close") ELSE bad
               /\ UNCHANGED <<stage, rnd, pulled, segd, batched, tokPushed, tokPulled, closed, joined>>
TPushToken == /\ IsEvent("PushToken") /\ tokPushed' = tokPushed + 1
              /\ UNCHANGED <<stage, rnd, pushed, pulled, segd, batched, tokPulled, closed, joined, bad>>
TProducerOther == /\ (IsEvent("PushWait") \/ IsEvent("Wait"))
                  /\ UNCHANGED <<stage, rnd, pushed, pulled, segd, batched, tokPushed, tokPulled, closed, joined, bad>>
TClose == /\ IsEvent("Close") /\ closed' = TRUE
          /\ UNCHANGED <<stage, rnd, pushed, pulled, segd, batched, tokPushed, tokPulled, joined, bad>>
TJoined == /\ IsEvent("Joined") /\ joined' = TRUE
           /\ bad' = IF \E w \in Workers : stage[w] # SExited THEN Fail("finalize joined although a worker has not exited") ELSE bad
           /\ UNCHANGED <<stage, rnd, pushed, pulled, segd, batched, tokPushed, tokPulled, closed>>

TPull == /\ IsEvent("Pull")
         /\ LET w == Ev.w IN
            IF Ev.kind = "c"
            THEN /\ stage' = [stage EXCEPT ![w] = SHeld]
                 /\ pulled' = pulled \cup {Ev.i}
                 /\ bad' = IF stage[w] # SPull THEN Fail("pull while not in the pull stage")
                           ELSE IF Ev.i \notin pushed THEN Fail("pulled a contig that was never pushed")
                           ELSE IF Ev.i \in pulled THEN Fail("contig pulled twice") ELSE bad
                 /\ UNCHANGED <<rnd, tokPulled>>
            ELSE /\ stage' = [stage EXCEPT ![w] = STok]
                 /\ rnd' = [rnd EXCEPT ![w] = @ + 1]
                 /\ tokPulled' = tokPulled + 1
                 /\ bad' = IF stage[w] # SPull THEN Fail("token pulled while not in the pull stage") ELSE bad
                 /\ UNCHANGED pulled
         /\ UNCHANGED <<pushed, segd, batched, tokPushed, closed, joined>>

TSegmented == /\ IsEvent("Segmented")
              /\ stage' = [stage EXCEPT ![Ev.w] = SPull]
              /\ segd' = segd \cup {Ev.i}
              /\ bad' = IF stage[Ev.w] # SHeld THEN Fail("segmented without holding a contig")
                        ELSE IF Ev.i \in segd THEN Fail("contig segmented twice") ELSE bad
              /\ UNCHANGED <<rnd, pushed, pulled, batched, tokPushed, tokPulled, closed, joined>>

TArrive == /\ IsEvent("Arrive")
           /\ LET w == Ev.w
                  b == Ev.b
                  want == IF b = 1 THEN STok ELSE Left(b - 1)
              IN /\ stage' = [stage EXCEPT ![w] = At(b)]
                 /\ bad' = IF stage[w] # want THEN Fail("a worker skipped or repeated a barrier of the round") ELSE bad
           /\ UNCHANGED <<rnd, pushed, pulled, segd, batched, tokPushed, tokPulled, closed, joined>>

TLeave == /\ IsEvent("Leave")
          /\ LET w == Ev.w
                 b == Ev.b
             IN /\ stage' = [stage EXCEPT ![w] = IF b = 4 THEN SPull ELSE Left(b)]
                /\ bad' = IF stage[w] # At(b) THEN Fail("left a barrier it had not arrived at")
                          ELSE IF \E v \in Workers : ~ArrivedAt(v, rnd[w], b) THEN Fail("left a barrier before all workers arrived")
                          ELSE bad
          /\ UNCHANGED <<rnd, pushed, pulled, segd, batched, tokPushed, tokPulled, closed, joined>>

TClassify == /\ IsEvent("Classify")
             /\ LET B == {Ev.batch[j] : j \in 1..Len(Ev.batch)} IN
                /\ batched' = batched \cup B
                /\ bad' = IF B \cap batched # {} THEN Fail("a contig classified in two rounds")
                          ELSE IF ~(B \subseteq segd) THEN Fail("classified a contig that was not segmented") ELSE bad
             /\ UNCHANGED <<stage, rnd, pushed, pulled, segd, tokPushed, tokPulled, closed, joined>>

TEos == /\ IsEvent("Eos")
        /\ stage' = [stage EXCEPT ![Ev.w] = SExited]
        /\ bad' = IF stage[Ev.w] # SPull THEN Fail("end-of-stream outside the pull stage")
                  ELSE IF ~closed THEN Fail("a worker exited before the queue was closed") ELSE bad
        /\ UNCHANGED <<rnd, pushed, pulled, segd, batched, tokPushed, tokPulled, closed, joined>>
TExit == /\ IsEvent("Exit")
         /\ UNCHANGED <<stage, rnd, pushed, pulled, segd, batched, tokPushed, tokPulled, closed, joined, bad>>

TNext == TPushContig \/ TPushToken \/ TProducerOther \/ TClose \/ TJoined \/ TPull \/ TSegmented \/ TArrive \/ TLeave
         \/ TClassify \/ TEos \/ TExit
TSpec == TInit /\ [][TNext]_vars

AtEnd == l = Len(Rec) + 1
Finished ==
  /\ \A w \in Workers : stage[w] = SExited
  /\ joined
  /\ pulled = pushed /\ segd = pushed /\ batched = pushed
  /\ tokPulled = tokPushed
  /\ \A w \in Workers : rnd[w] * N = tokPushed            \* every worker took part in every round

NoBad == bad = ""
EndState == (AtEnd /\ ~Hdr.stalled) => (Finished /\ Hdr.result = "ok")

Accepted ==
  LET d == TLCGet("stats").diameter IN
  IF d = Len(Rec) THEN TRUE ELSE PrintT(<<"UNMATCHED", d + 1>>) /\ FALSE
=============================================================================
