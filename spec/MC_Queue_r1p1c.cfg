SPECIFICATION MCSpec
CONSTANTS Cap = 2
 Threads = {"c","m","p"}
 Producers = {"p"}
 Consumers = {"c"}
 Closers = {"m"}
 Extra = {}
 NPush = 2
 NPull = 2
 NClose = 1
 Sizes = {1,2,3}
 Prios = {0,1}
 PModes = {"push","try_push"}
 CModes = {"pull","try_pull"}
 Spur = FALSE
 Eager = TRUE
 NoBlock = FALSE
 Hist = TRUE
INVARIANTS TypeOK ExactlyOnce PriorityOrder Bound AfterClose SeqSpec NoStuck NoWaitClosed Emit
CHECK_DEADLOCK FALSE
