-------------------------- MODULE Trace_Container --------------------------
(* Trace validation for Container.tla / Varint.tla.                             *)
(*  C13: every call on the real `Archive` (writer, then a fresh reader) is one   *)
(*       event; it must be a step of the specification and the logged result /   *)
(*       post-state must equal the specification's.  `varint` events bind the    *)
(*       codec pair of varint.rs.                                                *)
(*  C14: `open_prefix` events - the first n bytes of a real archive (a crash     *)
(*       state, see the sink layer of Container.tla) opened with Archive::open   *)
(*       and Decompressor::open; the specification predicts CrashOutcome.        *)
(*  C15: `fault` events - a real create whose first failing write is at offset   *)
(*       f; the specification predicts FaultOutcome.                             *)
EXTENDS Container, TLC, Json, IOUtils

Rec == ndJsonDeserialize(IOEnv.TRACE)

VARIABLES l, alen          \* position in the trace; length of the complete image of the archive under test
tvars == <<vars, l, alen>>

IsEvent(e) == l <= Len(Rec) /\ Rec[l].ev = e /\ l' = l + 1
E == Rec[l]

Reset ==
  /\ mode' = "writing"
  /\ names' = <<>> /\ raw' = <<>> /\ dir' = <<>> /\ wbuf' = <<>> /\ off' = 0 /\ body' = <<>>
  /\ adone' = <<>> /\ apend' = <<>> /\ rd' = NoRd /\ cursor' = <<>>
  /\ inbuf' = 0 /\ disk' = 0 /\ limit' = NoLimit

TStart == IsEvent("start") /\ Reset /\ alen' = 0

\* ---- C13 -------------------------------------------------------------------------------
ObsIs(o) == /\ o.names = (IF mode' = "reading" THEN rd'.names ELSE names')
            /\ o.raw = (IF mode' = "reading" THEN rd'.raw ELSE raw')
            /\ o.nparts = [s \in 1..Len(names') |-> Len(dir'[s])]

TReg == IsEvent("reg") /\ E.res = RegisterResult(E.name) /\ Register(E.name) /\ UNCHANGED alen
TAdd == IsEvent("add") /\ E.ok /\ AddPart(E.s + 1, E.data, E.meta) /\ mode' = "writing"
        /\ E.n = Len(dir'[E.s + 1]) /\ UNCHANGED alen
TBuf == IsEvent("buf") /\ AddPartBuffered(E.s + 1, E.data, E.meta) /\ UNCHANGED alen
TFlush == IsEvent("flush") /\ E.ok /\ FlushBuffers /\ mode' = "writing" /\ ObsIs(E.obs) /\ UNCHANGED alen
TRaw == IsEvent("raw") /\ SetRawSize(E.s + 1, E.val) /\ E.got = E.val /\ UNCHANGED alen
TClose == IsEvent("close") /\ E.ok /\ Close /\ mode' = "closed" /\ UNCHANGED alen
TOpen == IsEvent("open") /\ E.ok /\ Open /\ ObsIs(E.obs)
         /\ E.ids = [s \in 1..Len(names) |-> s - 1] /\ UNCHANGED alen
TGet == IsEvent("get") /\ E.ok /\ E.s + 1 \in 1..Len(rd.names)
        /\ E.res = GetPartResult(E.s + 1) /\ GetPart(E.s + 1) /\ UNCHANGED alen
TGetId == IsEvent("getid") /\ E.ok /\ GetPartById(E.s + 1, E.i)
          /\ E.res = GetPartByIdResult(E.s + 1, E.i) /\ UNCHANGED alen

\* codec pair: what was encoded is what is decoded, and exactly the encoding is consumed
TVarint == IsEvent("varint") /\ IsU64(E.v) /\ E.ok /\ E.dec = E.v /\ E.used = Len(E.bytes)
           /\ UNCHANGED <<vars, alen>>

\* ---- C14 / C15 -------------------------------------------------------------------------
TArchive == IsEvent("archive") /\ Reset /\ alen' = E.len

\* a crash state is a strict prefix (n < alen): it must be refused with an error value; the
\* property tolerates a container handle only if no sample can be read from it
TOpenPrefix ==
  /\ IsEvent("open_prefix") /\ UNCHANGED <<vars, alen>>
  /\ E.len = alen /\ E.n \in 0..alen
  /\ IF CrashOutcome(alen, E.n) = "err"
     THEN /\ E.d = "err" /\ E.a \in {"err", "ok"} /\ E.readable = 0 /\ ~E.huge
     ELSE /\ E.a = "ok" /\ E.d = "ok" /\ E.samples > 0 /\ E.readable = E.samples
\* a run of consecutive crash states lo..hi that were all refused with an error value by both opens (compact form of
\* open_prefix for large archives): every one of them must be a strict prefix
TOpenRange ==
  /\ IsEvent("open_range") /\ UNCHANGED <<vars, alen>>
  /\ E.len = alen /\ E.lo \in 0..alen /\ E.hi \in E.lo..alen
  /\ \A n \in {E.lo, E.hi} : CrashOutcome(alen, n) = "err"        \* CrashOutcome is monotone in n: the end points decide the range
\* the command line on a crash state: non-zero exit, no panic
TCliPrefix ==
  /\ IsEvent("cli_prefix") /\ UNCHANGED <<vars, alen>>
  /\ IF CrashOutcome(alen, E.n) = "err" THEN E.exit # 0 /\ ~E.panic ELSE E.exit = 0

\* a create whose first failing write is at offset f (f < 0: no fault injected)
TFault ==
  /\ IsEvent("fault") /\ UNCHANGED <<vars, alen>>
  /\ IF E.f >= 0 /\ FaultOutcome(alen, E.f) = "err"
     THEN E.result \in {"err", "panic", "signal"} /\ E.exit # 0
     ELSE E.result = "ok" /\ E.exit = 0 /\ E.complete /\ E.opens

TNext == TStart \/ TReg \/ TAdd \/ TBuf \/ TFlush \/ TRaw \/ TClose \/ TOpen \/ TGet \/ TGetId
         \/ TVarint \/ TArchive \/ TOpenPrefix \/ TOpenRange \/ TCliPrefix \/ TFault
TInit == Init /\ l = 1 /\ alen = 0
TSpec == TInit /\ [][TNext]_tvars

Accepted ==
  LET d == TLCGet("stats").diameter IN
  IF d - 1 = Len(Rec) THEN TRUE ELSE PrintT(<<"UNMATCHED", d>>) /\ FALSE
===========================================================================
