SPECIFICATION Spec
CONSTANTS
  W = 64
  TextSizes <- MCTextSizes
  Bounds <- MCBounds
  RefLen = 9
  KeyLen = 2
  MinMatch = 5
  HStep = 4
  Variant = "estimate"
  FinalRule = "wrapping"
INVARIANTS TypeOK NoPlainWrap IndexInRange OvershootPaid FinalValueRepresentable
CHECK_DEADLOCK FALSE
