\* exhaustive model check (thorough tier, first run): length <= 6, all line-ending modes.  The second thorough run is
\* MaxLen = 7 with CrlfModes = {1}.
SPECIFICATION MCSpec
CONSTANTS Variant = "design"
          MaxLen = 6
          FullLen = 6
          SampleMod = 1
          BoringMod = 1
          ThinMod = 1
          Seed = 1
          CrlfModes = {0, 1, 2}
INVARIANTS TypeOK RefinesAndContract
CHECK_DEADLOCK FALSE
