SPECIFICATION MCSpec
CONSTANTS Pack = 1
          RunCap = 100
          MaxReg = 3
          PL = 10
INVARIANTS SamplesPreserved CataloguePreserved PassPreserved WriterShape Progress Emit
CHECK_DEADLOCK FALSE
