--------------------------- MODULE MC_Splitters ---------------------------
(* Bounded model of Splitters.tla: every reference of 1..MaxContigs non-empty contigs *)
(* over Alphabet with MinTotal..MaxTotal symbols in total (contigs of at most MaxLen),  *)
(* every k in Ks and every segment size in Segs; all interleavings of Count/BeginScan. *)
(* The terminal state of every (reference, k, seg) is printed as one JSON line for     *)
(* `rvh replay-splitters` (REPLAY): the model's singleton / duplicate / splitter sets   *)
(* and the segment lengths of the reference split at its own splitters.                 *)
EXTENDS Splitters, TLC, Json

CONSTANTS Ks, Segs, Alphabet, MaxContigs, MaxLen, MinTotal, MaxTotal

Min2(a, b) == IF a <= b THEN a ELSE b
SeqsBetween(lo, hi) == UNION {[1..n -> Alphabet] : n \in lo..hi}

\* all references of exactly m contigs with total length <= t
RECURSIVE RefsOf(_, _)
RefsOf(m, t) ==
  IF m = 0 THEN {<<>>}
  ELSE UNION {{<<a>> \o r : r \in RefsOf(m - 1, t - Len(a))} :
              a \in SeqsBetween(1, Min2(MaxLen, t - (m - 1)))}
RECURSIVE TotalLen(_)
TotalLen(r) == IF r = <<>> THEN 0 ELSE Len(Head(r)) + TotalLen(Tail(r))
Refs == {r \in UNION {RefsOf(m, MaxTotal) : m \in 1..MaxContigs} : TotalLen(r) >= MinTotal}

MCInit == \E rf \in Refs : \E kk \in Ks : \E sg \in Segs : InitWith(rf, kk, sg)
MCSpec == MCInit /\ [][Next]_vars

\* SymmetryLaw does not mention seg: evaluate it for one segment size per (reference, k)
MCSymmetric == (seg = CHOOSE s \in Segs : \A t \in Segs : s <= t) => Symmetric

Emit == Terminal =>
  PrintT(<<"REPLAY", ToJson([k |-> k, seg |-> seg, ref |-> ref,
                             sing |-> Singletons, dup |-> Duplicates, used |-> used,
                             lens |-> [n \in 1..Len(ref) |-> SplitLens(ref[n], used, k)]])>>)
==========================================================================
