------------------------------ MODULE QueueAbs ------------------------------
(* Abstract layer of the byte-bounded priority queue                          *)
(* (ragc-core/src/memory_bounded_queue.rs), property C06.                      *)
(*                                                                             *)
(* State = what is observable at the linearisation points (every operation of  *)
(* the real queue changes its state inside ONE critical section of the single  *)
(* mutex; that critical section is the linearisation point):                   *)
(*   q      - set of queued items [id, sz, pr]; id = identity of the item (the  *)
(*            admission ticket in recorded executions), sz = declared bytes,   *)
(*            pr = its priority (the item's Ord; equal pr = tie)               *)
(*   closed - close() has been linearised                                      *)
(*   acc    - tickets of all items ever accepted by push/try_push              *)
(*   rets   - tickets of all items ever handed out by pull/try_pull            *)
(*   last   - verdict record of the last linearised operation (see below)      *)
(*                                                                             *)
(* Two sets of actions over the same variables:                                *)
(*  O*  "observer" actions: PERMISSIVE - they record what an operation did      *)
(*      (whatever it did) and evaluate, in `last`, each clause of C06 for that  *)
(*      step.  The clauses are then plain state invariants:                     *)
(*        ExactlyOnce, PriorityOrder, Bound, AfterClose, SeqSpec.               *)
(*      Trace validation of the real code uses these, so an execution is never  *)
(*      rejected for incidental behaviour, only for a violated clause.          *)
(*  S*  the STRICT sequential specification (what a linearisable bounded        *)
(*      priority queue may do).  QueueImpl (Queue.tla) is model-checked to      *)
(*      refine it:  [][StrictNext]_absvars.                                     *)
EXTENDS Naturals, FiniteSets

CONSTANT Cap          \* capacity in bytes

VARIABLES q, closed, acc, rets, last
absvars == <<q, closed, acc, rets, last>>

RECURSIVE SumSz(_)
SumSz(S) == IF S = {} THEN 0
            ELSE LET x == CHOOSE y \in S : TRUE IN x.sz + SumSz(S \ {x})
Bytes  == SumSz(q)                       \* bytes queued (sum of declared sizes)
Ids(S) == {x.id : x \in S}
Maxima(S) == {x \in S : \A y \in S : y.pr <= x.pr}

\* verdict of one linearised operation: ev = kind,
\* once/order/close/seq = "this step respected the clause"
V(e, once, order, close, seq) ==
  [ev |-> e, once |-> once, order |-> order, close |-> close, seq |-> seq]

AbsInit == /\ q = {} /\ closed = FALSE /\ acc = {} /\ rets = {}
           /\ last = V("init", TRUE, TRUE, TRUE, TRUE)

-----------------------------------------------------------------------------
\* observer actions (permissive)

\* push / try_push accepted item `it`
OAdmit(it) ==
  /\ q' = q \cup {it}
  /\ acc' = acc \cup {it.id}
  /\ UNCHANGED <<closed, rets>>
  /\ last' = V("admit",
               it.id \notin acc,          \* a fresh ticket: not a second acceptance of the same item
               TRUE,
               ~closed,                   \* after close pushes are refused
               TRUE)

\* pull / try_pull handed out the item with ticket id
OTake(id) ==
  LET its == {x \in q : x.id = id} IN
  /\ q' = q \ its
  /\ rets' = rets \cup {id}
  /\ UNCHANGED <<closed, acc>>
  /\ last' = V("take",
               its # {},                  \* it was queued: accepted and not yet handed out
               \A x \in its : \A y \in q : ~(y.pr > x.pr),   \* nothing strictly higher stays behind
               TRUE, TRUE)

\* push / try_push answered "closed"
ORefuse ==
  /\ UNCHANGED <<q, closed, acc, rets>>
  /\ last' = V("refuse", TRUE, TRUE, TRUE, closed)

\* try_push answered "would block" for an item of sz bytes
OWouldBlock(sz) ==
  /\ UNCHANGED <<q, closed, acc, rets>>
  /\ last' = V("wouldblock", TRUE, TRUE,
               ~closed,                   \* after close pushes are refused (not "full")
               Bytes + sz > Cap)

\* pull answered end-of-stream
OEos ==
  /\ UNCHANGED <<q, closed, acc, rets>>
  /\ last' = V("eos", TRUE, TRUE,
               closed /\ q = {},          \* only after close, and only after the rest was handed out
               TRUE)

\* try_pull answered "nothing"
OEmpty ==
  /\ UNCHANGED <<q, closed, acc, rets>>
  /\ last' = V("empty", TRUE, TRUE, TRUE, q = {})

OClose ==
  /\ closed' = TRUE
  /\ UNCHANGED <<q, acc, rets>>
  /\ last' = V("close", TRUE, TRUE, TRUE, TRUE)

-----------------------------------------------------------------------------
\* C06, clause by clause, as state invariants

\* every accepted item is queued or was handed out exactly once; nothing else is handed out
ExactlyOnce ==
  /\ last.once
  /\ Ids(q) \cap rets = {}
  /\ Ids(q) \cup rets = acc
  /\ Cardinality(Ids(q)) = Cardinality(q)

\* a pull never returns an item while a strictly higher-priority queued item stays behind
PriorityOrder == last.order

\* bytes queued never exceed the capacity whenever each (queued) item individually fits
Bound == (\A x \in q : x.sz <= Cap) => Bytes <= Cap

\* after close: pushes refused, pulls drain and only then report end-of-stream
AfterClose == last.close

\* remaining answers of the sequential specification: "closed" only when closed,
\* "would block" only when the item does not fit, "nothing" only when nothing is queued
SeqSpec == last.seq

-----------------------------------------------------------------------------
\* strict sequential specification (refinement target of QueueImpl)
SAdmit(it)      == ~closed /\ it.id \notin acc /\ OAdmit(it) /\ Bound'
STake(id)       == (\E x \in Maxima(q) : x.id = id) /\ OTake(id)
SRefuse         == closed /\ ORefuse
SWouldBlock(sz) == ~closed /\ Bytes + sz > Cap /\ OWouldBlock(sz)
SEos            == closed /\ q = {} /\ OEos
SEmpty          == q = {} /\ OEmpty
SClose          == OClose

StrictNext ==
  \/ \E it \in q' \ q : SAdmit(it)
  \/ \E id \in Ids(q) : STake(id)
  \/ SRefuse
  \/ \E sz \in 0..(Cap + 1) : SWouldBlock(sz)       \* sizes of the bounded model
  \/ SEos
  \/ SEmpty
  \/ SClose
=============================================================================
