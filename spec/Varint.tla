------------------------------- MODULE Varint -------------------------------
(* The length-prefixed big-endian integer of the AGC container                  *)
(* (ragc-common/src/varint.rs write_varint / read_varint).                      *)
(*                                                                              *)
(* TLC integers are 32 bit, so a u64 is represented as its NORMALISED           *)
(* big-endian base-256 digit sequence: at most 8 digits, no leading zero,       *)
(* 0 = <<>>.  The codec is DEFINED on digit sequences, so nothing is lost:      *)
(*      varint(v) = <<number of digits>> \o digits                              *)
(* Reusable operators: EncodeVarint / DecodeVarintAt / DecodeVarint on byte     *)
(* sequences, LE8 / FromLE8 (the fixed 8-byte little-endian footer length),     *)
(* NatDigits / DigitsNat (conversion for values TLC can hold).                  *)
EXTENDS Naturals, Sequences

IsByte(b) == b \in 0..255
IsByteSeq(s) == \A i \in 1..Len(s) : IsByte(s[i])
IsU64(d) == /\ Len(d) <= 8 /\ IsByteSeq(d) /\ (Len(d) > 0 => d[1] # 0)

RECURSIVE StripZeros(_)
StripZeros(d) == IF d = <<>> \/ d[1] # 0 THEN d ELSE StripZeros(Tail(d))

\* the low 64 bits of a big-endian digit sequence, normalised (what `value <<= 8; value += b` keeps)
Low64(d) == StripZeros(IF Len(d) <= 8 THEN d ELSE SubSeq(d, Len(d) - 7, Len(d)))

\* Nat <-> digits, only for values TLC can hold (< 2^31)
RECURSIVE NatDigits(_)
NatDigits(n) == IF n = 0 THEN <<>> ELSE Append(NatDigits(n \div 256), n % 256)
RECURSIVE DigitsNat(_)
DigitsNat(d) == IF d = <<>> THEN 0 ELSE DigitsNat(SubSeq(d, 1, Len(d) - 1)) * 256 + d[Len(d)]
FitsNat(d) == Len(d) <= 3 \/ (Len(d) = 4 /\ d[1] < 128)

\* order on normalised digit sequences = numeric order
DigitsLeq(a, b) ==
  \/ Len(a) < Len(b)
  \/ /\ Len(a) = Len(b)
     /\ LET df == {i \in 1..Len(a) : a[i] # b[i]} IN
        df = {} \/ (LET m == CHOOSE i \in df : \A j \in df : i <= j IN a[m] < b[m])

-----------------------------------------------------------------------------
\* write_varint: [num_bytes][big-endian bytes], num_bytes minimal (0 for the value 0)
EncodeVarint(d) == <<Len(d)>> \o d
VarintLen(d) == Len(d) + 1

Fail == [ok |-> FALSE, val |-> <<>>, next |-> 0]

\* read_varint at 1-based position p of the byte sequence b, not reading at or beyond `lim`+1.
\* Result: ok, the value, and the position following the encoding.
DecodeVarintIn(b, p, lim) ==
  IF p < 1 \/ p > lim THEN Fail
  ELSE LET n == b[p] IN
       IF p + n > lim THEN Fail
       ELSE [ok |-> TRUE, val |-> Low64(SubSeq(b, p + 1, p + n)), next |-> p + n + 1]
DecodeVarintAt(b, p) == DecodeVarintIn(b, p, Len(b))
DecodeVarint(b) == DecodeVarintAt(b, 1)

\* fixed 8-byte little-endian (the footer length), for n < 2^31
LE8(n) == [i \in 1..8 |-> IF i <= 4 THEN (n \div (256 ^ (i - 1))) % 256 ELSE 0]
\* little-endian bytes b[p..p+7] as a normalised big-endian digit sequence
FromLE8(b, p) == StripZeros([i \in 1..8 |-> b[p + 8 - i]])

-----------------------------------------------------------------------------
\* Laws (checked by MC_Varint on VarintSample):
VarintRoundTrip(d) ==
  LET e == EncodeVarint(d) r == DecodeVarint(e) IN
  /\ r.ok /\ r.val = d /\ r.next = Len(e) + 1 /\ Len(e) = Len(d) + 1
VarintPrefixFails(d) ==
  LET e == EncodeVarint(d) IN \A n \in 0..(Len(e) - 1) : ~DecodeVarint(SubSeq(e, 1, n)).ok
VarintConcat(a, b) ==
  LET e == EncodeVarint(a) \o EncodeVarint(b)
      r1 == DecodeVarintAt(e, 1) r2 == DecodeVarintAt(e, r1.next) IN
  r1.ok /\ r1.val = a /\ r2.ok /\ r2.val = b /\ r2.next = Len(e) + 1

\* the byte-length boundary values 0, 1, 2^8-1, 2^8, ..., 2^56-1, 2^56, 2^63, 2^64-1
Pow(n) == [i \in 1..n |-> IF i = 1 THEN 1 ELSE 0]          \* 256^(n-1)
Ones(n) == [i \in 1..n |-> 255]                            \* 256^n - 1
Boundaries == {<<>>} \cup {Pow(n) : n \in 1..8} \cup {Ones(n) : n \in 1..8}
              \cup {[i \in 1..8 |-> IF i = 1 THEN 128 ELSE 0]}
=============================================================================
