-------------------------- MODULE Trace_Preprocess --------------------------
(* preprocess_raw_contig (ragc-core/src/preprocessing.rs, exported through the   *)
(* FFI; a second, unrolled copy of the symbol conversion of genome_io.rs) against  *)
(* the documented normalisation: bytes below 64 are dropped, letters of either     *)
(* case map to their IUPAC code 0..15 (ACGTNRYSWKMBDHVU), every other letter to 30. *)
(* Growth of the specification beyond the listed properties (DESIGN.md 14.7).      *)
(* Records: inp (bytes: letters and bytes < 64 only - the domain of C16), out.      *)
EXTENDS Naturals, Sequences, SequencesExt, TLC, Json, IOUtils

Rec == ndJsonDeserialize(IOEnv.TRACE)
VARIABLE l
Iupac == <<65, 67, 71, 84, 78, 82, 89, 83, 87, 75, 77, 66, 68, 72, 86, 85>>      \* A C G T N R Y S W K M B D H V U
IsUpper(c) == c >= 65 /\ c <= 90
IsLower(c) == c >= 97 /\ c <= 122
CodeOfUpper(u) == IF \E i \in 1..16 : Iupac[i] = u THEN (CHOOSE i \in 1..16 : Iupac[i] = u) - 1 ELSE 30
Code(c) == IF IsUpper(c) THEN CodeOfUpper(c) ELSE CodeOfUpper(c - 32)
Kept(c) == IsUpper(c) \/ IsLower(c)
Expected(inp) == LET k == SelectSeq(inp, Kept) IN [i \in 1..Len(k) |-> Code(k[i])]

TInit == l = 1
TNext == /\ l <= Len(Rec)
         /\ Rec[l].result = "ok"
         /\ Rec[l].out = Expected(Rec[l].inp)
         /\ l' = l + 1
TSpec == TInit /\ [][TNext]_l
Accepted ==
  LET d == TLCGet("stats").diameter IN
  IF d - 1 = Len(Rec) THEN TRUE ELSE PrintT(<<"UNMATCHED", d>>) /\ FALSE
=============================================================================
