SPECIFICATION Spec
CONSTANTS
  N = 2
  Contigs <- C5
  Mode = "single"
  PackB = 2
  Cap = 3
  TokenRule = "pinned"
  RefSamples = 1
INVARIANTS PriorityInRange
CHECK_DEADLOCK FALSE
