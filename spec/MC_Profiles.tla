---------------------------- MODULE MC_Profiles ----------------------------
EXTENDS Profiles, TLC
MCOperands == 0..5
\* footer fields: small values and "garbage" (anything up to the largest u64, here W - 1)
FooterSafeInv == FooterSafe(14, (0..16) \cup {W - 1})
TokenSafeInv == TokenSafe
============================================================================
