----------------------------- MODULE Splitters -----------------------------
(* Splitter selection (ragc-core/src/splitters.rs, kmer_extract.rs).                    *)
(*                                                                                     *)
(* Two layers.                                                                         *)
(*  1. DECLARATIVE layer = the vocabulary of property C11: window multiplicities of     *)
(*     canonical k-mers (from scratch, no sliding state), SingletonsOf / DuplicatesOf,  *)
(*     the variants of a reference (contig permutation, reverse complement of contigs), *)
(*     the segment lengths obtained by splitting a contig at a splitter set, and the    *)
(*     LAWS of C11 as predicates over (reference, k, segment size, result).             *)
(*  2. ALGORITHM layer = what the code does, as a state machine:                        *)
(*       Count(c)     one contig's canonical k-mers are merged into the multiset `cnt`   *)
(*                    (any order: rayon par_iter + flatten / the sequential streaming    *)
(*                    loops are all interleavings of Count)                              *)
(*       BeginScan(c) second pass over one contig starts "ready to split"                *)
(*       Scan         one base consumed, nothing picked                                  *)
(*       Pick         a full window whose canonical k-mer is a singleton, reached at     *)
(*                    least `seg` bases after the previous pick, becomes a splitter;     *)
(*                    the window and the list of recent k-mers restart                   *)
(*       EndPick      at the contig end the right-most singleton among the k-mers seen   *)
(*                    since the last pick / non-ACGT symbol is added                     *)
(*     TLC proves (bounded) that every behaviour of layer 2 ends in a result that        *)
(*     satisfies the laws of layer 1 and that the result does not depend on the          *)
(*     interleaving.                                                                     *)
(* k and the segment size are parameters of the call, hence variables fixed by Init.     *)
(* k-mers are sequences of 2-bit symbols (Sym.tla); symbol 4 stands for any non-ACGT     *)
(* code (all codes > 3 are treated alike by the code under test: `base > 3`).            *)
EXTENDS Integers, Sequences, FiniteSets, Sym

VARIABLES ref,      \* the reference: a sequence of contigs (sequences of symbols)
          k, seg,   \* k-mer length, segment size
          phase,    \* "count" -> "scan" -> "done"
          cnt,      \* canonical k-mer |-> multiplicity, merged so far
          todoC,    \* contigs whose k-mers are not merged yet
          todoS,    \* contigs not scanned yet
          cur,      \* contig being scanned (0: none)
          pos,      \* bases of contig `cur` consumed
          sc,       \* scan registers [win, curLen, recent]
          used      \* splitters picked so far
vars == <<ref, k, seg, phase, cnt, todoC, todoS, cur, pos, sc, used>>

Range(s) == {s[i] : i \in DOMAIN s}

-----------------------------------------------------------------------------
(*                              DECLARATIVE LAYER                             *)

\* a full window = k consecutive ACGT symbols; its k-mer is the canonical form, from scratch
KmerAt(c, i, kk) == Canon(SubSeq(c, i, i + kk - 1))

\* canonical k-mers of all full windows of a contig in order (a materialised tuple)
RECURSIVE EnumFrom(_, _, _, _)
EnumFrom(c, kk, i, acc) ==
  IF i > Len(c) + 1 - kk THEN acc
  ELSE EnumFrom(c, kk, i + 1,
                IF \A j \in i..(i + kk - 1) : IsACGT(c[j]) THEN Append(acc, KmerAt(c, i, kk)) ELSE acc)
Enum(c, kk) == EnumFrom(c, kk, 1, <<>>)

RECURSIVE EnumAllFrom(_, _, _, _)
EnumAllFrom(rf, kk, n, acc) == IF n > Len(rf) THEN acc ELSE EnumAllFrom(rf, kk, n + 1, acc \o Enum(rf[n], kk))
EnumAll(rf, kk) == EnumAllFrom(rf, kk, 1, <<>>)          \* all windows of the reference

\* multiplicity function of a tuple of k-mers
CountSeq(e) == [x \in Range(e) |-> Cardinality({i \in DOMAIN e : e[i] = x})]
CountOf(rf, kk) == CountSeq(EnumAll(rf, kk))

SinglesOfCount(f) == {x \in DOMAIN f : f[x] = 1}
DupsOfCount(f)    == {x \in DOMAIN f : f[x] > 1}
SingletonsOf(rf, kk) == SinglesOfCount(CountOf(rf, kk))   \* canonical k-mers occurring exactly once
DuplicatesOf(rf, kk) == DupsOfCount(CountOf(rf, kk))      \* ... more than once

\* variants of a reference: contig order p (a permutation of 1..Len(rf)), rc[i] = contig i
\* (of the ORIGINAL numbering) is reverse-complemented
Variant(rf, p, rcm) == [i \in 1..Len(rf) |-> IF rcm[p[i]] THEN RC(rf[p[i]]) ELSE rf[p[i]]]
Perms(n) == {p \in [1..n -> 1..n] : \A i, j \in 1..n : p[i] = p[j] => i = j}

\* the contigs with index in I, in index order
RECURSIVE SubRefFrom(_, _, _)
SubRefFrom(rf, I, n) ==
  IF n > Len(rf) THEN <<>> ELSE (IF n \in I THEN <<rf[n]>> ELSE <<>>) \o SubRefFrom(rf, I, n + 1)
SubRef(rf, I) == SubRefFrom(rf, I, 1)

\* Segment lengths when a contig is split at EVERY window whose canonical k-mer is in S,
\* the window restarting after a split, consecutive segments overlapping by k symbols
\* (segment.rs split_at_splitters_with_size).  st = [win, start (0-based), lens]
RECURSIVE SplitFrom(_, _, _, _, _)
SplitFrom(c, S, kk, i, st) ==
  IF i > Len(c) THEN
     IF st.start < Len(c) THEN Append(st.lens, Len(c) - st.start) ELSE st.lens
  ELSE IF ~IsACGT(c[i]) THEN SplitFrom(c, S, kk, i + 1, [st EXCEPT !.win = <<>>])
  ELSE LET w == LastN(Append(st.win, c[i]), kk) IN
       IF Len(w) = kk /\ Canon(w) \in S
       THEN SplitFrom(c, S, kk, i + 1,
                      [win |-> <<>>, start |-> IF i >= kk THEN i - kk ELSE 0, lens |-> Append(st.lens, i - st.start)])
       ELSE SplitFrom(c, S, kk, i + 1, [st EXCEPT !.win = w])
SplitLens(c, S, kk) ==
  IF Len(c) < kk THEN <<Len(c)>>
  ELSE SplitFrom(c, S, kk, 1, [win |-> <<>>, start |-> 0, lens |-> <<>>])

\* ---- the laws of C11 ----
\* interior segments = all but the first and the last two
InteriorOK(lens, sg) == \A i \in 2..(Len(lens) - 2) : lens[i] >= sg
SubsetLaw(spl, rf, kk)   == spl \subseteq SingletonsOf(rf, kk)
DisjointLaw(sing, dup)   == sing \cap dup = {}
SpacingLaw(spl, rf, kk, sg) == \A n \in 1..Len(rf) : InteriorOK(SplitLens(rf[n], spl, kk), sg)
SymmetryLaw(rf, kk) ==
  LET f0 == CountOf(rf, kk)
      s0 == SinglesOfCount(f0)
      d0 == DupsOfCount(f0)
  IN \A p \in Perms(Len(rf)) : \A rcm \in [1..Len(rf) -> BOOLEAN] :
       LET f == CountOf(Variant(rf, p, rcm), kk) IN
         /\ SinglesOfCount(f) = s0
         /\ DupsOfCount(f) = d0

-----------------------------------------------------------------------------
(*                              ALGORITHM LAYER                               *)

Singletons == SinglesOfCount(cnt)
Duplicates == DupsOfCount(cnt)

\* merge one contig's k-mers into the multiset (commutative and associative)
Merge(f, e) ==
  LET g == CountSeq(e) IN
  [x \in DOMAIN f \cup DOMAIN g |->
      (IF x \in DOMAIN f THEN f[x] ELSE 0) + (IF x \in DOMAIN g THEN g[x] ELSE 0)]

EmptyCount == [x \in {} |-> 0]
ScanStart(sg) == [win |-> <<>>, curLen |-> sg, recent |-> <<>>]     \* "start ready to split"

\* one base of the second pass (find_actual_splitters_in_contig[_named], splitters.rs:385-423)
NextWin(s, b, kk) == LastN(Append(s.win, b), kk)
PickHere(s, b, cands, kk, sg) ==
  /\ IsACGT(b)
  /\ Len(NextWin(s, b, kk)) = kk
  /\ s.curLen >= sg
  /\ Canon(NextWin(s, b, kk)) \in cands
AfterPick == [win |-> <<>>, curLen |-> 1, recent |-> <<>>]           \* current_len = 0; ...; current_len += 1
AfterScan(s, b, kk) ==
  IF ~IsACGT(b) THEN [win |-> <<>>, curLen |-> s.curLen + 1, recent |-> <<>>]
  ELSE LET w == NextWin(s, b, kk) IN
       [win |-> w, curLen |-> s.curLen + 1,
        recent |-> IF Len(w) = kk THEN Append(s.recent, Canon(w)) ELSE s.recent]

\* right-most candidate among the recent k-mers (splitters.rs:426-439, 501-508)
EndChoice(recent, cands) ==
  LET I == {i \in DOMAIN recent : recent[i] \in cands} IN
  IF I = {} THEN {} ELSE {recent[MaxOf(I)]}

\* the whole second pass over one contig as a fold of the same step operators
RECURSIVE ScanFrom(_, _, _, _, _, _, _)
ScanFrom(c, cands, kk, sg, i, s, acc) ==
  IF i > Len(c) THEN acc \cup EndChoice(s.recent, cands)
  ELSE IF PickHere(s, c[i], cands, kk, sg)
       THEN ScanFrom(c, cands, kk, sg, i + 1, AfterPick, acc \cup {Canon(NextWin(s, c[i], kk))})
       ELSE ScanFrom(c, cands, kk, sg, i + 1, AfterScan(s, c[i], kk), acc)
ScanContig(c, cands, kk, sg) == ScanFrom(c, cands, kk, sg, 1, ScanStart(sg), {})

\* result of the algorithm on a reference, independent of any interleaving
ModelSplitters(rf, kk, sg) ==
  LET cands == SingletonsOf(rf, kk) IN UNION {ScanContig(rf[n], cands, kk, sg) : n \in 1..Len(rf)}
ModelSplittersWith(rf, cands, kk, sg) == UNION {ScanContig(rf[n], cands, kk, sg) : n \in 1..Len(rf)}

\* ---- actions ----
InitWith(rf, kk, sg) ==
  /\ ref = rf /\ k = kk /\ seg = sg
  /\ phase = (IF Len(rf) = 0 THEN "done" ELSE "count") /\ cnt = EmptyCount
  /\ todoC = 1..Len(rf) /\ todoS = 1..Len(rf)
  /\ cur = 0 /\ pos = 0 /\ sc = ScanStart(sg) /\ used = {}

Count(c) ==
  /\ phase = "count" /\ c \in todoC
  /\ cnt' = Merge(cnt, Enum(ref[c], k))
  /\ todoC' = todoC \ {c}
  /\ phase' = IF todoC' = {} THEN "scan" ELSE "count"
  /\ UNCHANGED <<ref, k, seg, todoS, cur, pos, sc, used>>

BeginScan(c) ==
  /\ phase = "scan" /\ cur = 0 /\ c \in todoS
  /\ cur' = c /\ pos' = 0 /\ sc' = ScanStart(seg)
  /\ UNCHANGED <<ref, k, seg, phase, cnt, todoC, todoS, used>>

Scan ==
  /\ phase = "scan" /\ cur # 0 /\ pos < Len(ref[cur])
  /\ ~PickHere(sc, ref[cur][pos + 1], Singletons, k, seg)
  /\ sc' = AfterScan(sc, ref[cur][pos + 1], k)
  /\ pos' = pos + 1
  /\ UNCHANGED <<ref, k, seg, phase, cnt, todoC, todoS, cur, used>>

Pick ==
  /\ phase = "scan" /\ cur # 0 /\ pos < Len(ref[cur])
  /\ PickHere(sc, ref[cur][pos + 1], Singletons, k, seg)
  /\ used' = used \cup {Canon(NextWin(sc, ref[cur][pos + 1], k))}
  /\ sc' = AfterPick
  /\ pos' = pos + 1
  /\ UNCHANGED <<ref, k, seg, phase, cnt, todoC, todoS, cur>>

EndPick ==
  /\ phase = "scan" /\ cur # 0 /\ pos = Len(ref[cur])
  /\ used' = used \cup EndChoice(sc.recent, Singletons)
  /\ todoS' = todoS \ {cur}
  /\ cur' = 0 /\ pos' = 0 /\ sc' = ScanStart(seg)
  /\ phase' = IF todoS' = {} THEN "done" ELSE "scan"
  /\ UNCHANGED <<ref, k, seg, cnt, todoC>>

CountSome == \E c \in 1..Len(ref) : Count(c)
BeginSome == \E c \in 1..Len(ref) : BeginScan(c)
Next == CountSome \/ BeginSome \/ Scan \/ Pick \/ EndPick

Terminal == phase = "done"

-----------------------------------------------------------------------------
(*                C11 for the algorithm layer, as invariants                   *)

\* the merged multiset does not depend on the order of the merges (thread count / variant)
\* (evaluated where cnt can have changed: cnt is UNCHANGED by every action of the second pass)
CountDeterministic ==
  (phase = "count" \/ (phase = "scan" /\ cur = 0 /\ todoS = 1..Len(ref)))
     => cnt = CountOf(SubRef(ref, 1..Len(ref) \ todoC), k)

SingletonOnly == used \subseteq Singletons /\ (Terminal => SubsetLaw(used, ref, k))
Disjoint      == DisjointLaw(Singletons, Duplicates)
Spaced        == Terminal => SpacingLaw(used, ref, k, seg)
\* the result is a function of the reference alone (any interleaving of Count / BeginScan)
ResultDeterministic ==
  Terminal => /\ used = ModelSplitters(ref, k, seg)
              /\ Singletons = SingletonsOf(ref, k)
              /\ Duplicates = DuplicatesOf(ref, k)
\* strand / order symmetry of the two sets, stated once per reference (on the state in which the
\* first pass has just finished; it is a statement about ref and k only)
Symmetric == (phase = "scan" /\ cur = 0 /\ todoS = 1..Len(ref)) => SymmetryLaw(ref, k)
\* picks inside one contig are at least seg bases apart (the mechanism behind Spaced)
ScanSane == cur # 0 => (sc.curLen >= 1 /\ Len(sc.win) <= k /\ Len(sc.recent) <= pos)
=============================================================================
