------------------------------ MODULE MC_Queue ------------------------------
(* Bounded model of Queue.tla (QueueImpl + QueueAbs) for C06:                   *)
(*  - safety: the five C06 clauses, NoStuck, NoWaitClosed, refinement of the     *)
(*    strict sequential specification ( [][StrictNext]_absvars );               *)
(*  - liveness under weak fairness of every thread (NOT of spurious wake-ups),   *)
(*    without any state constraint: the model is finite because every thread     *)
(*    has a finite budget of calls;                                              *)
(*  - REPLAY emission: with Hist = TRUE every terminal behaviour is printed as   *)
(*    one JSON line for `rvh replay-queue` / `rvh steer-queue`.                  *)
(* Environment: producers call push / try_push with any (size, priority) from    *)
(* Sizes x Prios, consumers call pull / try_pull and stop at end-of-stream,      *)
(* closers call close; a thread may have several roles.                          *)
EXTENDS Queue, Sequences, TLC, Json

CONSTANTS Producers, Consumers, Closers,  \* subsets of Threads (model values, or strings for REPLAY)
          NPush, NPull, NClose,           \* calls per thread (by first matching role)
          Extra,                          \* producers that make one call more than NPush
          Sizes, Prios,                   \* argument domains of push
          PModes, CModes,                 \* subsets of {"push","try_push"} / {"pull","try_pull"}
          Spur,                           \* spurious wake-ups possible
          Eager,                          \* REPLAY: a new call starts only when no wake-up is in flight
          NoBlock,                        \* REPLAY (one thread): never start a call that would block
          Hist                            \* keep the history variable h

VARIABLES left,   \* remaining calls per thread
          h       \* history (REPLAY emission only)
mcvars == <<q, closed, acc, rets, last, pc, arg, left, h>>

Budget(t) == IF t \in Producers THEN NPush + (IF t \in Extra THEN 1 ELSE 0)
             ELSE IF t \in Consumers THEN NPull ELSE NClose

\* threads with the same role and budget are interchangeable (safety runs only)
Sym == Permutations(Producers \ Extra) \cup Permutations(Extra) \cup Permutations(Consumers)

MCInit == Init /\ left = [t \in Threads |-> Budget(t)] /\ h = <<>>

EosNow == q = {} /\ closed

Rec(t, step, x) ==
  [t |-> t, step |-> step, sz |-> x.sz, pr |-> x.pr, id |-> x.id,
   res |-> IF pc'[t] \in {"pwait", "cwait"} THEN "wait" ELSE last'.ev,
   rid |-> IF Cardinality(q') < Cardinality(q) THEN (CHOOSE y \in q \ q' : TRUE).id ELSE 0,
   len |-> Cardinality(q'), cur |-> SumSz(q'), closed |-> closed', bag |-> Ids(q'),
   pcs |-> pc', quiet |-> Quiet']
Log(t, step, x) == h' = IF Hist THEN Append(h, Rec(t, step, x)) ELSE h

StartPush(t) ==
  /\ t \in Producers
  /\ \E m \in PModes, sz \in Sizes, pr \in Prios :
       \* the item is named by its pusher and call number (independent of the interleaving)
       LET x == [id |-> <<t, Budget(t) - left[t] + 1>>, sz |-> sz, pr |-> pr] IN
       /\ IF m = "push" THEN (NoBlock => ~MustWaitPush(x)) /\ Push(t, x) ELSE TryPush(t, x)
       /\ left' = [left EXCEPT ![t] = @ - 1]
       /\ Log(t, m, x)

StartPull(t) ==
  /\ t \in Consumers
  /\ \E m \in CModes :
       /\ IF m = "pull" THEN (NoBlock => ~(q = {} /\ ~closed)) /\ Pull(t) ELSE TryPull(t)
       /\ left' = [left EXCEPT ![t] = IF m = "pull" /\ EosNow THEN 0 ELSE @ - 1]
       /\ Log(t, m, NoArg)

StartClose(t) ==
  /\ t \in Closers
  /\ Close(t)
  /\ left' = [left EXCEPT ![t] = @ - 1]
  /\ Log(t, "close", NoArg)

Start(t) ==
  /\ pc[t] = "idle" /\ left[t] > 0
  /\ Eager => Quiet
  /\ (StartPush(t) \/ StartPull(t) \/ StartClose(t))

Wake(t) ==
  /\ \/ PushWake(t) /\ left' = left
     \/ PullWake(t) /\ left' = [left EXCEPT ![t] = IF EosNow THEN 0 ELSE @]
  /\ Log(t, "wake", arg[t])

SpuriousStep(t) ==
  /\ Spur
  /\ Spurious(t)
  /\ UNCHANGED left
  /\ Log(t, "spurious", NoArg)

ThreadStep(t) == Start(t) \/ Wake(t)
MCNext == \E t \in Threads : ThreadStep(t) \/ SpuriousStep(t)

MCSpec   == MCInit /\ [][MCNext]_mcvars
FairSpec == MCSpec /\ \A t \in Threads : WF_mcvars(ThreadStep(t))

-----------------------------------------------------------------------------
\* refinement of the strict sequential specification
Refines == [][StrictNext]_absvars

\* liveness (checked under FairSpec, no state constraint)
\* after close, eventually and for good nobody is inside a blocking call
NobodyStaysBlocked == <>[](closed => \A t \in Threads : pc[t] = "idle")
\* a consumer does not stay blocked while items are queued
ConsumerServed ==
  \A c \in Consumers : (pc[c] = "cwait" /\ q # {}) ~> ~(pc[c] = "cwait" /\ q # {})
\* with a closer present every thread finishes all its calls
Done == \A t \in Threads : pc[t] = "idle" /\ left[t] = 0
Termination == (Closers # {} /\ NClose > 0) => <>[]Done
\* every accepted item is eventually handed out if consumers may pull often enough
\* (stated for configurations where NPull exceeds the number of pushes)
AllDelivered == (Closers # {} /\ NClose > 0 /\ Consumers # {} /\ NPull > NPush * Cardinality(Producers) + Cardinality(Extra)
                 /\ CModes = {"pull"} /\ Consumers \cap Producers = {})
                => <>[](rets = acc)

\* without any close (so nothing but the notifications of push / pull themselves can wake a
\* blocked thread): consumers that only use the blocking pull and may pull often enough get
\* every accepted item - a lost wake-up would leave an item queued for ever
DeliveredWithoutClose ==
  (Closers = {} /\ Consumers # {} /\ CModes = {"pull"} /\ Consumers \cap Producers = {}
     /\ NPull >= NPush * Cardinality(Producers) + Cardinality(Extra))
  => <>[](rets = acc)

-----------------------------------------------------------------------------
Terminal == /\ Quiet
            /\ \A t \in Threads : pc[t] \in {"pwait", "cwait"} \/ left[t] = 0
Emit == (Hist /\ Terminal) =>
          PrintT(<<"REPLAY", ToJson([cap |-> Cap, threads |-> Threads, steps |-> h])>>)
=============================================================================
