SPECIFICATION Spec
CONSTANTS
  W = 64
  TextSizes <- MCTextSizes
  Bounds <- MCBounds
  RefLen = 9
  KeyLen = 2
  MinMatch = 5
  HStep = 4
  Variant = "encode"
  FinalRule = "wrapping"
INVARIANTS TypeOK NoPlainWrap EncodeExact EncodeInside
CHECK_DEADLOCK FALSE
