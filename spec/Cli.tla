-------------------------------- MODULE Cli --------------------------------
(* Command-level contract of the ragc CLI (ragc-cli/src/main.rs) for property C17:          *)
(*   getset with several names / a prefix composes the single-sample extractions in         *)
(*   request / archive order, to stdout and to -o; every failure gives a non-zero exit;     *)
(*   create exiting 0 implies the archive exists and lists every input sample.              *)
(*                                                                                          *)
(* Two layers.                                                                              *)
(*  CONTRACT   ReadOutcomes / Allowed: what a command may answer, given the archive that    *)
(*             is at the path.  This is the part REPLAY and TRACE bind to the real binary.  *)
(*  MECHANISM  the calls the code makes (create_archive mode dispatch 483-842;              *)
(*             getset_command 1109-1166: per-sample write_sample_fasta into one path        *)
(*             (File::create truncates, genome_io.rs 245-248), then copy to the             *)
(*             destination; listset/listctg 1168-1222) as small steps over an abstract      *)
(*             file system.  TLC checks MECHANISM against CONTRACT (Conforms) and the        *)
(*             property statements (CompositionLaw, PrefixLaw, ExitTruth, CreateTruth).     *)
(*             Variant selects the code as it is ("fixed") or one of the historic /         *)
(*             plausible wrong variants used as negative controls of the invariants.        *)
(*                                                                                          *)
(* Names are sequences of small naturals (character codes) so that "prefix" is definable.   *)
(* An archive is abstracted to its catalogue: sample names in archive order and the number   *)
(* of records of each sample.  Output is a sequence of items: rec(sample,i) = the i-th       *)
(* record of the single-sample extraction of `sample`, smp(sample), ctg(sample,i).           *)
EXTENDS Naturals, Sequences, FiniteSets

CONSTANT Variant   \* "fixed" | "truncating" (pre-78e4b19) | "batchfall" (pre-7f20ad9) | "skipunknown" | "skipinput"

VARIABLES arch,    \* what is at the archive path: [kind, cat, nrec]
          pc,      \* "idle" | "run" | "loop" | "push" | "done"
          op,      \* the command being executed / last executed
          pre,     \* arch when the command was issued
          todo,    \* getset: samples_to_extract
          idx,     \* loop index (getset: sample, create: input file)
          acc,     \* getset: `contents` buffer
          tmp,     \* getset: the temp file agc_extract_<pid>.fasta
          ofile,   \* the -o file
          stdout,  \* bytes written to stdout
          pushed,  \* create: samples registered so far
          res      \* [exit |-> "ok" | "fail"] of the last command

mech == <<pc, op, pre, todo, idx, acc, tmp, ofile, stdout, pushed, res>>
vars == <<arch, mech>>

----------------------------------------------------------------------------
\* generic
Range(s) == {s[i] : i \in DOMAIN s}
IsPrefix(p, n) == Len(p) <= Len(n) /\ \A i \in 1..Len(p) : p[i] = n[i]
RECURSIVE Flat(_)
Flat(ss) == IF ss = <<>> THEN <<>> ELSE Head(ss) \o Flat(Tail(ss))

\* archives
NoArch  == [kind |-> "none", cat |-> <<>>, nrec |-> <<>>]     \* nothing at the path
BadArch == [kind |-> "bad",  cat |-> <<>>, nrec |-> <<>>]     \* something that is not a readable archive
AnyArch == [kind |-> "any",  cat |-> <<>>, nrec |-> <<>>]     \* unspecified (left behind by a failed create)
AsTuple(f) == <<>> \o f                                         \* a function on 1..n as a tuple value
Good(samples) == [kind |-> "good",
                  cat  |-> AsTuple([i \in 1..Len(samples) |-> samples[i].name]),
                  nrec |-> AsTuple([i \in 1..Len(samples) |-> samples[i].nrec])]
Known(a, n) == n \in Range(a.cat)
Pos(a, n)   == CHOOSE j \in 1..Len(a.cat) : a.cat[j] = n
NRec(a, n)  == a.nrec[Pos(a, n)]

\* output items
Item(t, n, i)  == [t |-> t, s |-> n, i |-> i]
Records(a, n)  == AsTuple([i \in 1..NRec(a, n) |-> Item("rec", n, i)])    \* single-sample extraction of n
Ctgs(a, n)     == AsTuple([i \in 1..NRec(a, n) |-> Item("ctg", n, i)])    \* `listctg n`
Smps(a)        == AsTuple([j \in 1..Len(a.cat) |-> Item("smp", a.cat[j], 0)])

----------------------------------------------------------------------------
\* CONTRACT
(* A command is a record with the fields                                                     *)
(*   cmd "create" | "getset" | "listset" | "listctg"                                        *)
(*   mode "names" | "prefix", names, prefix, dest "stdout" | "file" | "badfile"   (readers)   *)
(*   batch, adaptive, concat, threads, qcap, inputs, outpath "ok" | "unwritable"  (create)    *)
(*   inputs[i] = [readable, samples |-> <<[name, nrec], ...>>]                                *)

\* samples a getset extracts: request order for names, archive order for a prefix
Selection(c, a) ==
  IF c.mode = "prefix" THEN SelectSeq(a.cat, LAMBDA n : IsPrefix(c.prefix, n)) ELSE c.names

Fail(a)           == [exit |-> "fail", out |-> <<>>, parts |-> <<>>, arch |-> a]
Ok(out, parts, a) == [exit |-> "ok", out |-> out, parts |-> parts, arch |-> a]

\* getset / listset / listctg on archive a.  `parts`: the single-sample answers whose
\* concatenation the output must equal byte for byte.
ReadOutcomes(c, a) ==
  IF a.kind # "good" \/ c.dest = "badfile" THEN {Fail(a)}          \* unreadable archive / unwritable -o
  ELSE IF c.cmd = "listset" THEN {Ok(Smps(a), <<>>, a)}
  ELSE LET sel == IF c.cmd = "getset" THEN Selection(c, a) ELSE c.names IN
       IF sel = <<>> THEN {Fail(a), Ok(<<>>, <<>>, a)}            \* nothing selected: outside the property, both accepted
       ELSE IF \E i \in DOMAIN sel : ~Known(a, sel[i]) THEN {Fail(a)}   \* unknown sample
       ELSE IF c.cmd = "getset"
            THEN {Ok(Flat([i \in DOMAIN sel |-> Records(a, sel[i])]), sel, a)}
            ELSE {Ok(Flat([i \in DOMAIN sel |-> Ctgs(a, sel[i])]), sel, a)}

InputSamples(c) == Flat([i \in DOMAIN c.inputs |-> c.inputs[i].samples])
MustFail(c)     == c.outpath # "ok" \/ \E i \in DOMAIN c.inputs : ~c.inputs[i].readable
ListsAll(a, samples) ==
  /\ a.kind = "good"
  /\ \A i \in DOMAIN samples : Known(a, samples[i].name) /\ NRec(a, samples[i].name) = samples[i].nrec

(* r = [exit, out, arch]: what was observed after command c was run on archive a.            *)
(* create: may always fail (nothing is promised about what a failed create leaves behind);   *)
(* exit 0 is allowed only if nothing had to fail and the archive then lists every input      *)
(* sample.  Which flag combinations are supported is the code's choice: an unsupported       *)
(* combination can only fail, because exit 0 obliges it to have produced the archive.        *)
Allowed(c, a, r) ==
  IF c.cmd = "create"
  THEN \/ r.exit = "fail"
       \/ r.exit = "ok" /\ ~MustFail(c) /\ ListsAll(r.arch, InputSamples(c))
  ELSE /\ r.arch = a                                                \* readers do not touch the archive
       /\ \E o \in ReadOutcomes(c, a) : o.exit = r.exit /\ (r.exit = "ok" => r.out = o.out)

----------------------------------------------------------------------------
\* MECHANISM
InitWith(a) ==
  /\ arch = a /\ pc = "idle" /\ op = [cmd |-> "none"] /\ pre = a
  /\ todo = <<>> /\ idx = 1 /\ acc = <<>> /\ tmp = <<>> /\ ofile = <<>> /\ stdout = <<>> /\ pushed = <<>>
  /\ res = [exit |-> "ok"]
Init == InitWith(NoArch)

Issue(c) ==
  /\ pc \in {"idle", "done"}
  /\ pc' = "run" /\ op' = c /\ pre' = arch
  /\ todo' = <<>> /\ idx' = 1 /\ acc' = <<>> /\ tmp' = <<>> /\ ofile' = <<>> /\ stdout' = <<>> /\ pushed' = <<>>
  /\ UNCHANGED <<arch, res>>

Finish(e) == pc' = "done" /\ res' = [exit |-> e]

\* getset_command: Decompressor::open(..)?, then the choice of samples_to_extract
GsOpen ==
  /\ pc = "run" /\ op.cmd = "getset"
  /\ UNCHANGED <<arch, op, pre, idx, acc, tmp, ofile, stdout, pushed>>
  /\ IF arch.kind # "good" THEN Finish("fail") /\ UNCHANGED todo
     ELSE LET sel == Selection(op, arch) IN
          IF sel = <<>> THEN Finish("fail") /\ UNCHANGED todo        \* bail!("No samples found..") / bail!("Must specify..")
          ELSE pc' = "loop" /\ todo' = sel /\ UNCHANGED res

\* one iteration: write_sample_fasta(name, path)?  (get_sample fails before the file is created)
GsSample ==
  /\ pc = "loop" /\ op.cmd = "getset" /\ idx <= Len(todo)
  /\ UNCHANGED <<arch, op, pre, todo, stdout, pushed>>
  /\ LET n == todo[idx] IN
     IF ~Known(arch, n)
     THEN IF Variant = "skipunknown"
          THEN idx' = idx + 1 /\ UNCHANGED <<pc, res, acc, tmp, ofile>>
          ELSE Finish("fail") /\ UNCHANGED <<idx, acc, tmp, ofile>>
     ELSE IF Variant = "truncating"
          THEN \* pre-78e4b19: every sample is written to the destination path itself (File::create truncates)
               IF op.dest = "stdout"
               THEN tmp' = Records(arch, n) /\ idx' = idx + 1 /\ UNCHANGED <<pc, res, acc, ofile>>
               ELSE IF op.dest = "badfile"
               THEN Finish("fail") /\ UNCHANGED <<idx, acc, tmp, ofile>>
               ELSE ofile' = Records(arch, n) /\ idx' = idx + 1 /\ UNCHANGED <<pc, res, acc, tmp>>
          ELSE \* temp file (re)created with this sample, then appended to `contents`
               /\ tmp' = Records(arch, n) /\ acc' = acc \o Records(arch, n) /\ idx' = idx + 1
               /\ UNCHANGED <<pc, res, ofile>>

\* after the loop: contents -> -o file or stdout
GsEnd ==
  /\ pc = "loop" /\ op.cmd = "getset" /\ idx > Len(todo)
  /\ UNCHANGED <<arch, op, pre, todo, idx, acc, tmp, pushed>>
  /\ IF Variant = "truncating"
     THEN /\ Finish("ok")
          /\ IF op.dest = "stdout" THEN stdout' = tmp /\ UNCHANGED ofile ELSE UNCHANGED <<stdout, ofile>>
     ELSE IF op.dest = "badfile" THEN Finish("fail") /\ UNCHANGED <<stdout, ofile>>
     ELSE /\ Finish("ok")
          /\ IF op.dest = "stdout" THEN stdout' = acc /\ UNCHANGED ofile ELSE ofile' = acc /\ UNCHANGED stdout

\* listset_command / listctg_command (lines are collected first, then written)
LsRun ==
  /\ pc = "run" /\ op.cmd \in {"listset", "listctg"}
  /\ UNCHANGED <<arch, op, pre, todo, idx, acc, tmp, pushed>>
  /\ IF \/ arch.kind # "good"
        \/ op.dest = "badfile"
        \/ (op.cmd = "listctg" /\ \E i \in DOMAIN op.names : ~Known(arch, op.names[i]))
     THEN Finish("fail") /\ UNCHANGED <<stdout, ofile>>
     ELSE LET out == IF op.cmd = "listset" THEN Smps(arch)
                     ELSE Flat([i \in DOMAIN op.names |-> Ctgs(arch, op.names[i])]) IN
          /\ Finish("ok")
          /\ IF op.dest = "stdout" THEN stdout' = out /\ UNCHANGED ofile ELSE ofile' = out /\ UNCHANGED stdout

\* create_archive: mode dispatch, capacity, splitters from inputs[1], output opened (truncated)
CrDispatch ==
  /\ pc = "run" /\ op.cmd = "create"
  /\ UNCHANGED <<op, pre, todo, idx, acc, tmp, ofile, stdout, pushed>>
  /\ IF op.batch
     THEN (IF Variant = "batchfall" THEN Finish("ok") ELSE Finish("fail")) /\ UNCHANGED arch   \* :839-841
     ELSE IF op.adaptive \/ op.concat THEN Finish("fail") /\ UNCHANGED arch                      \* :602-606
     ELSE IF op.qcap = "invalid" THEN Finish("fail") /\ UNCHANGED arch                           \* parse_capacity(..)?
     ELSE IF ~op.inputs[1].readable THEN Finish("fail") /\ UNCHANGED arch                        \* splitter discovery
     ELSE IF op.outpath # "ok" THEN Finish("fail") /\ UNCHANGED arch                             \* with_splitters: File::create
     ELSE pc' = "push" /\ arch' = AnyArch /\ UNCHANGED res

\* one input file: MultiFileIterator::new(..)? and push of all its records
CrPush ==
  /\ pc = "push" /\ idx <= Len(op.inputs)
  /\ UNCHANGED <<arch, op, pre, todo, acc, tmp, ofile, stdout>>
  /\ IF ~op.inputs[idx].readable
     THEN IF Variant = "skipinput"
          THEN idx' = idx + 1 /\ UNCHANGED <<pc, res, pushed>>
          ELSE Finish("fail") /\ UNCHANGED <<idx, pushed>>
     ELSE pushed' = pushed \o op.inputs[idx].samples /\ idx' = idx + 1 /\ UNCHANGED <<pc, res>>

\* finalize: catalogue = samples in push order
CrFinalize ==
  /\ pc = "push" /\ idx > Len(op.inputs)
  /\ arch' = Good(pushed) /\ Finish("ok")
  /\ UNCHANGED <<op, pre, todo, idx, acc, tmp, ofile, stdout, pushed>>

Step == GsOpen \/ GsSample \/ GsEnd \/ LsRun \/ CrDispatch \/ CrPush \/ CrFinalize

----------------------------------------------------------------------------
\* what an observer sees once the command has exited
Done   == pc = "done"
ObsOut == IF op.dest = "stdout" THEN stdout ELSE ofile
Result == [exit |-> res.exit, out |-> IF op.cmd = "create" THEN <<>> ELSE ObsOut, arch |-> arch]

\* MECHANISM refines CONTRACT
Conforms == Done => Allowed(op, pre, Result)

\* --- C17 as invariants over completed commands (stated independently of Allowed) ---
\* single-sample extraction, then composition in request order
SingleLaw ==
  (Done /\ op.cmd = "getset" /\ op.mode = "names" /\ Len(op.names) = 1 /\ res.exit = "ok")
     => ObsOut = Records(pre, op.names[1])
CompositionLaw ==
  (Done /\ op.cmd = "getset" /\ op.mode = "names" /\ res.exit = "ok")
     => ObsOut = Flat([i \in DOMAIN op.names |-> Records(pre, op.names[i])])
\* a prefix selects exactly the matching samples, in archive order
PrefixLaw ==
  (Done /\ op.cmd = "getset" /\ op.mode = "prefix" /\ res.exit = "ok")
     => \E f \in [1..Len(todo) -> 1..Len(pre.cat)] :
           /\ \A i, j \in DOMAIN f : i < j => f[i] < f[j]
           /\ \A i \in DOMAIN f : todo[i] = pre.cat[f[i]]
           /\ {pre.cat[j] : j \in {k \in 1..Len(pre.cat) : IsPrefix(op.prefix, pre.cat[k])}} = Range(todo)
           /\ ObsOut = Flat([i \in DOMAIN todo |-> Records(pre, todo[i])])
\* every failure gives a non-zero exit
ExitTruth ==
  (Done /\ res.exit = "ok") =>
     IF op.cmd = "create" THEN ~MustFail(op)
     ELSE /\ pre.kind = "good" /\ op.dest # "badfile"
          /\ op.cmd = "listctg" => \A i \in DOMAIN op.names : Known(pre, op.names[i])
          /\ (op.cmd = "getset" /\ op.mode = "names") => \A i \in DOMAIN op.names : Known(pre, op.names[i])
\* create exiting 0 => the archive exists and lists every input sample
CreateTruth ==
  (Done /\ op.cmd = "create" /\ res.exit = "ok") => ListsAll(arch, InputSamples(op))
\* readers leave the archive alone
ReadOnly == (Done /\ op.cmd # "create") => arch = pre
=============================================================================
