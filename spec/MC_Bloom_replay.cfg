SPECIFICATION MSpec
CONSTANTS
  Kmers = {1, 2, 3}
  NH = 2
  Sizes = {1, 64, 65, 1000}
  HSpace <- OneH
  MaxOps = 4
  Emit = TRUE
INVARIANTS ReplayOut
CHECK_DEADLOCK FALSE
