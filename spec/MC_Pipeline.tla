---------------------------- MODULE MC_Pipeline ----------------------------
EXTENDS Pipeline
\* contig lists used by the bounded configurations (sample ids are 1,2,...; sizes in bytes)
C5  == <<[sample |-> 1, size |-> 2], [sample |-> 1, size |-> 1], [sample |-> 1, size |-> 2], [sample |-> 2, size |-> 1], [sample |-> 2, size |-> 2]>>
C6  == <<[sample |-> 1, size |-> 1], [sample |-> 1, size |-> 2], [sample |-> 2, size |-> 1], [sample |-> 2, size |-> 1], [sample |-> 2, size |-> 2], [sample |-> 3, size |-> 1]>>
C4m == <<[sample |-> 1, size |-> 2], [sample |-> 1, size |-> 1], [sample |-> 2, size |-> 3], [sample |-> 3, size |-> 1]>>
C3z == <<[sample |-> 1, size |-> 0], [sample |-> 1, size |-> 3], [sample |-> 2, size |-> 0]>>
============================================================================
