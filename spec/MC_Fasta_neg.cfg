\* negative control: a wrong reader (here the pre-329462b one: an empty record / a leading blank line is "end of
\* input") MUST violate ReaderMeetsContract.  Other variants: dropUnterminated crInHeader keepUnknown code15 lowerMissing
SPECIFICATION MCSpec
CONSTANTS Variant = "eofOnEmpty"
          MaxLen = 3
          FullLen = 3
          SampleMod = 1
          BoringMod = 1
          ThinMod = 1
          Seed = 1
          CrlfModes = {0, 1}
INVARIANTS ReaderMeetsContract
CHECK_DEADLOCK FALSE
