SPECIFICATION MCSpec
CONSTANTS RunCap = 100
          MaxNames = 3
          DoEmit = TRUE
          NameSet <- N_short2t
INVARIANTS Law Emit
CHECK_DEADLOCK FALSE
