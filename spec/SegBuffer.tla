------------------------------ MODULE SegBuffer ------------------------------
(* The buffered-segment store of the C++-style worker pipeline                 *)
(* (ragc-core/src/segment_buffer.rs: SegmentPartList, BufferedSegments; used by  *)
(* worker.rs).  Growth of the specification beyond the listed properties          *)
(* (DESIGN.md 14.7).  One action per public method, shaped like the code:         *)
(*                                                                               *)
(*  lists[g]   the vector of group g (KNOWN segments), with a virtual begin vb[g]: *)
(*             pop() hands out lists[g][vb[g]+1] and advances vb[g]; a pop on an    *)
(*             exhausted list CLEARS the vector and resets vb[g]                   *)
(*  news       the NEW segments: an ordered SET keyed by (sample, contig, part) -    *)
(*             the element type's Ord looks at those three fields only, so a second  *)
(*             add_new with the same key is dropped (first wins)                    *)
(*  avid       the atomic read cursor (restart_read_vec / get_vec_id)               *)
(*                                                                               *)
(* Workflow of the callers: add_known / add_new  ->  sort_known, process_new,       *)
(* distribute_segments  ->  restart_read_vec, get_vec_id, get_part  ->  clear.       *)
(* The model does not force that order; it states what every method does in any      *)
(* state, and the laws below hold for every order.                                  *)
EXTENDS Naturals, Integers, Sequences, FiniteSets, SequencesExt, Functions

CONSTANTS Parts,      \* universe of segment parts: records [k1, k2, s, c, p, d]
          G0,         \* number of groups at construction (no_raw_groups)
          MaxG        \* bound on the number of groups (model only)

VARIABLES lists, vb, news, avid
vars == <<lists, vb, news, avid>>

Key3(x) == <<x.s, x.c, x.p>>
LessKey(a, b) == \/ a.s < b.s
                 \/ a.s = b.s /\ a.c < b.c
                 \/ a.s = b.s /\ a.c = b.c /\ a.p < b.p
LeqKey(a, b) == LessKey(a, b) \/ Key3(a) = Key3(b)
NG == Len(lists)

Init == /\ lists = [g \in 1..G0 |-> <<>>] /\ vb = [g \in 1..G0 |-> 0]
        /\ news = {} /\ avid = 0

\* stable insertion sort by (sample, contig, part): Vec::sort is stable
RECURSIVE InsertSorted(_, _)
InsertSorted(srt, x) ==
  IF srt = <<>> THEN <<x>>
  ELSE IF LessKey(x, Head(srt)) THEN <<x>> \o srt
  ELSE <<Head(srt)>> \o InsertSorted(Tail(srt), x)
RECURSIVE StableSort(_)
StableSort(sq) == IF sq = <<>> THEN <<>> ELSE InsertSorted(StableSort(SubSeq(sq, 1, Len(sq) - 1)), sq[Len(sq)])
\* NB: inserting the LAST element after all elements with a smaller-or-equal key keeps equal keys in input order

\* the NEW set in iteration order (BTreeSet order = key order)
RECURSIVE NewsSeq(_)
NewsSeq(S) == IF S = {} THEN <<>>
              ELSE LET m == CHOOSE x \in S : \A y \in S : LeqKey(x, y) IN <<m>> \o NewsSeq(S \ {m})

\* ---- methods (groups are 0-based in the code, 1-based here: g = group_id + 1) -------------------
AddKnown(g, x) ==
  /\ g \in 1..NG
  /\ lists' = [lists EXCEPT ![g] = Append(@, x)]
  /\ UNCHANGED <<vb, news, avid>>

AddNew(x) ==
  /\ news' = IF \E y \in news : Key3(y) = Key3(x) THEN news ELSE news \cup {x}
  /\ UNCHANGED <<lists, vb, avid>>

\* The code sorts the WHOLE vector, also the part before the virtual begin: after a partial read that would hand out a part twice
\* and lose another one.  The callers only sort before reading (all virtual begins 0): that is the contract, stated as the guard.
SortKnown ==
  /\ \A g \in 1..NG : vb[g] = 0
  /\ lists' = [g \in 1..NG |-> StableSort(lists[g])]
  /\ UNCHANGED <<vb, news, avid>>

\* process_new(global): global = function (k1,k2) -> existing group (1-based), must name existing groups
\* assignment of new group ids: in iteration order of the NEW set, one id per unseen (k1,k2)
RECURSIVE Assign(_, _, _, _)
Assign(sq, global, m, nextg) ==
  IF sq = <<>> THEN [m |-> m, nextg |-> nextg]
  ELSE LET key == <<Head(sq).k1, Head(sq).k2>> IN
       IF key \in DOMAIN global THEN Assign(Tail(sq), global, [k \in (DOMAIN m) \cup {key} |-> IF k = key THEN global[key] ELSE m[k]], nextg)
       ELSE IF key \in DOMAIN m THEN Assign(Tail(sq), global, m, nextg)
       ELSE Assign(Tail(sq), global, [k \in (DOMAIN m) \cup {key} |-> IF k = key THEN nextg ELSE m[k]], nextg + 1)
RECURSIVE Place(_, _, _)
Place(sq, m, ls) ==
  IF sq = <<>> THEN ls
  ELSE LET g == m[<<Head(sq).k1, Head(sq).k2>>] IN Place(Tail(sq), m, [ls EXCEPT ![g] = Append(@, Head(sq))])

ProcessNewResult(global) ==
  LET sq == NewsSeq(news)
      a == Assign(sq, global, <<>>, NG + 1)
      grown == [g \in 1..(a.nextg - 1) |-> IF g <= NG THEN lists[g] ELSE <<>>]
  IN [lists |-> Place(sq, a.m, grown), noNew |-> a.nextg - 1 - NG, m |-> a.m]

ProcessNew(global) ==
  /\ \A k \in DOMAIN global : global[k] \in 1..NG           \* precondition of the code (otherwise: index out of bounds)
  /\ IF news = {} THEN UNCHANGED <<lists, vb>>
     ELSE LET r == ProcessNewResult(global) IN
          /\ Len(r.lists) <= MaxG
          /\ lists' = r.lists
          /\ vb' = [g \in 1..Len(r.lists) |-> IF g <= NG THEN vb[g] ELSE 0]
  /\ news' = {}
  /\ UNCHANGED avid

\* pop on list g: [part |-> x or "none", lists, vb]
Pop(ls, v, g) ==
  IF v[g] >= Len(ls[g])
  THEN [some |-> FALSE, part |-> <<>>, lists |-> [ls EXCEPT ![g] = <<>>], vb |-> [v EXCEPT ![g] = 0]]
  ELSE [some |-> TRUE, part |-> ls[g][v[g] + 1], lists |-> ls, vb |-> [v EXCEPT ![g] = @ + 1]]

\* distribute_segments(src, from, to): round-robin over [from, to), `size` iterations; nothing is popped when the
\* destination is the source itself
RECURSIVE Distr(_, _, _, _, _, _, _)
Distr(n, ls, v, src, cur, from, to) ==
  IF n = 0 THEN [lists |-> ls, vb |-> v]
  ELSE LET nxt == IF cur + 1 = to THEN from ELSE cur + 1 IN
       IF cur = src THEN Distr(n - 1, ls, v, src, nxt, from, to)
       ELSE LET r == Pop(ls, v, src) IN
            IF r.some THEN Distr(n - 1, [r.lists EXCEPT ![cur] = Append(@, r.part)], r.vb, src, nxt, from, to)
            ELSE Distr(n - 1, r.lists, r.vb, src, nxt, from, to)

Distribute(src, from, to) ==
  /\ src \in 1..NG /\ from \in 1..NG /\ to \in (from + 1)..(NG + 1)      \* precondition: non-empty destination range inside the table
  /\ LET r == Distr(Len(lists[src]), lists, vb, src, from, from, to) IN lists' = r.lists /\ vb' = r.vb
  /\ UNCHANGED <<news, avid>>

Clear ==
  /\ lists' = [g \in 1..NG |-> <<>>] /\ vb' = [g \in 1..NG |-> 0] /\ news' = {}
  /\ UNCHANGED avid

RestartRead == avid' = NG - 1 /\ UNCHANGED <<lists, vb, news>>
GetVecId == avid' = avid - 1 /\ UNCHANGED <<lists, vb, news>>             \* returns avid (the old value)

\* get_part(group_id): out-of-range ids answer None without touching anything
GetPart(g) ==
  IF g \in 1..NG
  THEN LET r == Pop(lists, vb, g) IN lists' = r.lists /\ vb' = r.vb /\ UNCHANGED <<news, avid>>
  ELSE UNCHANGED vars
GetPartAnswer(g) == IF g \in 1..NG THEN LET r == Pop(lists, vb, g) IN [some |-> r.some, part |-> r.part] ELSE [some |-> FALSE, part |-> <<>>]
IsEmptyPart(g) == IF g \in 1..NG THEN vb[g] >= Len(lists[g]) ELSE TRUE

-----------------------------------------------------------------------------
\* laws
\* what is still to be handed out, as a bag (sequence per group from the virtual begin) plus the NEW set
Remaining(g) == SubSeq(lists[g], vb[g] + 1, Len(lists[g]))
RECURSIVE BagOfSeq(_)
BagOfSeq(sq) == IF sq = <<>> THEN [x \in {} |-> 0]
                ELSE LET b == BagOfSeq(Tail(sq)) h == Head(sq)
                     IN [x \in (DOMAIN b) \cup {h} |-> (IF x \in DOMAIN b THEN b[x] ELSE 0) + (IF x = h THEN 1 ELSE 0)]
RECURSIVE Concat(_)
Concat(n) == IF n = 0 THEN <<>> ELSE Concat(n - 1) \o Remaining(n)
KnownBag == BagOfSeq(Concat(NG))

TypeOK == /\ \A g \in 1..NG : vb[g] \in 0..Len(lists[g])
          /\ DOMAIN vb = 1..NG
          /\ \A x, y \in news : Key3(x) = Key3(y) => x = y
IsSortedSeq(sq) == \A i \in 1..(Len(sq) - 1) : LeqKey(sq[i], sq[i + 1])

BagAdd(a, b) == [x \in (DOMAIN a) \cup (DOMAIN b) |-> (IF x \in DOMAIN a THEN a[x] ELSE 0) + (IF x \in DOMAIN b THEN b[x] ELSE 0)]
BagOfSet(S) == [x \in S |-> 1]
\* everything still held by the store
HeldBag == BagAdd(KnownBag, BagOfSet(news))
=============================================================================
