SPECIFICATION MCSpec
CONSTANTS Profile = "fault"
          MaxOps = 4
          MaxReads = 0
          Limits = {0,1,2,3,4,5,6,7,8,9,10,11,12,13,14,15,16,17,18,19,20,21,22,23,24,25,26,27,28,29,30,31,32,33,34,35,36,37,38,39,40,41,42,43,44,45,1000000}
          NoLimit = 1000000
          BufCap = 4
INVARIANTS NoDupNames Layout RoundTrip DiskIsPrefix Reported Emit
CHECK_DEADLOCK FALSE
