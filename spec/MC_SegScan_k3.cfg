SPECIFICATION MCSpec
CONSTANTS K = 3
          MaxLen = 4
          Alphabet = {0,1,2,3,4}
INVARIANTS Positions Tiling JoinPrefix JoinDone Boundaries Single WindowReg Emit
PROPERTIES Refines
CHECK_DEADLOCK FALSE
