\* The "long" bounded model: one contig of exactly 9 symbols over {A,C,G}, k = 2, segment size 5 (> 2k):
\* here >= 4 segments occur and the spacing law is not implied by the window restart alone.
SPECIFICATION MCSpec
CONSTANTS
  Ks = {2}
  Segs = {5}
  Alphabet = {0,1,2}
  MaxContigs = 1
  MaxLen = 9
  MinTotal = 9
  MaxTotal = 9
INVARIANTS CountDeterministic SingletonOnly Disjoint Spaced ResultDeterministic MCSymmetric ScanSane Emit
CHECK_DEADLOCK FALSE
