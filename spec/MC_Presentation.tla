--------------------------- MODULE MC_Presentation ---------------------------
(* Bounded model of Presentation.tla + REPLAY emission.                                    *)
(* One behaviour = one (record list, option combination): the refinement chain is walked   *)
(* step by step (group, wrap, encode, pack), then the reader is run as a line-level state  *)
(* machine over the files (gunzip+split, one step per line, end of file), so that every    *)
(* intermediate value is a state and TLC reports coverage per step.  Invariants: every     *)
(* step-wise value equals the functional definition of Presentation.tla (ChainInv), and    *)
(* at the end Law / FeedLaw / ContentLaw hold.  Every terminal state prints one REPLAY line *)
(* (records, options, the presented files byte by byte) for `rvh replay-present`.          *)
(* Families (constant Family):                                                             *)
(*   "opts"  4 record lists (+ one with all 16 symbol codes) x layout x file naming x .fa/.fasta x widths {1,2,3,oo} x       *)
(*           {LF,CRLF} x {upper,lower,mixed(2 phases)} x final EOL x {plain, gz 1 member,   *)
(*           gz with a few cut sets incl. empty members}                                    *)
(*   "cuts"  the 3-record PanSN list x both layouts x widths {2,oo} x {LF,CRLF} x gz with    *)
(*           EVERY single cut, EVERY pair of cuts (incl. equal = empty member) and every    *)
(*           sliding triple of 1-byte members over the whole text: inside a header, right   *)
(*           after '>', inside a sequence line, between CR and LF, at 0 and at the end.     *)
EXTENDS Presentation, TLC, Json

CONSTANTS Family,
          Level      \* 1 = quick (reduced option sets), 2 = thorough

VARIABLES recs, opt, stage, groups, lines, texts, files, rd
mcvars == <<recs, opt, stage, groups, lines, texts, files, rd>>

\* ---- record lists ---------------------------------------------------------------------------
R(s, h, q) == [sample |-> s, header |-> h, seq |-> q]
a1 == <<97, 35, 49>>     b2 == <<98, 35, 50>>                     \* "a#1" "b#2"
L1 == << R(a1, <<97, 35, 49, 35, 120>>, <<0, 1, 2>>) >>                          \* a#1#x
L2 == << R(a1, <<97, 35, 49, 35, 120>>, <<0, 3, 4, 5>>),                         \* a#1#x
         R(a1, <<97, 35, 49, 35, 121, 32, 122>>, <<2>>),                        \* "a#1#y z"
         R(b2, <<98, 35, 50, 35, 120>>, <<3, 3>>) >>                             \* b#2#x
L3 == << R(<<115>>, <<120>>, <<0, 1>>),                                         \* sample "s", header "x"
         R(<<116>>, <<121, 9, 100>>, <<15, 4, 0>>) >>                           \* sample "t", header "y<TAB>d"
L4 == << R(<<115, 46, 49>>, <<120>>, <<1, 1, 1, 1>>),                           \* sample "s.1"
         R(<<115, 46, 49>>, <<121>>, <<14>>) >>
\* every symbol code once (the letter table in both cases); bounded options (Relevant)
L5 == << R(a1, <<97, 35, 49, 35, 120>>, <<0, 1, 2, 3, 4, 5, 6, 7, 8, 9, 10, 11, 12, 13, 14, 15>>) >>
RecLists == IF Family = "opts" THEN {L1, L2, L3, L4, L5} ELSE {L2}
Relevant(rs, o) == rs = L5 => /\ o.width \in {0, 3} /\ o.fname = "sample" /\ o.stemext = EXT_FA /\ o.finalnl
                              /\ o.cuts \in {<<>>, <<4, 4>>}

\* ---- option combinations ------------------------------------------------------------------------
Opt(l, f, e, w, c, k, p, n, g, x) ==
  [layout |-> l, fname |-> f, stemext |-> e, width |-> w, crlf |-> c, case |-> k, phase |-> p, finalnl |-> n,
   container |-> g, cuts |-> x]
CasePhases == IF Level >= 2 THEN {<<"upper", 0>>, <<"lower", 0>>, <<"mixed", 0>>, <<"mixed", 1>>}
              ELSE {<<"upper", 0>>, <<"lower", 0>>, <<"mixed", 1>>}
Containers == {<<"plain", <<>>>>, <<"gz", <<>>>>, <<"gz", <<1>>>>, <<"gz", <<4, 4>>>>} \cup
              (IF Level >= 2 THEN {<<"gz", <<0>>>>, <<"gz", <<2, 9, 99>>>>} ELSE {})
NameExts   == {<<"sample", EXT_FA>>, <<"sample", EXT_FASTA>>, <<"other", EXT_FA>>} \cup
              (IF Level >= 2 THEN {<<"other", EXT_FASTA>>} ELSE {})
OptsFamily ==
  {Opt(l, fe[1], fe[2], w, c, kp[1], kp[2], n, gx[1], gx[2]) :
     l \in Layouts, fe \in NameExts, w \in {1, 2, 3, 0}, c \in BOOLEAN,
     kp \in CasePhases, n \in BOOLEAN, gx \in Containers}
MaxText == 42
CutSets == {<<c>> : c \in 0..MaxText} \cup {<<c, d>> : c, d \in 0..MaxText} \cup {<<c, c + 1, c + 2>> : c \in 0..MaxText}
CutsFamily ==
  {Opt(l, "sample", EXT_FA, w, c, "upper", 0, TRUE, "gz", x) :
     l \in Layouts, w \in (IF Level >= 2 THEN {2, 0} ELSE {2}), c \in BOOLEAN, x \in {y \in CutSets : Sorted(y)}}
\* cut offsets range over the text of the first file (larger offsets all mean "at the end")
InText(rs, o) == \A i \in 1..Len(o.cuts) : o.cuts[i] <= Len(FileText(FileGroups(rs, o)[1], o))
Opts == IF Family = "opts" THEN OptsFamily ELSE CutsFamily

\* ---- the chain, step by step --------------------------------------------------------------------
RD0 == [fi |-> 1, li |-> 1, lines |-> <<>>, st |-> RInit, out |-> <<>>]
MCInit ==
  /\ recs \in RecLists /\ opt \in Opts /\ WF(recs, opt) /\ InText(recs, opt) /\ Relevant(recs, opt)
  /\ stage = "records" /\ groups = <<>> /\ lines = <<>> /\ texts = <<>> /\ files = <<>> /\ rd = RD0

DoGroup  == /\ stage = "records" /\ stage' = "groups" /\ groups' = FileGroups(recs, opt)
            /\ UNCHANGED <<recs, opt, lines, texts, files, rd>>
DoWrap   == /\ stage = "groups" /\ stage' = "lines"
            /\ lines' = [i \in 1..Len(groups) |-> GroupLines(groups[i], opt)]
            /\ UNCHANGED <<recs, opt, groups, texts, files, rd>>
DoEncode == /\ stage = "lines" /\ stage' = "bytes"
            /\ texts' = [i \in 1..Len(lines) |-> LinesToBytes(lines[i], opt)]
            /\ UNCHANGED <<recs, opt, groups, lines, files, rd>>
DoPack   == /\ stage = "bytes" /\ stage' = "files"
            /\ files' = [i \in 1..Len(texts) |-> [name |-> FileName(groups[i], i, opt), gz |-> opt.container = "gz",
                                                   members |-> Pack(texts[i], opt)]]
            /\ UNCHANGED <<recs, opt, groups, lines, texts, rd>>
\* reader: open file fi (gunzip all members, split into lines)
ROpen    == /\ stage \in {"files", "nextfile"} /\ rd.fi <= Len(files) /\ FormatOk(files[rd.fi])
            /\ stage' = "reading"
            /\ rd' = [rd EXCEPT !.li = 1, !.lines = SplitLines(TextOf(files[rd.fi])), !.st = RInit]
            /\ UNCHANGED <<recs, opt, groups, lines, texts, files>>
RHeader  == /\ stage = "reading" /\ rd.li <= Len(rd.lines) /\ IsHeaderLine(rd.lines[rd.li])
            /\ rd' = [rd EXCEPT !.li = rd.li + 1, !.st = RLine(rd.st, rd.lines[rd.li])]
            /\ UNCHANGED <<recs, opt, stage, groups, lines, texts, files>>
RSeqLine == /\ stage = "reading" /\ rd.li <= Len(rd.lines) /\ ~IsHeaderLine(rd.lines[rd.li])
            /\ rd' = [rd EXCEPT !.li = rd.li + 1, !.st = RLine(rd.st, rd.lines[rd.li])]
            /\ UNCHANGED <<recs, opt, stage, groups, lines, texts, files>>
REndFile == /\ stage = "reading" /\ rd.li > Len(rd.lines)
            /\ LET fin == REof(rd.st).out
                   nm  == files[rd.fi].name
                   add == [i \in 1..Len(fin) |-> [sample |-> SampleOf(fin[i].header, nm), header |-> fin[i].header, seq |-> fin[i].seq]]
               IN  rd' = [rd EXCEPT !.fi = rd.fi + 1, !.out = rd.out \o add, !.st = REof(rd.st)]
            /\ stage' = IF rd.fi = Len(files) THEN "done" ELSE "nextfile"
            /\ UNCHANGED <<recs, opt, groups, lines, texts, files>>
MCNext == DoGroup \/ DoWrap \/ DoEncode \/ DoPack \/ ROpen \/ RHeader \/ RSeqLine \/ REndFile
MCSpec == MCInit /\ [][MCNext]_mcvars

\* ---- invariants -------------------------------------------------------------------------------------
ChainInv ==
  /\ stage = "files" => files = Present(recs, opt)      \* (files does not change afterwards)
  /\ stage = "done" => rd.out = Abstract(files) /\ ~rd.st.err
\* Law, FeedLaw and ContentLaw of Presentation.tla on the value `files` (= Present(recs, opt) by ChainInv)
DoneInv ==
  stage = "done" =>
    /\ \A i \in 1..Len(files) : ReadOk(files[i])
    /\ rd.out = recs                                                         \* Law: Abstract(Present(r, o)) = r
    /\ CreateInput(files) = CreateInput(Present(recs, Canon(opt)))           \* FeedLaw
    /\ SampleList(rd.out) = SampleList(recs)                                 \* ContentLaw
\* every member boundary is where the options put it, and the members concatenate to the text
PackInv    == stage = "files" => \A i \in 1..Len(files) : TextOf(files[i]) = texts[i] /\ FormatOk(files[i])
\* widths: no presented sequence line is longer than the width
WidthInv   == stage = "lines" /\ opt.width > 0 =>
                \A i \in 1..Len(lines) : \A j \in 1..Len(lines[i]) : IsHeaderLine(lines[i][j]) \/ Len(lines[i][j]) <= opt.width

\* ---- what a cut set hits (classification used by the non-triviality counters of the check) ----------
\* kind of the byte position c (0-based offset = a boundary before byte c+1) in text t
CutKind(t, c) ==
  IF c = 0 THEN "start" ELSE IF c >= Len(t) THEN "end"
  ELSE LET ls == {i \in 1..c : t[i] = LF}
           b  == IF ls = {} THEN 0 ELSE CHOOSE i \in ls : \A j \in ls : j <= i     \* start of the line containing byte c+1
       IN  IF b = c THEN "line_start"
           ELSE IF t[b + 1] = GT THEN (IF c = b + 1 THEN "after_gt" ELSE IF t[c + 1] = LF \/ t[c + 1] = CR THEN "header_end" ELSE "in_header")
           ELSE IF t[c + 1] = LF /\ t[c] = CR THEN "cr_lf" ELSE IF t[c + 1] = LF \/ t[c + 1] = CR THEN "line_end" ELSE "in_seq"
CutKinds == IF opt.container = "gz" /\ texts # <<>>
            THEN [i \in 1..Len(opt.cuts) |-> CutKind(texts[1], opt.cuts[i])] ELSE <<>>

Emit == stage = "done" =>
          PrintT(<<"REPLAY", ToJson([family |-> Family, recs |-> recs, opt |-> opt, files |-> files, kinds |-> CutKinds,
                                      samples |-> SampleList(recs), key |-> BytesKey(opt)])>>)
=============================================================================
