---------------------------- MODULE MC_SegScan ----------------------------
(* Bounded exhaustive check that the code-shaped scan (SegScan.tla, both policies) *)
(* implements Segmentation.tla, and emission of every complete behaviour as one     *)
(* JSON line for `rvh replay-seg` (does the real code pick exactly these            *)
(* boundaries? - informational: the verdict is Trace_Segmentation's).               *)
EXTENDS SegScan, TLC, Json

CONSTANTS K, MaxLen, Alphabet

RECURSIVE SeqsOfLen(_)
SeqsOfLen(n) == IF n = 0 THEN {<<>>} ELSE {Append(w, a) : w \in SeqsOfLen(n - 1), a \in Alphabet}
Contigs == UNION {SeqsOfLen(n) : n \in 0..MaxLen}
Occurring(c) ==
  {Canon(SubSeq(c, e - K + 1, e)) :
     e \in {x \in K..Len(c) : \A i \in (x - K + 1)..x : IsACGT(c[i])}}

MCInit == \E c \in Contigs : \E sp \in SUBSET Occurring(c) : \E r \in BOOLEAN : ScanInitState(c, K, sp, r)
MCSpec == MCInit /\ [][ScanNext]_svars

Emit == done =>
  PrintT(<<"REPLAY", ToJson([contig |-> contig, k |-> k, splitters |-> splitters, restart |-> restart,
           segs |-> [i \in 1..Len(segs) |-> [data |-> segs[i].data, front |-> segs[i].front, back |-> segs[i].back]]])>>)
=============================================================================
