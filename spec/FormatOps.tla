----------------------------- MODULE FormatOps -----------------------------
(* Executable reference semantics of the AGC v3 format above the byte-lexing   *)
(* level (constant module: operators only).  It is written from the format     *)
(* rules, as a DECODER — it shares no structure with ragc's encoder:           *)
(*   custom base-64 stream names, tuple unpacking, pack splitting, id -> pack   *)
(*   addressing, LZ-diff V2 text, name delta codec, descriptor prediction codec,*)
(*   zigzag, orientation and k-overlap join.                                    *)
(* Values: bytes 0..255, symbol codes 0..15 and 30, all as naturals.            *)
EXTENDS Naturals, Integers, Sequences, FiniteSets, Sym

\* ---- format constants (the format's values, not ragc's variables) -----------
PACK      == 50        \* pack cardinality
RAWGROUPS == 16        \* groups 0..15 are stored raw
SEP       == 255       \* entry separator
PLACEHOLD == 127       \* entry 0 of pack 0 of a raw group
SAMEFIELD == 129       \* name codec: field equal to previous name's field (-127)
NRUNSTART == 30
NRUNEND   == 4
NRUNMIN   == 4
BANG      == 33
LITBASE   == 65        \* 'A'
COMMA     == 44
DOT       == 46
MINUS     == 45
SPACE     == 32

\* ---- small helpers -----------------------------------------------------------
Drop(s, n) == IF n >= Len(s) THEN <<>> ELSE SubSeq(s, n + 1, Len(s))
Take(s, n) == IF n >= Len(s) THEN s ELSE SubSeq(s, 1, n)
Rep(x, n)  == [i \in 1..n |-> x]

RECURSIVE FlattenAcc(_, _, _)
FlattenAcc(ss, i, acc) == IF i > Len(ss) THEN acc ELSE FlattenAcc(ss, i + 1, acc \o ss[i])
Flatten(ss) == FlattenAcc(ss, 1, <<>>)

\* positions of byte b in s, ascending
PosOf(s, b) == {i \in 1..Len(s) : s[i] = b}
SortedSeq(S) ==  \* ascending sequence of a finite set of naturals
  LET RECURSIVE Build(_, _)
      Build(T, acc) == IF T = {} THEN acc ELSE LET m == MaxOf(T) IN Build(T \ {m}, <<m>> \o acc)
  IN Build(S, <<>>)

\* Split s at every occurrence of b (b itself dropped): always >= 1 fields
SplitOn(s, b) ==
  LET ps == SortedSeq(PosOf(s, b))
      n  == Len(ps)
      From(j) == IF j = 1 THEN 1 ELSE ps[j - 1] + 1
      To(j)   == IF j = n + 1 THEN Len(s) ELSE ps[j] - 1
  IN [j \in 1..(n + 1) |-> IF From(j) > To(j) THEN <<>> ELSE SubSeq(s, From(j), To(j))]

RECURSIVE JoinAcc(_, _, _, _)
JoinAcc(fs, b, i, acc) ==
  IF i > Len(fs) THEN acc
  ELSE JoinAcc(fs, b, i + 1, IF i = 1 THEN fs[1] ELSE (acc \o <<b>>) \o fs[i])
JoinWith(fs, b) == JoinAcc(fs, b, 1, <<>>)

\* ---- stream names ------------------------------------------------------------
\* custom base-64 digits 0-9 A-Z a-z _ #  (value of an ASCII code, -1 if not a digit)
B64Val(c) == IF c \in 48..57 THEN c - 48
             ELSE IF c \in 65..90 THEN c - 65 + 10
             ELSE IF c \in 97..122 THEN c - 97 + 36
             ELSE IF c = 95 THEN 62 ELSE IF c = 35 THEN 63 ELSE -1
B64Char(v) == IF v < 10 THEN 48 + v ELSE IF v < 36 THEN 65 + v - 10
              ELSE IF v < 62 THEN 97 + v - 36 ELSE IF v = 62 THEN 95 ELSE 35
RECURSIVE B64Decode(_, _)
B64Decode(ds, i) == IF i > Len(ds) THEN 0 ELSE B64Val(ds[i]) + 64 * B64Decode(ds, i + 1)  \* little-endian first
RECURSIVE B64Encode(_)
B64Encode(n) == IF n < 64 THEN <<B64Char(n)>> ELSE <<B64Char(n % 64)>> \o B64Encode(n \div 64)

\* A segment stream name is 'x' ++ b64(g) ++ ('d' | 'r'); returns [ok, gid, kind]
SegStreamName(nm) ==
  IF Len(nm) < 3 \/ nm[1] # 120 \/ nm[Len(nm)] \notin {100, 114} THEN [ok |-> FALSE, gid |-> 0, kind |-> "?"]
  ELSE LET ds == SubSeq(nm, 2, Len(nm) - 1) IN
       IF \E i \in 1..Len(ds) : B64Val(ds[i]) < 0 THEN [ok |-> FALSE, gid |-> 0, kind |-> "?"]
       ELSE LET g == B64Decode(ds, 1) IN
            [ok |-> B64Encode(g) = ds, gid |-> g, kind |-> IF nm[Len(nm)] = 100 THEN "d" ELSE "r"]

\* ---- little-endian 32-bit words (params) -------------------------------------
LEWord(b, i) == b[i] + 256 * b[i + 1] + 65536 * b[i + 2] + 16777216 * b[i + 3]

\* ---- tuple packing (decoder) -------------------------------------------------
\* marker byte = (width << 4) | (len mod width); width 1 = stored as is; else radix by width
Radix(w) == IF w = 4 THEN 4 ELSE IF w = 3 THEN 6 ELSE 16
\* the w digits (most significant first) of value v in the given radix, last n of them
Digits(v, radix, w) == [j \in 1..w |-> (v \div (IF w - j = 0 THEN 1 ELSE IF w - j = 1 THEN radix ELSE IF w - j = 2 THEN radix * radix ELSE radix * radix * radix)) % radix]
TupleUnpack(t) ==
  IF t = <<>> THEN [ok |-> TRUE, out |-> <<>>]
  ELSE LET m == t[Len(t)]
           w == m \div 16
           r == m % 16
       IN IF w = 1 THEN [ok |-> TRUE, out |-> SubSeq(t, 1, Len(t) - 1)]
          ELSE IF w \notin {2, 3, 4} \/ Len(t) < 2 \/ r >= w THEN [ok |-> FALSE, out |-> <<>>]
          ELSE LET nfull == Len(t) - 2         \* full tuples, then one trailing tuple, then marker
                   full  == Flatten([i \in 1..nfull |-> Digits(t[i], Radix(w), w)])
                   tr    == LET d == Digits(t[Len(t) - 1], Radix(w), w) IN SubSeq(d, w - r + 1, w)
               IN [ok |-> TRUE, out |-> full \o tr]

\* ---- packs -------------------------------------------------------------------
\* A pack is a sequence of entries each terminated by SEP. Returns [ok, entries].
PackEntries(p) ==
  IF p = <<>> THEN [ok |-> TRUE, entries |-> <<>>]
  ELSE IF p[Len(p)] # SEP THEN [ok |-> FALSE, entries |-> <<>>]
  ELSE LET fs == SplitOn(p, SEP) IN [ok |-> TRUE, entries |-> SubSeq(fs, 1, Len(fs) - 1)]

\* address of in-group id within the delta stream of a group
PackOf(gid, id)  == IF gid >= RAWGROUPS THEN (id - 1) \div PACK ELSE id \div PACK      \* 0-based pack index
EntryOf(gid, id) == IF gid >= RAWGROUPS THEN (id - 1) % PACK ELSE id % PACK            \* 0-based entry index

\* ---- LZ-diff V2 text ---------------------------------------------------------
IsDigit(c) == c \in 48..57
RECURSIVE ReadDigits(_, _, _)
ReadDigits(t, i, acc) == IF i <= Len(t) /\ IsDigit(t[i]) THEN ReadDigits(t, i + 1, acc * 10 + (t[i] - 48))
                         ELSE [val |-> acc, next |-> i]
\* unsigned / signed decimal at position i; n = number of digits must be >= 1
ReadUInt(t, i) == LET r == ReadDigits(t, i, 0) IN [ok |-> r.next > i, val |-> r.val, next |-> r.next]
ReadInt(t, i) ==
  IF i <= Len(t) /\ t[i] = MINUS
  THEN LET r == ReadUInt(t, i + 1) IN [ok |-> r.ok, val |-> 0 - r.val, next |-> r.next]
  ELSE ReadUInt(t, i)

LzFail == [ok |-> FALSE, out |-> <<>>]
\* decode text t against reference ref with minimum match length mm
RECURSIVE LzRun(_, _, _, _, _, _)
LzRun(ref, t, mm, i, pred, out) ==
  IF i > Len(t) THEN [ok |-> TRUE, out |-> out]
  ELSE LET c == t[i] IN
    IF c = BANG THEN
      IF pred < Len(ref) THEN LzRun(ref, t, mm, i + 1, pred + 1, Append(out, ref[pred + 1])) ELSE LzFail
    ELSE IF c >= LITBASE /\ c <= LITBASE + 30 THEN
      LzRun(ref, t, mm, i + 1, pred + 1, Append(out, c - LITBASE))
    ELSE IF c = NRUNSTART THEN
      LET r == ReadUInt(t, i + 1) IN
      IF r.ok /\ r.next <= Len(t) /\ t[r.next] = NRUNEND
      THEN LzRun(ref, t, mm, r.next + 1, pred, out \o Rep(4, r.val + NRUNMIN)) ELSE LzFail
    ELSE
      LET p == ReadInt(t, i) IN
      IF ~p.ok \/ p.next > Len(t) THEN LzFail
      ELSE LET pos == pred + p.val IN
        IF pos < 0 \/ pos > Len(ref) THEN LzFail
        ELSE IF t[p.next] = DOT THEN                       \* match to the end of the reference
          LzRun(ref, t, mm, p.next + 1, Len(ref), out \o SubSeq(ref, pos + 1, Len(ref)))
        ELSE IF t[p.next] = COMMA THEN
          LET q == ReadUInt(t, p.next + 1) IN
          IF ~q.ok \/ q.next > Len(t) \/ t[q.next] # DOT THEN LzFail
          ELSE LET len == q.val + mm IN
               IF pos + len > Len(ref) THEN LzFail
               ELSE LzRun(ref, t, mm, q.next + 1, pos + len, out \o SubSeq(ref, pos + 1, pos + len))
        ELSE LzFail
LzDecode(ref, t, mm) == IF t = <<>> THEN [ok |-> TRUE, out |-> ref] ELSE LzRun(ref, t, mm, 1, 0, <<>>)

\* ---- zigzag with prediction --------------------------------------------------
ZigzagDecode(v, q) == IF v >= 2 * q THEN v ELSE IF v % 2 = 1 THEN (2 * q - v) \div 2 ELSE (v + 2 * q) \div 2
ZigzagEncode(c, q) == IF c < q THEN 2 * (q - c) - 1 ELSE IF c < 2 * q THEN 2 * (c - q) ELSE c

\* ---- name delta codec (decoder) ---------------------------------------------
\* one field of a delta-encoded name against the previous name's field
RECURSIVE FieldRun(_, _, _, _, _)
FieldRun(enc, prev, i, p, acc) ==
  IF i > Len(enc) THEN [ok |-> TRUE, out |-> acc]
  ELSE LET c == enc[i] IN
       IF c < 128 THEN FieldRun(enc, prev, i + 1, p + 1, Append(acc, c))
       ELSE LET cnt == 256 - c IN
            IF p + cnt > Len(prev) THEN [ok |-> FALSE, out |-> acc]
            ELSE FieldRun(enc, prev, i + 1, p + cnt, acc \o SubSeq(prev, p + 1, p + cnt))
DecodeField(enc, prev) == IF enc = <<SAMEFIELD>> THEN [ok |-> TRUE, out |-> prev] ELSE FieldRun(enc, prev, 1, 0, <<>>)

\* names of one sample: encs = sequence of encoded byte strings; returns [ok, names]
RECURSIVE NamesRun(_, _, _, _)
NamesRun(encs, i, prevFields, acc) ==
  IF i > Len(encs) THEN [ok |-> TRUE, names |-> acc]
  ELSE LET cur == SplitOn(encs[i], SPACE) IN
       IF prevFields = <<>> \/ Len(cur) # Len(prevFields)
       THEN NamesRun(encs, i + 1, cur, Append(acc, encs[i]))                     \* stored verbatim
       ELSE LET dec == [j \in 1..Len(cur) |-> DecodeField(cur[j], prevFields[j])] IN
            IF \E j \in 1..Len(cur) : ~dec[j].ok THEN [ok |-> FALSE, names |-> acc]
            ELSE LET fields == [j \in 1..Len(cur) |-> dec[j].out] IN
                 NamesRun(encs, i + 1, fields, Append(acc, JoinWith(fields, SPACE)))
DecodeNames(encs) == NamesRun(encs, 1, <<>>, <<>>)

\* ---- descriptor codec (decoder) ----------------------------------------------
\* streams s1..s4 (group id, coded in-group id, coded raw length, orientation), pred reset per batch
PredOf(pred, g) == IF g \in DOMAIN pred THEN pred[g] ELSE -1
RECURSIVE DescRun(_, _, _, _, _, _, _, _)
DescRun(s1, s2, s3, s4, predLen, i, pred, acc) ==
  IF i > Len(s1) THEN acc
  ELSE LET g  == s1[i]
           e  == s2[i]
           p  == PredOf(pred, g)
           id == IF p = -1 THEN e ELSE IF e = 0 THEN 0 ELSE IF e = 1 THEN p + 1 ELSE ZigzagDecode(e - 1, p + 1)
           d  == [gid |-> g, id |-> id, len |-> ZigzagDecode(s3[i], predLen), rev |-> s4[i] # 0]
           np == IF id > p /\ id > 0 THEN [x \in (DOMAIN pred) \cup {g} |-> IF x = g THEN id ELSE pred[x]] ELSE pred
       IN DescRun(s1, s2, s3, s4, predLen, i + 1, np, Append(acc, d))
DecodeDescs(s1, s2, s3, s4, predLen) == DescRun(s1, s2, s3, s4, predLen, 1, [x \in {} |-> 0], <<>>)

\* ---- orientation and k-overlap join -------------------------------------------
Orient(seg, rev) == IF rev THEN RC(seg) ELSE seg
RECURSIVE JoinSegs(_, _, _, _)
JoinSegs(segs, k, i, acc) ==
  IF i > Len(segs) THEN acc
  ELSE JoinSegs(segs, k, i + 1, IF i = 1 THEN segs[1] ELSE acc \o Drop(segs[i], k))
JoinContig(segs, k) == JoinSegs(segs, k, 1, <<>>)
=============================================================================
