SPECIFICATION MCSpec
CONSTANTS Ref <- RefC
          MinMatch = 20
          LitCodes = {2,30}
          NRunLens = {4,13}
          MatchLens = {20,21,22}
          MaxTok = 3
INVARIANTS Types ParseLaw DecodeLaw DecodesToLaw SepLaw TruncStrict Emit
PROPERTIES StepIsApply
CHECK_DEADLOCK FALSE
