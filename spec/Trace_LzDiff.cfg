SPECIFICATION TSpec
VIEW TView
INVARIANTS PredInRange
POSTCONDITION Accepted
CHECK_DEADLOCK FALSE
