SPECIFICATION MCSpec
CONSTANTS Ks = {3}
          MaxSegs = 4
          Extra = 3
          RcMode = "some"
          MaxUsize = 2147483647
INVARIANTS RangeAgrees LengthAgrees ModelSane
CHECK_DEADLOCK FALSE
