SPECIFICATION Spec
CONSTANTS
  N = 3
  Contigs <- C4m
  Mode = "multi"
  PackB = 2
  Cap = 3
  TokenRule = "fixed"
  RefSamples = 1
INVARIANTS NoLostContig EachOnce BarrierSane SameBarrier Deterministic PrefixDeterministic PriorityInRange
PROPERTIES Termination
CHECK_DEADLOCK FALSE
