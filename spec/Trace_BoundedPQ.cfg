SPECIFICATION TSpec
INVARIANTS CostNonNeg
POSTCONDITION Accepted
CHECK_DEADLOCK FALSE
