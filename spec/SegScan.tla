------------------------------ MODULE SegScan ------------------------------
(* Code-shaped model of ragc-core/src/segment.rs: the base-by-base scan of        *)
(*   split_at_splitters_with_size   (restart = TRUE : kmer.reset() after a split)  *)
(*   split_at_splitters             (restart = FALSE: the window keeps sliding)    *)
(* with the registers the code keeps: pos (bases consumed), wsize (Kmer::cur_size, *)
(* capped at k; is_full() <=> wsize = k), segment_start, front_kmer, segments.      *)
(* Every update is written as the code writes it (saturating_sub, the two final-    *)
(* segment fall-backs) - it does NOT reuse the actions of Segmentation.tla.  TLC     *)
(* checks that this model IMPLEMENTS Segmentation.tla (action property Refines:      *)
(* every scan step is a Split / Finish step or leaves the abstract variables          *)
(* unchanged), i.e. that both policies of the real code are behaviours of the          *)
(* permissive specification against which the real executions are validated.           *)
EXTENDS Segmentation

VARIABLES restart, pos, wsize
svars == <<vars, restart, pos, wsize>>

ScanInitState(c, kk, sp, r) == InitState(c, kk, sp) /\ restart = r /\ pos = 0 /\ wsize = 0

Short == N < k                       \* segment.rs:99 / 374: early return, one segment

SatSub(a, b) == IF a >= b THEN a - b ELSE 0

\* segment.rs:118-218 / 390-429: one iteration of the for loop
Consume ==
  /\ ~done /\ ~Short /\ pos < N
  /\ pos' = pos + 1
  /\ UNCHANGED <<input, done, restart>>
  /\ LET b == contig[pos + 1] IN
     IF b > 3
     THEN wsize' = 0 /\ UNCHANGED <<segStart, front, segs>>                 \* kmer.reset()
     ELSE LET ws == IF wsize = k THEN k ELSE wsize + 1                      \* kmer.insert()
              km == Canon(SubSeq(contig, pos + 2 - k, pos + 1))            \* kmer.data() when full
          IN
          IF ws = k /\ km \in splitters
          THEN /\ segs' = Append(segs, [s |-> segStart, e |-> pos + 1,
                                       data |-> SubSeq(contig, segStart + 1, pos + 1),
                                       front |-> front, back |-> km])
               /\ segStart' = SatSub(pos + 1, k)
               /\ front' = km
               /\ wsize' = IF restart THEN 0 ELSE ws
          ELSE wsize' = ws /\ UNCHANGED <<segStart, front, segs>>

\* segment.rs:237-316 / 432-471 and the early return
Final ==
  /\ ~done /\ (Short \/ pos = N)
  /\ done' = TRUE
  /\ UNCHANGED <<input, restart, pos, wsize, segStart, front>>
  /\ IF Short
     THEN segs' = <<[s |-> 0, e |-> N, data |-> contig, front |-> MISSING, back |-> MISSING]>>
     ELSE LET withFinal ==
                IF segStart < N
                THEN Append(segs, [s |-> segStart, e |-> N, data |-> SubSeq(contig, segStart + 1, N),
                                   front |-> front, back |-> MISSING])
                ELSE segs
          IN segs' = IF withFinal = <<>>
                     THEN <<[s |-> 0, e |-> N, data |-> contig, front |-> MISSING, back |-> MISSING]>>
                     ELSE withFinal

ScanNext == Consume \/ Final

\* the refinement: a scan step is an abstract step or a stuttering step
Refines == [][Next]_vars

\* the window register is the Kmer.tla window since the last restart / non-ACGT code
WindowReg ==
  /\ wsize <= k
  /\ wsize = k => CleanWindow(pos)
  /\ wsize <= pos
  /\ \A i \in (pos - wsize + 1)..pos : IsACGT(contig[i])
=============================================================================
