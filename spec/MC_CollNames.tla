--------------------------- MODULE MC_CollNames ---------------------------
(* Exhaustive model of the contig-name delta codec (CollectionOps!NameLaw) over all  *)
(* lists of <= MaxNames distinct names drawn from NameSet, and REPLAY emission:   *)
(* every list of maximal length is printed with the canonical encoding of each    *)
(* name and of the whole collection-contigs part, for `rvh replay-collnames`.     *)
(* The state IS the list, so the history adds no states.                           *)
EXTENDS CollectionOps, TLC, Json

CONSTANTS RunCap,     \* run cap of the canonical encoder (format: 100)
          NameSet,    \* set of names (byte sequences) -- substituted by one of the sets below
          MaxNames,
          DoEmit      \* print REPLAY lines (only meaningful when RunCap is the format's 100)

VARIABLE names
mcvars == <<names>>

Range(s) == {s[i] : i \in 1..Len(s)}
MCInit == names = <<>>
AddName == Len(names) < MaxNames /\ \E n \in NameSet \ Range(names) : names' = Append(names, n)
MCNext == AddName
MCSpec == MCInit /\ [][MCNext]_mcvars

Law == NameLaw(names, RunCap)

Emit == (DoEmit /\ Len(names) = MaxNames) =>
          PrintT(<<"REPLAY", ToJson([names |-> names, enc |-> EncNameList(names, RunCap),
                                     buf |-> EncNamesBuf(<<names>>, RunCap)])>>)

\* ---- name sets --------------------------------------------------------------
NamesOver(F, maxf) == {Join(fs) : fs \in UNION {[1..n -> F] : n \in 1..maxf}}
a == 97  b == 98  TAB == 9
\* short fields: empty (double space / leading / trailing space), equal- and unequal-length, a tab
F_short == {<<>>, <<a>>, <<b>>, <<a, b>>, <<b, a>>, <<a, TAB>>}
N_short2 == NamesOver(F_short, 2)                                \* 42 names, 1..2 fields (thorough)
N_short2q == NamesOver({<<>>, <<a>>, <<b>>, <<a, b>>, <<a, TAB>>}, 2)  \* 30 names, 1..2 fields (quick)
N_short3 == NamesOver({<<>>, <<a>>, <<a, b>>}, 3)                \* 39 names, 1..3 fields
N_short2t == NamesOver(F_short \cup {<<b, b>>}, 2)               \* 56 names (thorough)
\* runs around the cap of 100 (and 2 x 100)
F_long == {Rep(a, 99), Rep(a, 100), Rep(a, 101), Rep(a, 100) \o <<b>>, <<b>> \o Rep(a, 100),
           Rep(a, 201), Rep(a, 200) \o <<b>>, <<b>> \o Rep(a, 200), Rep(a, 100) \o <<b>> \o Rep(a, 100),
           Rep(a, 101) \o <<b>> \o Rep(a, 99)}
N_long == F_long \cup {f \o <<SP>> \o g : f \in F_long, g \in {<<a>>, <<b>>}}      \* 30 names
\* small stand-in for the cap: all fields over {a,b} of length 1..6, one or two fields
RECURSIVE Strs(_)
Strs(n) == IF n = 0 THEN {<<>>} ELSE LET S == Strs(n - 1) IN S \cup {Append(s, c) : s \in {t \in S : Len(t) = n - 1}, c \in {a, b}}
N_cap == (Strs(6) \ {<<>>}) \cup {f \o <<SP>> \o g : f \in {s \in Strs(4) : Len(s) = 4}, g \in {<<a>>, <<b>>}}
==========================================================================
