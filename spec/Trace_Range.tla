----------------------------- MODULE Trace_Range -----------------------------
(* Trace validation for Range.tla (C07): recorded answers of the real             *)
(* Decompressor::get_contig_range / get_contig_length / get_contig /               *)
(* get_contig_segments_desc on archives of the C01 space (rvh trace-range), and    *)
(* of the CLI (`ragc getrange`, `ragc ctglen`; events built by checks/c07.py).      *)
(*                                                                               *)
(*  contig  a new contig is asked about: `input` (the bases that went into the     *)
(*          archive: the oracle), `got` (get_contig on the same handle), the raw    *)
(*          lengths and orientation flags of its descriptor list, k, and the       *)
(*          answer of get_contig_length.  The design's handle is re-opened on the   *)
(*          descriptor list that lays `input` out with the RECORDED lengths and     *)
(*          flags, and QueryLength is taken.                                       *)
(*  q       one start `a` and a list of ends `bs` with the recorded answers.        *)
(*          Matched only if EVERY recorded answer equals RangeSpec(full, a, b)      *)
(*          computed here.  The design action QueryRange is taken for the last      *)
(*          pair; RangeImpl on the recorded descriptor list is evaluated for the    *)
(*          pairs with (a + j) divisible by ImplEvery (T_ImplTied).                *)
(*                                                                               *)
(* Coding of one q event (lossless, see harness/src/range.rs): answer_j =          *)
(* SubSeq(answer_{j-1}, 1, p[j]) \o s[j], answer_0 = <<>>; p[j] < 0 = Err / panic   *)
(* (no step matches).  a / b = -1 stands for usize::MAX and is read as MaxUsize     *)
(* (any value >= Len(full) is equivalent under RangeSpec).                         *)
(*                                                                               *)
(* Verdicts:  unmatched q event      a range answer differs from RangeSpec          *)
(*            T_Length               get_contig_length # Len(full)                 *)
(*            T_Extract              get_contig # input (the oracle is not what the *)
(*                                   reader extracts: C01's business, but C07 would *)
(*                                   be judged against a wrong contig)             *)
(*            T_Descriptors          the recorded descriptor list does not tile the *)
(*                                   contig (first length + sum(length-k) # Len)    *)
(*            T_ImplTied, RangeAgrees, LengthAgrees   the DESIGN disagrees with the *)
(*                                   property on a real descriptor list: a spec bug *)
(*                                   (tool error), not a verdict on the code        *)
EXTENDS Range, TLC, Json, IOUtils

CONSTANTS MaxUsize,    \* stand-in for usize::MAX (TLC integers are 32 bit)
          ImplEvery    \* evaluate RangeImpl for the j-th pair of a q event iff ImplEvery divides a + j (1 = all)

Rec == ndJsonDeserialize(IOEnv.TRACE)

VARIABLES l,      \* index of the next event
          full,   \* the contig under test (input bases)
          obs     \* what the last event established (booleans for the invariants)

tvars == <<vars, l, full, obs>>

IsEvent(e) == l <= Len(Rec) /\ Rec[l].ev = e /\ l' = l + 1

U(x) == IF x < 0 THEN MaxUsize ELSE x

Flags(rc) == [i \in DOMAIN rc |-> rc[i] = 1]

TContig ==
  /\ IsEvent("contig")
  /\ LET e     == Rec[l]
         tiles == Len(e.rc) = Len(e.lens) /\ Tiles(e.input, e.lens, e.k)
     IN
       /\ full' = e.input
       /\ segs' = IF tiles THEN BuildSegs(e.input, e.lens, Flags(e.rc), e.k) ELSE <<>>
       /\ k' = e.k
       \* the design's length answer on the recorded descriptor list (QueryLength on the re-opened handle)
       /\ ans' = [Idle EXCEPT !.op = "length", !.n = IF tiles THEN LengthImpl(e.lens, e.k) ELSE Len(e.input)]
       /\ obs' = [kind |-> "contig",
                  tiles |-> tiles,
                  extract |-> e.got_res = 0 /\ e.got = e.input,
                  length |-> e.len_res = 0 /\ e.length = LengthSpec(e.input),
                  impl |-> TRUE]

\* all answers of one q event, decoded left to right; acc = [ok, prev, impl]
CheckAll(e, a) ==
  FoldLeftDomain(
    LAMBDA acc, j :
      IF ~acc.ok THEN acc
      ELSE IF e.p[j] < 0 \/ e.p[j] > Len(acc.prev) THEN [acc EXCEPT !.ok = FALSE]
      ELSE LET r == SubSeq(acc.prev, 1, e.p[j]) \o e.s[j]
               b == U(e.bs[j])
           IN  [ok   |-> r = RangeSpec(full, a, b),
                prev |-> r,
                impl |-> acc.impl /\ (((e.a + 1 + j) % ImplEvery = 0 /\ segs # <<>>) => RangeImpl(segs, k, a, b) = RangeSpec(full, a, b))],
    [ok |-> TRUE, prev |-> <<>>, impl |-> TRUE], e.bs)

TQuery ==
  /\ IsEvent("q")
  /\ LET e == Rec[l]
         a == U(e.a)
         c == CheckAll(e, a)
     IN
       /\ Len(e.p) = Len(e.bs) /\ Len(e.s) = Len(e.bs) /\ Len(e.bs) >= 1
       /\ c.ok
       /\ IF segs # <<>> THEN QueryRange(a, U(e.bs[Len(e.bs)])) ELSE UNCHANGED vars
       /\ obs' = [obs EXCEPT !.kind = "q", !.impl = c.impl]
       /\ UNCHANGED full

TNext == TContig \/ TQuery
TInit == segs = <<>> /\ k = 1 /\ ans = Idle /\ l = 1 /\ full = <<>>
         /\ obs = [kind |-> "init", tiles |-> TRUE, extract |-> TRUE, length |-> TRUE, impl |-> TRUE]
TSpec == TInit /\ [][TNext]_tvars

T_Length      == obs.length
T_Extract     == obs.extract
T_Descriptors == obs.tiles /\ (ans.op = "length" => ans.n = Len(full))
T_ImplTied    == obs.impl

Accepted ==
  LET d == TLCGet("stats").diameter IN
  IF d - 1 = Len(Rec) THEN TRUE ELSE PrintT(<<"UNMATCHED", d>>) /\ FALSE
===============================================================================
