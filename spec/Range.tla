------------------------------- MODULE Range -------------------------------
(* C07 -- range and length queries agree with full extraction.                   *)
(*                                                                               *)
(* A contig is stored as a DESCRIPTOR LIST: segment i has stored bases `data`     *)
(* (raw_length = Len(data)) and an orientation flag `rc` (stored reverse-         *)
(* complemented).  Consecutive segments overlap by k bases: the reader's full     *)
(* extraction (reconstruct_contig) takes the first oriented segment whole and      *)
(* drops the first k bases of every later one.  Segments produced by a split of a  *)
(* longer segment, and the k-mer-only segment that follows a splitter at the very  *)
(* end of a contig (raw_length = k, contributes 0 bases) are ordinary entries of   *)
(* the list.                                                                      *)
(*                                                                               *)
(*   RangeSpec / LengthSpec   the property: a declarative slice of the full contig *)
(*   Join                     the reader's full extraction                        *)
(*   Layout / LengthImpl / RangeImpl   the design, shaped like decompressor.rs    *)
(*                            get_contig_length / get_contig_range: positions are   *)
(*                            derived from the raw lengths only (first length +    *)
(*                            sum(length - k)), `end` is clamped to the total, only *)
(*                            touched segments are sliced, skipping the k overlap. *)
(*   the handle state machine: Open / QueryRange / QueryLength with the last answer *)
(*                            in `ans`; RangeAgrees / LengthAgrees are the property *)
(*                            as invariants.                                      *)
(*                                                                               *)
(* Positions are 0-based as in the code; TLA+ sequences are 1-based.              *)
EXTENDS Integers, Sym, SequencesExt

Min2(x, y) == IF x <= y THEN x ELSE y
Max2(x, y) == IF x >= y THEN x ELSE y

(* ------------------------------ the property ------------------------------ *)
\* bases [a, min(b, len)) of the fully extracted contig; empty when a >= b or a >= len
RangeSpec(full, a, b) ==
  LET e == Min2(b, Len(full)) IN IF a >= e THEN <<>> ELSE SubSeq(full, a + 1, e)
LengthSpec(full) == Len(full)

(* ----------------------------- descriptor lists ---------------------------- *)
RawLen(d)   == Len(d.data)
Oriented(d) == IF d.rc THEN RC(d.data) ELSE d.data
Lens(segs)  == [i \in DOMAIN segs |-> RawLen(segs[i])]

\* reconstruct_contig: first segment whole, later ones without their first k bases
Join(segs, k) ==
  FoldLeftDomain(LAMBDA acc, i :
                   LET o == Oriented(segs[i]) IN
                   IF i = 1 THEN o ELSE acc \o SubSeq(o, k + 1, Len(o)),
                 <<>>, segs)

\* what the writer guarantees (C10): every later segment holds at least the k overlap
\* bases, and a contig of several segments starts with at least one whole k-mer
WellFormed(lens, k) ==
  /\ \A i \in 2..Len(lens) : lens[i] >= k
  /\ Len(lens) > 1 => lens[1] >= k

(* ------------------- the design: arithmetic on raw lengths ------------------ *)
\* `let contribution = if i == 0 { seg_len } else { seg_len - kmer_len }`
Contribution(lens, k, i) == IF i = 1 THEN lens[1] ELSE lens[i] - k

\* first loop of get_contig_range: (seg_start, seg_end, seg_idx) per segment
Layout(lens, k) ==
  FoldLeftDomain(LAMBDA acc, i :
                   LET s == IF acc = <<>> THEN 0 ELSE acc[Len(acc)].e
                   IN  Append(acc, [s |-> s, e |-> s + Contribution(lens, k, i), i |-> i]),
                 <<>>, lens)

\* get_contig_length: the same sum without decoding anything
LengthImpl(lens, k) ==
  FoldLeftDomain(LAMBDA tot, i : tot + Contribution(lens, k, i), 0, lens)

\* body of the second loop for one touched segment
\*   contribution_start_in_segment = 0 | k
\*   range_start_in_contribution   = start.saturating_sub(seg_start)
\*   range_end_in_contribution     = min(end - seg_start, seg_end - seg_start)
Slice(seg, r, k, a, e) ==
  LET off  == IF r.i = 1 THEN 0 ELSE k
      rs   == Max2(a - r.s, 0)
      re   == Min2(e - r.s, r.e - r.s)
      ds   == off + rs
      de   == off + re
      data == Oriented(seg)
  IN  IF ds < de /\ de <= Len(data) THEN SubSeq(data, ds + 1, de) ELSE <<>>

\* get_contig_range (the `break` at seg_start >= end is a `continue` here: positions grow)
RangeImpl(segs, k, a, b) ==
  LET ranges == Layout(Lens(segs), k)
      total  == IF ranges = <<>> THEN 0 ELSE ranges[Len(ranges)].e
      e      == Min2(b, total)
  IN  IF a >= e THEN <<>>
      ELSE FoldLeftDomain(LAMBDA acc, i :
                            LET r == ranges[i] IN
                            IF r.e <= a \/ r.s >= e THEN acc
                            ELSE acc \o Slice(segs[i], r, k, a, e),
                          <<>>, segs)

(* measures used by the evidence / MC statistics: segments whose contribution meets [a, min(b,total)) *)
Touched(lens, k, a, b) ==
  LET ranges == Layout(lens, k)
      total  == IF ranges = <<>> THEN 0 ELSE ranges[Len(ranges)].e
      e      == Min2(b, total)
  IN  IF a >= e THEN {} ELSE {i \in DOMAIN lens : ranges[i].s < e /\ ranges[i].e > a /\ ranges[i].s < ranges[i].e}

(* descriptor list that lays `full` out with the given raw lengths and orientations *)
Tiles(full, lens, k) ==
  /\ Len(lens) >= 1
  /\ WellFormed(lens, k)
  /\ LengthImpl(lens, k) = Len(full)

BuildSegs(full, lens, rcs, k) ==
  LET ranges == Layout(lens, k) IN
  [i \in DOMAIN lens |->
     LET r   == ranges[i]
         off == IF i = 1 THEN 0 ELSE k
         o   == SubSeq(full, r.s - off + 1, r.e)
     IN  [data |-> IF rcs[i] THEN RC(o) ELSE o, rc |-> rcs[i]]]

(* --------------------------- the handle, as a machine ----------------------- *)
VARIABLES segs,   \* descriptor list of the contig the handle is asked about
          k,      \* k-mer length of the archive
          ans     \* the last answer

vars == <<segs, k, ans>>

Idle == [op |-> "idle", a |-> 0, b |-> 0, res |-> <<>>, n |-> 0]

Open(newsegs, newk) == segs' = newsegs /\ k' = newk /\ ans' = Idle

QueryRange(a, b) ==
  /\ ans' = [op |-> "range", a |-> a, b |-> b, res |-> RangeImpl(segs, k, a, b), n |-> 0]
  /\ UNCHANGED <<segs, k>>

QueryLength ==
  /\ ans' = [op |-> "length", a |-> 0, b |-> 0, res |-> <<>>, n |-> LengthImpl(Lens(segs), k)]
  /\ UNCHANGED <<segs, k>>

(* the property, over the machine *)
RangeAgrees  == ans.op = "range"  => ans.res = RangeSpec(Join(segs, k), ans.a, ans.b)
LengthAgrees == ans.op = "length" => ans.n = LengthSpec(Join(segs, k))
=============================================================================
