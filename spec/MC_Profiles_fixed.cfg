SPECIFICATION Spec
CONSTANTS
  W = 8
  MaxSteps = 4
  Operands <- MCOperands
  FooterRule = "checked"
  TokenRule = "counter"
INVARIANTS Monitor Agreement NoRelianceOnWrap FooterSafeInv TokenSafeInv
CHECK_DEADLOCK FALSE
