------------------------------ MODULE BoundedPQ ------------------------------
(* The C++-style bounded priority queue with completion signalling            *)
(* (ragc-core/src/priority_queue.rs, BoundedPriorityQueue; used by worker.rs   *)
(* for the main and auxiliary task queues).  Not one of the listed properties: *)
(* part of the growth of the specification beyond them (DESIGN.md 14.7).        *)
(*                                                                             *)
(* Two layers over the same abstract variables:                                *)
(*  - the SEQUENTIAL specification (A* actions): what one operation does at     *)
(*    its linearisation point.  emplace blocks while cur >= MaxCost (so the     *)
(*    bound is  cur < MaxCost + cost of the last admitted item), pop_large       *)
(*    blocks while the queue is empty and a producer is still registered,       *)
(*    returns a maximal entry by (priority, cost) or Completed;                 *)
(*  - the IMPLEMENTATION-shaped layer: one mutex, two condition variables       *)
(*    (cv_empty, cv_full) as sets of waiting threads, notify_all, spurious       *)
(*    wake-ups.  Every critical section is one action.  It is model-checked to   *)
(*    refine the sequential specification, to keep the invariants below and to   *)
(*    terminate (every consumer eventually sees Completed) under weak fairness   *)
(*    of the threads - spurious wake-ups get NO fairness, so a lost wake-up      *)
(*    shows up as a liveness counterexample.                                     *)
(* Protocol (the contract of the callers, worker.rs): NProd producers each call  *)
(* emplace / emplace_many_no_cost some number of times and then mark_completed    *)
(* exactly once; consumers call pop_large until it answers Completed.             *)
EXTENDS Naturals, FiniteSets, Sequences

CONSTANTS Producers,    \* producer threads
          Consumers,    \* consumer threads
          MaxCost,      \* capacity (sum of costs)
          Items,        \* per producer: sequence of [id, pr, cost, n]  (n = 1: emplace; n > 1: emplace_many_no_cost, cost = 0)
          MarkNotifies, \* TRUE = the code (mark_completed notifies cv_empty when the last producer leaves); FALSE = negative control
          PopNotifiesFull \* TRUE = the code (every pop notifies cv_full); FALSE = negative control

Threads == Producers \cup Consumers

VARIABLES q,        \* set of queued entries [id, pr, cost, k]  (k distinguishes the copies of emplace_many)
          cur,      \* current_cost
          nprod,    \* n_producers
          popped,   \* entries handed out, in order, with the consumer
          last,     \* verdict of the last pop: it returned a maximal entry
          pc,       \* per thread program counter
          nxt,      \* per producer: index of its next item
          waitE,    \* threads waiting on cv_empty
          waitF     \* threads waiting on cv_full
absvars == <<q, cur, nprod, popped, last>>
vars == <<q, cur, nprod, popped, last, pc, nxt, waitE, waitF>>

Key(e) == <<e.pr, e.cost>>
Less(a, b) == a.pr < b.pr \/ (a.pr = b.pr /\ a.cost < b.cost)
Maxima(S) == {x \in S : \A y \in S : ~Less(x, y)}

RECURSIVE SumCost(_)
SumCost(S) == IF S = {} THEN 0 ELSE LET x == CHOOSE y \in S : TRUE IN x.cost + SumCost(S \ {x})

Copies(it) == {[id |-> it.id, pr |-> it.pr, cost |-> it.cost, k |-> k] : k \in 1..it.n}

Init == /\ q = {} /\ cur = 0 /\ nprod = Cardinality(Producers)
        /\ popped = <<>> /\ last = TRUE
        /\ pc = [t \in Threads |-> "idle"]
        /\ nxt = [p \in Producers |-> 1]
        /\ waitE = {} /\ waitF = {}

-----------------------------------------------------------------------------
\* sequential specification (linearisation points)
AEmplace(it) ==
  /\ it.n = 1 => cur < MaxCost
  /\ q' = q \cup Copies(it)
  /\ cur' = cur + (IF it.n = 1 THEN it.cost ELSE 0)
  /\ UNCHANGED <<nprod, popped, last>>

APopNormal(c, e) ==
  /\ e \in q
  /\ q' = q \ {e}
  /\ cur' = cur - e.cost
  /\ popped' = Append(popped, [c |-> c, e |-> e])
  /\ last' = (e \in Maxima(q))
  /\ UNCHANGED nprod

APopCompleted == q = {} /\ nprod = 0 /\ UNCHANGED absvars

AMark == nprod > 0 /\ nprod' = nprod - 1 /\ UNCHANGED <<q, cur, popped, last>>

AbsNext == \/ \E p \in Producers : \E i \in 1..Len(Items[p]) : AEmplace(Items[p][i])
           \/ \E c \in Consumers, e \in q : APopNormal(c, e)
           \/ APopCompleted
           \/ AMark

-----------------------------------------------------------------------------
\* implementation-shaped layer
WakeE(pcs) == [t \in Threads |-> IF t \in waitE THEN "pop" ELSE pcs[t]]
WakeF(pcs) == [t \in Threads |-> IF t \in waitF THEN "emp" ELSE pcs[t]]

\* a producer starts its next call
PStart(p) ==
  /\ pc[p] = "idle"
  /\ IF nxt[p] <= Len(Items[p]) THEN pc' = [pc EXCEPT ![p] = "emp"] ELSE pc' = [pc EXCEPT ![p] = "mark"]
  /\ UNCHANGED <<q, cur, nprod, popped, last, nxt, waitE, waitF>>

\* emplace / emplace_many_no_cost: the critical section (after acquiring the mutex or re-acquiring it after a wait)
PEmplaceCS(p) ==
  /\ pc[p] = "emp"
  /\ LET it == Items[p][nxt[p]] IN
     IF it.n = 1 /\ cur >= MaxCost
     THEN \* cv_full.wait
          /\ waitF' = waitF \cup {p}
          /\ pc' = [pc EXCEPT ![p] = "empW"]
          /\ UNCHANGED <<q, cur, nprod, popped, last, nxt, waitE>>
     ELSE /\ AEmplace(it)
          /\ nxt' = [nxt EXCEPT ![p] = @ + 1]
          \* emplace: notify_all(cv_empty) iff the queue was empty; emplace_many: always
          /\ IF q = {} \/ it.n > 1
             THEN waitE' = {} /\ pc' = WakeE([pc EXCEPT ![p] = "idle"])
             ELSE waitE' = waitE /\ pc' = [pc EXCEPT ![p] = "idle"]
          /\ UNCHANGED waitF

PMarkCS(p) ==
  /\ pc[p] = "mark"
  /\ AMark
  /\ IF nprod' = 0 /\ MarkNotifies
     THEN waitE' = {} /\ pc' = WakeE([pc EXCEPT ![p] = "done"])
     ELSE waitE' = waitE /\ pc' = [pc EXCEPT ![p] = "done"]
  /\ UNCHANGED <<nxt, waitF>>

CStart(c) ==
  /\ pc[c] = "idle"
  /\ pc' = [pc EXCEPT ![c] = "pop"]
  /\ UNCHANGED <<q, cur, nprod, popped, last, nxt, waitE, waitF>>

CPopCS(c) ==
  /\ pc[c] = "pop"
  /\ IF q = {} /\ nprod > 0
     THEN \* cv_empty.wait
          /\ waitE' = waitE \cup {c}
          /\ pc' = [pc EXCEPT ![c] = "popW"]
          /\ UNCHANGED <<q, cur, nprod, popped, last, nxt, waitF>>
     ELSE IF q = {}
     THEN /\ APopCompleted
          /\ pc' = [pc EXCEPT ![c] = "done"]
          /\ UNCHANGED <<nxt, waitE, waitF>>
     ELSE \E e \in Maxima(q) :
          /\ APopNormal(c, e)
          \* queue became empty: notify_all(cv_empty); always notify_all(cv_full)
          /\ LET pc1 == [pc EXCEPT ![c] = "idle"]
                 pc2 == IF q' = {} THEN WakeE(pc1) ELSE pc1
             IN  pc' = IF PopNotifiesFull THEN WakeF(pc2) ELSE pc2
          /\ waitE' = IF q' = {} THEN {} ELSE waitE
          /\ waitF' = IF PopNotifiesFull THEN {} ELSE waitF
          /\ UNCHANGED nxt

\* spurious wake-up of a waiting thread (allowed by std::sync::Condvar); no fairness
Spurious(t) ==
  /\ \/ t \in waitE /\ waitE' = waitE \ {t} /\ waitF' = waitF /\ pc' = [pc EXCEPT ![t] = "pop"]
     \/ t \in waitF /\ waitF' = waitF \ {t} /\ waitE' = waitE /\ pc' = [pc EXCEPT ![t] = "emp"]
  /\ UNCHANGED <<q, cur, nprod, popped, last, nxt>>

Step(t) == \/ t \in Producers /\ (PStart(t) \/ PEmplaceCS(t) \/ PMarkCS(t))
           \/ t \in Consumers /\ (CStart(t) \/ CPopCS(t))

Next == \/ \E t \in Threads : Step(t)
        \/ \E t \in Threads : Spurious(t)

Spec == Init /\ [][Next]_vars /\ \A t \in Threads : WF_vars(Step(t))

-----------------------------------------------------------------------------
\* properties
AllItems == UNION {UNION {Copies(Items[p][i]) : i \in 1..Len(Items[p])} : p \in Producers}
Emplaced == UNION {UNION {Copies(Items[p][i]) : i \in 1..(nxt[p] - 1)} : p \in Producers}
PoppedSet == {popped[i].e : i \in 1..Len(popped)}

TypeOK == /\ q \subseteq AllItems /\ cur \in Nat /\ nprod \in 0..Cardinality(Producers)
          /\ waitE \subseteq Consumers /\ waitF \subseteq Producers
CostAccounting == cur = SumCost(q)
\* admission only below the limit: the queue never holds more than MaxCost - 1 + the largest single cost
MaxItemCost == LET S == {e.cost : e \in AllItems} IN IF S = {} THEN 0 ELSE CHOOSE m \in S : \A x \in S : x <= m
Bound == cur < MaxCost + MaxItemCost \/ (MaxCost = 0 /\ cur = 0)
ExactlyOnce == /\ PoppedSet \cap q = {}
               /\ PoppedSet \cup q = Emplaced
               /\ Cardinality(PoppedSet) = Len(popped)
PopOrder == last
\* Completed is only ever answered when nothing is queued and nothing will be
DoneMeansDrained == (\E c \in Consumers : pc[c] = "done") => (q = {} /\ nprod = 0)
\* waiting sets and program counters agree; nobody waits on cv_empty while items are queued... (not required by the code: a waiter is only woken when
\* the queue goes from empty to non-empty, and re-checks) - what IS required: a waiting consumer implies the queue was empty when it decided to wait
WaitConsistent == /\ \A t \in Threads : (pc[t] = "popW") = (t \in waitE)
                  /\ \A t \in Threads : (pc[t] = "empW") = (t \in waitF)
\* no lost wake-up, as a state predicate: it never happens that everybody who could make progress is asleep
NoDeadEnd == (\A t \in Threads : pc[t] \in {"done", "popW", "empW"}) => (\A t \in Threads : pc[t] = "done")

Refines == [][AbsNext]_absvars
Termination == <>(\A t \in Threads : pc[t] = "done")
Drained == [](  (\A t \in Threads : pc[t] = "done") => (q = {} /\ PoppedSet = AllItems) )
=============================================================================
