SPECIFICATION DesignSpec
CONSTANTS
  Batches <- MCBatches
  ContigsOf <- MCContigsOf
  SegGroups <- MCSegGroups
  RefKind <- MCRefKind
  PrefixMatch <- MCPrefixMatch
  Handles = {1, 2}
  CursorReset = TRUE
  RefPath = "meta"
  RangeCheck = "afterLookup"
  MaxLen = 0
  Alpha = "full"
INVARIANTS HistoryIndependent TableSane CacheSane
PROPERTIES IsolatedMC
CHECK_DEADLOCK FALSE
