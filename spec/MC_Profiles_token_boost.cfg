SPECIFICATION Spec
CONSTANTS
  W = 8
  MaxSteps = 4
  Operands <- MCOperands
  FooterRule = "checked"
  TokenRule = "boost"
INVARIANTS TokenSafeInv
CHECK_DEADLOCK FALSE
