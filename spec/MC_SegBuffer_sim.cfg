SPECIFICATION MSpec
CONSTANTS
  Parts = {}
  G0 = 2
  MaxG = 4
  MaxOps = 12
  Emit = TRUE
INVARIANTS ReplayOut TypeOK Conserved SortedAfterSort OneGroupPerKey
CHECK_DEADLOCK FALSE
