------------------------------- MODULE Bloom -------------------------------
(* The splitter Bloom filter (ragc-core/src/bloom_filter.rs).  Growth of the     *)
(* specification beyond the listed properties (DESIGN.md 14.7).                   *)
(*                                                                               *)
(* The hash is an uninterpreted function H (chosen arbitrarily in the initial     *)
(* state: TLC checks the laws for EVERY choice of H over a small universe, i.e.     *)
(* they cannot depend on the mixing arithmetic).  State: the bit set, the item counter, the size.      *)
(* Contract of the users (pattern: bloom.check(k) && set.contains(k)):              *)
(*   NoFalseNegative   every inserted k-mer is reported "possibly in set" until the  *)
(*                     next clear / resize,                                          *)
(*   EmptySaysNo       an empty filter answers "definitely not" for every k-mer,     *)
(*   counters: num_items counts insert calls since the last clear / resize,          *)
(*   size_bits() = max(requested, 64); resize and clear forget everything.           *)
(* Precondition found by writing the model: new(0) / resize(0) allocate NO words but   *)
(* report 64 bits, so the next insert/check indexes out of bounds - the model requires  *)
(* a request >= 1.                                                                      *)
EXTENDS Naturals, FiniteSets

CONSTANTS Kmers,     \* universe of k-mers
          NH,        \* number of hash functions (3 in the code)
          Sizes,     \* sizes that may be requested (>= 1)
          HSpace     \* set of candidate hash assignments  [Kmers -> [1..NH -> Nat]]

VARIABLES size, bits, items, ins,   \* ins = ghost: k-mers inserted since the last clear / resize
          H                         \* the hash assignment: chosen arbitrarily at the start, never changed (uninterpreted function)
vars == <<size, bits, items, ins, H>>

Eff(n) == IF n < 64 THEN 64 ELSE n
Positions(k) == {H[k][i] % size : i \in 1..NH}
Check(k) == Positions(k) \subseteq bits

Init == /\ H \in HSpace
        /\ \E n \in Sizes : size = Eff(n) /\ bits = {} /\ items = 0 /\ ins = {}
Insert(k) == /\ bits' = bits \cup Positions(k) /\ items' = items + 1 /\ ins' = ins \cup {k} /\ UNCHANGED <<size, H>>
Clear == bits' = {} /\ items' = 0 /\ ins' = {} /\ UNCHANGED <<size, H>>
Resize(n) == size' = Eff(n) /\ bits' = {} /\ items' = 0 /\ ins' = {} /\ UNCHANGED H
Next == (\E k \in Kmers : Insert(k)) \/ Clear \/ (\E n \in Sizes : Resize(n))
Spec == Init /\ [][Next]_vars

TypeOK == /\ size >= 64 /\ bits \subseteq 0..(size - 1) /\ items \in Nat
NoFalseNegative == \A k \in ins : Check(k)
EmptySaysNo == (bits = {}) => \A k \in Kmers : ~Check(k)
CountsInserts == (ins = {}) = (items = 0) /\ items >= Cardinality(ins)
\* filling_factor() = items / (size div 8), as the rational items : (size div 8); 1 when the capacity is 0 (cannot happen: size >= 64)
Capacity == size \div 8
=============================================================================
