SPECIFICATION MCSpec
CONSTANTS K = 1
          MaxLen = 4
          Alphabet = {0,1,2,3,4}
          WithExtra = FALSE
INVARIANTS Positions Tiling JoinPrefix JoinDone Boundaries Single WindowAgrees
CHECK_DEADLOCK FALSE
