SPECIFICATION MCSpec
CONSTANTS Family = "cuts"
          Level = 2
INVARIANTS ChainInv DoneInv PackInv WidthInv Emit
CHECK_DEADLOCK FALSE
