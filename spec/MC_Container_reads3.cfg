SPECIFICATION MCSpec
CONSTANTS Profile = "reads"
          MaxOps = 3
          MaxReads = 3
          Limits = {1000000}
          NoLimit = 1000000
          BufCap = 1000000
INVARIANTS NoDupNames Layout RoundTrip ReadsRight DiskIsPrefix Reported ImageReadable PrefixRejected Emit
CHECK_DEADLOCK FALSE
