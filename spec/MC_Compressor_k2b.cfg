SPECIFICATION Spec
CONSTANTS K = 2
          Contig <- C16
          Cuts <- Cuts16k2
          RcRule = "format"
INVARIANTS PartsContiguous ReassembleEqualsInput PiecesLongEnough
CHECK_DEADLOCK FALSE
