----------------------------- MODULE MC_Kmer -----------------------------
(* Exhaustive model + REPLAY generation for Kmer.tla.  A history variable h   *)
(* (a function of hist, so it adds no states) records the model's post-state   *)
(* after every step; every behaviour of maximal length is printed as one JSON  *)
(* line for `rvh replay-kmer`.                                                 *)
EXTENDS Kmer, TLC, Json

VARIABLE h
mcvars == <<vars, h>>

Obs == [sym |-> hist[Len(hist)], size |-> size, dir |-> dir, rc |-> rc, full |-> Full,
        canon |-> IF Full THEN DataCanon ELSE <<>>, isdir |-> IF Full THEN DirFlag ELSE FALSE]

MCInit == Init /\ h = <<>>
MCNext == Next /\ h' = Append(h, Obs')
MCSpec == MCInit /\ [][MCNext]_mcvars

Emit == Len(hist) = MaxLen =>
          PrintT(<<"REPLAY", ToJson([k |-> K, steps |-> h, enum |-> Enumerate(hist)])>>)
==========================================================================
