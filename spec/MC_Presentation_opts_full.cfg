SPECIFICATION MCSpec
CONSTANTS Family = "opts"
          Level = 2
INVARIANTS ChainInv DoneInv PackInv WidthInv Emit
CHECK_DEADLOCK FALSE
