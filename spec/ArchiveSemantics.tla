-------------------------- MODULE ArchiveSemantics --------------------------
(* Independent decoder of a whole AGC v3 archive at the structural level, and   *)
(* every addressing / metadata rule of property C02 as a named check.           *)
(*                                                                              *)
(* Input (IOEnv.TRACE, ndjson written by `rvh archive-view`): the abstract case *)
(* (parameters + input samples), the structural view produced by the            *)
(* independent byte lexer (directory, parts, un-ZSTD'd payloads, integer        *)
(* streams, NUL-separated byte strings), and what ragc's own reader returned.   *)
(*                                                                              *)
(* The specification is a reader state machine: it walks a list of check items  *)
(* (layout, every stream, collection, every group, every contig, ragc's         *)
(* answers); item i can be consumed only if its rule holds, so the first        *)
(* violated rule is the first unmatched item (reported by the POSTCONDITION).   *)
(* All decoding is done by FormatOps (the format's semantics in TLA+).          *)
EXTENDS FormatOps, TLC, Json, IOUtils

VARIABLES l,     \* next check item
          cat,   \* decoded contig names per sample      (loaded by the first step)
          tab,   \* decoded descriptor tables [sample][contig]
          grp    \* decoded groups: gid -> [ref, packs]

Rec == ndJsonDeserialize(IOEnv.TRACE)

Of(kind) == SelectSeq(Rec, LAMBDA r : r.ev = kind)

Case      == Rec[1]
K         == Case.k
SegSize   == Case.seg
MinMatch  == Case.mm
Input     == Case.input                       \* <<[name, contigs: <<[name, seq]>>]>>
LexRec    == Of("lex")
LexOk     == Len(LexRec) = 1 /\ LexRec[1].result = "ok"
Layout    == Of("layout")[1]
Streams   == Of("stream")
ParamsR   == Of("params")
FtiR      == Of("file_type_info")
SamplesR  == Of("samples")
CBatches  == Of("contigs_batch")
DBatches  == Of("details_batch")
SegStreams == Of("segstream")
RagcOpen  == Of("ragc_open")
RagcSamples == Of("ragc_samples")
RagcSample  == Of("ragc_sample")
RagcContigs == Of("ragc_contigs")

NSamples == Len(Input)
KnownNames == {"collection-samples", "collection-contigs", "collection-details", "file_type_info",
               "params", "splitters", "segment-splitters"}

\* named check: prints the failing rule
Check(name, cond) == IF cond THEN TRUE ELSE PrintT(<<"FAILED", name>>) /\ FALSE

-----------------------------------------------------------------------------
\* ---------- catalogue (C03 part): names and descriptor tables -------------
BatchCount == (NSamples + PACK - 1) \div PACK
\* decoded contig names per sample (global sample index), from the contigs batches
NamesOfBatch(b) == [s \in 1..Len(CBatches[b].samples) |-> DecodeNames(CBatches[b].samples[s])]
AllNames == Flatten([b \in 1..Len(CBatches) |-> NamesOfBatch(b)])       \* seq over samples of [ok, names]

\* descriptor tables: per batch the flat list, then cut per sample / contig by stream 0
DescsOfBatch(b) == LET st == DBatches[b].streams IN DecodeDescs(st[2], st[3], st[4], st[5], SegSize + K)
\* structure stream: <<nSamples, (nContigs, nSegs*)*>> -> sequence (per sample) of sequences (per contig) of counts
RECURSIVE CutCounts(_, _, _, _)
CutCounts(s0, i, nLeft, acc) ==      \* acc: seq of per-sample seq of counts
  IF nLeft = 0 THEN [ok |-> i = Len(s0) + 1, counts |-> acc]
  ELSE IF i > Len(s0) THEN [ok |-> FALSE, counts |-> acc]
  ELSE LET nc == s0[i] IN
       IF i + nc > Len(s0) THEN [ok |-> FALSE, counts |-> acc]
       ELSE CutCounts(s0, i + nc + 1, nLeft - 1, Append(acc, SubSeq(s0, i + 1, i + nc)))
StructOfBatch(b) == LET s0 == DBatches[b].streams[1] IN
                    IF s0 = <<>> THEN [ok |-> FALSE, counts |-> <<>>] ELSE CutCounts(s0, 2, s0[1], <<>>)

\* cut a flat descriptor list by per-contig counts
RECURSIVE CutDescs(_, _, _, _, _)
CutDescs(flat, counts, ci, pos, acc) ==
  IF ci > Len(counts) THEN acc
  ELSE CutDescs(flat, counts, ci + 1, pos + counts[ci],
                Append(acc, IF counts[ci] = 0 THEN <<>> ELSE SubSeq(flat, pos + 1, pos + counts[ci])))
SumSeq(s) == LET RECURSIVE S(_) S(i) == IF i > Len(s) THEN 0 ELSE s[i] + S(i + 1) IN S(1)
\* per batch: seq over samples of seq over contigs of descriptor seqs
TablesOfBatch(b) ==
  LET st == StructOfBatch(b)
      flat == DescsOfBatch(b)
      RECURSIVE PerSample(_, _, _)
      PerSample(si, pos, acc) ==
        IF si > Len(st.counts) THEN acc
        ELSE PerSample(si + 1, pos + SumSeq(st.counts[si]),
                       Append(acc, CutDescs(flat, st.counts[si], 1, pos, <<>>)))
  IN PerSample(1, 0, <<>>)
AllTables == Flatten([b \in 1..Len(DBatches) |-> TablesOfBatch(b)])     \* [sample][contig] -> <<desc>>

-----------------------------------------------------------------------------
\* ---------- groups: reference and entries ----------------------------------
GroupInfo == [i \in 1..Len(SegStreams) |-> SegStreamName(SegStreams[i].name)]
StreamIdx(g, kind) == {i \in 1..Len(SegStreams) : GroupInfo[i].ok /\ GroupInfo[i].gid = g /\ GroupInfo[i].kind = kind}

\* the bytes a part stands for: raw, or un-ZSTD'd then (marker 1) tuple-unpacked
PartBytes(p) ==
  IF p.raw THEN [ok |-> TRUE, out |-> p.bytes]
  ELSE IF p.marker = 0 THEN [ok |-> Len(p.bytes) = p.meta, out |-> p.bytes]
  ELSE IF p.marker = 1 THEN LET u == TupleUnpack(p.bytes) IN [ok |-> u.ok /\ Len(u.out) = p.meta, out |-> u.out]
  ELSE [ok |-> FALSE, out |-> <<>>]

\* Decoded group table: for every segment stream index the decoded parts
RefOf(g) == LET S == StreamIdx(g, "r") IN
            IF S = {} THEN [ok |-> FALSE, out |-> <<>>]
            ELSE LET st == SegStreams[CHOOSE i \in S : TRUE] IN
                 IF Len(st.parts) # 1 THEN [ok |-> FALSE, out |-> <<>>] ELSE PartBytes(st.parts[1])
PacksOf(g) == LET S == StreamIdx(g, "d") IN
              IF S = {} THEN <<>>
              ELSE LET st == SegStreams[CHOOSE i \in S : TRUE] IN
                   [j \in 1..Len(st.parts) |->
                      LET pb == PartBytes(st.parts[j]) IN
                      IF ~pb.ok \/ (~st.parts[j].raw /\ st.parts[j].marker # 0) THEN [ok |-> FALSE, entries |-> <<>>]
                      ELSE PackEntries(pb.out)]

GroupIds == {GroupInfo[i].gid : i \in {j \in 1..Len(SegStreams) : GroupInfo[j].ok}}
\* precomputed once per archive (constant-level): gid -> [ref, packs]
GroupTable == [g \in GroupIds |-> [ref |-> IF g >= RAWGROUPS THEN RefOf(g) ELSE [ok |-> TRUE, out |-> <<>>],
                                   packs |-> PacksOf(g)]]

\* one stored segment by descriptor
SegmentOf(d) ==
  IF d.gid \notin DOMAIN grp THEN [ok |-> FALSE, why |-> "no stream for group", out |-> <<>>]
  ELSE LET G == grp[d.gid] IN
    IF d.gid >= RAWGROUPS /\ ~G.ref.ok THEN [ok |-> FALSE, why |-> "reference part missing/not decodable", out |-> <<>>]
    ELSE IF d.gid >= RAWGROUPS /\ d.id = 0 THEN [ok |-> TRUE, why |-> "", out |-> G.ref.out]
    ELSE LET pk == PackOf(d.gid, d.id)
             en == EntryOf(d.gid, d.id) IN
      IF pk + 1 > Len(G.packs) \/ ~G.packs[pk + 1].ok THEN [ok |-> FALSE, why |-> "pack missing/not well-formed", out |-> <<>>]
      ELSE IF en + 1 > Len(G.packs[pk + 1].entries) THEN [ok |-> FALSE, why |-> "entry beyond pack", out |-> <<>>]
      ELSE LET e == G.packs[pk + 1].entries[en + 1] IN
           IF d.gid < RAWGROUPS THEN [ok |-> TRUE, why |-> "", out |-> e]
           ELSE LET z == LzDecode(G.ref.out, e, MinMatch) IN
                IF z.ok THEN [ok |-> TRUE, why |-> "", out |-> z.out] ELSE [ok |-> FALSE, why |-> "LZ text malformed", out |-> <<>>]

\* one contig by its descriptor list
ContigOf(descs) ==
  LET segs == [j \in 1..Len(descs) |-> SegmentOf(descs[j])] IN
  IF \E j \in 1..Len(descs) : ~segs[j].ok THEN [ok |-> FALSE, why |-> segs[CHOOSE j \in 1..Len(descs) : ~segs[j].ok].why, out |-> <<>>]
  ELSE IF \E j \in 1..Len(descs) : Len(segs[j].out) # descs[j].len THEN [ok |-> FALSE, why |-> "raw length differs from decoded length", out |-> <<>>]
  ELSE IF \E j \in 2..Len(descs) : Len(segs[j].out) < K THEN [ok |-> FALSE, why |-> "later segment shorter than k", out |-> <<>>]
  ELSE [ok |-> TRUE, why |-> "", out |-> JoinContig([j \in 1..Len(descs) |-> Orient(segs[j].out, descs[j].rev)], K)]

-----------------------------------------------------------------------------
\* ---------- check items ----------------------------------------------------
AllParts == Flatten([i \in 1..Len(Streams) |-> [j \in 1..Len(Streams[i].parts) |-> Streams[i].parts[j]]])
PartEnd(p) == p.off + p.metaLen + p.size

LayoutOK ==
  /\ Check("lexer could parse the container", LexOk)
  /\ Check("directory fills the footer exactly", Layout.dirConsumed = Layout.footerLen)
  /\ Check("footer + 8-byte length end the file", Layout.footerStart + Layout.footerLen + 8 = Layout.fileLen)
  /\ Check("parts inside the data area", \A i \in 1..Len(AllParts) : PartEnd(AllParts[i]) <= Layout.footerStart)
  /\ Check("parts pairwise disjoint",
           \A i, j \in 1..Len(AllParts) : i < j =>
              (AllParts[i].size + AllParts[i].metaLen = 0 \/ AllParts[j].size + AllParts[j].metaLen = 0
               \/ PartEnd(AllParts[i]) <= AllParts[j].off \/ PartEnd(AllParts[j]) <= AllParts[i].off))
  /\ Check("parts of a stream in increasing file order",
           \A i \in 1..Len(Streams) : \A j \in 1..(Len(Streams[i].parts) - 1) :
              PartEnd(Streams[i].parts[j]) <= Streams[i].parts[j + 1].off)

StreamSetOK ==
  /\ Check("stream names are the v3 set",
           \A i \in 1..Len(Streams) : Streams[i].nameStr \in KnownNames \/ SegStreamName(Streams[i].name).ok)
  /\ Check("stream names unique", \A i, j \in 1..Len(Streams) : i # j => Streams[i].name # Streams[j].name)
  /\ Check("all metadata streams present", \A n \in KnownNames : \E i \in 1..Len(Streams) : Streams[i].nameStr = n)

ParamsOK ==
  /\ Check("one params part", Len(ParamsR) = 1)
  /\ Check("params is 16 bytes: k, min match, 50, segment size",
           LET b == ParamsR[1].bytes IN
           Len(b) = 16 /\ LEWord(b, 1) = K /\ LEWord(b, 5) = MinMatch /\ LEWord(b, 9) = PACK /\ LEWord(b, 13) = SegSize)
  /\ Check("file version 3.0",
           Len(FtiR) = 1 /\ LET it == FtiR[1].items IN
             \E i, j \in 1..Len(it) : i % 2 = 1 /\ j % 2 = 1 /\ it[i] = "file_version_major" /\ it[i + 1] = "3"
                                       /\ it[j] = "file_version_minor" /\ it[j + 1] = "0")

SamplesOK ==
  /\ Check("one collection-samples part with metadata = raw size, fully consumed",
           Len(SamplesR) = 1 /\ SamplesR[1].meta = SamplesR[1].rawLen /\ SamplesR[1].consumed = SamplesR[1].rawLen)
  /\ Check("sample names = input samples in first-registration order",
           SamplesR[1].names = [s \in 1..NSamples |-> Input[s].name])

BatchesOK ==
  /\ Check("one contigs part and one details part per 50 samples",
           Len(CBatches) = BatchCount /\ Len(DBatches) = BatchCount)
  /\ Check("batch b holds samples 50b .. 50b+49",
           \A b \in 1..BatchCount : Len(CBatches[b].samples) = (IF b < BatchCount THEN PACK ELSE NSamples - PACK * (BatchCount - 1)))
  /\ Check("contigs parts: metadata = raw size, fully consumed",
           \A b \in 1..Len(CBatches) : CBatches[b].meta = CBatches[b].rawLen /\ CBatches[b].consumed = CBatches[b].rawLen)
  /\ Check("details parts: metadata 0, five sub-streams with declared sizes, fully consumed",
           \A b \in 1..Len(DBatches) : DBatches[b].meta = 0 /\ DBatches[b].lensOk /\ DBatches[b].allConsumed)
  /\ Check("details structure stream well-formed",
           \A b \in 1..Len(DBatches) : StructOfBatch(b).ok /\ Len(StructOfBatch(b).counts) = Len(CBatches[b].samples))
  /\ Check("details value streams have one entry per segment",
           \A b \in 1..Len(DBatches) :
              LET n == SumSeq([s \in 1..Len(StructOfBatch(b).counts) |-> SumSeq(StructOfBatch(b).counts[s])]) IN
              \A q \in 2..5 : Len(DBatches[b].streams[q]) = n)

\* per sample: names verbatim and in order (C03), table shape
SampleCatalogueOK(s) ==
  /\ Check("contig names decodable", cat[s].ok)
  /\ Check("contig names verbatim, in input order", cat[s].names = [c \in 1..Len(Input[s].contigs) |-> Input[s].contigs[c].name])
  /\ Check("one descriptor list per contig", Len(tab[s]) = Len(Input[s].contigs))

\* per group: C02 addressing rules
GroupOK(g) ==
  LET G == grp[g] IN
  /\ Check("LZ group has exactly one reference part / raw group has none",
           IF g >= RAWGROUPS THEN (StreamIdx(g, "r") # {} => Len(SegStreams[CHOOSE i \in StreamIdx(g, "r") : TRUE].parts) <= 1)
           ELSE \A i \in StreamIdx(g, "r") : Len(SegStreams[i].parts) = 0)
  /\ Check("reference part decodable, unpacked size = metadata", g < RAWGROUPS \/ StreamIdx(g, "r") = {} \/ Len(SegStreams[CHOOSE i \in StreamIdx(g, "r") : TRUE].parts) = 0 \/ G.ref.ok)
  /\ Check("every pack decodable; compressed packs carry marker 0 and metadata = raw size; entries end with 0xFF",
           \A j \in 1..Len(G.packs) : G.packs[j].ok)
  /\ Check("every non-final pack has exactly 50 entries; final pack 1..50",
           \A j \in 1..Len(G.packs) : IF j < Len(G.packs) THEN Len(G.packs[j].entries) = PACK
                                       ELSE Len(G.packs[j].entries) \in 1..PACK)
  /\ Check("raw group: entry 0 of pack 0 is the placeholder 0x7F",
           g >= RAWGROUPS \/ Len(G.packs) = 0 \/ (Len(G.packs[1].entries) >= 1 /\ G.packs[1].entries[1] = <<PLACEHOLD>>))

\* per contig: independent decode = input  (C01/C02)
ContigOK(s, c) ==
  LET r == ContigOf(tab[s][c]) IN
  /\ Check("contig has at least one descriptor", Len(tab[s][c]) >= 1)
  /\ (IF r.ok THEN TRUE ELSE PrintT(<<"FAILED", r.why>>) /\ FALSE)
  /\ Check("independent decode equals the input contig", r.out = Input[s].contigs[c].seq)

\* ragc's own reader agrees (three-way)
RagcOK ==
  /\ Check("ragc opens the archive", Len(RagcOpen) = 1 /\ RagcOpen[1].result = "ok")
  /\ Check("ragc lists the input samples in order", Len(RagcSamples) = 1 /\ RagcSamples[1].names = [s \in 1..NSamples |-> Input[s].name])
RagcSampleOK(s) ==
  /\ Check("ragc extracts the sample without error", Len(RagcSample) >= s /\ RagcSample[s].result = "ok")
  /\ Check("ragc extraction = input (names, order, bases)",
           RagcSample[s].contigs = [c \in 1..Len(Input[s].contigs) |-> [name |-> Input[s].contigs[c].name, seq |-> Input[s].contigs[c].seq]])
  /\ Check("ragc contig listing = input names", Len(RagcContigs) >= s /\ RagcContigs[s].result = "ok"
           /\ RagcContigs[s].names = [c \in 1..Len(Input[s].contigs) |-> Input[s].contigs[c].name])

-----------------------------------------------------------------------------
\* ---------- the reader state machine over check items -----------------------
\* measured non-triviality of the archive (reported, never a verdict)
Stats ==
  LET ds == Flatten([s \in 1..NSamples |-> Flatten(tab[s])]) IN
  PrintT(<<"STATS", ToJson([
     descriptors |-> Len(ds),
     reversed    |-> Cardinality({i \in 1..Len(ds) : ds[i].rev}),
     lzgroups    |-> Cardinality({g \in GroupIds : g >= RAWGROUPS}),
     multipack   |-> Cardinality({g \in GroupIds : Len(grp[g].packs) >= 2}),
     sameasref   |-> Cardinality({i \in 1..Len(ds) : ds[i].gid >= RAWGROUPS /\ ds[i].id = 0}) - Cardinality({g \in GroupIds : g >= RAWGROUPS}),
     shared      |-> Len(ds) - Cardinality({<<ds[i].gid, ds[i].id>> : i \in 1..Len(ds)}),
     rawsegs     |-> Cardinality({i \in 1..Len(ds) : ds[i].gid < RAWGROUPS})])>>)

GroupSeq == SortedSeq(GroupIds)
\* MODE (environment): "all" = every rule (C02); "ragc" = only ragc's own answers against the input (C01)
Mode == IF "MODE" \in DOMAIN IOEnv THEN IOEnv.MODE ELSE "all"
RagcItems == <<[kind |-> "ragc"]>> \o [s \in 1..NSamples |-> [kind |-> "ragc_sample", s |-> s]]
Items ==
  IF Mode = "ragc" THEN RagcItems ELSE
  IF ~LexOk THEN <<[kind |-> "layout"]>> ELSE
  <<[kind |-> "layout"], [kind |-> "streams"], [kind |-> "params"], [kind |-> "samples"], [kind |-> "batches"]>>
  \o [s \in 1..NSamples |-> [kind |-> "catalogue", s |-> s]]
  \o [i \in 1..Len(GroupSeq) |-> [kind |-> "group", g |-> GroupSeq[i]]]
  \o Flatten([s \in 1..NSamples |-> [c \in 1..Len(Input[s].contigs) |-> [kind |-> "contig", s |-> s, c |-> c]]])
  \o <<[kind |-> "ragc"]>>
  \o [s \in 1..NSamples |-> [kind |-> "ragc_sample", s |-> s]]
  \o <<[kind |-> "stats"]>>       \* prints the measured features (evaluated on a worker thread: deep recursion)

ItemOK(it) ==
  CASE it.kind = "layout"      -> LayoutOK
    [] it.kind = "streams"     -> StreamSetOK
    [] it.kind = "params"      -> ParamsOK
    [] it.kind = "samples"     -> SamplesOK
    [] it.kind = "batches"     -> BatchesOK
    [] it.kind = "catalogue"   -> SampleCatalogueOK(it.s)
    [] it.kind = "group"       -> GroupOK(it.g)
    [] it.kind = "contig"      -> ContigOK(it.s, it.c)
    [] it.kind = "ragc"        -> RagcOK
    [] it.kind = "ragc_sample" -> RagcSampleOK(it.s)
    [] it.kind = "stats"       -> Stats

\* The decoded catalogue and group tables are computed ONCE by the first step (Load) and kept in
\* state variables: TLC normalises state values, so later items index them in constant time
\* (constant-level operators over IOEnv data are re-evaluated at every use).
vars == <<l, cat, tab, grp>>
Init == l = 0 /\ cat = <<>> /\ tab = <<>> /\ grp = <<>>
Load == /\ l = 0 /\ l' = 1
        /\ cat' = IF Mode = "ragc" \/ ~LexOk THEN <<>> ELSE AllNames
        /\ tab' = IF Mode = "ragc" \/ ~LexOk THEN <<>> ELSE AllTables
        /\ grp' = IF Mode = "ragc" \/ ~LexOk THEN <<>> ELSE GroupTable
\* `= TRUE` makes TLC evaluate the rule as an expression (short-circuit), not as an action to split
Step == l >= 1 /\ l <= Len(Items) /\ (ItemOK(Items[l]) = TRUE) /\ l' = l + 1 /\ UNCHANGED <<cat, tab, grp>>
Next == Load \/ Step
Spec == Init /\ [][Next]_vars

Accepted ==
  LET d == TLCGet("stats").diameter IN
  \* one state for Init, one after Load, then one per consumed item
  IF d - 2 = Len(Items) THEN PrintT(<<"ITEMS", Len(Items)>>)
  ELSE PrintT(<<"UNMATCHED", d - 1, ToJson(Items[d - 1])>>) /\ FALSE

=============================================================================
