----------------------------- MODULE MC_Reader -----------------------------
(* Bounded models of Reader.tla over a small archive abstraction, and REPLAY     *)
(* generation.                                                                   *)
(*  archive   two metadata batches with one sample each (sA | sB), sX unknown;   *)
(*            contig cK in both samples, cS (a raw-group segment) in sA only, cX  *)
(*            unknown; sA's cK has segments in the LZ groups gRaw (reference      *)
(*            stored raw, metadata 0) and gZ (reference compressed), sB's in gB;  *)
(*            raw group gLow (id < 16), gUnk unknown; prefixes pB (one sample of  *)
(*            batch 2), pAll (samples of both batches), pNone.                    *)
(*  DesignSpec  no history variable: every handle of Handles may issue every      *)
(*            call of the alphabet, clone and close, in any order and without a   *)
(*            length bound - the reachable state graph is finite, so the          *)
(*            invariants are shown for histories of ANY length and any            *)
(*            interleaving of the handles.                                        *)
(*  ReplaySpec  one current handle, every sequence of MaxLen calls of the         *)
(*            alphabet (clone_for_thread = continue on the clone); h records per  *)
(*            call <<alphabet index, class code, measure flags>>; every complete  *)
(*            behaviour is printed as one JSON line for `rvh replay-reader`.      *)
EXTENDS Reader, Json

CONSTANTS MaxLen,   \* calls per behaviour (ReplaySpec)
          Alpha     \* "full" | "core": the alphabet of ReplaySpec

VARIABLES h,    \* ReplaySpec: the calls made so far
          cur,  \* ReplaySpec: the handle in use
          bk    \* ReplaySpec: bookkeeping for the measures: load-all rounds on cur (capped at 2), who filled cache[g]
mcvars == <<vars, h, cur, bk>>

MCBatches     == <<<<"sA">>, <<"sB">>>>
MCContigsOf   == [sA |-> <<"cK", "cS">>, sB |-> <<"cK">>]
MCSegGroups   == [sA |-> [cK |-> <<"gRaw", "gZ">>, cS |-> <<"gLow">>], sB |-> [cK |-> <<"gB">>]]
MCRefKind     == [gRaw |-> "raw", gZ |-> "zstd", gB |-> "zstd", gLow |-> "none"]
MCPrefixMatch == [pB |-> <<"sB">>, pAll |-> <<"sA", "sB">>, pNone |-> <<>>]

SArgs == <<"sA", "sB", "sX">>
SCArgs == <<<<"sA", "cK">>, <<"sA", "cX">>, <<"sB", "cK">>, <<"sB", "cX">>, <<"sX", "cK">>, <<"sX", "cX">>>>
GArgs == <<"gRaw", "gZ", "gLow", "gUnk">>
PArgs == <<"pB", "pAll", "pNone">>
\* ranges: "head" for every (s, c); whole / empty / beyond-the-end on the known contig; an EMPTY range on
\* unknown names (the pre-b612229 rule answered Ok there)
RArgs == [i \in 1..6 |-> <<SCArgs[i][1], SCArgs[i][2], "head">>] \o
         <<<<"sA", "cK", "all">>, <<"sA", "cK", "empty">>, <<"sB", "cK", "beyond">>, <<"sX", "cK", "empty">>, <<"sA", "cX", "empty">>>>

AlphaFull ==
  <<O("list_samples", "", "", "", "", "")>> \o
  [i \in 1..3 |-> O("list_contigs", SArgs[i], "", "", "", "")] \o
  [i \in 1..3 |-> O("get_sample", SArgs[i], "", "", "", "")] \o
  [i \in 1..6 |-> O("get_contig", SCArgs[i][1], SCArgs[i][2], "", "", "")] \o
  [i \in 1..Len(RArgs) |-> O("get_contig_range", RArgs[i][1], RArgs[i][2], RArgs[i][3], "", "")] \o
  [i \in 1..6 |-> O("get_contig_length", SCArgs[i][1], SCArgs[i][2], "", "", "")] \o
  [i \in 1..6 |-> O("get_contig_segments_desc", SCArgs[i][1], SCArgs[i][2], "", "", "")] \o
  <<O("get_all_segments", "", "", "", "", ""), O("get_group_statistics", "", "", "", "", "")>> \o
  [i \in 1..4 |-> O("get_reference_segment", "", "", "", GArgs[i], "")] \o
  [i \in 1..3 |-> O("list_samples_with_prefix", "", "", "", "", PArgs[i])] \o
  [i \in 1..3 |-> O("get_samples_by_prefix", "", "", "", "", PArgs[i])] \o
  <<O("get_compression_stats", "", "", "", "", ""), O("clone_for_thread", "", "", "", "", "")>>

\* one representative per mechanism (load trigger per kind of call, both cache fill paths, hits, misses)
AlphaCore ==
  <<O("list_samples", "", "", "", "", ""),
    O("list_contigs", "sA", "", "", "", ""), O("list_contigs", "sX", "", "", "", ""),
    O("get_sample", "sA", "", "", "", ""), O("get_sample", "sB", "", "", "", ""), O("get_sample", "sX", "", "", "", ""),
    O("get_contig", "sA", "cK", "", "", ""), O("get_contig", "sB", "cK", "", "", ""),
    O("get_contig", "sA", "cX", "", "", ""), O("get_contig", "sX", "cK", "", "", ""),
    O("get_contig_range", "sA", "cK", "head", "", ""), O("get_contig_range", "sA", "cK", "all", "", ""),
    O("get_contig_range", "sX", "cK", "empty", "", ""), O("get_contig_range", "sB", "cX", "head", "", ""),
    O("get_contig_length", "sB", "cK", "", "", ""), O("get_contig_length", "sX", "cX", "", "", ""),
    O("get_contig_segments_desc", "sA", "cK", "", "", ""),
    O("get_all_segments", "", "", "", "", ""), O("get_group_statistics", "", "", "", "", ""),
    O("get_reference_segment", "", "", "", "gRaw", ""), O("get_reference_segment", "", "", "", "gZ", ""),
    O("get_reference_segment", "", "", "", "gLow", ""), O("get_reference_segment", "", "", "", "gUnk", ""),
    O("get_samples_by_prefix", "", "", "", "", "pAll"), O("get_samples_by_prefix", "", "", "", "", "pNone"),
    O("list_samples_with_prefix", "", "", "", "", "pAll"),
    O("clone_for_thread", "", "", "", "", "")>>

Alphabet == IF Alpha = "core" THEN AlphaCore ELSE AlphaFull
ASSUME PrintT(<<"ALPHABET", ToJson(Alphabet)>>)

-----------------------------------------------------------------------------
\* the queries the invariants quantify over: every call of the full alphabet
Q == {AlphaFull[i] : i \in {j \in 1..Len(AlphaFull) : AlphaFull[j].op # "clone_for_thread"}}
HistoryIndependent == HistoryIndependentOn(Q)
SameAsFresh        == SameAsFreshOn(Q)
NoPanic            == NoPanicOn(Q)
UnknownIsError     == UnknownIsErrorOn(Q)
\* the required function never panics and answers unknown names with an error, and a fresh handle computes it in
\* the current design (checked once at start-up): so HistoryIndependent implies the other three, and the
\* design configuration lists HistoryIndependent only (the others are the targets of the negative controls)
ASSUME \A op \in Q : Spec(op).cls # "panic" /\ (NamesUnknown(op) => Spec(op).cls = "err")
ASSUME (CursorReset /\ RefPath = "meta" /\ RangeCheck = "afterLookup") => \A op \in Q : Do(Fresh, op).res = Spec(op)

\* measures of what a call exercises, from the pre-state (reported with the behaviour; they are the
\* counting rule of the evidence, not part of any verdict)
PerSample == {"list_contigs", "get_sample", "get_contig", "get_contig_range", "get_contig_length", "get_contig_segments_desc"}
FullTable == {"get_all_segments", "get_group_statistics"}
WillLoad(st, op) ==
  IF op.op \in FullTable THEN TRUE
  ELSE IF op.op \in PerSample THEN NoContigs(st, op.s)
  ELSE IF op.op = "get_samples_by_prefix"
       THEN (IF PrefixMatch[op.p] = <<>> THEN FALSE ELSE NoContigs(st, PrefixMatch[op.p][1]))
  ELSE FALSE
UsesGroups(op) ==
  IF op.op = "get_contig" /\ HasContig(op.s, op.c) THEN Ran(SegGroups[op.s][op.c])
  ELSE IF op.op = "get_contig_range" /\ HasContig(op.s, op.c) THEN Ran(Touched(op.s, op.c, op.r))
  ELSE IF op.op = "get_sample" /\ Known(op.s) THEN Ran(GroupsOf(op.s, ContigsOf[op.s]))
  ELSE IF op.op = "get_samples_by_prefix" THEN UNION {Ran(GroupsOf(s, ContigsOf[s])) : s \in Ran(PrefixMatch[op.p])}
  ELSE {}
Bit(b, v) == IF b THEN v ELSE 0
Flags(st, op) ==
  LET ld == WillLoad(st, op)
      re == IF ld THEN bk.loads >= 1 ELSE FALSE                     \* a second load-all on the same handle (what D4 needs)
      g  == op.g
  IN Bit(ld, 1) + Bit(re, 2)
     + Bit(IF re THEN (IF op.op \in PerSample THEN ~Known(op.s) ELSE FALSE) ELSE FALSE, 4)    \* miss after a hit
     + Bit(IF re THEN op.op \in FullTable ELSE FALSE, 8)                                      \* full table after a load
     + Bit(IF op.op = "get_reference_segment" THEN (IF g \in DOMAIN bk.by THEN bk.by[g] = "A" ELSE FALSE) ELSE FALSE, 16)
                                                                     \* reference asked after get_sample/get_contig/range filled it
     + Bit(IF op.op = "get_reference_segment" THEN (IF g \in DOMAIN st.cache THEN FALSE ELSE HasRef(g)) ELSE FALSE, 32)
                                                                     \* reference asked before any fill (path B fills)
     + Bit(\E x \in UsesGroups(op) : IF x \in DOMAIN bk.by THEN bk.by[x] = "B" ELSE FALSE, 64)
                                                                     \* decoding against a reference cached by path B
     + Bit(IF op.op \in PerSample THEN (IF Known(op.s) THEN BatchOf(op.s) > 1 ELSE FALSE) ELSE FALSE, 128)   \* second-batch sample
ClsCode(c) == CASE c = "ok" -> 0 [] c = "err" -> 1 [] c = "panic" -> 2
NoBk == [loads |-> 0, by |-> [g \in {} |-> "A"]]

-----------------------------------------------------------------------------
\* ---- ReplaySpec -----------------------------------------------------------------------
MCInit == Init /\ h = <<>> /\ cur = First /\ bk = NoBk

Step(i) ==
  LET op == Alphabet[i] IN
  /\ IF op.op = "clone_for_thread"
     THEN \E h2 \in Handles \ {cur} :
            /\ hs' = [hs EXCEPT ![h2] = Fresh, ![cur] = Closed]      \* continue on the clone, drop the original
            /\ cur' = h2 /\ bk' = NoBk
            /\ h' = Append(h, <<i, 0, 0>>)
     ELSE /\ Call(cur, op) /\ cur' = cur
          /\ bk' = [loads |-> IF WillLoad(hs[cur], op) THEN Min(2, bk.loads + 1) ELSE bk.loads,
                    by |-> [g \in DOMAIN hs'[cur].cache |->
                              IF g \in DOMAIN bk.by THEN bk.by[g]
                              ELSE IF op.op = "get_reference_segment" THEN "B" ELSE "A"]]
          /\ h' = Append(h, <<i, ClsCode(Result(cur, op).cls), Flags(hs[cur], op)>>)
MCNext == Len(h) < MaxLen /\ \E i \in 1..Len(Alphabet) : Step(i)
ReplaySpec == MCInit /\ [][MCNext]_mcvars

Emit == Len(h) = MaxLen => PrintT(<<"REPLAY", ToJson(h)>>)
\* every answer recorded in a behaviour is the stateless one (the per-step form of HistoryIndependent)
StepsRight == \A j \in 1..Len(h) : h[j][2] = ClsCode(Spec(Alphabet[h[j][1]]).cls)

-----------------------------------------------------------------------------
\* ---- DesignSpec: all handles, all calls, no bound ------------------------------------------
K == UNCHANGED <<h, cur, bk>>
SS == Ran(SArgs)
SC == Ran(SCArgs)
AListSamples        == \E a \in Handles : ListSamples(a) /\ K
AListPrefix         == \E a \in Handles, p \in Ran(PArgs) : ListSamplesWithPrefix(a, p) /\ K
ACompressionStats   == \E a \in Handles : GetCompressionStats(a) /\ K
AListContigs        == \E a \in Handles, s \in SS : ListContigs(a, s) /\ K
AGetContigLength    == \E a \in Handles, x \in SC : GetContigLength(a, x[1], x[2]) /\ K
AGetSegmentsDesc    == \E a \in Handles, x \in SC : GetContigSegmentsDesc(a, x[1], x[2]) /\ K
AGetContig          == \E a \in Handles, x \in SC : GetContig(a, x[1], x[2]) /\ K
AGetContigRange     == \E a \in Handles, x \in SC, r \in RangeKinds : GetContigRange(a, x[1], x[2], r) /\ K
AGetSample          == \E a \in Handles, s \in SS : GetSample(a, s) /\ K
AGetSamplesByPrefix == \E a \in Handles, p \in Ran(PArgs) : GetSamplesByPrefix(a, p) /\ K
AGetAllSegments     == \E a \in Handles : GetAllSegments(a) /\ K
AGetGroupStatistics == \E a \in Handles : GetGroupStatistics(a) /\ K
AGetReferenceSegment == \E a \in Handles, g \in Ran(GArgs) : GetReferenceSegment(a, g) /\ K
AClone              == \E a \in Handles, b \in Handles : CloneForThread(a, b) /\ K
AClose              == \E a \in Handles : Close(a) /\ K
DesignNext == \/ AListSamples \/ AListPrefix \/ ACompressionStats \/ AListContigs \/ AGetContigLength
              \/ AGetSegmentsDesc \/ AGetContig \/ AGetContigRange \/ AGetSample \/ AGetSamplesByPrefix
              \/ AGetAllSegments \/ AGetGroupStatistics \/ AGetReferenceSegment \/ AClone \/ AClose
DesignSpec == MCInit /\ [][DesignNext]_mcvars
IsolatedMC == Isolated
=============================================================================
