---------------------------- MODULE MC_BoundedPQ ----------------------------
EXTENDS BoundedPQ, TLC, Json
CONSTANTS p1, p2, c1, c2, c3
It(id, pr, cost, n) == [id |-> id, pr |-> pr, cost |-> cost, n |-> n]
\* two producers, mixed priorities with a tie on priority broken by cost, a zero-cost token batch (emplace_many_no_cost)
ItemsA == (p1 :> <<It(1, 2, 2, 1), It(2, 1, 1, 1)>>) @@ (p2 :> <<It(3, 2, 1, 1), It(4, 0, 0, 2)>>)
\* one producer, capacity 1: every emplace after the first waits for a pop
ItemsB == (p1 :> <<It(1, 1, 1, 1), It(2, 3, 2, 1), It(3, 2, 1, 1), It(4, 3, 1, 1)>>)
\* tokens only + a producer that has nothing to send
ItemsC == (p1 :> <<It(1, 5, 0, 3)>>) @@ (p2 :> <<>>)
Sym2 == Permutations({c1, c2})

-----------------------------------------------------------------------------
\* REPLAY generation: every sequence of NON-BLOCKING operations of one thread up to SeqDepth, with the answer and the
\* observers (get_size, is_empty, is_completed) after each step; printed at SeqDepth as one JSON line per behaviour.
\* Priorities/costs are chosen so that two different ids never tie on (priority, cost): the answer of pop is unique.
CONSTANTS SeqDepth, SeqProd, SeqCap, Prios, Costs
VARIABLE h
svars == <<q, cur, nprod, popped, last, h, pc, nxt, waitE, waitF>>
Obs == [items |-> Cardinality(q'), cost |-> cur', empty |-> q' = {}, completed |-> (q' = {} /\ nprod' = 0)]
NoTie(pr, cost) == \A e \in q : ~(e.pr = pr /\ e.cost = cost)
SInit == /\ q = {} /\ cur = 0 /\ nprod = SeqProd /\ popped = <<>> /\ last = TRUE /\ h = <<>>
         /\ pc = <<>> /\ nxt = <<>> /\ waitE = {} /\ waitF = {}
SEmplace == \E pr \in Prios, cost \in Costs :
              /\ NoTie(pr, cost)
              /\ AEmplace(It(Len(h) + 1, pr, cost, 1))
              /\ h' = Append(h, [op |-> "emplace", id |-> Len(h) + 1, pr |-> pr, cost |-> cost, post |-> Obs])
SMany == \E pr \in Prios, n \in {2, 3} :
              /\ NoTie(pr, 0)
              /\ AEmplace(It(Len(h) + 1, pr, 0, n))
              /\ h' = Append(h, [op |-> "many", id |-> Len(h) + 1, pr |-> pr, n |-> n, post |-> Obs])
SPop == \/ \E e \in Maxima(q) : /\ APopNormal(c1, e)
                                 /\ h' = Append(h, [op |-> "pop", res |-> "normal", rid |-> e.id, post |-> Obs])
        \/ /\ APopCompleted
           /\ h' = Append(h, [op |-> "pop", res |-> "completed", post |-> Obs])
SMark == AMark /\ h' = Append(h, [op |-> "mark", post |-> Obs])
SNext == Len(h) < SeqDepth /\ (SEmplace \/ SMany \/ SPop \/ SMark) /\ UNCHANGED <<pc, nxt, waitE, waitF>>
SeqSpec == SInit /\ [][SNext]_svars
SeqReplay == Len(h) = SeqDepth => PrintT(<<"REPLAY", ToJson([cap |-> SeqCap, nprod |-> SeqProd, steps |-> h])>>)
SeqInv == CostAccounting /\ PopOrder
\* the concurrent design model with the (unused) history variable pinned
MCSpec == Init /\ h = <<>> /\ [][Next /\ UNCHANGED h]_<<vars, h>> /\ \A t \in Threads : WF_<<vars, h>>(Step(t) /\ UNCHANGED h)
=============================================================================
