SPECIFICATION Spec
CONSTANTS
  W = 8
  MaxSteps = 4
  Operands <- MCOperands
  FooterRule = "plain"
  TokenRule = "counter"
INVARIANTS FooterSafeInv
CHECK_DEADLOCK FALSE
