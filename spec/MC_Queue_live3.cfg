SPECIFICATION FairSpec
CONSTANTS Cap = 2
 c1 = c1
 c2 = c2
 p1 = p1
 p2 = p2
 Threads = {c1,c2,p1,p2}
 Producers = {p1,p2}
 Consumers = {c1,c2}
 Closers = {}
 Extra = {}
 NPush = 1
 NPull = 2
 NClose = 1
 Sizes = {1,2,3}
 Prios = {0,1}
 PModes = {"push","try_push"}
 CModes = {"pull"}
 Spur = TRUE
 Eager = FALSE
 NoBlock = FALSE
 Hist = FALSE
PROPERTIES NobodyStaysBlocked ConsumerServed Termination AllDelivered DeliveredWithoutClose
CHECK_DEADLOCK FALSE
