----------------------------- MODULE MC_Varint -----------------------------
(* Exhaustive evaluation of the varint laws on a sample of u64 digit sequences: *)
(* every normalised sequence of length <= MaxLen over Digits, plus the          *)
(* byte-length boundary values.  One state per sample value (variable d), so    *)
(* the invariants are evaluated once per value and pair laws once per pair.     *)
EXTENDS Varint, TLC, FiniteSets

CONSTANTS Digits, MaxLen

RECURSIVE SeqsUpTo(_)
SeqsUpTo(n) == IF n = 0 THEN {<<>>}
               ELSE LET S == SeqsUpTo(n - 1) IN S \cup {Append(s, x) : s \in {t \in S : Len(t) = n - 1}, x \in Digits}
Sample == {d \in SeqsUpTo(MaxLen) : IsU64(d)} \cup Boundaries

VARIABLE d
Init == d \in Sample
Next == UNCHANGED d
Spec == Init /\ [][Next]_d

RoundTrip   == IsU64(d) /\ VarintRoundTrip(d)
PrefixFails == VarintPrefixFails(d)
Concat      == \A b \in Boundaries : VarintConcat(d, b) /\ VarintConcat(b, d)
Injective   == \A b \in Boundaries : (EncodeVarint(b) = EncodeVarint(d)) => b = d
\* a non-minimal or over-long encoding still decodes to the low 64 bits (the reader is total on well-formed lengths)
Padded      == DecodeVarint(<<Len(d) + 1, 0>> \o d).val = d
LE8Law      == FitsNat(d) => (FromLE8(LE8(DigitsNat(d)), 1) = d /\ NatDigits(DigitsNat(d)) = d)
Order       == \A b \in Boundaries : (FitsNat(d) /\ FitsNat(b)) => (DigitsLeq(d, b) <=> DigitsNat(d) <= DigitsNat(b))
=============================================================================
