SPECIFICATION MCSpec
CONSTANTS
  p1 = p1  p2 = p2  c1 = c1  c2 = c2  c3 = c3
  Producers = {p1, p2}
  Consumers = {c1, c2}
  MaxCost = 2
  Items <- ItemsA
  MarkNotifies = TRUE
  SeqDepth = 0
  SeqProd = 0
  SeqCap = 0
  Prios = {}
  Costs = {}
  PopNotifiesFull = TRUE
INVARIANTS TypeOK CostAccounting Bound ExactlyOnce PopOrder DoneMeansDrained WaitConsistent NoDeadEnd
PROPERTIES Refines Termination Drained
CHECK_DEADLOCK FALSE
