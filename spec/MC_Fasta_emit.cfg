\* REPLAY emission as in the quick tier (FASTA_SETUP = file written by `rvh fasta-setup` names the token table;
\* without it the short default tokens are used)
SPECIFICATION MCSpec
CONSTANTS Variant = "design"
          MaxLen = 4
          FullLen = 3
          SampleMod = 1
          BoringMod = 6
          ThinMod = 12
          Seed = 1
          CrlfModes = {0, 1, 2}
CONSTRAINT Thin
INVARIANTS SelectedOK Emit
CHECK_DEADLOCK FALSE
