---------------------------- MODULE LzEstimate ----------------------------
(* Index arithmetic of the LZ-diff scan loops of ragc-core/src/lz_diff.rs:         *)
(*   LZDiff::estimate  (lines 1072-1176)  - cost estimation, u32 registers         *)
(*   LZDiff::encode    (lines 431-566)    - the encoder (get_coding_cost_vector     *)
(*                                          has the same index arithmetic)          *)
(* The sequence DATA is abstracted into an oracle: at every loop head the data may  *)
(* make the step a literal, an N-run of n symbols or a match (mp, b, f) = (reference *)
(* position of the hashed k-mer, backward extension over already scanned literals,   *)
(* forward length) - constrained exactly as find_best_match_lp constrains them.      *)
(* What is modelled precisely are the REGISTERS                                      *)
(*      i (scan index), pred (pred_pos), nLit (no_prev_literals), est (est_cost)     *)
(* and every machine operation performed on them, each tagged PLAIN (`+`, `-`, `+=`: *)
(* panics under overflow-checks, wraps silently otherwise) or EXPLICIT (wrapping_*:  *)
(* the same modular result under every build profile).                               *)
(*                                                                                  *)
(* Semantics of a state: the registers hold what the UNCHECKED (release) build       *)
(* computes (arithmetic modulo W); `ovf` collects the names of the PLAIN operations  *)
(* whose mathematical result left the type range - exactly the operations at which   *)
(* the overflow-checked build panics. C18 at this level:                             *)
(*      NoPlainWrap  ==  ovf = {}          (no code path relies on silent wrap)      *)
(* The two scans differ in one point: encode rewinds i and pred by the backward      *)
(* extension b before it advances by b+f; estimate (as C++ AGC's Estimate) does not, *)
(* so after a back-extended match that reaches the end of the text i = ts + b > ts   *)
(* and the final `text_size - i` leaves the range (IndexInRange).                    *)
EXTENDS Naturals, Integers, Sequences, FiniteSets

CONSTANTS
  W,          \* modulus of the unsigned registers (2^32 in the code; a small stand-in for MC)
  TextSizes,  \* MC: set of text sizes explored
  Bounds,     \* MC: set of `bound` arguments of estimate()
  RefLen,     \* reference length (without the key_len padding)
  KeyLen,     \* key_len = min_match_len - HASHING_STEP + 1
  MinMatch,   \* min_match_len
  HStep,      \* HASHING_STEP (sparse index: only reference positions = 0 mod HStep are hashed)
  Variant,    \* "estimate" | "encode"
  FinalRule   \* "wrapping": est_cost.wrapping_add(text_size.wrapping_sub(i))   (fix 6e5d217)
              \* "plain"   : est_cost += text_size - i                           (pinned tree)

MinNRun == 4  \* MIN_NRUN_LEN

-----------------------------------------------------------------------------
\* ---- machine arithmetic ------------------------------------------------------
UAdd(a, b) == (a + b) % W
USub(a, b) == (a - b) % W            \* TLA+ % is the mathematical modulus: result in 0..W-1
InU(x) == x >= 0 /\ x < W

\* record the PLAIN operations (name, in-range?) that left the range
Flag(s, F) == [s EXCEPT !.ovf = @ \cup {g[1] : g \in {h \in F : ~h[2]}}]

\* CLZDiff_V2::uint_len / int_len / cost_match / cost_Nrun (lz_diff.rs 1016-1061)
UintLen(x) == IF x < 10 THEN 1 ELSE IF x < 100 THEN 2 ELSE IF x < 1000 THEN 3 ELSE IF x < 10000 THEN 4
              ELSE IF x < 100000 THEN 5 ELSE IF x < 1000000 THEN 6 ELSE IF x < 10000000 THEN 7 ELSE 8
IntLen(x) == IF x >= 0 THEN UintLen(x) ELSE 1 + UintLen(-x)
CostNRun(n) == 2 + UintLen(n - MinNRun)
\* len = -1 stands for u32::MAX ("match to the end": no length field)
CostMatch(mm, refPos, len, pred) == IntLen(refPos - pred) + (IF len = -1 THEN 0 ELSE 1 + UintLen(len - mm)) + 1

-----------------------------------------------------------------------------
\* ---- registers ---------------------------------------------------------------
\* s = [ts, i, pred, nLit, est, ovf]
S0(ts) == [ts |-> ts, i |-> 0, pred |-> 0, nLit |-> 0, est |-> 0, ovf |-> {}]

\* `while (i + key_len) < text_size`
Guard(kl, s) == UAdd(s.i, kl) < s.ts
GuardFlag(kl, s) == Flag(s, {<<"guard_add", InU(s.i + kl)>>})

\* ---------------- estimate() ----------------
\* literal (invalid k-mer that is not an N-run, or no match): 1121-1124 / 1163-1166
EstLit(s) ==
  [Flag(s, {<<"lit_est_add", InU(s.est + 1)>>, <<"lit_i_add", InU(s.i + 1)>>, <<"lit_pred_add", InU(s.pred + 1)>>,
            <<"lit_nlit_add", InU(s.nLit + 1)>>})
   EXCEPT !.est = UAdd(s.est, 1), !.i = UAdd(s.i, 1), !.pred = UAdd(s.pred, 1), !.nLit = UAdd(s.nLit, 1)]

\* N-run of n symbols: 1113-1118   (max_len = text_size - i is computed first)
EstNRun(s, n) ==
  [Flag(s, {<<"nrun_maxlen_sub", InU(s.ts - s.i)>>, <<"nrun_delta_sub", InU(n - MinNRun)>>,
            <<"nrun_est_add", InU(s.est + CostNRun(n))>>, <<"nrun_i_add", InU(s.i + n)>>})
   EXCEPT !.est = UAdd(s.est, CostNRun(n)), !.i = UAdd(s.i, n), !.nLit = 0]

\* match (mp, b, f): 1132-1160. NOT rewound: i += b + f, pred = mp + b + f
EstMatch(P, s, mp, b, f) ==
  LET total == b + f
      isEnd == (UAdd(s.i, total) = s.ts) /\ (UAdd(mp, total) = P.rl)
      cost  == CostMatch(P.mm, mp, IF isEnd THEN -1 ELSE total, s.pred)
  IN [Flag(s, {<<"match_maxlen_sub", InU(s.ts - s.i)>>, <<"match_total_add", InU(total)>>,
               <<"match_end_i_add", InU(s.i + total)>>, <<"match_end_ref_add", InU(mp + total)>>,
               <<"match_dif_i32", 2 * mp < W /\ 2 * s.pred < W>>,          \* (x as i32) casts stay non-negative
               <<"match_len_sub", isEnd \/ InU(total - P.mm)>>,
               <<"match_est_add", InU(s.est + cost)>>, <<"match_pred_add", InU(mp + total)>>,
               <<"match_i_add", InU(s.i + total)>>})
      EXCEPT !.est = UAdd(s.est, cost), !.pred = UAdd(mp, total), !.i = UAdd(s.i, total), !.nLit = 0]

\* after the loop: 1170-1175
EstFinal(rule, s) ==
  IF rule = "plain"
  THEN [Flag(s, {<<"tail_sub", InU(s.ts - s.i)>>, <<"tail_add", InU(s.est + USub(s.ts, s.i))>>})
        EXCEPT !.est = UAdd(s.est, USub(s.ts, s.i))]
  ELSE [s EXCEPT !.est = UAdd(s.est, USub(s.ts, s.i))]              \* explicit wrapping_sub / wrapping_add

\* ---------------- encode() / get_coding_cost_vector() ----------------
EncLit(s) ==
  [Flag(s, {<<"lit_i_add", InU(s.i + 1)>>, <<"lit_pred_add", InU(s.pred + 1)>>, <<"lit_nlit_add", InU(s.nLit + 1)>>})
   EXCEPT !.i = UAdd(s.i, 1), !.pred = UAdd(s.pred, 1), !.nLit = UAdd(s.nLit, 1)]

EncNRun(s, n) ==
  [Flag(s, {<<"nrun_maxlen_sub", InU(s.ts - s.i)>>, <<"nrun_delta_sub", InU(n - MinNRun)>>, <<"nrun_i_add", InU(s.i + n)>>})
   EXCEPT !.i = UAdd(s.i, n), !.nLit = 0]

\* match (mp, b, f): 476-544. Rewound first: i -= b; pred -= b; then match at mp - b of length b + f
EncMatch(P, s, mp, b, f) ==
  LET i1 == USub(s.i, b)
      p1 == USub(s.pred, b)
      total == b + f
      adj == USub(mp, b)
      isEnd == (UAdd(i1, total) = s.ts) /\ (mp + f = P.rl)
  IN [Flag(s, {<<"match_maxlen_sub", InU(s.ts - s.i)>>, <<"rewind_i_sub", InU(s.i - b)>>, <<"rewind_pred_sub", InU(s.pred - b)>>,
               <<"rewind_mp_sub", InU(mp - b)>>, <<"match_total_add", InU(total)>>, <<"match_end_i_add", InU(i1 + total)>>,
               <<"match_dif_i32", 2 * adj < W /\ 2 * p1 < W>>,
               <<"match_len_sub", isEnd \/ InU(total - P.mm)>>,
               <<"match_pred_add", InU(adj + total)>>, <<"match_i_add", InU(i1 + total)>>})
      EXCEPT !.pred = UAdd(adj, total), !.i = UAdd(i1, total), !.nLit = 0]

\* tail loop `while i < text_size { literal; i += 1 }` : ends with i = ts iff i <= ts on entry
EncFinal(s) == [Flag(s, {<<"tail_index", s.i <= s.ts>>}) EXCEPT !.i = IF s.i <= s.ts THEN s.ts ELSE s.i]

\* ---- what find_best_match_lp can return at scan position i with nLit previous literals (246-378) ----
\*   mp  : a hashed reference position (sparse index), inside the unpadded reference
\*   f   : forward length: >= key_len (the k-mer matched), <= max_len = ts - i, <= reference end
\*   b   : backward extension: <= min(no_prev_literals, h_pos, text_pos)
\*   b+f >= min_match_len
MatchChoices(P, s) ==
  IF s.i > s.ts THEN {} ELSE
  {c \in [mp : {p \in 0..(P.rl - 1) : p % P.hs = 0}, b : 0..s.nLit, f : P.kl..(s.ts - s.i)] :
     /\ c.f <= P.rl - c.mp
     /\ c.b <= c.mp /\ c.b <= s.i
     /\ c.b + c.f >= P.mm}
NRunChoices(s) == IF s.i > s.ts THEN {} ELSE MinNRun..(s.ts - s.i)

-----------------------------------------------------------------------------
\* ---- the bounded design model -------------------------------------------------
VARIABLES st, pc, bound, res
vars == <<st, pc, bound, res>>
Par == [rl |-> RefLen, kl |-> KeyLen, mm |-> MinMatch, hs |-> HStep]

Init == /\ \E ts \in TextSizes : st = S0(ts)
        /\ bound \in Bounds
        /\ pc = "head" /\ res = -1

\* The actions are parameterised by the scan parameters P, the variant v and the oracle's choice, so that
\* Trace_LzEstimate can take the same steps with the choices dictated by real sequence data.
\* loop head: guard, early termination (estimate only)
LoopHeadP(P, v) ==
  /\ pc = "head"
  /\ st' = GuardFlag(P.kl, st)
  /\ IF ~Guard(P.kl, st) THEN pc' = "final" /\ UNCHANGED res
     ELSE IF v = "estimate" /\ st.est > bound THEN pc' = "done" /\ res' = st.est
     ELSE pc' = "body" /\ UNCHANGED res
  /\ UNCHANGED bound

LiteralP(v) ==
  /\ pc = "body" /\ pc' = "head"
  /\ st' = IF v = "estimate" THEN EstLit(st) ELSE EncLit(st)
  /\ UNCHANGED <<bound, res>>

NRunP(v, n) ==
  /\ pc = "body" /\ pc' = "head"
  /\ st' = IF v = "estimate" THEN EstNRun(st, n) ELSE EncNRun(st, n)
  /\ UNCHANGED <<bound, res>>

MatchP(P, v, c) ==
  /\ pc = "body" /\ pc' = "head"
  /\ st' = IF v = "estimate" THEN EstMatch(P, st, c.mp, c.b, c.f) ELSE EncMatch(P, st, c.mp, c.b, c.f)
  /\ UNCHANGED <<bound, res>>

FinalP(v, rule) ==
  /\ pc = "final" /\ pc' = "done"
  /\ st' = IF v = "estimate" THEN EstFinal(rule, st) ELSE EncFinal(st)
  /\ res' = IF v = "estimate" THEN st'.est ELSE st'.i
  /\ UNCHANGED bound

LoopHead == LoopHeadP(Par, Variant)
Literal == LiteralP(Variant)
NRun == \E n \in NRunChoices(st) : NRunP(Variant, n)
MatchFwdBack == \E c \in MatchChoices(Par, st) : MatchP(Par, Variant, c)
Final == FinalP(Variant, FinalRule)

Next == LoopHead \/ Literal \/ NRun \/ MatchFwdBack \/ Final
Spec == Init /\ [][Next]_vars

-----------------------------------------------------------------------------
\* ---- properties ----------------------------------------------------------------
TypeOK == /\ st.ts \in TextSizes /\ InU(st.i) /\ InU(st.pred) /\ InU(st.nLit) /\ InU(st.est)
          /\ pc \in {"head", "body", "final", "done"}

\* C18: no PLAIN machine operation leaves its type's range on any path
NoPlainWrap == st.ovf = {}

\* the design-level statement of DESIGN.md 5/C18: at the final subtraction the index is inside the
\* text unless that subtraction is an explicit wrapping one
IndexInRange == (pc = "final" /\ Variant = "estimate" /\ FinalRule = "plain") => st.i <= st.ts

\* why the explicit modular form is harmless: the overshoot of i past the text is at most the
\* backward extension of the last match, which is at most the number of literals already paid for
OvershootPaid == st.i - st.ts <= st.est \/ pc = "done"
\* ... hence the two wraps cancel: the mathematical value est + (ts - i) of the returned expression is
\* representable, so its modular evaluation returns exactly it under every profile
FinalValueRepresentable == (pc = "final" /\ Variant = "estimate") => InU(st.est + st.ts - st.i)
EncodeExact == (pc = "done" /\ Variant = "encode") => st.i = st.ts
\* the encoder's registers never pass the text / never go below the rewind
EncodeInside == Variant = "encode" => st.i <= st.ts
=============================================================================
