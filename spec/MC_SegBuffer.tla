---------------------------- MODULE MC_SegBuffer ----------------------------
(* Bounded model of SegBuffer.tla: every method in every order up to MaxOps calls, with ghost bags of what was     *)
(* added and handed out (conservation), plus the history for REPLAY on the real BufferedSegments.                *)
EXTENDS SegBuffer, TLC, Json

CONSTANTS MaxOps, Emit
P(k1, s, p, d) == [k1 |-> k1, k2 |-> 1, s |-> s, c |-> 1, p |-> p, d |-> d]
Universe == {P(1, 1, 0, 0), P(2, 1, 1, 0), P(1, 2, 0, 0), P(2, 2, 0, 1), P(1, 1, 0, 1), P(3, 2, 1, 0)}
Globals == {<<>>, (<<1, 1>> :> 1), (<<2, 1>> :> 2)}

VARIABLES added, taken, n, h
mvars == <<vars, added, taken, n, h>>

Obs == [ng |-> Len(lists'), nnew |-> Cardinality(news'), empty |-> [g \in 1..Len(lists') |-> vb'[g] >= Len(lists'[g])]]
Rec(op) == Append(h, op @@ [post |-> Obs])

MInit == Init /\ added = <<>> /\ taken = <<>> /\ n = 0 /\ h = <<>>

MAddKnown == \E g \in 1..NG, x \in Universe :
               /\ AddKnown(g, x) /\ added' = BagAdd(added, BagOfSet({x})) /\ taken' = taken
               /\ h' = Rec([op |-> "add_known", g |-> g - 1, x |-> x])
MAddNew == \E x \in Universe :
               /\ AddNew(x)
               /\ added' = IF news' = news THEN added ELSE BagAdd(added, BagOfSet({x}))
               /\ taken' = taken
               /\ h' = Rec([op |-> "add_new", x |-> x])
MSort == SortKnown /\ UNCHANGED <<added, taken>> /\ h' = Rec([op |-> "sort_known"])
MProcess == \E gl \in Globals :
               /\ ProcessNew(gl) /\ UNCHANGED <<added, taken>>
               /\ h' = Rec([op |-> "process_new",
                            global |-> LET ks == SetToSeq(DOMAIN gl) IN [i \in 1..Len(ks) |-> [k1 |-> ks[i][1], k2 |-> ks[i][2], id |-> gl[ks[i]] - 1]],
                            ret |-> IF news = {} THEN 0 ELSE ProcessNewResult(gl).noNew])
MDistribute == \E src \in 1..NG, from \in 1..NG : \E to \in (from + 1)..(NG + 1) :
               /\ Distribute(src, from, to) /\ UNCHANGED <<added, taken>>
               /\ h' = Rec([op |-> "distribute", src |-> src - 1, from |-> from - 1, to |-> to - 1])
MClear == Clear /\ added' = <<>> /\ taken' = <<>> /\ h' = Rec([op |-> "clear"])
MRestart == RestartRead /\ UNCHANGED <<added, taken>> /\ h' = Rec([op |-> "restart_read_vec"])
MGetVecId == GetVecId /\ UNCHANGED <<added, taken>> /\ h' = Rec([op |-> "get_vec_id", ret |-> avid])
MGetPart == \E g \in 0..(NG + 1) :
               /\ GetPart(g)
               /\ LET a == GetPartAnswer(g) IN
                  /\ taken' = IF ~a.some THEN taken ELSE BagAdd(taken, BagOfSet({a.part}))
                  /\ h' = Rec([op |-> "get_part", g |-> g - 1, some |-> a.some, x |-> IF ~a.some THEN P(0, 0, 0, 0) ELSE a.part,
                               wasEmpty |-> IsEmptyPart(g)])
               /\ added' = added

MNext == /\ n < MaxOps /\ n' = n + 1
         /\ (MAddKnown \/ MAddNew \/ MSort \/ MProcess \/ MDistribute \/ MClear \/ MRestart \/ MGetVecId \/ MGetPart)
MSpec == MInit /\ [][MNext]_mvars

\* nothing is ever created or lost: what was added (and not dropped as a duplicate NEW key) = what was handed out + what is held
Conserved == BagAdd(taken, HeldBag) = added
\* a list is in (sample, contig, part) order right after sort_known (as the last call)
SortedAfterSort == (h # <<>> /\ h[Len(h)].op = "sort_known") => \A g \in 1..NG : IsSortedSeq(lists[g])
\* process_new empties the NEW set and the groups it CREATES in one call hold one (k1,k2) each, each key in one of them.
\* (Across calls the caller has to enter the new ids into the global map: TLC shows two groups for one key otherwise.)
PrevNG == IF Len(h) > 1 THEN h[Len(h) - 1].post.ng ELSE G0
OneGroupPerKey == (h # <<>> /\ h[Len(h)].op = "process_new") =>
                     /\ news = {}
                     /\ NG >= PrevNG
                     /\ \A g1, g2 \in (PrevNG + 1)..NG : \A i \in 1..Len(lists[g1]), j \in 1..Len(lists[g2]) :
                          (lists[g1][i].k1 = lists[g2][j].k1 /\ lists[g1][i].k2 = lists[g2][j].k2) => g1 = g2
                     /\ \A g \in (PrevNG + 1)..NG : lists[g] # <<>>
ReplayOut == (Emit /\ n = MaxOps) => PrintT(<<"REPLAY", ToJson([g0 |-> G0, steps |-> h])>>)
ViewNoHist == <<vars, added, taken, n, IF h = <<>> THEN "" ELSE h[Len(h)].op>>
=============================================================================
