--------------------------- MODULE MC_TuplePack ---------------------------
(* Exhaustive model + REPLAY generation for TuplePack.tla.  Every string over   *)
(* Alphabet up to MaxLen is a state with blob = NoBlob; from it the model takes *)
(* every Store (reference with either marker, delta at every level) and Load.   *)
(* For every string one JSON line is printed for `rvh replay-tuplepack`: the    *)
(* string, the model's packed bytes and the model's marker choice.              *)
EXTENDS TuplePack, TLC, Json

CONSTANT InjLen     \* Pack is checked injective on ALL strings over Alphabet up to this length

AllStrings(n) == UNION {[1..k -> Alphabet] : k \in 0..n}
ASSUME PackInjective == InjectiveOn(AllStrings(InjLen))

Emit == blob = NoBlob =>
          PrintT(<<"REPLAY", ToJson([b |-> inp, packed |-> Pack(inp), choose |-> Choose(inp)])>>)
===========================================================================
