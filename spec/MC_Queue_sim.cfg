SPECIFICATION MCSpec
CONSTANTS Cap = 2
 Threads = {"c1","c2","c3","m","p1","p2"}
 Producers = {"p1","p2"}
 Consumers = {"c1","c2","c3"}
 Closers = {"m"}
 Extra = {}
 NPush = 3
 NPull = 4
 NClose = 1
 Sizes = {0,1,2,3}
 Prios = {0,1,2}
 PModes = {"push","try_push"}
 CModes = {"pull","try_pull"}
 Spur = FALSE
 Eager = TRUE
 NoBlock = FALSE
 Hist = TRUE
INVARIANTS TypeOK ExactlyOnce PriorityOrder Bound AfterClose SeqSpec NoStuck NoWaitClosed Emit
CHECK_DEADLOCK FALSE
