SPECIFICATION MCSpec
CONSTANTS MaxRows = 4
          PredLen = 10
          RowSet <- R_ids2
INVARIANTS Law Emit
CHECK_DEADLOCK FALSE
