SPECIFICATION Spec
CONSTANTS Digits = {0, 1, 127, 128, 255}
          MaxLen = 4
INVARIANTS RoundTrip PrefixFails Concat Injective Padded LE8Law Order
CHECK_DEADLOCK FALSE
