-------------------------- MODULE Trace_Splitters --------------------------
(* Trace validation for Splitters.tla (C11).  One case = one reference:                 *)
(*   start  the reference, k and the segment size; the specification runs its own       *)
(*          algorithm (Count for every contig, the second pass for every contig) and     *)
(*          holds the resulting multiset / splitter set as its state                     *)
(*   call   one call of a real entry point (variant mem / stream / first, rayon pool      *)
(*          size, contig order, reverse-complement mask, the FASTA records given) with     *)
(*          the three result sets                                                        *)
(*   segs   the real split_at_splitters_with_size of every contig of that input with the  *)
(*          splitters the code returned for it (segment lengths)                          *)
(* A `call` / `segs` event is a step of this specification iff the LAWS of C11 hold for   *)
(* it: returned singleton / duplicate sets are the canonical k-mers occurring exactly     *)
(* once / more than once in the ORIGINAL reference (definition + order / strand           *)
(* symmetry), they are disjoint, splitters are singletons, every call on the same input   *)
(* returned the same three sets (variants, thread counts), interior segments have at      *)
(* least seg bases.  Whether the real splitter set also equals the one the algorithm      *)
(* layer computes (the code's selection POLICY, about which C11 says nothing beyond the   *)
(* laws) is reported as DRIFT and never rejects.                                         *)
(* bstart / bcall / bsegs: large references; the harness projects each result set to a     *)
(* digest and to cardinalities (of the sets and of two unions); the laws are the same,    *)
(* stated on those projections.                                                          *)
EXTENDS Splitters, TLC, Json, IOUtils

Rec == ndJsonDeserialize(IOEnv.TRACE)

VARIABLES l,     \* next event
          res,   \* input key |-> splitter set (or digest) returned by the first call on that input
          bd     \* large references: <<singleton digest, duplicate digest>> of the first call, or <<>>
tvars == <<vars, l, res, bd>>

IsEvent(e) == l <= Len(Rec) /\ Rec[l].ev = e /\ l' = l + 1

EmptyRes == [x \in {} |-> {}]
Extend(f, key, v) == [x \in DOMAIN f \cup {key} |-> IF x = key THEN v ELSE f[x]]

\* which records of a FASTA file form the reference of a variant
RECURSIVE FirstRun(_, _)
FirstRun(file, n) == IF n < Len(file) /\ file[n + 1].s = file[1].s THEN FirstRun(file, n + 1) ELSE n
RefOfFile(file, variant) ==
  IF variant = "first"
  THEN [i \in 1..(IF Len(file) = 0 THEN 0 ELSE FirstRun(file, 1)) |-> file[i].c]   \* the first sample only
  ELSE [i \in 1..Len(file) |-> file[i].c]                                         \* every record

\* all algorithm actions of one reference composed into one step
TStart ==
  /\ IsEvent("start")
  /\ LET e == Rec[l] IN
     /\ ref' = e.ref /\ k' = e.k /\ seg' = e.seg
     /\ cnt' = Merge(EmptyCount, EnumAll(e.ref, e.k))
     /\ used' = ModelSplittersWith(e.ref, SinglesOfCount(cnt'), e.k, e.seg)
     /\ phase' = "done" /\ todoC' = {} /\ todoS' = {} /\ cur' = 0 /\ pos' = 0 /\ sc' = ScanStart(e.seg)
     /\ res' = EmptyRes /\ bd' = <<>>

TCall ==
  /\ IsEvent("call")
  /\ LET e     == Rec[l]
         input == RefOfFile(e.file, e.variant)
         key   == <<e.perm, e.rc>>
         spl   == Range(e.spl)
         sing  == Range(e.sing)
         dup   == Range(e.dup)
     IN
     /\ e.err = ""                                  \* every variant returns sets for a well-formed reference
     /\ e.lowzero
     /\ Len(e.perm) = Len(ref) /\ Range(e.perm) = 1..Len(ref) /\ Len(e.rc) = Len(ref)
     /\ input = Variant(ref, e.perm, e.rc)          \* the harness gave the stated variant of the reference
     /\ sing = Singletons /\ dup = Duplicates       \* definition; unchanged by contig order and strand
     /\ DisjointLaw(sing, dup)
     /\ spl \subseteq sing                          \* singleton-only
     /\ IF key \in DOMAIN res
        THEN res[key] = spl /\ res' = res           \* same reference => same sets (variant, threads)
        ELSE /\ res' = Extend(res, key, spl)
             /\ IF spl = ModelSplittersWith(input, Singletons, k, seg) THEN TRUE ELSE PrintT(<<"DRIFT", l, "spl">>)
  /\ UNCHANGED <<vars, bd>>

TSegs ==
  /\ IsEvent("segs")
  /\ LET e     == Rec[l]
         key   == <<e.perm, e.rc>>
         input == Variant(ref, e.perm, e.rc)
     IN
     /\ e.err = ""
     /\ key \in DOMAIN res
     /\ Len(e.lens) = Len(ref)
     /\ \A n \in 1..Len(ref) : InteriorOK(e.lens[n], seg)          \* spaced
     /\ IF \A n \in 1..Len(ref) : e.lens[n] = SplitLens(input[n], res[key], k) THEN TRUE ELSE PrintT(<<"DRIFT", l, "lens">>)
  /\ UNCHANGED <<vars, res, bd>>

\* ---- large references: projections only ----
TBStart ==
  /\ IsEvent("bstart")
  /\ LET e == Rec[l] IN
     /\ ref' = <<>> /\ k' = e.k /\ seg' = e.seg
     /\ cnt' = EmptyCount /\ used' = {}
     /\ phase' = "done" /\ todoC' = {} /\ todoS' = {} /\ cur' = 0 /\ pos' = 0 /\ sc' = ScanStart(e.seg)
     /\ res' = EmptyRes /\ bd' = <<>>

TBCall ==
  /\ IsEvent("bcall")
  /\ LET e == Rec[l] IN
     /\ e.err = ""
     /\ e.n_sing_u_dup = e.n_sing + e.n_dup                       \* disjoint
     /\ e.n_spl_u_sing = e.n_sing                                 \* splitters are singletons
     /\ IF bd = <<>> THEN bd' = <<e.sing_d, e.dup_d>>
        ELSE e.sing_d = bd[1] /\ e.dup_d = bd[2] /\ bd' = bd     \* order / strand symmetry, variants, threads
     /\ IF e.key \in DOMAIN res THEN res[e.key] = e.spl_d /\ res' = res
        ELSE res' = Extend(res, e.key, e.spl_d)
  /\ UNCHANGED vars

TBSegs ==
  /\ IsEvent("bsegs")
  /\ LET e == Rec[l] IN
     /\ e.err = ""
     /\ e.key \in DOMAIN res
     /\ \A n \in 1..Len(e.lens) : InteriorOK(e.lens[n], seg)
  /\ UNCHANGED <<vars, res, bd>>

TNext == TStart \/ TCall \/ TSegs \/ TBStart \/ TBCall \/ TBSegs
TInit == InitWith(<<>>, 1, 1) /\ l = 1 /\ res = EmptyRes /\ bd = <<>>
TSpec == TInit /\ [][TNext]_tvars

\* invariants of the design specification that must hold on every state of the trace
TSingletonOnly == used \subseteq Singletons
TDisjoint == Disjoint

Accepted ==
  LET d == TLCGet("stats").diameter IN
  IF d - 1 = Len(Rec) THEN TRUE ELSE PrintT(<<"UNMATCHED", d>>) /\ FALSE
===========================================================================
