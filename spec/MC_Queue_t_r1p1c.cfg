SPECIFICATION MCSpec
CONSTANTS Cap = 2
 Threads = {"c","m","p"}
 Producers = {"p"}
 Consumers = {"c"}
 Closers = {"m"}
 Extra = {}
 NPush = 3
 NPull = 3
 NClose = 1
 Sizes = {1,3}
 Prios = {0,1}
 PModes = {"push"}
 CModes = {"pull","try_pull"}
 Spur = FALSE
 Eager = TRUE
 NoBlock = FALSE
 Hist = TRUE
INVARIANTS TypeOK ExactlyOnce PriorityOrder Bound AfterClose SeqSpec NoStuck NoWaitClosed Emit
CHECK_DEADLOCK FALSE
