---------------------------- MODULE Trace_LzDiff ----------------------------
(* Trace validation for LzDiff.tla.  The harness drives the REAL LZDiff::new /         *)
(* prepare / encode / decode on a (reference, target, min match) case and logs inputs,  *)
(* encoder bytes (enc) and real decoder output (dec).  Two event shapes:                *)
(*   pair                 the whole case is one step: the function-level decoder of    *)
(*                        LzDiffOps (law-checked against the state machine by          *)
(*                        MC_LzDiff) decodes enc;                                       *)
(*   start tok* end       the case is walked token by token through the ACTIONS of     *)
(*                        LzDiff.tla; a tok event only proposes the token's byte count, *)
(*                        the specification's lexer (TokAt) decides what the token is.  *)
(* A case is accepted iff C09 holds for it: the specification's decoding of enc equals  *)
(* the target AND the real decoder's output equals the target; enc is empty only if     *)
(* target = reference; enc has no byte 0xFF.  A panic of encode/decode matches no step. *)
EXTENDS LzDiff, TLC, Json, IOUtils

Rec == ndJsonDeserialize(IOEnv.TRACE)

VARIABLES l,     \* next event
          c,     \* index of the current case's start event (0 = none)
          pos    \* next byte of Rec[c].enc (1-based)
tvars == <<out, pred, l, c, pos>>

IsEvent(e) == l <= Len(Rec) /\ Rec[l].ev = e /\ l' = l + 1

\* what C09 demands of one observation (everything but the decoding itself)
Frame(e) ==
  /\ e.panic = ""
  /\ NoSep(e.enc)
  /\ (e.enc = <<>> => e.tgt = e.ref)
  /\ (e.enc # <<>> => e.dec = e.tgt)          \* the real decoder inverts the real encoder

TPair ==
  /\ IsEvent("pair")
  /\ LET e == Rec[l] IN Frame(e) /\ InvertsTo(e.ref, e.tgt, e.mm, e.enc)
  /\ out' = <<>> /\ pred' = 0 /\ c' = 0 /\ pos' = 1

TStart ==
  /\ IsEvent("start")
  /\ Frame(Rec[l])
  /\ out' = <<>> /\ pred' = 0 /\ c' = l /\ pos' = 1

\* one token of the text, through the design action it denotes; the output stays a
\* prefix of the target (implied by the final equality, reported at the first bad token)
TTok ==
  /\ IsEvent("tok") /\ c > 0
  /\ LET s == Rec[c]
         r == TokAt(s.enc, pos, s.mm)
     IN  /\ pos <= Len(s.enc)
         /\ r.tok.k # "bad"
         /\ r.next = pos + Rec[l].n
         /\ Step(s.ref, s.mm, r.tok)
         /\ Len(out') <= Len(s.tgt)
         /\ \A j \in (Len(out) + 1)..Len(out') : out'[j] = s.tgt[j]
         /\ pos' = r.next
  /\ c' = c

TEnd ==
  /\ IsEvent("end") /\ c > 0
  /\ LET s == Rec[c] IN
       /\ pos = Len(s.enc) + 1
       /\ (s.enc # <<>> => out = s.tgt)
  /\ out' = <<>> /\ pred' = 0 /\ c' = 0 /\ pos' = 1

TNext == TPair \/ TStart \/ TTok \/ TEnd
TInit == Init /\ l = 1 /\ c = 0 /\ pos = 1
TSpec == TInit /\ [][TNext]_tvars

\* the trace is linear and every step is deterministic: the long `out` need not be hashed
TView == <<l, c, pos, pred, Len(out)>>

PredInRange == c > 0 => TypeOK(Rec[c].ref)

Accepted ==
  LET d == TLCGet("stats").diameter IN
  IF d - 1 = Len(Rec) THEN TRUE ELSE PrintT(<<"UNMATCHED", d>>) /\ FALSE
=============================================================================
