SPECIFICATION MCSpec
CONSTANTS Cap = 2
 Threads = {"t"}
 Producers = {"t"}
 Consumers = {"t"}
 Closers = {"t"}
 Extra = {}
 NPush = 4
 NPull = 0
 NClose = 1
 Sizes = {0,1,3}
 Prios = {0,1}
 PModes = {"push","try_push"}
 CModes = {"pull","try_pull"}
 Spur = FALSE
 Eager = TRUE
 NoBlock = FALSE
 Hist = TRUE
INVARIANTS TypeOK ExactlyOnce PriorityOrder Bound AfterClose SeqSpec NoStuck NoWaitClosed Emit
CHECK_DEADLOCK FALSE
