------------------------------ MODULE Container ------------------------------
(* The AGC archive container: ragc-common/src/archive.rs (writer, file image,   *)
(* reader) over the varint codec of Varint.tla.  Used by C13 (what was stored   *)
(* is what is read back), C14 (a strict prefix of the file is rejected) and     *)
(* C15 (a failed write is reported).                                            *)
(*                                                                              *)
(* Three layers in one module:                                                  *)
(*  ABSTRACT  adone[s], apend[s]: per stream the committed / still buffered     *)
(*            parts in the order the property prescribes ("immediate additions  *)
(*            at call time, buffered ones at the next flush").                  *)
(*  CODE-SHAPED  names, raw, dir, wbuf, off, body: what archive.rs keeps        *)
(*            (streams, (offset,size) lists, write_buffer keyed by stream id,   *)
(*            running offset f_offset) and the file body as records             *)
(*            offset |-> (varint(meta), data).  The reader (rd, cursor) sees    *)
(*            only the directory and the body.                                  *)
(*  SINK      inbuf, disk, limit: the BufWriter (capacity BufCap) over a file   *)
(*            whose first failing write is at byte offset `limit`               *)
(*            (RLIMIT_FSIZE / ENOSPC); `disk` bytes are persisted.  The file is *)
(*            written front to back, the directory last, so the crash states    *)
(*            are exactly the prefixes of the final image.                      *)
(*                                                                              *)
(* Values: a u64 (metadata, raw size) is a normalised big-endian digit          *)
(* sequence (Varint.tla); offsets/sizes of the modelled files fit TLC ints.     *)
(* A stream name is a sequence of printable-ASCII codes.  Part data is an       *)
(* opaque token [len, id] (the harness maps bytes <-> token injectively);       *)
(* Bytes(d) materialises a token for the byte-level image used in the bounded   *)
(* model.                                                                       *)
EXTENDS Naturals, Sequences, FiniteSets, Varint

CONSTANTS BufCap,    \* capacity of the buffered writer (4 MiB, archive.rs:103)
          NoLimit    \* stands for "no write fault": larger than any offset considered

VARIABLES mode,      \* "writing" | "closed" | "reading" | "failed"
          names, raw, dir, wbuf, off, body,
          adone, apend,
          rd, cursor,
          inbuf, disk, limit
wvars == <<names, raw, dir, wbuf, off, body, adone, apend>>
svars == <<inbuf, disk, limit>>
vars  == <<mode, wvars, rd, cursor, svars>>

EmptyD == [len |-> 0, id |-> 0]
Part(d, m) == [data |-> d, meta |-> m]
NStreams == Len(names)
Ids == 1..NStreams                       \* stream id of the code = index - 1
NoRd == [names |-> <<>>, raw |-> <<>>, dir |-> <<>>]

Max(a, b) == IF a >= b THEN a ELSE b
IdOf(n) == CHOOSE i \in 1..Len(names) : names[i] = n
Known(n) == \E i \in 1..Len(names) : names[i] = n

InitWith(L) ==
  /\ mode = "writing"
  /\ names = <<>> /\ raw = <<>> /\ dir = <<>> /\ wbuf = <<>> /\ off = 0 /\ body = <<>>
  /\ adone = <<>> /\ apend = <<>>
  /\ rd = NoRd /\ cursor = <<>>
  /\ inbuf = 0 /\ disk = 0 /\ limit \in L
Init == InitWith({NoLimit})

-----------------------------------------------------------------------------
\* SINK: BufWriter over a size-limited file
Sink == [inbuf |-> inbuf, disk |-> disk, failed |-> FALSE]
Persist(sk, m) ==
  IF sk.failed \/ m = 0 THEN sk
  ELSE IF sk.disk + m <= limit THEN [sk EXCEPT !.disk = @ + m]
  ELSE [sk EXCEPT !.disk = Max(@, limit), !.failed = TRUE]      \* short write up to the limit, then EFBIG
SinkFlush(sk) == LET t == Persist(sk, sk.inbuf) IN IF t.failed THEN t ELSE [t EXCEPT !.inbuf = 0]
SinkWrite(sk, k) ==
  IF sk.failed \/ k = 0 THEN sk
  ELSE LET a == IF sk.inbuf + k > BufCap THEN SinkFlush(sk) ELSE sk IN
       IF a.failed THEN a
       ELSE IF k >= BufCap THEN Persist(a, k) ELSE [a EXCEPT !.inbuf = @ + k]

-----------------------------------------------------------------------------
\* WRITER
\* register_stream: idempotent, ids in first-registration order  (archive.rs:126-136)
RegisterResult(n) == IF Known(n) THEN IdOf(n) - 1 ELSE Len(names)
Register(n) ==
  /\ mode = "writing"
  /\ IF Known(n) THEN UNCHANGED wvars
     ELSE /\ names' = Append(names, n) /\ raw' = Append(raw, <<>>) /\ dir' = Append(dir, <<>>)
          /\ wbuf' = Append(wbuf, <<>>) /\ adone' = Append(adone, <<>>) /\ apend' = Append(apend, <<>>)
          /\ UNCHANGED <<off, body>>
  /\ UNCHANGED <<mode, rd, cursor, svars>>

\* one part reaches the file: varint(meta) then data at the running offset; the directory
\* records (offset of the varint, size of the data only)            (archive.rs:149-183)
St == [dir |-> dir, off |-> off, body |-> body, sink |-> Sink]
Commit(st, s, p) ==
  LET hdr == EncodeVarint(p.meta) IN
  [dir  |-> [st.dir EXCEPT ![s] = Append(@, [off |-> st.off, size |-> p.data.len])],
   off  |-> st.off + Len(hdr) + p.data.len,
   body |-> [o \in (DOMAIN st.body) \cup {st.off} |->
               IF o = st.off THEN [hdr |-> hdr, data |-> p.data] ELSE st.body[o]],
   sink |-> SinkWrite(SinkWrite(st.sink, Len(hdr)), p.data.len)]
RECURSIVE CommitAll(_, _)
CommitAll(st, l) == IF l = <<>> THEN st ELSE CommitAll(Commit(st, l[1][1], l[1][2]), Tail(l))

Apply(st) ==
  /\ dir' = st.dir /\ off' = st.off /\ body' = st.body
  /\ inbuf' = st.sink.inbuf /\ disk' = st.sink.disk /\ UNCHANGED limit
  /\ mode' = IF st.sink.failed THEN "failed" ELSE mode

AddPart(s, d, m) ==
  /\ mode = "writing" /\ s \in Ids
  /\ Apply(Commit(St, s, Part(d, m)))
  /\ adone' = [adone EXCEPT ![s] = Append(@, Part(d, m))]
  /\ UNCHANGED <<names, raw, wbuf, apend, rd, cursor>>

\* add_part_buffered: kept per stream id in insertion order          (archive.rs:188-193)
AddPartBuffered(s, d, m) ==
  /\ mode = "writing" /\ s \in Ids
  /\ wbuf' = [wbuf EXCEPT ![s] = Append(@, Part(d, m))]
  /\ apend' = [apend EXCEPT ![s] = Append(@, Part(d, m))]
  /\ UNCHANGED <<mode, names, raw, dir, off, body, adone, rd, cursor, svars>>

\* flush_buffers: by ascending stream id, within a stream by insertion order (archive.rs:197-207)
RECURSIVE FlushList(_)
FlushList(s) == IF s > NStreams THEN <<>> ELSE [i \in 1..Len(wbuf[s]) |-> <<s, wbuf[s][i]>>] \o FlushList(s + 1)
FlushBuffers ==
  /\ mode = "writing"
  /\ Apply(CommitAll(St, FlushList(1)))
  /\ wbuf' = [s \in Ids |-> <<>>]
  /\ adone' = [s \in Ids |-> adone[s] \o apend[s]]      \* the property's rule, stated per stream
  /\ apend' = [s \in Ids |-> <<>>]
  /\ UNCHANGED <<names, raw, rd, cursor>>

SetRawSize(s, r) ==
  /\ mode = "writing" /\ s \in Ids
  /\ raw' = [raw EXCEPT ![s] = r]
  /\ UNCHANGED <<mode, names, dir, wbuf, off, body, adone, apend, rd, cursor, svars>>

\* the directory as bytes: varint(#streams) then per stream name NUL varint(#parts) varint(raw)
\* (varint(offset) varint(size))*                                   (archive.rs:324-366)
RECURSIVE PartsBytes(_, _)
PartsBytes(ps, i) == IF i > Len(ps) THEN <<>>
  ELSE EncodeVarint(NatDigits(ps[i].off)) \o EncodeVarint(NatDigits(ps[i].size)) \o PartsBytes(ps, i + 1)
RECURSIVE StreamsBytes(_)
StreamsBytes(s) == IF s > NStreams THEN <<>>
  ELSE names[s] \o <<0>> \o EncodeVarint(NatDigits(Len(dir[s]))) \o EncodeVarint(raw[s])
       \o PartsBytes(dir[s], 1) \o StreamsBytes(s + 1)
DirBytes == EncodeVarint(NatDigits(NStreams)) \o StreamsBytes(1)

\* close (write mode): flush the buffered writer, then directory, 8-byte length, flush.
\* Domain of the properties: buffers have been flushed before close.  (archive.rs:111-123)
Buffered == \E s \in Ids : wbuf[s] # <<>>
Close ==
  /\ mode = "writing" /\ ~Buffered
  /\ LET dl == Len(DirBytes)
         sk == SinkFlush(SinkWrite(SinkWrite(SinkFlush(Sink), dl), 8)) IN
     /\ inbuf' = sk.inbuf /\ disk' = sk.disk /\ UNCHANGED limit
     /\ mode' = IF sk.failed THEN "failed" ELSE "closed"
  /\ UNCHANGED <<wvars, rd, cursor>>

\* length of the complete file image: body, directory, 8-byte directory length
ImageLen == off + Len(DirBytes) + 8

-----------------------------------------------------------------------------
\* READER (a fresh handle on the closed file): sees the directory and the body
Open ==
  /\ mode = "closed"
  /\ mode' = "reading"
  /\ rd' = [names |-> names, raw |-> raw, dir |-> dir]
  /\ cursor' = [s \in Ids |-> 0]
  /\ UNCHANGED <<wvars, svars>>

\* a part of size 0 reads back as (empty, 0) without touching the file (archive.rs:300-321)
ReadEntry(e) ==
  IF e.size = 0 THEN Part(EmptyD, <<>>)
  ELSE Part(body[e.off].data, DecodeVarint(body[e.off].hdr).val)

None == [none |-> TRUE]
GetPartResult(s) == IF cursor[s] < Len(rd.dir[s]) THEN ReadEntry(rd.dir[s][cursor[s] + 1]) ELSE None
GetPart(s) ==
  /\ mode = "reading" /\ s \in 1..Len(rd.names)
  /\ cursor' = [cursor EXCEPT ![s] = IF @ < Len(rd.dir[s]) THEN @ + 1 ELSE @]
  /\ UNCHANGED <<mode, wvars, rd, svars>>
GetPartByIdResult(s, i) == ReadEntry(rd.dir[s][i + 1])
GetPartById(s, i) ==
  /\ mode = "reading" /\ s \in 1..Len(rd.names) /\ i + 1 \in 1..Len(rd.dir[s])
  /\ UNCHANGED vars

-----------------------------------------------------------------------------
\* C13 as invariants
\* what the property says must come back for a stored part
Expect(p) == IF p.data.len = 0 THEN Part(EmptyD, <<>>) ELSE p

NoDupNames == \A i, j \in Ids : names[i] = names[j] => i = j

\* the code-shaped state refines the abstract one: directory entries tile the body in commit
\* order, and stream s lists exactly the parts of adone[s], in order
Layout ==
  /\ \A s \in Ids : Len(dir[s]) = Len(adone[s])
  /\ \A s \in Ids : \A i \in 1..Len(dir[s]) :
        LET e == dir[s][i] IN
        /\ e.off \in DOMAIN body
        /\ body[e.off].data = adone[s][i].data /\ e.size = adone[s][i].data.len
        /\ body[e.off].hdr = EncodeVarint(adone[s][i].meta)
  /\ \A o \in DOMAIN body : o + Len(body[o].hdr) + body[o].data.len <= off
  /\ \A s \in Ids : wbuf[s] = apend[s]

RoundTrip ==
  mode = "reading" =>
    /\ rd.names = names /\ rd.raw = raw
    /\ \A s \in Ids :
         /\ apend[s] = <<>>
         /\ Len(rd.dir[s]) = Len(adone[s])
         /\ \A i \in 1..Len(adone[s]) : ReadEntry(rd.dir[s][i]) = Expect(adone[s][i])

-----------------------------------------------------------------------------
\* C15 / C14 as invariants of the sink layer
\* front to back: what is on disk is a prefix of what has been handed to the writer
DiskIsPrefix == disk <= limit /\ (mode = "writing" => disk + inbuf = off) /\ disk <= off + (IF mode = "writing" THEN 0 ELSE ImageLen - off)
\* close returned Ok  =>  the complete image is on disk; a failed write is never followed by Ok
Reported ==
  /\ mode \in {"closed", "reading"} => (disk = ImageLen /\ inbuf = 0 /\ limit >= ImageLen)
  /\ mode = "failed" => (disk = limit /\ limit < ImageLen)
\* the outcome the fault-enumeration checks compare with (C15): a create whose complete image has
\* `len` bytes and whose first failing write is at offset f
FaultOutcome(len, f) == IF f < len THEN "err" ELSE "ok"

-----------------------------------------------------------------------------
\* byte-level file image and the format's reader (bounded model, C14)
Bytes(d) == [i \in 1..d.len |-> (d.id * 37 + i * 11) % 256]
RECURSIVE BodyBytesFrom(_)
BodyBytesFrom(o) == IF o >= off THEN <<>>
  ELSE body[o].hdr \o Bytes(body[o].data) \o BodyBytesFrom(o + Len(body[o].hdr) + body[o].data.len)
ImageBytes == LET db == DirBytes IN BodyBytesFrom(0) \o db \o LE8(Len(db))

RdFail == [ok |-> FALSE]
\* name: bytes up to NUL
RECURSIVE NameEnd(_, _, _)
NameEnd(b, p, lim) == IF p > lim THEN 0 ELSE IF b[p] = 0 THEN p ELSE NameEnd(b, p + 1, lim)
RECURSIVE ParseParts(_, _, _, _, _)
ParseParts(b, p, lim, k, acc) ==
  IF k = 0 THEN [ok |-> TRUE, parts |-> acc, next |-> p]
  ELSE LET o == DecodeVarintIn(b, p, lim) IN
       IF ~o.ok THEN RdFail
       ELSE LET z == DecodeVarintIn(b, o.next, lim) IN
            IF ~z.ok THEN RdFail
            ELSE ParseParts(b, z.next, lim, k - 1, Append(acc, [off |-> o.val, size |-> z.val]))
RECURSIVE ParseStreams(_, _, _, _, _)
ParseStreams(b, p, lim, k, acc) ==
  IF k = 0 THEN [ok |-> TRUE, names |-> acc.names, raw |-> acc.raw, dir |-> acc.dir]
  ELSE LET e == NameEnd(b, p, lim) IN
       IF e = 0 THEN RdFail
       ELSE LET np == DecodeVarintIn(b, e + 1, lim) IN
            IF ~np.ok THEN RdFail
            ELSE LET rw == DecodeVarintIn(b, np.next, lim) IN
                 \* every part needs >= 2 bytes: a count that cannot fit ends at end-of-directory
                 IF ~rw.ok \/ ~FitsNat(np.val) \/ DigitsNat(np.val) > lim THEN RdFail
                 ELSE LET ps == ParseParts(b, rw.next, lim, DigitsNat(np.val), <<>>) IN
                      IF ~ps.ok THEN RdFail
                      ELSE ParseStreams(b, ps.next, lim, k - 1,
                             [names |-> Append(acc.names, SubSeq(b, p, e - 1)),
                              raw |-> Append(acc.raw, rw.val), dir |-> Append(acc.dir, ps.parts)])
\* open the first n bytes of b as an archive: last 8 bytes = directory length, directory before it
OpenBytes(b, n) ==
  IF n < 8 THEN RdFail
  ELSE LET fs == FromLE8(b, n - 7) IN
       IF ~FitsNat(fs) \/ DigitsNat(fs) > n - 8 THEN RdFail       \* the range check (D7)
       ELSE LET lim == n - 8  start == n - 8 - DigitsNat(fs) + 1
                ns == DecodeVarintIn(b, start, lim) IN
            IF ~ns.ok \/ ~FitsNat(ns.val) \/ DigitsNat(ns.val) > lim THEN RdFail
            ELSE ParseStreams(b, ns.next, lim, DigitsNat(ns.val), [names |-> <<>>, raw |-> <<>>, dir |-> <<>>])

DirAsDigits == [s \in Ids |-> [i \in 1..Len(dir[s]) |->
                  [off |-> NatDigits(dir[s][i].off), size |-> NatDigits(dir[s][i].size)]]]
\* the complete image parses back to the directory ...
ImageReadable ==
  mode \in {"closed"} =>
    LET b == ImageBytes r == OpenBytes(b, Len(b)) IN
    /\ Len(b) = ImageLen
    /\ r.ok /\ r.names = names /\ r.raw = raw /\ r.dir = DirAsDigits
\* ... and no strict prefix of it does (the design claim behind C14, on the bounded model)
PrefixRejected ==
  mode \in {"closed"} =>
    LET b == ImageBytes IN \A n \in 0..(Len(b) - 1) : ~OpenBytes(b, n).ok
\* outcome of opening a crash state: the first n bytes of a complete image of len bytes
CrashOutcome(len, n) == IF n < len THEN "err" ELSE "ok"
=============================================================================
