----------------------------- MODULE Trace_Cli -----------------------------
(* Trace validation for Cli.tla: every run of the real `ragc` binary is one event          *)
(*   [ev |-> "run", cmd, exit, out, post]                                                   *)
(* (command record, projected exit status, projected output items, the archive state the   *)
(* binary itself reports afterwards); it must be allowed by the CONTRACT of Cli.tla from    *)
(* the archive state reached so far.  "start" events begin a new case from the logged       *)
(* state of the archive path.  The mechanism variables of Cli.tla are not used.             *)
EXTENDS Cli, TLC, Json, IOUtils

Rec == ndJsonDeserialize(IOEnv.TRACE)

VARIABLE l
tvars == <<vars, l>>

IsEvent(e) == l <= Len(Rec) /\ Rec[l].ev = e /\ l' = l + 1

TStart == IsEvent("start") /\ arch' = Rec[l].post /\ UNCHANGED mech

TRun ==
  /\ IsEvent("run")
  /\ LET e == Rec[l] IN
       /\ (Allowed(e.cmd, arch, [exit |-> e.exit, out |-> e.out, arch |-> e.post])) = TRUE
       /\ arch' = e.post
  /\ UNCHANGED mech

TNext == TStart \/ TRun
TInit == Init /\ l = 1
TSpec == TInit /\ [][TNext]_tvars

Accepted ==
  LET d == TLCGet("stats").diameter IN
  IF d - 1 = Len(Rec) THEN TRUE ELSE PrintT(<<"UNMATCHED", d>>) /\ FALSE
============================================================================
