SPECIFICATION Spec
CONSTANTS PACK = 2
          IsRaw = FALSE
          Segs = {"a", "b", "c"}
          MaxSegs = 7
INVARIANTS AddressingOK CompleteAfterFinalize PackShape IdRule
CHECK_DEADLOCK FALSE
