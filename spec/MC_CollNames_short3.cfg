SPECIFICATION MCSpec
CONSTANTS RunCap = 100
          MaxNames = 3
          DoEmit = TRUE
          NameSet <- N_short3
INVARIANTS Law Emit
CHECK_DEADLOCK FALSE
