------------------------------- MODULE LzDiff -------------------------------
(* The LZ-diff V2 decoder as a state machine over tokens (ragc-core/src/lz_diff.rs  *)
(* decode :658-739).  State (DESIGN.md section 3):                                    *)
(*    out   symbols produced so far                                                   *)
(*    pred  predicted reference position (0-based)                                    *)
(* One action per token kind; the reference and the minimum match length are action   *)
(* parameters (MC_LzDiff binds them to constants, Trace_LzDiff to the logged case).   *)
(* Token semantics (TokOk / TokOut / TokPred), the byte grammar and the function-level *)
(* decoder live in the constant module LzDiffOps so that other specifications can     *)
(* reuse them without these variables.                                                *)
EXTENDS LzDiffOps

VARIABLES out, pred
vars == <<out, pred>>

Init == out = <<>> /\ pred = 0

\* the common shape: token t is enabled at pred, appends its symbols, moves pred
Apply(ref, mm, t) ==
  /\ TokOk(ref, mm, pred, t)
  /\ out'  = out \o TokOut(ref, pred, t)
  /\ pred' = TokPred(ref, pred, t)

\* literal: byte 'A'+c  -> symbol c                                   (lz_diff.rs:666-680)
Lit(c) == /\ c \in 0..MAX_LIT
          /\ out' = Append(out, c) /\ pred' = pred + 1

\* '!': the reference symbol at the predicted position                (lz_diff.rs:668-672)
Bang(ref) == /\ pred < Len(ref)
             /\ out' = Append(out, ref[pred + 1]) /\ pred' = pred + 1

\* N-run of n >= 4 symbols N; pred is NOT moved                        (lz_diff.rs:681-694)
NRun(n) == /\ n >= NRUN_MIN
           /\ out' = out \o [j \in 1..n |-> N_CODE] /\ UNCHANGED pred

\* match: copy len >= mm symbols from position p = pred + d            (lz_diff.rs:697-711)
Match(ref, mm, d, len) ==
  LET p == pred + d IN
  /\ p >= 0 /\ len >= mm /\ p + len <= Len(ref)
  /\ out' = out \o SubSeq(ref, p + 1, p + len) /\ pred' = p + len

\* match to the end of the (unpadded) reference, length not written    (lz_diff.rs:698-701)
MatchEnd(ref, d) ==
  LET p == pred + d IN
  /\ p >= 0 /\ p <= Len(ref)
  /\ out' = out \o SubSeq(ref, p + 1, Len(ref)) /\ pred' = Len(ref)

\* the action that token t denotes
Step(ref, mm, t) ==
  CASE t.k = "lit"   -> Lit(t.a)
    [] t.k = "bang"  -> Bang(ref)
    [] t.k = "nrun"  -> NRun(t.a)
    [] t.k = "match" -> Match(ref, mm, t.a, t.b)
    [] t.k = "mend"  -> MatchEnd(ref, t.a)
    [] OTHER         -> FALSE

\* pred never leaves [0, |ref| + number of literals]; with a well-formed text every
\* position that is READ lies inside the reference (guards of Bang / Match / MatchEnd)
TypeOK(ref) == pred \in Nat /\ pred <= Len(ref) + Len(out)
=============================================================================
