SPECIFICATION Spec
CONSTANTS
  N = 2
  Contigs <- C5
  Mode = "single"
  PackB = 2
  Cap = 3
  TokenRule = "pinned"
  RefSamples = 1
INVARIANTS NoLostContig EachOnce BarrierSane SameBarrier Deterministic PrefixDeterministic 
PROPERTIES Termination
CHECK_DEADLOCK FALSE
