SPECIFICATION MCSpec
CONSTANTS K = 3
          MaxLen = 5
          Alphabet = {0,1,2,3,4}
          WithExtra = FALSE
INVARIANTS Positions Tiling JoinPrefix JoinDone Boundaries Single WindowAgrees
CHECK_DEADLOCK FALSE
