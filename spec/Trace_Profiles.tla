--------------------------- MODULE Trace_Profiles ---------------------------
(* Trace validation for C18.  One CASE = one input + parameters run twice by the    *)
(* same driver: once by the harness built without integer-overflow checks (profile  *)
(* "release") and once by the harness built with them (profile "chk"); both runs'    *)
(* observations are events of one trace:                                             *)
(*   case    start of a case (resets the state)                                      *)
(*   create  result class, archive sha256, priority range of every queued item       *)
(*   extract result class + digest of everything Decompressor::get_sample returns    *)
(*   lengths get_contig_length / segment descriptors / get_contig_range digests       *)
(*   opens   outcome class of Archive::open and Decompressor::open per truncation     *)
(*           length n, with the footer field found in the last 8 bytes of the prefix  *)
(*   lz      digest of the LZDiff::estimate / encode results of Trace_LzEstimate      *)
(*   cli     the real `ragc` binary: create (exit class, sha256), listset/getset       *)
(*           output digest, exit class of listset on truncated copies                  *)
(*   drv     the drivers of the other checks as they are: `rvh create` (C01),           *)
(*           `rvh drive-pipeline` with schedule perturbation (C04), `rvh archive-view`  *)
(*   end     both profiles have been observed                                         *)
(* An observation is a step of the specification iff                                  *)
(*   - no panic of class ArithPanic occurred in any thread (NoArith),                 *)
(*   - the numbers at the modelled arithmetic sites are inside their ranges (SiteOK:  *)
(*     Pipeline.PriorityInRange with the real constants, OverlapInRange, no           *)
(*     arithmetic panic class at any truncation length),                              *)
(*   - it equals the other profile's observation of the same kind (Agreement of       *)
(*     Profiles.tla lifted to whole runs).                                            *)
(* BINDING of the site models of Profiles.tla (not part of the verdict): the contig   *)
(* length returned by the reader is ContigLen(raw lengths, k); whenever FooterStart   *)
(* predicts "err" both opens return an error.  A difference prints <<"DRIFT", l>>.    *)
EXTENDS Profiles, TLC, Json, IOUtils

Rec == ndJsonDeserialize(IOEnv.TRACE)

VARIABLES l, first, seen, profs
tvars == <<vars, l, first, seen, profs>>

Ev == Rec[l]
ObsKinds == {"create", "extract", "lengths", "opens", "lz", "cli", "drv"}
Empty == [x \in {} |-> 0]

Val(e) == CASE e.ev = "create"  -> <<e.cls, e.sha>>
            [] e.ev = "extract" -> <<e.cls, e.digest, e.n_samples, e.n_contigs>>
            [] e.ev = "lengths" -> <<e.cls, e.digest, e.rows>>
            [] e.ev = "opens"   -> <<e.len, e.rows>>
            [] e.ev = "lz"      -> <<e.digest, e.calls>>
            [] e.ev = "cli"     -> <<e.cls, e.sha, e.digest, e.trunc>>
            [] e.ev = "drv"     -> <<e.create, e.pipeline, e.view>>

NoArith(e) == \A j \in 1..Len(e.panics) : ~e.panics[j].arith

SiteOK(e) == CASE e.ev = "create"  -> /\ PrioInRange(e.prio_min) /\ PrioInRange(e.prio_max)
                                      /\ \A j \in 1..Len(e.tok_prios) : PrioInRange(e.tok_prios[j])
               [] e.ev = "lengths" -> \A j \in 1..Len(e.rows) : OverlapInRange(e.rows[j][3], e.k)
               [] e.ev = "opens"   -> \A j \in 1..Len(e.rows) : e.rows[j][3] # 2 /\ e.rows[j][4] # 2
               [] OTHER -> TRUE

BindingOK(e) == CASE e.ev = "lengths" -> \A j \in 1..Len(e.rows) : e.rows[j][1] = ContigLen(e.rows[j][3], e.k)
                  [] e.ev = "opens"   -> \A j \in 1..Len(e.rows) :
                                            FooterIsErr("checked", e.rows[j][1], e.rows[j][2])
                                              => (e.rows[j][3] = 0 /\ e.rows[j][4] = 0)
                  [] OTHER -> TRUE

TInit == Init /\ l = 1 /\ first = Empty /\ seen = {} /\ profs = {}

TCase ==
  /\ l <= Len(Rec) /\ Ev.ev = "case"
  /\ first' = Empty /\ seen' = {} /\ profs' = {}
  /\ l' = l + 1 /\ UNCHANGED vars

TObs ==
  /\ l <= Len(Rec) /\ Ev.ev \in ObsKinds
  /\ NoArith(Ev)
  /\ SiteOK(Ev)
  /\ <<Ev.ev, Ev.prof>> \notin seen
  /\ IF Ev.ev \in DOMAIN first
     THEN first[Ev.ev] = Val(Ev) /\ UNCHANGED first
     ELSE first' = (Ev.ev :> Val(Ev)) @@ first
  /\ IF BindingOK(Ev) THEN TRUE ELSE PrintT(<<"DRIFT", l>>)
  /\ seen' = seen \cup {<<Ev.ev, Ev.prof>>}
  /\ profs' = IF Ev.ev \in {"create", "lz", "cli"} THEN profs \cup {<<Ev.prof, Ev.ovf>>} ELSE profs
  /\ l' = l + 1 /\ UNCHANGED vars

\* both builds ran, one measured to wrap silently and one measured to trap, and every kind of observation was made by both
TEnd ==
  /\ l <= Len(Rec) /\ Ev.ev = "end"
  /\ profs = {<<"release", FALSE>>, <<"chk", TRUE>>}
  /\ \A x \in seen : <<x[1], "release">> \in seen /\ <<x[1], "chk">> \in seen
  /\ l' = l + 1 /\ UNCHANGED <<vars, first, seen, profs>>

TNext == TCase \/ TObs \/ TEnd
TSpec == TInit /\ [][TNext]_tvars

Accepted ==
  LET d == TLCGet("stats").diameter IN
  IF d - 1 = Len(Rec) THEN TRUE ELSE PrintT(<<"UNMATCHED", d>>) /\ FALSE
=============================================================================
