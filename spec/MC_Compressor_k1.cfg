SPECIFICATION Spec
CONSTANTS K = 1
          Contig <- C12
          Cuts <- Cuts12k1
          RcRule = "format"
INVARIANTS PartsContiguous ReassembleEqualsInput PiecesLongEnough
CHECK_DEADLOCK FALSE
