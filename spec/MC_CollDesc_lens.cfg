SPECIFICATION MCSpec
CONSTANTS MaxRows = 3
          PredLen = 10
          RowSet <- R_lens
INVARIANTS Law Emit
CHECK_DEADLOCK FALSE
