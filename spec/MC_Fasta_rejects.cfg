\* the contract is not vacuous (lost / altered / re-ordered / invented records, failing sample, unreadable result are
\* rejected) and the tokens are inside the property's domain
SPECIFICATION MCSpec
CONSTANTS Variant = "design"
          MaxLen = 4
          FullLen = 4
          SampleMod = 1
          BoringMod = 1
          ThinMod = 1
          Seed = 1
          CrlfModes = {0, 1}
INVARIANTS TypeOK ContractRejects
CHECK_DEADLOCK FALSE
