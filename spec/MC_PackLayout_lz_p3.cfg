SPECIFICATION Spec
CONSTANTS PACK = 3
          IsRaw = FALSE
          Segs = {"a", "b", "c"}
          MaxSegs = 10
INVARIANTS AddressingOK CompleteAfterFinalize PackShape IdRule
CHECK_DEADLOCK FALSE
