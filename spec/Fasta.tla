------------------------------- MODULE Fasta -------------------------------
(* FASTA text -> records -> archive -> extraction (property C16).                          *)
(*                                                                                         *)
(* Three layers, all over BYTES (ASCII codes), so that TLC can evaluate them on the raw     *)
(* bytes of real input files:                                                              *)
(*                                                                                         *)
(* 1. The REQUIRED CONTRACT (declarative; does not mention the reader automaton):           *)
(*    RecordsOf(text)  what "the records of a FASTA text" are: a line starting with '>'     *)
(*                     opens a record, its name is the rest of that line (line terminator   *)
(*                     LF or CR LF removed), its sequence is Normalise(everything up to the *)
(*                     next such line);                                                    *)
(*    Normalise        the documented normalisation: non-letters dropped, upper case,       *)
(*                     letters outside the IUPAC set read back as N;                        *)
(*    Contract(E, o)   outcome o of `create` over the expected records E is either an error *)
(*                     or an archive in which every listed sample extracts, nothing that    *)
(*                     has >= 1 base is left out, and what is extracted equals the input.   *)
(*    What happens to records with zero bases is left open (kept or dropped), as are the    *)
(*    sample names, the assignment of records to samples and the order of samples.          *)
(*                                                                                         *)
(* 2. The DESIGN: the line-level record reader as a state machine                           *)
(*    (state \in {Start, InRecord, Done}, cur, records) with actions Header, SeqLine,       *)
(*    Blank, Eof; the symbol table (letter -> code 0..15, other letters -> 30, bytes <= 64  *)
(*    dropped: genome_io.rs CNV_NUM) and the output mapping (code < 16 -> letter, else N:   *)
(*    decompressor.rs write_sample_fasta).  Lines(text) is the CR/LF and                    *)
(*    missing-final-newline handling.                                                      *)
(*                                                                                         *)
(* 3. Variant: "design" is the required behaviour; the other values are deliberately wrong  *)
(*    readers used only as NEGATIVE CONTROLS of the contract in MC_Fasta.                   *)
EXTENDS Naturals, Sequences, FiniteSets

CONSTANT Variant

LF == 10    CR == 13    GT == 62    SP == 32    TAB == 9    LetN == 78

IsUpper(c)  == c \in 65..90
IsLower(c)  == c \in 97..122
IsLetter(c) == IsUpper(c) \/ IsLower(c)
IsDigit(c)  == c \in 48..57
IsGap(c)    == c \in {45, 42, 46}                     \* - * .
Upper(c)    == IF IsLower(c) THEN c - 32 ELSE c

\* IUPAC letters in the order of the AGC code: A C G T N R Y S W K M B D H V U  (code = index - 1)
IupacSeq == <<65, 67, 71, 84, 78, 82, 89, 83, 87, 75, 77, 66, 68, 72, 86, 85>>
IupacSet == {IupacSeq[i] : i \in 1..16}

Range(s) == {s[i] : i \in DOMAIN s}

\* ------------------------------------------------------------------------------------------
\* 1. contract layer
\* ------------------------------------------------------------------------------------------
\* the documented normalisation of one letter
Norm1(c) == IF Upper(c) \in IupacSet THEN Upper(c) ELSE LetN
NormTab == [c \in 0..255 |-> IF IsLetter(c) THEN Norm1(c) ELSE 0]          \* evaluated once
Normalise(s) ==
  LET k == SelectSeq(s, LAMBDA c : NormTab[c] # 0)
  IN  [i \in 1..Len(k) |-> NormTab[k[i]]]

IsBlankByte(c) == c = SP \/ c = TAB
\* blanks (space, tab) removed at both ends
TrimBlank(s) ==
  LET keep == {i \in 1..Len(s) : ~IsBlankByte(s[i])}
  IN  IF keep = {} THEN <<>>
      ELSE LET lo == CHOOSE i \in keep : \A j \in keep : i <= j
               hi == CHOOSE i \in keep : \A j \in keep : j <= i
           IN  SubSeq(s, lo, hi)

\* text of a header line (without its LF): '>' removed, one CR of a CR LF terminator removed
StripCR(line) == IF Len(line) > 0 /\ line[Len(line)] = CR THEN SubSeq(line, 1, Len(line) - 1) ELSE line
HeaderText(line) == TrimBlank(SubSeq(StripCR(line), 2, Len(StripCR(line))))

\* positions of LF; positions where a line begins with '>'
Index(b) == [i \in 1..Len(b) |-> i]
LfPos(b) == SelectSeq(Index(b), LAMBDA i : b[i] = LF)
HdrPos(b) == SelectSeq(Index(b), LAMBDA i : b[i] = GT /\ (i = 1 \/ b[i - 1] = LF))

\* end (exclusive) of the line that starts at p
LineEnd(b, p) ==
  LET later == {i \in p..Len(b) : b[i] = LF}
  IN  IF later = {} THEN Len(b) + 1 ELSE CHOOSE i \in later : \A j \in later : i <= j

RecordsOf(b) ==
  LET h == HdrPos(b)
      n == Len(h)
      stop(m) == IF m = n THEN Len(b) ELSE h[m + 1] - 1
  IN  [m \in 1..n |->
         LET q == LineEnd(b, h[m])
         IN  [name |-> HeaderText(SubSeq(b, h[m], q - 1)),
              seq  |-> Normalise(SubSeq(b, q + 1, stop(m)))]]

\* letters before the first header line: not a FASTA text "built from records"
Orphan(b) ==
  LET h == HdrPos(b)
  IN  Normalise(IF Len(h) = 0 THEN b ELSE SubSeq(b, 1, h[1] - 1)) # <<>>

\* Lines of a text: LF-terminated pieces (LF removed) + an unterminated last piece, if any.
LinesOf(b, keepTail) ==
  LET e == LfPos(b)
      n == Len(e)
      start(j) == IF j = 1 THEN 1 ELSE e[j - 1] + 1
      full == [j \in 1..n |-> SubSeq(b, start(j), e[j] - 1)]
      tail == IF n = 0 THEN 1 ELSE e[n] + 1
  IN  IF tail <= Len(b) /\ keepTail THEN Append(full, SubSeq(b, tail, Len(b))) ELSE full
Lines(b) == LinesOf(b, TRUE)

IsHeaderLine(line) == Len(line) > 0 /\ line[1] = GT

\* The quantifier of the property: printable-ASCII header lines (the name does not itself start
\* with '>'), sequence lines over letters, digits and - * . ; CR only as part of CR LF; no data
\* before the first header.  Outside of this domain the contract demands nothing.
InDomain(b) ==
  /\ \A i \in 1..Len(b) : b[i] = LF \/ b[i] = CR \/ b[i] \in 32..126
  /\ \A i \in 1..Len(b) : b[i] = CR => (i < Len(b) /\ b[i + 1] = LF)
  /\ ~Orphan(b)
  /\ LET ls == Lines(b)
     IN  \A j \in 1..Len(ls) :
           LET t == StripCR(ls[j])
           IN  IF IsHeaderLine(t)
               THEN LET nm == HeaderText(t) IN nm = <<>> \/ nm[1] # GT
               ELSE \A i \in 1..Len(t) : IsLetter(t[i]) \/ IsDigit(t[i]) \/ IsGap(t[i])

\* ---- outcome of create + list + extract ----------------------------------------------------
\* o = [kind |-> "error" | "archive" | "unreadable",
\*      samples |-> << [name |-> bytes, status |-> "ok" | "fail", records |-> << [name, seq] >>] >> ]
\* ("unreadable": create reported success but the result cannot be opened / listed)
NonEmpty(rs) == SelectSeq(rs, LAMBDA r : r.seq # <<>>)
Empties(rs)  == SelectSeq(rs, LAMBDA r : r.seq = <<>>)
\* (Canon: one representation for sequences that come from JSON, SubSeq or a function constructor)
Canon(s) == [i \in 1..Len(s) |-> s[i]]
Key(r) == [name |-> Canon(TrimBlank(r.name)), seq |-> Canon(r.seq)]
Keys(rs) == [i \in 1..Len(rs) |-> Key(rs[i])]

BagOf(s) == [x \in Range(s) |-> Cardinality({i \in DOMAIN s : s[i] = x})]
BagLeq(a, b) == \A x \in DOMAIN a : x \in DOMAIN b /\ a[x] <= b[x]

\* x is a subsequence of e (greedy left-most embedding)
IsSubseq(x, e) ==
  LET nextAt(r, p) == LET c == {j \in (p + 1)..Len(e) : e[j] = r}
                      IN  IF c = {} THEN Len(e) + 1 ELSE CHOOSE j \in c : \A k \in c : j <= k
      f[i \in 0..Len(x)] == IF i = 0 THEN 0
                            ELSE IF f[i - 1] > Len(e) THEN f[i - 1] ELSE nextAt(x[i], f[i - 1])
  IN  f[Len(x)] <= Len(e)

RECURSIVE FlatRecords(_, _)
FlatRecords(samples, i) == IF i > Len(samples) THEN <<>> ELSE Keys(samples[i].records) \o FlatRecords(samples, i + 1)
AllExtracted(o) == FlatRecords(o.samples, 1)

ListedSamplesExtract(o) == \A i \in 1..Len(o.samples) : o.samples[i].status = "ok"

\* The parts of the contract over KEYED records (KE = Keys(E), KX = AllExtracted(o)):
\* "No record that has at least one base is silently left out."
NoneLeftOutK(KE, KX) == BagLeq(BagOf(NonEmpty(KE)), BagOf(NonEmpty(KX)))
\* "... equals the input under the documented normalisation": nothing altered or invented; inside
\* a sample the records come in input order; a record without bases may only be one of the input.
EqualsInputK(KE, KX, o) ==
  /\ BagLeq(BagOf(NonEmpty(KX)), BagOf(NonEmpty(KE)))
  /\ LET ne == NonEmpty(KE)
     IN  \A i \in 1..Len(o.samples) : IsSubseq(NonEmpty(Keys(o.samples[i].records)), ne)
  /\ BagLeq(BagOf(Empties(KX)), BagOf(Empties(KE)))

NoRecordLeftOut(E, o) == NoneLeftOutK(Keys(E), AllExtracted(o))
ExtractionEqualsInput(E, o) == EqualsInputK(Keys(E), AllExtracted(o), o)

Contract(E, o) ==
  \/ o.kind = "error"
  \/ /\ o.kind = "archive"
     /\ ListedSamplesExtract(o)
     /\ LET KE == Keys(E)
            KX == AllExtracted(o)
        IN  NoneLeftOutK(KE, KX) /\ EqualsInputK(KE, KX, o)

\* ------------------------------------------------------------------------------------------
\* 2. design layer: symbol table, output mapping, the reader automaton
\* ------------------------------------------------------------------------------------------
UNKNOWN == 30
\* genome_io.rs CNV_NUM[65..127]: letter (either case) -> code 0..15, every other letter -> 30
CodeOfUpper(u) == IF u \in IupacSet THEN (CHOOSE i \in 1..16 : IupacSeq[i] = u) - 1 ELSE UNKNOWN
CodeTab == [c \in 0..255 |->
              IF IsUpper(c) THEN CodeOfUpper(c)
              ELSE IF IsLower(c) THEN (IF Variant = "lowerMissing" THEN UNKNOWN ELSE CodeOfUpper(c - 32))
              ELSE 255]                                                      \* 255: not stored
\* read_contig_impl: bytes <= 64 are dropped, the others go through the table
\* (on the property's domain the bytes > 64 of a sequence line are letters)
Encode(line) ==
  LET k == SelectSeq(line, LAMBDA c : CodeTab[c] # 255)
  IN  [i \in 1..Len(k) |-> CodeTab[k[i]]]
HasSymbol(line) == \E i \in 1..Len(line) : CodeTab[line[i]] # 255
\* write_sample_fasta: code < 16 -> CNV_NUM[code], anything else -> N
Letter(code) ==
  IF code < (IF Variant = "code15" THEN 15 ELSE 16) THEN IupacSeq[code + 1]
  ELSE IF Variant = "keepUnknown" THEN 88 ELSE LetN
Decode(codes) == [i \in 1..Len(codes) |-> Letter(codes[i])]

NoRec == [name |-> <<>>, seq |-> <<>>]
S0 == [state |-> "Start", cur |-> NoRec, records |-> <<>>, orphan |-> FALSE]

ReaderHeaderText(line) ==
  IF Variant = "crInHeader" THEN TrimBlank(SubSeq(line, 2, Len(line))) ELSE HeaderText(line)

DoHeader(S, line) ==
  IF S.state = "Done" THEN S
  ELSE IF Variant = "eofOnEmpty" /\ S.state = "InRecord" /\ S.cur.seq = <<>>
  THEN [S EXCEPT !.state = "Done"]                    \* pre-fix reader: an empty record is "end of input"
  ELSE [state   |-> "InRecord",
        cur     |-> [name |-> ReaderHeaderText(line), seq |-> <<>>],
        records |-> IF S.state = "InRecord" THEN Append(S.records, S.cur) ELSE S.records,
        orphan  |-> S.orphan]

DoSeqE(S, e) ==
  IF S.state = "InRecord" THEN [S EXCEPT !.cur.seq = @ \o e]
  ELSE IF S.state = "Start" THEN [S EXCEPT !.orphan = TRUE]
  ELSE S
DoSeq(S, line) == DoSeqE(S, Encode(line))

DoBlank(S) ==
  IF Variant = "eofOnEmpty" /\ S.state = "Start" THEN [S EXCEPT !.state = "Done"] ELSE S

DoEof(S) ==
  [S EXCEPT !.state = "Done",
            !.records = IF S.state = "InRecord" THEN Append(@, S.cur) ELSE @]

\* a line is a header, a sequence line (has >= 1 stored symbol) or blank (nothing stored:
\* empty, CR only, digits / gaps only)
StepLine(S, line) ==
  IF IsHeaderLine(line) THEN DoHeader(S, line)
  ELSE IF HasSymbol(line) THEN DoSeqE(S, Encode(line)) ELSE DoBlank(S)

RunLines(S, ls) ==
  LET f[i \in 0..Len(ls)] == IF i = 0 THEN S ELSE StepLine(f[i - 1], ls[i])
  IN  f[Len(ls)]

\* the reader on a whole text (a last line without LF is a line like any other)
ReadText(b) == DoEof(RunLines(S0, LinesOf(b, Variant # "dropUnterminated")))

\* what extraction returns for stored records
Extracted(records) == [i \in 1..Len(records) |-> [name |-> records[i].name, seq |-> Decode(records[i].seq)]]

\* ---- the automaton as a TLA+ state machine --------------------------------------------------
VARIABLES state, cur, records, orphan
vars == <<state, cur, records, orphan>>
St == [state |-> state, cur |-> cur, records |-> records, orphan |-> orphan]
Becomes(S) == state' = S.state /\ cur' = S.cur /\ records' = S.records /\ orphan' = S.orphan

Init == state = "Start" /\ cur = NoRec /\ records = <<>> /\ orphan = FALSE

\* (a wrong variant may have stopped reading early; it then ignores the rest)
Active == IF state # "Done" THEN TRUE ELSE Variant # "design"
Header(line)  == Active /\ IsHeaderLine(line) /\ Becomes(DoHeader(St, line))
SeqLine(line) == Active /\ ~IsHeaderLine(line) /\ HasSymbol(line) /\ Becomes(DoSeq(St, line))
Blank(line)   == Active /\ ~IsHeaderLine(line) /\ ~HasSymbol(line) /\ Becomes(DoBlank(St))
Eof           == Active /\ Becomes(DoEof(St))
Line(line)    == Header(line) \/ SeqLine(line) \/ Blank(line)

TypeOK ==
  /\ state \in {"Start", "InRecord", "Done"}
  /\ orphan \in BOOLEAN
  /\ state = "Start" => records = <<>> /\ cur = NoRec
  /\ \A j \in 1..Len(cur.seq) : cur.seq[j] \in 0..15 \cup {UNKNOWN}
=============================================================================
