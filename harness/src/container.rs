//! Binding of spec/Container.tla and spec/Varint.tla to the real code:
//!   C13  ragc_common::Archive writer/reader + varint codec   (replay-container, trace-container, trace-varint)
//!   C14  every strict prefix of real archives through Archive::open / Decompressor::open (trace-truncate)
//!   C15  every first-failing-write offset injected into a real create (fault-sweep; children run
//!        under RLIMIT_FSIZE with SIGXFSZ ignored)
//! Nothing is judged here: REPLAY compares the model's projected state with the real one, the
//! trace commands only record events (arguments, result class, cheap post-state) for TLC.
use crate::util::{self, Args};
use anyhow::{anyhow, Context, Result};
use ragc_common::{decode_varint, encode_varint, Archive};
use ragc_core::contig_iterator::ContigIterator;
use ragc_core::{Decompressor, DecompressorConfig, MultiFileIterator, StreamingQueueCompressor, StreamingQueueConfig};
use rand::rngs::StdRng;
use rand::Rng;
use serde_json::{json, Value};
use std::alloc::{GlobalAlloc, Layout, System};
use std::io::{BufRead, Write};
use std::panic::AssertUnwindSafe;
use std::path::{Path, PathBuf};
use std::sync::atomic::{AtomicUsize, Ordering};

pub fn dispatch(cmd: &str, a: &Args) -> Option<Result<()>> {
    match cmd {
        "replay-container" => Some(replay(a)),
        "trace-container" => Some(trace(a)),
        "trace-varint" => Some(trace_varint(a)),
        "mk-inputs" => Some(mk_inputs(a)),
        "container-create" => Some(create_cmd(a)),
        "trace-truncate" => Some(trace_truncate(a)),
        "fault-sweep" => Some(fault_sweep(a)),
        _ => None,
    }
}

// ---------------------------------------------------------------------------------------------
// counting allocator (C14: "an attempt to allocate a garbage-sized buffer")
// ---------------------------------------------------------------------------------------------
pub struct Counting;
static MAX_REQ: AtomicUsize = AtomicUsize::new(0);
static ALLOC_LIMIT: AtomicUsize = AtomicUsize::new(usize::MAX);

fn note(size: usize) {
    MAX_REQ.fetch_max(size, Ordering::Relaxed);
    if size > ALLOC_LIMIT.load(Ordering::Relaxed) {
        // a garbage-sized request: do not let the allocator abort the process without a trace;
        // report it and leave (the driver resumes after this offset)
        let msg = format!("HUGEALLOC size={}\n", size);
        unsafe {
            libc::write(2, msg.as_ptr() as *const libc::c_void, msg.len());
            libc::_exit(77);
        }
    }
}
unsafe impl GlobalAlloc for Counting {
    unsafe fn alloc(&self, l: Layout) -> *mut u8 {
        note(l.size());
        System.alloc(l)
    }
    unsafe fn alloc_zeroed(&self, l: Layout) -> *mut u8 {
        note(l.size());
        System.alloc_zeroed(l)
    }
    unsafe fn dealloc(&self, p: *mut u8, l: Layout) {
        System.dealloc(p, l)
    }
    unsafe fn realloc(&self, p: *mut u8, l: Layout, n: usize) -> *mut u8 {
        note(n);
        System.realloc(p, l, n)
    }
}
#[global_allocator]
static GLOBAL: Counting = Counting;

// ---------------------------------------------------------------------------------------------
// projections
// ---------------------------------------------------------------------------------------------
/// u64 -> normalised big-endian base-256 digit sequence (the spec's representation of a u64)
fn digits(v: u64) -> Vec<u8> {
    let b = v.to_be_bytes();
    let z = b.iter().take_while(|&&x| x == 0).count();
    b[z..].to_vec()
}
fn undigits(v: &Value) -> u64 {
    v.as_array().map(|a| a.iter().fold(0u64, |acc, d| (acc << 8) | d.as_u64().unwrap())).unwrap_or(0)
}
/// spec Container!Bytes(d): the bytes a data token of the bounded model stands for
fn token_bytes(d: &Value) -> Vec<u8> {
    let len = d["len"].as_u64().unwrap();
    let id = d["id"].as_u64().unwrap();
    (1..=len).map(|i| ((id * 37 + i * 11) % 256) as u8).collect()
}
/// bytes -> opaque token [len, id] for recorded traces (id = 30 bits of SHA-256; empty = [0,0])
fn token_of(b: &[u8]) -> Value {
    if b.is_empty() {
        return json!({"len": 0, "id": 0});
    }
    let h = util::sha256_hex(b);
    let id = u64::from_str_radix(&h[..8], 16).unwrap() >> 2;
    json!({"len": b.len(), "id": id})
}
fn name_of(v: &Value) -> String {
    v.as_array().unwrap().iter().map(|c| c.as_u64().unwrap() as u8 as char).collect()
}
fn codes(s: &str) -> Vec<u8> {
    s.bytes().collect()
}
fn obs(a: &Archive) -> Value {
    let names: Vec<Vec<u8>> = a.get_stream_names().iter().map(|n| codes(n)).collect();
    let n = a.get_num_streams();
    let nparts: Vec<usize> = (0..n).map(|s| a.get_num_parts(s)).collect();
    let raw: Vec<Vec<u8>> = (0..n).map(|s| digits(a.get_raw_size(s))).collect();
    json!({"names": names, "nparts": nparts, "raw": raw})
}
fn part_json(r: &Option<(Vec<u8>, u64)>, tok: impl Fn(&[u8]) -> Value) -> Value {
    match r {
        None => json!({"none": true}),
        Some((d, m)) => json!({"data": tok(d), "meta": digits(*m)}),
    }
}

// ---------------------------------------------------------------------------------------------
// REPLAY (C13): every behaviour of MC_Container on the real Archive
// ---------------------------------------------------------------------------------------------
fn same_obs(model: &Value, real: &Value) -> bool {
    model["names"] == real["names"] && model["nparts"] == real["nparts"] && model["raw"] == real["raw"]
}

fn replay_one(b: &Value, path: &Path) -> Option<Value> {
    let mut w = Archive::new_writer();
    let mut r: Option<Archive> = None;
    if let Err(e) = w.open(path) {
        return Some(json!({"step": -1, "field": "open-writer", "real": format!("{:#}", e)}));
    }
    // materialised bytes of a model part {data:{len,id}, meta:[..]} or {none:true}
    let real_part = |x: &Option<(Vec<u8>, u64)>| part_json(x, |d| json!(d));
    let model_part = |m: &Value| {
        if m.get("none").is_some() {
            json!({"none": true})
        } else {
            json!({"data": token_bytes(&m["data"]), "meta": m["meta"]})
        }
    };
    for (i, st) in b["steps"].as_array().unwrap().iter().enumerate() {
        let op = st["op"].as_str().unwrap();
        let fail = |field: &str, real: Value| Some(json!({"step": i, "op": op, "field": field, "model": st, "real": real}));
        match op {
            "reg" => {
                let id = w.register_stream(&name_of(&st["name"]));
                if id as u64 != st["res"].as_u64().unwrap() {
                    return fail("id", json!(id));
                }
            }
            "add" => {
                let s = st["s"].as_u64().unwrap() as usize;
                if let Err(e) = w.add_part(s, &token_bytes(&st["data"]), undigits(&st["meta"])) {
                    return fail("result", json!(format!("{:#}", e)));
                }
            }
            "buf" => {
                let s = st["s"].as_u64().unwrap() as usize;
                w.add_part_buffered(s, token_bytes(&st["data"]), undigits(&st["meta"]));
            }
            "flush" => {
                if let Err(e) = w.flush_buffers() {
                    return fail("result", json!(format!("{:#}", e)));
                }
            }
            "raw" => w.set_raw_size(st["s"].as_u64().unwrap() as usize, undigits(&st["val"])),
            "close" => {
                if let Err(e) = w.close() {
                    return fail("result", json!(format!("{:#}", e)));
                }
            }
            "open" => {
                let mut a = Archive::new_reader();
                if let Err(e) = a.open(path) {
                    return fail("result", json!(format!("{:#}", e)));
                }
                r = Some(a);
            }
            "get" => {
                let a = r.as_mut().unwrap();
                match a.get_part(st["s"].as_u64().unwrap() as usize) {
                    Ok(x) => {
                        if real_part(&x) != model_part(&st["res"]) {
                            return fail("res", real_part(&x));
                        }
                    }
                    Err(e) => return fail("result", json!(format!("{:#}", e))),
                }
            }
            "getid" => {
                let a = r.as_mut().unwrap();
                match a.get_part_by_id(st["s"].as_u64().unwrap() as usize, st["i"].as_u64().unwrap() as usize) {
                    Ok(x) => {
                        let x = Some(x);
                        if real_part(&x) != model_part(&st["res"]) {
                            return fail("res", real_part(&x));
                        }
                    }
                    Err(e) => return fail("result", json!(format!("{:#}", e))),
                }
            }
            _ => return fail("unknown-op", Value::Null),
        }
        if let Some(m) = st.get("obs") {
            let real = match m["mode"].as_str().unwrap() {
                "writing" => Some(obs(&w)),
                "reading" => Some(obs(r.as_ref().unwrap())),
                _ => None,
            };
            if let Some(real) = real {
                if !same_obs(m, &real) {
                    return fail("obs", real);
                }
            }
        }
    }
    // final read-back on a FRESH handle: names -> ids, counts, sequential reads to the end, then by id backwards
    let mut a = Archive::new_reader();
    if let Err(e) = a.open(path) {
        return Some(json!({"step": "readback", "field": "open", "real": format!("{:#}", e)}));
    }
    let expect = b["expect"].as_array().unwrap();
    let names = a.get_stream_names();
    if names.len() != expect.len() {
        return Some(json!({"step": "readback", "field": "nstreams", "model": expect.len(), "real": names.len()}));
    }
    for (s, parts) in expect.iter().enumerate() {
        let parts = parts.as_array().unwrap();
        if a.get_stream_id(&names[s]) != Some(s) {
            return Some(json!({"step": "readback", "field": "stream-id", "stream": s}));
        }
        if a.get_num_parts(s) != parts.len() {
            return Some(json!({"step": "readback", "field": "nparts", "stream": s, "model": parts.len(), "real": a.get_num_parts(s)}));
        }
        for (i, p) in parts.iter().enumerate() {
            match a.get_part(s) {
                Ok(x) if real_part(&x) == model_part(p) => {}
                Ok(x) => return Some(json!({"step": "readback", "field": "get_part", "stream": s, "part": i, "model": p, "real": real_part(&x)})),
                Err(e) => return Some(json!({"step": "readback", "field": "get_part", "stream": s, "part": i, "model": p, "real": format!("{:#}", e)})),
            }
        }
        match a.get_part(s) {
            Ok(None) => {}
            other => return Some(json!({"step": "readback", "field": "get_part-end", "stream": s, "real": format!("{:?}", other.map(|o| o.map(|x| x.0.len())))})),
        }
        for (i, p) in parts.iter().enumerate().rev() {
            match a.get_part_by_id(s, i) {
                Ok(x) if real_part(&Some(x.clone())) == model_part(p) => {}
                Ok(x) => return Some(json!({"step": "readback", "field": "get_part_by_id", "stream": s, "part": i, "model": p, "real": real_part(&Some(x))})),
                Err(e) => return Some(json!({"step": "readback", "field": "get_part_by_id", "stream": s, "part": i, "model": p, "real": format!("{:#}", e)})),
            }
        }
    }
    None
}

pub fn replay(a: &Args) -> Result<()> {
    util::install_panic_hook();
    let f = std::fs::File::open(a.get("in")?)?;
    let dir = tempfile::tempdir_in(a.opt("tmp").unwrap_or("/tmp"))?;
    let path = dir.path().join("r.agc");
    let (mut n, mut steps) = (0u64, 0u64);
    let mut fails: Vec<Value> = vec![];
    for line in std::io::BufReader::new(f).lines() {
        let line = line?;
        if line.trim().is_empty() {
            continue;
        }
        let b: Value = serde_json::from_str(&line)?;
        n += 1;
        steps += b["steps"].as_array().unwrap().len() as u64;
        match util::catch(AssertUnwindSafe(|| replay_one(&b, &path))) {
            Ok(None) => {}
            Ok(Some(mut v)) => {
                v["behaviour"] = b.clone();
                fails.push(v);
            }
            Err(p) => fails.push(json!({"panic": p, "behaviour": b})),
        }
        if fails.len() >= 20 {
            break;
        }
    }
    println!("{}", json!({"behaviours": n, "steps": steps, "fails": fails}));
    Ok(())
}

// ---------------------------------------------------------------------------------------------
// TRACE (C13): random long histories on the real Archive, one event per call
// ---------------------------------------------------------------------------------------------
const BOUNDARY_SHIFTS: [u32; 9] = [0, 8, 16, 24, 32, 40, 48, 56, 63];
fn boundary_u64(rng: &mut StdRng) -> u64 {
    match rng.gen_range(0..10) {
        0 => 0,
        1 => u64::MAX,
        2 | 3 => 1u64 << BOUNDARY_SHIFTS[rng.gen_range(0..9)],
        4 | 5 => (1u64 << BOUNDARY_SHIFTS[rng.gen_range(1..9)]) - 1,
        6 => (1u64 << BOUNDARY_SHIFTS[rng.gen_range(0..9)]) + 1,
        7 => rng.gen::<u64>() >> rng.gen_range(0..64),
        _ => rng.gen_range(0..100_000),
    }
}
fn rand_name(rng: &mut StdRng, i: usize) -> String {
    // printable ASCII 0x20..0x7e, unique by construction (index suffix), varied alphabet/length
    let l = rng.gen_range(0..12);
    let mut s: String = (0..l).map(|_| rng.gen_range(0x20u8..0x7f) as char).collect();
    s.push_str(&format!("#{}", i));
    s
}
fn rand_data(rng: &mut StdRng, big: bool) -> Vec<u8> {
    let len = match rng.gen_range(0..10) {
        0 | 1 => 0,
        2 => 1,
        3 => rng.gen_range(1..9),
        4 => [255usize, 256, 257, 65535, 65536][rng.gen_range(0..5)],
        5 if big => rng.gen_range(1000..65537),
        _ => rng.gen_range(1..300),
    };
    let mut v = vec![0u8; len];
    rng.fill(&mut v[..]);
    // make 0x00 / 0xff prefixes (what a varint header looks like) common
    if len > 0 && rng.gen_bool(0.2) {
        v[0] = [0u8, 1, 8, 255][rng.gen_range(0..4)];
    }
    v
}

pub fn trace(a: &Args) -> Result<()> {
    util::install_panic_hook();
    let seed: u64 = a.num("seed", 1);
    let ncases: usize = a.num("ncases", 4);
    let nops: usize = a.num("ops", 200);
    let maxstreams: usize = a.num("streams", 40);
    let mut out = std::io::BufWriter::new(std::fs::File::create(a.get("out")?)?);
    let dir = tempfile::tempdir_in(a.opt("tmp").unwrap_or("/tmp"))?;
    for case in 0..ncases {
        let mut rng = util::rng(seed.wrapping_mul(1_000_003) ^ (case as u64) << 20 ^ 0xC13);
        let path = dir.path().join(format!("t{}.agc", case));
        // case styles: 0 mixed, 1 many streams few parts, 2 one stream many parts, 3 buffered-heavy with big parts
        let style = case % 4;
        let nstreams_target = match style { 1 => maxstreams * 6, 2 => 1, _ => maxstreams };
        let big = style == 3 || style == 0;
        writeln!(out, "{}", json!({"ev": "start", "case": case, "style": style}))?;
        let res = util::catch(AssertUnwindSafe(|| -> Result<()> {
            let mut w = Archive::new_writer();
            w.open(&path)?;
            let mut names: Vec<String> = vec![];
            let mut nparts = 0usize;
            let mut i = 0usize;
            while i < nops {
                i += 1;
                let n = names.len();
                let roll = rng.gen_range(0..100);
                if n == 0 || (n < nstreams_target && roll < if style == 1 { 45 } else { 8 }) {
                    let name = rand_name(&mut rng, n);
                    let id = w.register_stream(&name);
                    writeln!(out, "{}", json!({"ev": "reg", "name": codes(&name), "res": id}))?;
                    names.push(name);
                } else if roll < 12 {
                    // repeated registration
                    let name = names[rng.gen_range(0..n)].clone();
                    let id = w.register_stream(&name);
                    writeln!(out, "{}", json!({"ev": "reg", "name": codes(&name), "res": id}))?;
                } else if roll < 18 {
                    let r = w.flush_buffers();
                    writeln!(out, "{}", json!({"ev": "flush", "ok": r.is_ok(), "obs": obs(&w)}))?;
                    r?;
                } else if roll < 24 {
                    let s = rng.gen_range(0..n);
                    let v = boundary_u64(&mut rng);
                    w.set_raw_size(s, v);
                    writeln!(out, "{}", json!({"ev": "raw", "s": s, "val": digits(v), "got": digits(w.get_raw_size(s))}))?;
                } else {
                    // skewed stream choice so that some streams get many parts, in descending-id bursts too
                    let s = if rng.gen_bool(0.5) { rng.gen_range(0..n) } else { n - 1 - rng.gen_range(0..n.min(3)) };
                    let d = rand_data(&mut rng, big);
                    let m = boundary_u64(&mut rng);
                    let buffered = rng.gen_range(0..100) < if style == 3 { 75 } else { 50 };
                    nparts += 1;
                    if buffered {
                        let t = token_of(&d);
                        w.add_part_buffered(s, d, m);
                        writeln!(out, "{}", json!({"ev": "buf", "s": s, "data": t, "meta": digits(m)}))?;
                    } else {
                        let r = w.add_part(s, &d, m);
                        writeln!(out, "{}", json!({"ev": "add", "s": s, "data": token_of(&d), "meta": digits(m), "ok": r.is_ok(), "n": w.get_num_parts(s)}))?;
                        r?;
                    }
                }
            }
            let r = w.flush_buffers();
            writeln!(out, "{}", json!({"ev": "flush", "ok": r.is_ok(), "obs": obs(&w)}))?;
            r?;
            let r = w.close();
            writeln!(out, "{}", json!({"ev": "close", "ok": r.is_ok()}))?;
            r?;
            drop(w);
            let mut rd = Archive::new_reader();
            let r = rd.open(&path);
            writeln!(out, "{}", json!({"ev": "open", "ok": r.is_ok(), "obs": obs(&rd),
                "ids": names.iter().map(|n| rd.get_stream_id(n).map(|x| x as i64).unwrap_or(-1)).collect::<Vec<_>>()}))?;
            r?;
            // reads in a random order: sequential cursors interleaved over streams, random access
            // anywhere, reads past the end; every part is read at least once sequentially
            let n = names.len();
            let mut left: Vec<usize> = (0..n).map(|s| rd.get_num_parts(s) + 1).collect(); // +1: the read past the end
            let mut open_streams: Vec<usize> = (0..n).collect();
            let mut budget = nparts * 2 + n + 10;
            while !open_streams.is_empty() && budget > 0 {
                budget -= 1;
                if rng.gen_bool(0.4) {
                    let s = rng.gen_range(0..n);
                    let np = rd.get_num_parts(s);
                    if np > 0 {
                        let i = rng.gen_range(0..np);
                        let x = rd.get_part_by_id(s, i);
                        let ok = x.is_ok();
                        writeln!(out, "{}", json!({"ev": "getid", "s": s, "i": i, "ok": ok, "res": part_json(&x.ok(), token_of)}))?;
                        continue;
                    }
                }
                let k = rng.gen_range(0..open_streams.len());
                let s = open_streams[k];
                let x = rd.get_part(s);
                let ok = x.is_ok();
                writeln!(out, "{}", json!({"ev": "get", "s": s, "ok": ok, "res": part_json(&x.unwrap_or(None), token_of)}))?;
                left[s] -= 1;
                if left[s] == 0 {
                    open_streams.swap_remove(k);
                }
            }
            Ok(())
        }));
        match res {
            Ok(Ok(())) => {}
            Ok(Err(e)) => writeln!(out, "{}", json!({"ev": "error", "msg": format!("{:#}", e)}))?,
            Err(p) => writeln!(out, "{}", json!({"ev": "panic", "msg": p}))?,
        }
    }
    out.flush()?;
    Ok(())
}

/// TRACE (C13, "magnitudes up to 2^64-1 survive"): the codec pair on boundary and random values
pub fn trace_varint(a: &Args) -> Result<()> {
    util::install_panic_hook();
    let mut rng = util::rng(a.num("seed", 1u64) ^ 0x7a);
    let n: usize = a.num("n", 2000);
    let mut out = std::io::BufWriter::new(std::fs::File::create(a.get("out")?)?);
    writeln!(out, "{}", json!({"ev": "start", "case": 0}))?;
    let mut vals: Vec<u64> = vec![0, 1, u64::MAX, u64::MAX - 1, 1 << 63, (1 << 63) - 1, (1 << 63) + 1];
    for sh in 1..8u32 {
        let p = 1u64 << (8 * sh);
        vals.extend_from_slice(&[p - 2, p - 1, p, p + 1]);
    }
    for _ in 0..n {
        vals.push(rng.gen::<u64>() >> rng.gen_range(0..64));
    }
    for v in vals {
        let r = util::catch(|| {
            let e = encode_varint(v);
            let d = decode_varint(&e);
            (e, d.map_err(|x| x.to_string()))
        });
        match r {
            Ok((e, Ok((d, used)))) => writeln!(out, "{}", json!({"ev": "varint", "v": digits(v), "bytes": e, "ok": true, "dec": digits(d), "used": used}))?,
            Ok((e, Err(m))) => writeln!(out, "{}", json!({"ev": "varint", "v": digits(v), "bytes": e, "ok": false, "msg": m}))?,
            Err(p) => writeln!(out, "{}", json!({"ev": "varint", "v": digits(v), "bytes": [], "ok": false, "msg": p}))?,
        }
    }
    out.flush()?;
    Ok(())
}

// ---------------------------------------------------------------------------------------------
// real archives for C14 / C15: small synthetic multi-sample inputs through the streaming compressor
// ---------------------------------------------------------------------------------------------
const K: usize = 11;
const SEG: usize = 100;
const MINMATCH: usize = 15;

fn rand_seq(rng: &mut StdRng, n: usize) -> Vec<u8> {
    (0..n).map(|_| b"ACGT"[rng.gen_range(0..4)]).collect()
}
fn mutate(rng: &mut StdRng, s: &[u8], rate: f64) -> Vec<u8> {
    let mut o = Vec::with_capacity(s.len() + 16);
    for &c in s {
        let r: f64 = rng.gen();
        if r < rate {
            o.push(b"ACGT"[rng.gen_range(0..4)]);
        } else if r < rate * 1.2 {
            // deletion
        } else if r < rate * 1.4 {
            o.push(c);
            o.push(b"ACGTN"[rng.gen_range(0..5)]);
        } else {
            o.push(c);
        }
    }
    o
}
fn revcomp(s: &[u8]) -> Vec<u8> {
    s.iter().rev().map(|&c| match c { b'A' => b'T', b'C' => b'G', b'G' => b'C', b'T' => b'A', x => x }).collect()
}

/// Writes the FASTA inputs of one synthetic collection into `dir`; returns the file list (first = reference).
fn gen_inputs(kind: &str, seed: u64, dir: &Path) -> Result<Vec<PathBuf>> {
    let mut rng = util::rng(seed ^ 0xA5C1);
    // (sample, [(contig, seq)])
    let mut samples: Vec<(String, Vec<(String, Vec<u8>)>)> = vec![];
    match kind {
        "tiny" => {
            let n = 300 + rng.gen_range(0..200);
            samples.push(("s0".into(), vec![("c1".into(), rand_seq(&mut rng, n))]));
        }
        "multi" => {
            let nc = 2;
            let refs: Vec<Vec<u8>> = (0..nc).map(|_| { let n = rng.gen_range(1200..1800); rand_seq(&mut rng, n) }).collect();
            for s in 0..3 {
                let mut cs = vec![];
                for (c, r) in refs.iter().enumerate() {
                    let mut q = if s == 0 { r.clone() } else { mutate(&mut rng, r, 0.02) };
                    if s == 2 && c == 1 {
                        q = revcomp(&q);
                    }
                    cs.push((format!("chr{}", c + 1), q));
                }
                if s == 1 {
                    cs.push(("extra".into(), rand_seq(&mut rng, 250)));
                }
                samples.push((format!("smp{}", s), cs));
            }
        }
        "raw" => {
            // contigs shorter than k and contigs without any splitter: raw groups only
            for s in 0..2 {
                let mut cs = vec![];
                for c in 0..6 {
                    let n = rng.gen_range(3..(K + 20));
                    cs.push((format!("t{}", c), rand_seq(&mut rng, n)));
                }
                cs.push(("nn".into(), vec![b'N'; 40]));
                samples.push((format!("raw{}", s), cs));
            }
        }
        "batch60" => {
            let r = rand_seq(&mut rng, 260);
            for s in 0..60 {
                let q = if s == 0 { r.clone() } else { mutate(&mut rng, &r, 0.03) };
                samples.push((format!("b{:02}", s), vec![("c".into(), q)]));
            }
        }
        "mid" => {
            // ~100-150 kB of archive with a SMALL directory (segment size above the contig length: a handful of streams), so that
            // prefixes exist whose trailing 8 bytes read as a plausible directory length (file >= 256 x directory): those get past
            // the first range check of the reader and make it parse part bytes as a directory
            for s in 0..2 {
                let n = 200_000 + rng.gen_range(0..40_000);
                samples.push((format!("mid{}", s), vec![("c".into(), rand_seq(&mut rng, n))]));
            }
        }
        "big" => {
            // > 4 MiB of archive: incompressible-ish random sequence, no similarity between samples
            for s in 0..3 {
                let n = 7_000_000;
                samples.push((format!("big{}", s), vec![("c".into(), rand_seq(&mut rng, n))]));
            }
        }
        _ => return Err(anyhow!("unknown kind {}", kind)),
    }
    std::fs::create_dir_all(dir)?;
    let mut files = vec![];
    for (name, contigs) in &samples {
        let p = dir.join(format!("{}.fa", name));
        let mut f = std::io::BufWriter::new(std::fs::File::create(&p)?);
        for (c, s) in contigs {
            writeln!(f, ">{}", c)?;
            for ch in s.chunks(70) {
                f.write_all(ch)?;
                f.write_all(b"\n")?;
            }
        }
        f.flush()?;
        files.push(p);
    }
    Ok(files)
}

fn list_inputs(dir: &Path) -> Result<Vec<PathBuf>> {
    let mut v: Vec<PathBuf> = std::fs::read_dir(dir)?.filter_map(|e| e.ok()).map(|e| e.path())
        .filter(|p| p.extension().map(|x| x == "fa").unwrap_or(false)).collect();
    v.sort();
    Ok(v)
}

/// The create path of ragc-cli (multi-file mode, main.rs) driven through the library API.
fn drive_create(inputs: &[PathBuf], out: &Path, threads: usize, kind_big: bool) -> Result<()> {
    drive_create_ks(inputs, out, threads, if kind_big { (21, 10_000) } else { (K, SEG) })
}

fn drive_create_ks(inputs: &[PathBuf], out: &Path, threads: usize, ks: (usize, usize)) -> Result<()> {
    let (k, seg) = ks;
    let config = StreamingQueueConfig {
        k,
        segment_size: seg,
        min_match_len: MINMATCH,
        num_threads: threads,
        verbosity: 0,
        queue_capacity: 64 << 20,
        concatenated_genomes: inputs.len() == 1,
        ..StreamingQueueConfig::default()
    };
    let (splitters, _, _) = ragc_core::determine_splitters_streaming(&inputs[0], k, seg)?;
    let mut c = StreamingQueueCompressor::with_splitters(out, config, splitters)?;
    let mut it = MultiFileIterator::new(vec![inputs[0].clone()])?;
    while let Some((s, n, d)) = it.next_contig()? {
        if !d.is_empty() {
            c.push(s, n, d)?;
        }
    }
    if inputs.len() > 1 {
        c.drain()?;
        c.sync_and_flush("AAA#0_REF")?;
        for f in &inputs[1..] {
            let mut it = MultiFileIterator::new(vec![f.clone()])?;
            while let Some((s, n, d)) = it.next_contig()? {
                if !d.is_empty() {
                    c.push(s, n, d)?;
                }
            }
        }
    }
    c.finalize()
}

fn mk_inputs(a: &Args) -> Result<()> {
    let files = gen_inputs(a.get("kind")?, a.num("seed", 1u64), Path::new(a.get("dir")?))?;
    println!("{}", json!({"files": files}));
    Ok(())
}

/// `rvh create --dir D --out P [--threads T]`: result class on stdout, exit status 0 ok / 1 err / 101 panic
fn create_cmd(a: &Args) -> Result<()> {
    util::install_panic_hook();
    let inputs = list_inputs(Path::new(a.get("dir")?))?;
    let out = PathBuf::from(a.get("out")?);
    let threads: usize = a.num("threads", 1);
    let big = a.flag("big");
    let ks = (a.num("k", if big { 21 } else { K }), a.num("seg", if big { 10_000 } else { SEG }));
    let r = util::catch(AssertUnwindSafe(|| drive_create_ks(&inputs, &out, threads, ks)));
    let (class, msg, code) = match r {
        Ok(Ok(())) => ("ok", String::new(), 0),
        Ok(Err(e)) => ("err", format!("{:#}", e), 1),
        Err(p) => ("panic", p, 101),
    };
    println!("{}", json!({"result": class, "msg": msg}));
    std::io::stdout().flush().ok();
    std::process::exit(code);
}

// ---------------------------------------------------------------------------------------------
// C14: every strict prefix of an archive through the two open paths
// ---------------------------------------------------------------------------------------------
fn class_of<T>(r: std::result::Result<Result<T>, String>) -> (&'static str, String, Option<T>) {
    match r {
        Ok(Ok(v)) => ("ok", String::new(), Some(v)),
        Ok(Err(e)) => ("err", format!("{:#}", e).chars().take(160).collect(), None),
        Err(p) => ("panic", p.chars().take(200).collect(), None),
    }
}

/// `rvh trace-truncate --archive P --from A --to B --out EV --tmp DIR`: offsets B-1 down to A on a
/// private copy that is shortened with set_len; one event per offset, written before the next open.
fn trace_truncate(a: &Args) -> Result<()> {
    util::install_panic_hook();
    let src = a.get("archive")?;
    let bytes = std::fs::read(src)?;
    let len = bytes.len() as u64;
    let from: u64 = a.num("from", 0);
    let to: u64 = a.num("to", len + 1).min(len + 1);
    let dir = tempfile::tempdir_in(a.opt("tmp").unwrap_or("/tmp"))?;
    let p = dir.path().join("prefix.agc");
    std::fs::write(&p, &bytes)?;
    let ps = p.to_string_lossy().to_string();
    let mut out = std::fs::OpenOptions::new().create(true).append(true).open(a.get("out")?)?;
    let huge = (len as usize).saturating_add(1 << 20);
    // --compact: consecutive offsets with the plain outcome (both opens return an error value, nothing readable, no large
    // allocation) are merged into one `open_range` record; every other outcome stays an individual `open_prefix` record
    let compact = a.flag("compact");
    let mut run: Option<(u64, u64)> = None; // (lo, hi) of the current plain run (descending: lo shrinks)
    let mut n = to;
    while n > from {
        n -= 1;
        std::fs::OpenOptions::new().write(true).open(&p)?.set_len(n)?;
        let is_prefix = n < len;
        MAX_REQ.store(0, Ordering::Relaxed);
        if is_prefix {
            ALLOC_LIMIT.store(huge, Ordering::Relaxed);
        }
        let (ac, amsg, h) = class_of(util::catch(AssertUnwindSafe(|| -> Result<usize> {
            let mut ar = Archive::new_reader();
            ar.open(&ps)?;
            Ok(ar.get_num_streams())
        })));
        let (dc, dmsg, d) = class_of(util::catch(AssertUnwindSafe(|| -> Result<(usize, usize)> {
            let mut d = Decompressor::open(&ps, DecompressorConfig { verbosity: 0 })?;
            let names = d.list_samples();
            // can any sample actually be read from this handle?
            let mut readable = 0;
            for s in &names {
                if let Ok(Ok(_)) = util::catch(AssertUnwindSafe(|| d.get_sample(s))) {
                    readable += 1;
                }
            }
            Ok((names.len(), readable))
        })));
        ALLOC_LIMIT.store(usize::MAX, Ordering::Relaxed);
        let maxalloc = MAX_REQ.load(Ordering::Relaxed).min(i32::MAX as usize);
        let ev = json!({"ev": "open_prefix", "n": n, "len": len, "a": ac, "d": dc, "streams": h.unwrap_or(0),
            "samples": d.map(|x| x.0).unwrap_or(0), "readable": d.map(|x| x.1).unwrap_or(0),
            "huge": is_prefix && MAX_REQ.load(Ordering::Relaxed) > huge, "maxalloc": maxalloc, "amsg": amsg, "dmsg": dmsg});
        let plain = is_prefix && ac == "err" && dc == "err" && ev["readable"] == json!(0) && ev["huge"] == json!(false);
        if compact && plain {
            run = Some(match run {
                Some((_, hi)) => (n, hi),
                None => (n, n),
            });
            continue;
        }
        if let Some((lo, hi)) = run.take() {
            writeln!(out, "{}", json!({"ev": "open_range", "lo": lo, "hi": hi, "len": len}))?;
        }
        writeln!(out, "{}", ev)?;
    }
    if let Some((lo, hi)) = run.take() {
        writeln!(out, "{}", json!({"ev": "open_range", "lo": lo, "hi": hi, "len": len}))?;
    }
    Ok(())
}

// ---------------------------------------------------------------------------------------------
// C15: first failing write at byte offset f, for a list of f, in child processes
// ---------------------------------------------------------------------------------------------
fn run_limited(mut cmd: std::process::Command, limit: Option<u64>) -> Result<(Option<i32>, Option<i32>, String, String)> {
    use std::os::unix::process::{CommandExt, ExitStatusExt};
    cmd.env("RUST_BACKTRACE", "0");
    // glibc malloc tuning for the children only: the level-19 ZSTD contexts of the metadata streams are
    // 100+ MB each; served from a kept heap instead of fresh mmap regions they do not page-fault
    // again for every stream (10 s -> 2 s per create on a loaded machine). No effect on file I/O.
    cmd.env("MALLOC_MMAP_THRESHOLD_", "2147483648").env("MALLOC_TRIM_THRESHOLD_", "4294967296").env("MALLOC_TOP_PAD_", "268435456");
    cmd.stdin(std::process::Stdio::null()).stdout(std::process::Stdio::piped()).stderr(std::process::Stdio::piped());
    if let Some(f) = limit {
        unsafe {
            cmd.pre_exec(move || {
                // EFBIG as an error value instead of a fatal signal; the limit is the first failing offset
                libc::signal(libc::SIGXFSZ, libc::SIG_IGN);
                let r = libc::rlimit { rlim_cur: f as libc::rlim_t, rlim_max: f as libc::rlim_t };
                if libc::setrlimit(libc::RLIMIT_FSIZE, &r) != 0 {
                    return Err(std::io::Error::last_os_error());
                }
                Ok(())
            });
        }
    }
    let o = cmd.output().context("spawn child")?;
    Ok((o.status.code(), o.status.signal(), String::from_utf8_lossy(&o.stdout).to_string(), String::from_utf8_lossy(&o.stderr).to_string()))
}

/// `rvh fault-sweep --mode api|cli --dir INPUTS --ref REF.agc --limits a,b,c|--limits-file F --jobs J
///      --tmp DIR --out EV [--ragc PATH] [--big]`
fn fault_sweep(a: &Args) -> Result<()> {
    util::install_panic_hook();
    let mode = a.get("mode")?.to_string();
    let indir = PathBuf::from(a.get("dir")?);
    let inputs = list_inputs(&indir)?;
    let refbytes = std::fs::read(a.get("ref")?)?;
    let refsha = util::sha256_hex(&refbytes);
    let limits: Vec<i64> = if let Some(f) = a.opt("limits-file") {
        std::fs::read_to_string(f)?.split_whitespace().map(|x| x.parse().unwrap()).collect()
    } else {
        a.get("limits")?.split(',').map(|x| x.trim().parse().unwrap()).collect()
    };
    let jobs: usize = a.num("jobs", 4);
    let tmp = tempfile::tempdir_in(a.opt("tmp").unwrap_or("/tmp"))?;
    let ragc = a.opt("ragc").map(|s| s.to_string());
    let big = a.flag("big");
    let exe = std::env::current_exe()?;
    let next = AtomicUsize::new(0);
    let results = std::sync::Mutex::new(Vec::<(usize, Value)>::new());
    std::thread::scope(|sc| {
        for j in 0..jobs {
            let (limits, inputs, indir, tmp, ragc, exe, mode, refsha, next, results) =
                (&limits, &inputs, &indir, &tmp, &ragc, &exe, &mode, &refsha, &next, &results);
            sc.spawn(move || loop {
                let i = next.fetch_add(1, Ordering::SeqCst);
                if i >= limits.len() {
                    break;
                }
                let f = limits[i];
                let outp = tmp.path().join(format!("o{}_{}.agc", j, i));
                let _ = std::fs::remove_file(&outp);
                let cmd = if mode == "cli" {
                    let mut c = std::process::Command::new(ragc.as_ref().expect("--ragc"));
                    let (k, s) = if big { (21, 10_000) } else { (K, SEG) };
                    c.arg("create").arg("-o").arg(&outp).args(["-k", &k.to_string(), "-s", &s.to_string(), "-m", &MINMATCH.to_string(), "-t", "1", "-v", "0"]);
                    for p in inputs.iter() {
                        c.arg(p);
                    }
                    c
                } else {
                    let mut c = std::process::Command::new(exe);
                    c.arg("container-create").arg("--dir").arg(indir).arg("--out").arg(&outp).args(["--threads", "1"]);
                    if big {
                        c.arg("--big");
                    }
                    c
                };
                let ev = match run_limited(cmd, if f < 0 { None } else { Some(f as u64) }) {
                    Err(e) => json!({"ev": "fault", "mode": mode, "f": f, "result": "spawn-error", "msg": format!("{:#}", e)}),
                    Ok((code, sig, stdout, stderr)) => {
                        let panicked = stderr.contains("panicked at");
                        let api: Value = stdout.lines().last().and_then(|l| serde_json::from_str(l).ok()).unwrap_or(Value::Null);
                        let result = if sig.is_some() { "signal" } else if mode == "api" {
                            match api["result"].as_str() { Some("ok") => "ok", Some("err") => "err", Some("panic") => "panic", _ => if code == Some(0) { "ok" } else { "err" } }
                        } else if code == Some(0) { "ok" } else if panicked { "panic" } else { "err" };
                        let data = std::fs::read(&outp).ok();
                        let fsize = data.as_ref().map(|d| d.len() as i64).unwrap_or(-1);
                        let complete = data.as_ref().map(|d| util::sha256_hex(d) == *refsha).unwrap_or(false);
                        let ops = outp.to_string_lossy().to_string();
                        let opens = data.is_some() && matches!(util::catch(AssertUnwindSafe(|| {
                            Decompressor::open(&ops, DecompressorConfig { verbosity: 0 }).map(|d| d.list_samples().len())
                        })), Ok(Ok(n)) if n > 0);
                        let msg: String = if mode == "api" { api["msg"].as_str().unwrap_or("").chars().take(200).collect() } else { stderr.lines().filter(|l| l.contains("rror") || l.contains("panicked")).next().or(stderr.lines().last()).unwrap_or("").chars().take(200).collect() };
                        json!({"ev": "fault", "mode": mode, "f": f, "result": result, "exit": code.unwrap_or(-1), "signal": sig.unwrap_or(0),
                               "fsize": fsize, "complete": complete, "opens": opens, "msg": msg})
                    }
                };
                let _ = std::fs::remove_file(&outp);
                results.lock().unwrap().push((i, ev));
            });
        }
    });
    let mut r = results.into_inner().unwrap();
    r.sort_by_key(|x| x.0);
    let mut out = std::io::BufWriter::new(std::fs::File::create(a.get("out")?)?);
    for (_, ev) in r {
        writeln!(out, "{}", ev)?;
    }
    out.flush()?;
    Ok(())
}
