//! Driving the real compressor / decompressor and producing the combined "view" of an archive
//! for spec/Trace_ArchiveSemantics.tla: input (abstract case) + structural view from the
//! independent lexer (lex.rs) + what ragc's own reader returns.
use crate::gen;
use crate::lex;
use crate::util::{self, Args};
use anyhow::{anyhow, Context, Result};
use ragc_core::contig_iterator::ContigIterator;
use ragc_core::{Decompressor, DecompressorConfig, MultiFileIterator, StreamingQueueCompressor, StreamingQueueConfig};
use serde_json::{json, Value};
use std::io::Write;
use std::path::PathBuf;

pub fn dispatch(cmd: &str, a: &Args) -> Option<Result<()>> {
    match cmd {
        "create" => Some(cmd_create(a)),
        "archive-view" => Some(cmd_view(a)),
        _ => None,
    }
}

#[derive(Clone, Debug)]
pub struct CreateOpts {
    pub files: Vec<String>,
    pub out: String,
    pub k: usize,
    pub segment_size: usize,
    pub min_match: usize,
    pub threads: usize,
    pub queue_capacity: usize,
    pub fallback_frac: f64,
    pub pack_size: usize,
    pub level: i32,
}

impl CreateOpts {
    pub fn from_args(a: &Args) -> Result<Self> {
        Ok(CreateOpts {
            files: a.get("files")?.split(',').map(|s| s.to_string()).collect(),
            out: a.get("out")?.to_string(),
            k: a.num("k", 11usize),
            segment_size: a.num("seg", 100usize),
            min_match: a.num("mm", 15usize),
            threads: a.num("threads", 2usize),
            queue_capacity: a.num("cap", 2usize << 30),
            fallback_frac: a.num("fallback", 0.0f64),
            pack_size: a.num("pack", 50usize),
            level: a.num("level", 17i32),
        })
    }
}

/// The same call sequence as `ragc create` (ragc-cli/src/main.rs, streaming mode):
/// one input  ⇒ concatenated mode, splitters from the first sample, push everything, drain at the
///              first sample change, finalize;
/// n inputs   ⇒ splitters from file 1, push file 1, drain, sync_and_flush, push the rest, finalize.
pub fn create_like_cli(o: &CreateOpts) -> Result<()> {
    let inputs: Vec<PathBuf> = o.files.iter().map(PathBuf::from).collect();
    if inputs.is_empty() {
        return Err(anyhow!("No input files provided"));
    }
    let config = StreamingQueueConfig {
        k: o.k,
        segment_size: o.segment_size,
        min_match_len: o.min_match,
        pack_size: o.pack_size,
        compression_level: o.level,
        queue_capacity: o.queue_capacity,
        num_threads: o.threads,
        verbosity: 0,
        adaptive_mode: false,
        fallback_frac: o.fallback_frac,
        concatenated_genomes: inputs.len() == 1,
        ..StreamingQueueConfig::default()
    };
    let splitters = if inputs.len() == 1 {
        ragc_core::determine_splitters_streaming_first_sample(&inputs[0], o.k, o.segment_size)?.0
    } else {
        ragc_core::determine_splitters_streaming(&inputs[0], o.k, o.segment_size)?.0
    };
    let mut compressor = StreamingQueueCompressor::with_splitters(&o.out, config, splitters)?;
    if inputs.len() == 1 {
        let mut it = MultiFileIterator::new(vec![inputs[0].clone()])?;
        let mut current: Option<String> = None;
        let mut seen: std::collections::HashSet<String> = Default::default();
        let mut ref_done = false;
        while let Some((sample, contig, seq)) = it.next_contig()? {
            if seq.is_empty() {
                continue;
            }
            if current.as_ref() != Some(&sample) {
                if seen.contains(&sample) {
                    return Err(anyhow!("Single-file PanSN mode requires samples to be sorted by name"));
                }
                if !ref_done && current.is_some() {
                    compressor.drain()?;
                    ref_done = true;
                }
                if let Some(prev) = current.take() {
                    seen.insert(prev);
                }
                current = Some(sample.clone());
            }
            compressor.push(sample, contig, seq)?;
        }
    } else {
        let mut it = MultiFileIterator::new(vec![inputs[0].clone()])?;
        while let Some((sample, contig, seq)) = it.next_contig()? {
            if !seq.is_empty() {
                compressor.push(sample, contig, seq)?;
            }
        }
        compressor.drain()?;
        compressor.sync_and_flush("AAA#0_REF")?;
        for f in &inputs[1..] {
            let mut it = MultiFileIterator::new(vec![f.clone()])?;
            while let Some((sample, contig, seq)) = it.next_contig()? {
                if !seq.is_empty() {
                    compressor.push(sample, contig, seq)?;
                }
            }
        }
    }
    compressor.finalize()?;
    Ok(())
}

fn cmd_create(a: &Args) -> Result<()> {
    util::install_panic_hook();
    let o = CreateOpts::from_args(a)?;
    let r = util::catch(std::panic::AssertUnwindSafe(|| create_like_cli(&o)));
    let (class, msg) = match r {
        Ok(Ok(())) => ("ok", String::new()),
        Ok(Err(e)) => ("err", format!("{:#}", e)),
        Err(p) => ("panic", p),
    };
    let sha = if class == "ok" { std::fs::read(&o.out).map(|b| util::sha256_hex(&b)).unwrap_or_default() } else { String::new() };
    println!("{}", json!({"result": class, "msg": msg, "sha256": sha}));
    Ok(())
}

fn b(s: &str) -> Value {
    Value::Array(s.bytes().map(|x| json!(x)).collect())
}

/// What ragc's own reader says about the archive (every call's panic is data).
pub fn ragc_records(agc: &str) -> Vec<Value> {
    let mut out = vec![];
    let open = util::catch(std::panic::AssertUnwindSafe(|| Decompressor::open(agc, DecompressorConfig { verbosity: 0 })));
    let mut d = match open {
        Ok(Ok(d)) => d,
        Ok(Err(e)) => {
            out.push(json!({"ev": "ragc_open", "result": "err", "msg": format!("{:#}", e)}));
            return out;
        }
        Err(p) => {
            out.push(json!({"ev": "ragc_open", "result": "panic", "msg": p}));
            return out;
        }
    };
    out.push(json!({"ev": "ragc_open", "result": "ok", "msg": ""}));
    let samples = d.list_samples();
    out.push(json!({"ev": "ragc_samples", "names": samples.iter().map(|s| b(s)).collect::<Vec<_>>()}));
    for s in &samples {
        let r = util::catch(std::panic::AssertUnwindSafe(|| d.get_sample(s)));
        match r {
            Ok(Ok(cs)) => out.push(json!({"ev": "ragc_sample", "sample": b(s), "result": "ok", "msg": "",
                "contigs": cs.iter().map(|(n, q)| json!({"name": b(n), "seq": q})).collect::<Vec<_>>()})),
            Ok(Err(e)) => out.push(json!({"ev": "ragc_sample", "sample": b(s), "result": "err", "msg": format!("{:#}", e), "contigs": []})),
            Err(p) => out.push(json!({"ev": "ragc_sample", "sample": b(s), "result": "panic", "msg": p, "contigs": []})),
        }
    }
    // contig lists (catalogue) through the listing API on a fresh handle
    if let Ok(mut d2) = Decompressor::open(agc, DecompressorConfig { verbosity: 0 }) {
        for s in &samples {
            let r = util::catch(std::panic::AssertUnwindSafe(|| d2.list_contigs(s)));
            let (res, names) = match r {
                Ok(Ok(v)) => ("ok", v),
                Ok(Err(_)) => ("err", vec![]),
                Err(_) => ("panic", vec![]),
            };
            out.push(json!({"ev": "ragc_contigs", "sample": b(s), "result": res, "names": names.iter().map(|n| b(n)).collect::<Vec<_>>()}));
        }
    }
    out
}

/// Combined view: case (input + parameters) + lexer records + ragc reader records.
fn cmd_view(a: &Args) -> Result<()> {
    util::install_panic_hook();
    let agc = a.get("agc")?;
    let case: Value = serde_json::from_slice(&std::fs::read(a.get("case")?)?)?;
    let samples = gen::from_json(&case["samples"]);
    let mut out = std::io::BufWriter::new(std::fs::File::create(a.get("out")?)?);
    let input: Vec<Value> = samples
        .iter()
        .map(|s| json!({"name": b(&s.name), "contigs": s.contigs.iter().map(|c| json!({"name": b(&c.name), "seq": c.seq})).collect::<Vec<_>>()}))
        .collect();
    writeln!(out, "{}", json!({"ev": "case", "k": a.num("k", 11u32), "seg": a.num("seg", 100u32), "mm": a.num("mm", 15u32),
        "id": a.opt("id").unwrap_or(""), "input": input}))?;
    if a.flag("no-lex") {
        writeln!(out, "{}", json!({"ev": "lex", "result": "skipped", "msg": ""}))?;
    } else {
    match lex::lex_records(agc) {
        Ok(recs) => {
            writeln!(out, "{}", json!({"ev": "lex", "result": "ok", "msg": ""}))?;
            for r in recs {
                writeln!(out, "{}", r)?;
            }
        }
        Err(e) => {
            writeln!(out, "{}", json!({"ev": "lex", "result": "err", "msg": format!("{:#}", e)}))?;
        }
    }
    }
    for r in ragc_records(agc) {
        writeln!(out, "{}", r)?;
    }
    out.flush().context("flush view")?;
    Ok(())
}
