//! Binding of spec/Cli.tla to the real `ragc` binary (property C17).
//!
//! The harness only *drives* the binary and *projects* what it observes:
//!   exit status -> "ok" (0) / "fail" (anything else: error exit, panic, signal);
//!   stdout / -o bytes -> item lists: FASTA records are looked up in the synthesized input
//!     (rec(sample,i)), `listset` lines are decoded to names (smp), `listctg` lines to ctg(sample,i);
//!   the archive path -> [kind none|bad|good, cat, nrec] by asking the binary itself
//!     (`listset`, `listctg <name>`), cached by the file's SHA-256.
//! REPLAY: the behaviours TLC printed for MC_Cli are executed; after every command the observed
//!   (exit, out, archive) is compared with the outcomes the contract allows (emitted by TLC), and,
//!   for composed answers, byte for byte with the concatenation of the single-sample answers.
//! TRACE: every executed command (REPLAY behaviours and seeded random sessions) is logged as an
//!   event with its observed post-state and validated by TLC against Trace_Cli.tla.
//!
//! Names are sequences of character codes (spec) rendered with CODE2CHAR.
use crate::util::{self, Args};
use anyhow::{anyhow, bail, Context, Result};
use rand::rngs::StdRng;
use rand::Rng;
use serde_json::{json, Value};
use std::collections::HashMap;
use std::io::{BufRead, Write};
use std::path::{Path, PathBuf};
use std::sync::atomic::{AtomicUsize, Ordering};
use std::sync::Mutex;

const CODE2CHAR: [char; 8] = ['?', 'a', 'b', 'c', '#', '0', '1', '_'];
const K: &str = "11";
const SEG: &str = "100";
const MM: &str = "15";

pub fn dispatch(cmd: &str, a: &Args) -> Option<Result<()>> {
    match cmd {
        "cli-setup" => Some(setup(a)),
        "replay-cli" => Some(replay(a)),
        "trace-cli" => Some(trace(a)),
        _ => None,
    }
}

// ------------------------------------------------------------------------------------------------
// names and synthesized content
// ------------------------------------------------------------------------------------------------
type Name = Vec<u8>;

fn render(n: &[u8]) -> String {
    n.iter().map(|&c| CODE2CHAR.get(c as usize).copied().unwrap_or('?')).collect()
}
fn unrender(s: &str) -> Name {
    s.chars().map(|ch| CODE2CHAR.iter().position(|&c| c == ch && ch != '?').map(|p| p as u8).unwrap_or(0)).collect()
}
fn name_of(v: &Value) -> Name {
    v.as_array().map(|a| a.iter().map(|x| x.as_u64().unwrap_or(0) as u8).collect()).unwrap_or_default()
}
fn is_pansn(n: &[u8]) -> bool {
    n.contains(&4)
}
fn hash_name(n: &[u8]) -> u64 {
    let mut h: u64 = 0xcbf29ce484222325;
    for &b in n {
        h ^= b as u64 + 1;
        h = h.wrapping_mul(0x100000001b3);
    }
    h
}

/// Record i (1-based) of sample `name`: (header, sequence).  A per-contig base sequence shared by all
/// samples, changed per sample by substitutions, one deletion and one insertion (so that archives hold
/// references, deltas and several segments), distinct for distinct names.
fn record(seed: u64, name: &[u8], i: usize) -> (String, Vec<u8>) {
    let mut rb = util::rng(seed.wrapping_mul(1_000_003).wrapping_add(i as u64));
    let len = 500 + (i * 211) % 400 + rb.gen_range(0..300);
    let base: Vec<u8> = (0..len).map(|_| b"ACGT"[rb.gen_range(0..4)]).collect();
    let mut r = util::rng(seed ^ hash_name(name).rotate_left(17) ^ (i as u64) << 40);
    let mut s = base;
    for _ in 0..(s.len() / 60).max(2) {
        let p = r.gen_range(0..s.len());
        s[p] = b"ACGT"[r.gen_range(0..4)];
    }
    let d = r.gen_range(0..s.len() - 40);
    let dl = r.gen_range(3..30);
    s.drain(d..d + dl);
    let ip = r.gen_range(0..s.len());
    let ins: Vec<u8> = (0..r.gen_range(4..24)).map(|_| b"ACGT"[r.gen_range(0..4)]).collect();
    // a tag that makes samples pairwise different whatever the random edits did
    let tag: Vec<u8> = name.iter().flat_map(|&c| [b"ACGT"[(c & 3) as usize], b"ACGT"[((c >> 2) & 3) as usize]]).collect();
    let tail = s.split_off(ip);
    s.extend_from_slice(&ins);
    s.extend_from_slice(&tag);
    s.extend_from_slice(&tail);
    let header = if is_pansn(name) { format!("{}#ctg{}", render(name), i) } else { format!("ctg{}", i) };
    (header, s)
}

fn fasta_of(seed: u64, samples: &[(Name, usize)]) -> Vec<u8> {
    let mut out = Vec::new();
    for (n, k) in samples {
        for i in 1..=*k {
            let (h, s) = record(seed, n, i);
            out.push(b'>');
            out.extend_from_slice(h.as_bytes());
            out.push(b'\n');
            for c in s.chunks(60) {
                out.extend_from_slice(c);
                out.push(b'\n');
            }
        }
    }
    out
}

// ------------------------------------------------------------------------------------------------
// running the binary
// ------------------------------------------------------------------------------------------------
struct Run {
    ms: u64,
    argv: Vec<String>,
    code: Option<i32>,
    stdout: Vec<u8>,
    stderr: String,
}
impl Run {
    fn exit(&self) -> &'static str {
        if self.code == Some(0) { "ok" } else { "fail" }
    }
}

static RUNS: AtomicUsize = AtomicUsize::new(0);

fn run_bin(ragc: &str, args: &[String], wd: &Path) -> Result<Run> {
    let n = RUNS.fetch_add(1, Ordering::SeqCst);
    let so = wd.join(format!("stdout_{}", n));
    let se = wd.join(format!("stderr_{}", n));
    let mut child = std::process::Command::new(ragc)
        .args(args)
        .current_dir(wd)
        .env("RUST_BACKTRACE", "0")
        .stdin(std::process::Stdio::null())
        .stdout(std::fs::File::create(&so)?)
        .stderr(std::fs::File::create(&se)?)
        .spawn()
        .with_context(|| format!("cannot start {}", ragc))?;
    let t0 = std::time::Instant::now();
    let status = loop {
        if let Some(st) = child.try_wait()? {
            break st;
        }
        if t0.elapsed().as_secs() > 600 {
            let _ = child.kill();
            bail!("timeout (600 s) running ragc {:?}", args); // a tool error, never a verdict
        }
        std::thread::sleep(std::time::Duration::from_millis(if t0.elapsed().as_millis() < 200 { 2 } else { 20 }));
    };
    let stdout = std::fs::read(&so)?;
    let stderr = String::from_utf8_lossy(&std::fs::read(&se)?).to_string();
    let _ = std::fs::remove_file(&so);
    let _ = std::fs::remove_file(&se);
    let mut argv = vec!["ragc".to_string()];
    argv.extend(args.iter().cloned());
    Ok(Run { ms: t0.elapsed().as_millis() as u64, argv, code: status.code(), stdout, stderr: stderr.chars().rev().take(600).collect::<String>().chars().rev().collect() })
}

// ------------------------------------------------------------------------------------------------
// observing the archive path
// ------------------------------------------------------------------------------------------------
#[derive(Clone, PartialEq, Debug)]
struct Arch {
    kind: String,
    cat: Vec<Name>,
    nrec: Vec<usize>,
}
impl Arch {
    fn none() -> Self {
        Arch { kind: "none".into(), cat: vec![], nrec: vec![] }
    }
    fn bad() -> Self {
        Arch { kind: "bad".into(), cat: vec![], nrec: vec![] }
    }
    fn to_json(&self) -> Value {
        json!({"kind": self.kind, "cat": self.cat, "nrec": self.nrec})
    }
    fn from_json(v: &Value) -> Self {
        Arch {
            kind: v["kind"].as_str().unwrap_or("any").to_string(),
            cat: v["cat"].as_array().map(|a| a.iter().map(name_of).collect()).unwrap_or_default(),
            nrec: v["nrec"].as_array().map(|a| a.iter().map(|x| x.as_u64().unwrap_or(0) as usize).collect()).unwrap_or_default(),
        }
    }
}

struct World {
    ragc: String,
    seed: u64,
    obs: Mutex<HashMap<String, Arch>>,            // sha -> observed archive state
    singles: Mutex<HashMap<(String, String, String), Option<Vec<u8>>>>, // (sha, cmd, name) -> stdout of the single-sample answer
    /// behaviours that share their first step (create of the older archive from an empty path) execute it once:
    /// command text -> (archive bytes it left, event, exit)
    shared_first: Mutex<HashMap<String, (Vec<u8>, Value, &'static str, Arch)>>,
}

fn path_sig(p: &Path) -> String {
    match std::fs::metadata(p) {
        Err(_) => "none".to_string(),
        Ok(m) if m.is_dir() => "dir".to_string(),
        Ok(_) => match std::fs::read(p) {
            Ok(b) => util::sha256_hex(&b),
            Err(_) => "unreadable".to_string(),
        },
    }
}

impl World {
    /// [kind, cat, nrec] of whatever is at `agc`, as the binary itself reports it.
    fn observe(&self, agc: &Path, wd: &Path) -> Result<Arch> {
        let sig = path_sig(agc);
        if sig == "none" {
            return Ok(Arch::none());
        }
        if let Some(a) = self.obs.lock().unwrap().get(&sig) {
            return Ok(a.clone());
        }
        let a = self.observe_uncached(agc, wd)?;
        self.obs.lock().unwrap().insert(sig, a.clone());
        Ok(a)
    }
    fn observe_uncached(&self, agc: &Path, wd: &Path) -> Result<Arch> {
        let r = run_bin(&self.ragc, &["listset".into(), agc.to_string_lossy().to_string()], wd)?;
        if r.exit() != "ok" {
            return Ok(Arch::bad());
        }
        let text = String::from_utf8_lossy(&r.stdout).to_string();
        let mut cat = vec![];
        let mut nrec = vec![];
        for line in text.lines() {
            let r2 = run_bin(&self.ragc, &["listctg".into(), agc.to_string_lossy().to_string(), line.to_string()], wd)?;
            if r2.exit() != "ok" {
                return Ok(Arch::bad());
            }
            cat.push(unrender(line));
            nrec.push(String::from_utf8_lossy(&r2.stdout).lines().count());
        }
        Ok(Arch { kind: "good".into(), cat, nrec })
    }
    /// stdout of `getset agc name` / `listctg agc name` (None when that command fails)
    fn single(&self, agc: &Path, wd: &Path, cmd: &str, name: &[u8]) -> Result<Option<Vec<u8>>> {
        let key = (path_sig(agc), cmd.to_string(), render(name));
        if let Some(v) = self.singles.lock().unwrap().get(&key) {
            return Ok(v.clone());
        }
        let r = run_bin(&self.ragc, &[cmd.to_string(), agc.to_string_lossy().to_string(), render(name)], wd)?;
        let v = if r.exit() == "ok" { Some(r.stdout) } else { None };
        self.singles.lock().unwrap().insert(key, v.clone());
        Ok(v)
    }
}

// ------------------------------------------------------------------------------------------------
// projections of output bytes
// ------------------------------------------------------------------------------------------------
fn item(t: &str, s: &[u8], i: usize) -> Value {
    json!({"t": t, "s": s, "i": i})
}

fn ctg_index(header: &str) -> usize {
    header.rsplit("ctg").next().and_then(|x| x.parse::<usize>().ok()).unwrap_or(0)
}

/// FASTA bytes -> rec items; a record that is not record i of one of the `known` samples is rec(<<>>,0)
fn project_fasta(seed: u64, bytes: &[u8], known: &[(Name, usize)]) -> Vec<Value> {
    let mut recs: Vec<(String, Vec<u8>)> = vec![];
    let mut junk = false;
    for line in bytes.split(|&b| b == b'\n') {
        let line = if line.ends_with(b"\r") { &line[..line.len() - 1] } else { line };
        if line.is_empty() {
            continue;
        }
        if line[0] == b'>' {
            recs.push((String::from_utf8_lossy(&line[1..]).to_string(), vec![]));
        } else if let Some(l) = recs.last_mut() {
            l.1.extend_from_slice(line);
        } else {
            junk = true;
        }
    }
    let mut out = vec![];
    if junk {
        out.push(item("junk", &[], 0));
    }
    for (h, s) in recs {
        let i = ctg_index(&h);
        let mut hit = None;
        for (n, k) in known {
            if i >= 1 && i <= *k {
                let (eh, es) = record(seed, n, i);
                if eh == h && es == s {
                    hit = Some(n.clone());
                    break;
                }
            }
        }
        match hit {
            Some(n) => out.push(item("rec", &n, i)),
            None => out.push(item("rec", &[], 0)),
        }
    }
    out
}

fn project_listset(bytes: &[u8]) -> Vec<Value> {
    String::from_utf8_lossy(bytes).lines().map(|l| item("smp", &unrender(l), 0)).collect()
}

fn project_listctg(bytes: &[u8]) -> Vec<Value> {
    String::from_utf8_lossy(bytes)
        .lines()
        .map(|l| {
            let mut it = l.splitn(2, '\t');
            let s = it.next().unwrap_or("");
            let c = it.next().unwrap_or("");
            let n = unrender(s);
            let expect = if is_pansn(&n) { format!("{}#ctg{}", s, ctg_index(c)) } else { format!("ctg{}", ctg_index(c)) };
            item("ctg", &n, if expect == c { ctg_index(c) } else { 0 })
        })
        .collect()
}

// ------------------------------------------------------------------------------------------------
// executing one command of the model
// ------------------------------------------------------------------------------------------------
struct Observed {
    run: Run,
    exit: &'static str,
    out: Vec<Value>,
    bytes: Option<Vec<u8>>, // destination bytes (None: -o file absent)
    post: Arch,
}

fn samples_of(v: &Value) -> Vec<(Name, usize)> {
    v.as_array()
        .map(|a| a.iter().map(|s| (name_of(&s["name"]), s["nrec"].as_u64().unwrap_or(0) as usize)).collect())
        .unwrap_or_default()
}

fn qcap_arg(q: &str) -> Option<String> {
    match q {
        "default" => None,
        "small" => Some("2K".to_string()),
        "invalid" => Some("12Q".to_string()),
        other => Some(other.to_string()),
    }
}

/// Execute `cmd` (a command record of Cli.tla) with the archive at `agc`; `step` makes file names unique.
fn execute(w: &World, cmd: &Value, agc: &Path, wd: &Path, step: usize, known: &mut Vec<(Name, usize)>) -> Result<Observed> {
    let kind = cmd["cmd"].as_str().unwrap_or("");
    let agc_s = agc.to_string_lossy().to_string();
    let mut args: Vec<String> = vec![];
    let mut dest_file: Option<PathBuf> = None;
    match kind {
        "create" => {
            let target = if cmd["outpath"].as_str() == Some("ok") { agc_s.clone() } else { wd.join("no_such_dir").join("x.agc").to_string_lossy().to_string() };
            args.extend(["create".into(), "-o".into(), target, "-k".into(), K.into(), "-s".into(), SEG.into(), "-m".into(), MM.into(), "-v".into(), "0".into()]);
            args.extend(["-t".into(), cmd["threads"].as_u64().unwrap_or(1).to_string()]);
            if let Some(q) = qcap_arg(cmd["qcap"].as_str().unwrap_or("default")) {
                args.extend(["--queue-capacity".into(), q]);
            }
            for (f, flag) in [("batch", "--batch"), ("adaptive", "--adaptive"), ("concat", "--concatenated")] {
                if cmd[f].as_bool() == Some(true) {
                    args.push(flag.into());
                }
            }
            let inputs = cmd["inputs"].as_array().cloned().unwrap_or_default();
            for (i, f) in inputs.iter().enumerate() {
                let ss = samples_of(&f["samples"]);
                for s in &ss {
                    if !known.contains(s) {
                        known.push(s.clone());
                    }
                }
                let stem = if ss.len() == 1 && !is_pansn(&ss[0].0) { render(&ss[0].0) } else { format!("pansn{}", i) };
                let dir = wd.join(format!("in{}_{}", step, i));
                std::fs::create_dir_all(&dir)?;
                let path = dir.join(format!("{}.fa", stem));
                if f["readable"].as_bool() == Some(true) {
                    std::fs::write(&path, fasta_of(w.seed, &ss))?;
                } else if i == 0 {
                    // unreadable: no such file
                } else if cmd["threads"].as_u64() == Some(1) {
                    std::fs::create_dir_all(&path)?; // unreadable: a directory
                } else {
                    // unreadable: a gzip stream cut in the middle (`<stem>.fa.gz` names the same sample)
                    use flate2::{write::GzEncoder, Compression};
                    let mut enc = GzEncoder::new(Vec::new(), Compression::default());
                    enc.write_all(&fasta_of(w.seed, &ss))?;
                    let gz = enc.finish()?;
                    let gzpath = dir.join(format!("{}.fa.gz", stem));
                    std::fs::write(&gzpath, &gz[..gz.len() / 2])?;
                    args.push(gzpath.to_string_lossy().to_string());
                    continue;
                }
                args.push(path.to_string_lossy().to_string());
            }
        }
        "getset" | "listset" | "listctg" => {
            args.push(kind.into());
            args.push(agc_s.clone());
            if kind != "listset" {
                if cmd["mode"].as_str() == Some("prefix") && kind == "getset" {
                    args.push("-p".into());
                    args.push(render(&name_of(&cmd["prefix"])));
                } else {
                    for n in cmd["names"].as_array().cloned().unwrap_or_default() {
                        args.push(render(&name_of(&n)));
                    }
                }
            }
            match cmd["dest"].as_str().unwrap_or("stdout") {
                "file" => {
                    let p = wd.join(format!("out_{}.txt", step));
                    let _ = std::fs::remove_file(&p);
                    args.push("-o".into());
                    args.push(p.to_string_lossy().to_string());
                    dest_file = Some(p);
                }
                "badfile" => {
                    let p = wd.join("no_such_dir").join(format!("out_{}.txt", step));
                    args.push("-o".into());
                    args.push(p.to_string_lossy().to_string());
                    dest_file = Some(p);
                }
                _ => {}
            }
        }
        other => bail!("unknown model command {}", other),
    }
    let run = run_bin(&w.ragc, &args, wd)?;
    let post = w.observe(agc, wd)?;
    for (n, k) in post.cat.iter().zip(post.nrec.iter()) {
        if !known.contains(&(n.clone(), *k)) {
            known.push((n.clone(), *k));
        }
    }
    let bytes: Option<Vec<u8>> = match (&dest_file, kind) {
        (_, "create") => Some(vec![]),
        (Some(p), _) => std::fs::read(p).ok(),
        (None, _) => Some(run.stdout.clone()),
    };
    let out = match (kind, &bytes) {
        ("getset", Some(b)) => project_fasta(w.seed, b, known),
        ("listset", Some(b)) => project_listset(b),
        ("listctg", Some(b)) => project_listctg(b),
        ("create", _) => vec![],
        _ => vec![item("nofile", &[], 0)],
    };
    let exit = run.exit();
    Ok(Observed { run, exit, out, bytes, post })
}

fn event(cmd: &Value, o: &Observed) -> Value {
    json!({"ev": "run", "cmd": cmd, "exit": o.exit, "out": o.out, "post": o.post.to_json(), "argv": o.run.argv, "code": o.run.code.unwrap_or(-1), "ms": o.run.ms})
}

/// The contract check on one observed step, with what TLC emitted for it.
/// Returns (kind of mismatch, detail) or None.
fn judge(w: &World, e: &Value, pre: &Arch, o: &Observed, agc: &Path, wd: &Path) -> Result<Option<(String, String)>> {
    let cmd = &e["cmd"];
    let kind = cmd["cmd"].as_str().unwrap_or("");
    if kind == "create" {
        if o.exit == "fail" {
            return Ok(None);
        }
        if e["mustfail"].as_bool() == Some(true) {
            return Ok(Some(("exit".into(), "create exited 0 although an input was unreadable / the output unwritable".into())));
        }
        if o.post.kind != "good" {
            return Ok(Some(("create-archive".into(), format!("create exited 0 but the archive path holds: {}", o.post.kind))));
        }
        for (n, k) in samples_of(&e["lists"]) {
            match o.post.cat.iter().position(|c| *c == n) {
                None => return Ok(Some(("create-lists".into(), format!("create exited 0 but the archive does not list input sample {}", render(&n))))),
                Some(p) if o.post.nrec[p] != k => {
                    return Ok(Some(("create-lists".into(), format!("sample {} lists {} contigs, input has {}", render(&n), o.post.nrec[p], k))))
                }
                _ => {}
            }
        }
        return Ok(None);
    }
    if o.post != *pre {
        return Ok(Some(("frame".into(), format!("{} changed the archive: {:?} -> {:?}", kind, pre, o.post))));
    }
    let allowed = e["allowed"].as_array().cloned().unwrap_or_default();
    let hit = allowed.iter().find(|a| a["exit"].as_str() == Some(o.exit) && (o.exit == "fail" || a["out"].as_array().map(|x| x == &o.out).unwrap_or(false)));
    let hit = match hit {
        Some(h) => h,
        None => {
            let exits: Vec<&str> = allowed.iter().filter_map(|a| a["exit"].as_str()).collect();
            return Ok(Some(if !exits.contains(&o.exit) {
                ("exit".into(), format!("exit is {} (code {:?}); the contract allows {:?}", o.exit, o.run.code, exits))
            } else {
                ("out".into(), format!("output items {} differ from the contract's {}", Value::Array(o.out.clone()), allowed.iter().find(|a| a["exit"] == "ok").map(|a| a["out"].to_string()).unwrap_or_default()))
            }));
        }
    };
    // byte-level composition: the answer is the concatenation of the single-sample answers
    if o.exit == "ok" && kind != "listset" {
        let parts: Vec<Name> = hit["parts"].as_array().map(|a| a.iter().map(name_of).collect()).unwrap_or_default();
        if !parts.is_empty() {
            let mut cat = vec![];
            for p in &parts {
                match w.single(agc, wd, kind, p)? {
                    Some(b) => cat.extend(b),
                    None => return Ok(Some(("single".into(), format!("single-sample {} of {} fails", kind, render(p))))),
                }
            }
            if o.bytes.as_deref() != Some(&cat[..]) {
                return Ok(Some(("bytes".into(), format!("{} bytes written, concatenation of the single-sample answers has {}", o.bytes.as_ref().map(|b| b.len()).unwrap_or(0), cat.len()))));
            }
        }
    }
    Ok(None)
}

/// Put the model's initial archive state at `agc`; returns the variants to run (bad: several kinds of damage).
fn establish(pre: &Arch, std_agc: Option<&str>, agc: &Path, variant: usize) -> Result<bool> {
    let _ = std::fs::remove_file(agc);
    let _ = std::fs::remove_dir_all(agc);
    match pre.kind.as_str() {
        "none" => Ok(variant == 0),
        "good" => {
            if variant > 0 {
                return Ok(false);
            }
            std::fs::copy(std_agc.ok_or_else(|| anyhow!("behaviour starts from an archive but --agc is missing"))?, agc)?;
            Ok(true)
        }
        "bad" => {
            match variant {
                0 => std::fs::write(agc, b"")?,
                1 => std::fs::write(agc, b">ctg1\nACGTACGTACGT\nthis is not an archive\n".repeat(40))?,
                2 => std::fs::create_dir_all(agc)?,
                3 => {
                    let b = std::fs::read(std_agc.ok_or_else(|| anyhow!("--agc missing"))?)?;
                    std::fs::write(agc, &b[..b.len() - 16.min(b.len())])?; // footer cut off
                }
                _ => return Ok(false),
            }
            Ok(true)
        }
        k => bail!("cannot establish archive state {}", k),
    }
}

// ------------------------------------------------------------------------------------------------
// rvh replay-cli
// ------------------------------------------------------------------------------------------------
fn replay(a: &Args) -> Result<()> {
    let w = World { ragc: a.get("ragc")?.to_string(), seed: a.num("seed", 1u64), obs: Mutex::new(HashMap::new()), singles: Mutex::new(HashMap::new()), shared_first: Mutex::new(HashMap::new()) };
    let dir = PathBuf::from(a.get("dir")?);
    std::fs::create_dir_all(&dir)?;
    let std_agc = a.opt("agc").map(|s| s.to_string());
    let jobs: usize = a.num("jobs", 4usize);
    let fh = std::io::BufReader::new(std::fs::File::open(a.get("in")?)?);
    let mut behs: Vec<Value> = vec![];
    for line in fh.lines() {
        let line = line?;
        if !line.trim().is_empty() {
            behs.push(serde_json::from_str(&line)?);
        }
    }
    let next = AtomicUsize::new(0);
    struct Acc {
        events: Vec<(usize, usize, Vec<Value>)>,
        fails: Vec<Value>,
        steps: usize,
        executions: usize,
        diverged: Vec<Value>,
        composed: usize,
        creates_ok: usize,
        failures_seen: usize,
        skipped_variants: usize,
        err: Option<String>,
    }
    let acc = Mutex::new(Acc { events: vec![], fails: vec![], steps: 0, executions: 0, diverged: vec![], composed: 0, creates_ok: 0, failures_seen: 0, skipped_variants: 0, err: None });
    std::thread::scope(|sc| {
        for _ in 0..jobs.max(1) {
            sc.spawn(|| loop {
                let bi = next.fetch_add(1, Ordering::SeqCst);
                if bi >= behs.len() || acc.lock().unwrap().err.is_some() {
                    break;
                }
                let b = &behs[bi];
                let steps = b["steps"].as_array().cloned().unwrap_or_default();
                if steps.is_empty() {
                    continue;
                }
                let pre0 = Arch::from_json(&steps[0]["pre"]);
                for variant in 0..5 {
                    let wd = dir.join(format!("b{}_{}", bi, variant));
                    let r = (|| -> Result<()> {
                        std::fs::create_dir_all(&wd)?;
                        let agc = wd.join("a.agc");
                        if !establish(&pre0, std_agc.as_deref(), &agc, variant)? {
                            return Ok(());
                        }
                        let mut known: Vec<(Name, usize)> = pre0.cat.iter().cloned().zip(pre0.nrec.iter().cloned()).collect();
                        let mut cur = w.observe(&agc, &wd)?;
                        if cur != pre0 {
                            // the binary reads this damaged file as an archive: not an "unreadable archive" case
                            acc.lock().unwrap().skipped_variants += 1;
                            return Ok(());
                        }
                        let mut evs = vec![json!({"ev": "start", "post": cur.to_json(), "b": bi, "variant": variant})];
                        acc.lock().unwrap().executions += 1;
                        for (si, e) in steps.iter().enumerate() {
                            // a successful first create that is followed by another create is the common prefix of
                            // many behaviours: it is executed (and judged) once, later behaviours start from its result
                            let shareable = si == 0 && steps.len() > 1 && e["cmd"]["cmd"] == "create" && steps[1]["cmd"]["cmd"] == "create" && cur.kind == "none";
                            if shareable {
                                let key = e["cmd"].to_string();
                                let mut g = w.shared_first.lock().unwrap(); // held while the first one executes
                                if let Some((bytes, ev, exit, post)) = g.get(&key) {
                                    if *exit == "ok" && Arch::from_json(&e["chosen"]["arch"]) == *post {
                                        std::fs::write(&agc, bytes)?;
                                        let mut ev = ev.clone();
                                        ev["shared"] = json!(true);
                                        evs.push(ev);
                                        cur = post.clone();
                                        for (n, k) in post.cat.iter().zip(post.nrec.iter()) {
                                            known.push((n.clone(), *k));
                                        }
                                        continue;
                                    }
                                } else {
                                    let o = execute(&w, &e["cmd"], &agc, &wd, si, &mut known)?;
                                    let bytes = std::fs::read(&agc).unwrap_or_default();
                                    g.insert(key, (bytes, event(&e["cmd"], &o), o.exit, o.post.clone()));
                                }
                            }
                            let o = if shareable {
                                // first execution: run again below would double the cost; re-read what was stored
                                let g = w.shared_first.lock().unwrap();
                                let (_, ev, exit, post) = g.get(&e["cmd"].to_string()).unwrap().clone();
                                Observed { run: Run { ms: 0, argv: ev["argv"].as_array().map(|a| a.iter().map(|x| x.as_str().unwrap_or("").to_string()).collect()).unwrap_or_default(),
                                                      code: ev["code"].as_i64().map(|c| c as i32), stdout: vec![], stderr: String::new() },
                                           exit, out: vec![], bytes: Some(vec![]), post }
                            } else {
                                execute(&w, &e["cmd"], &agc, &wd, si, &mut known)?
                            };
                            evs.push(event(&e["cmd"], &o));
                            let verdict = judge(&w, e, &cur, &o, &agc, &wd)?;
                            let mut g = acc.lock().unwrap();
                            g.steps += 1;
                            if o.exit == "fail" {
                                g.failures_seen += 1;
                            }
                            if e["cmd"]["cmd"] == "create" && o.exit == "ok" {
                                g.creates_ok += 1;
                            }
                            if o.exit == "ok" && e["cmd"]["cmd"] == "getset" && o.out.len() > 0 {
                                let samples: std::collections::HashSet<String> = o.out.iter().map(|x| x["s"].to_string()).collect();
                                if samples.len() >= 2 || e["cmd"]["names"].as_array().map(|x| x.len() >= 2).unwrap_or(false) {
                                    g.composed += 1;
                                }
                            }
                            if let Some((kind, detail)) = verdict {
                                g.fails.push(json!({"behaviour": bi, "variant": variant, "step": si, "kind": kind, "detail": detail, "cmd": e["cmd"], "pre": cur.to_json(),
                                    "argv": o.run.argv, "code": o.run.code, "observed": {"exit": o.exit, "out": o.out, "post": o.post.to_json()},
                                    "allowed": e["allowed"], "mustfail": e["mustfail"], "lists": e["lists"], "stderr": o.run.stderr, "steps": steps}));
                                break;
                            }
                            // same branch as the mechanism model?  (otherwise the later steps start from another state)
                            let ch = &e["chosen"];
                            let charch = Arch::from_json(&ch["arch"]);
                            let same = ch["exit"].as_str() == Some(o.exit) && (charch.kind == "any" || charch == o.post);
                            if !same {
                                g.diverged.push(json!({"behaviour": bi, "step": si, "argv": o.run.argv, "model": ch, "observed": {"exit": o.exit, "post": o.post.to_json()}}));
                                break;
                            }
                            cur = o.post.clone();
                        }
                        acc.lock().unwrap().events.push((bi, variant, evs));
                        Ok(())
                    })();
                    if let Err(e) = r {
                        acc.lock().unwrap().err = Some(format!("behaviour {}: {:#}", bi, e));
                    }
                    let _ = std::fs::remove_dir_all(&wd);
                }
            });
        }
    });
    let mut g = acc.into_inner().unwrap();
    if let Some(e) = g.err {
        bail!("{}", e);
    }
    if let Some(p) = a.opt("events") {
        g.events.sort_by_key(|x| (x.0, x.1));
        let mut f = std::io::BufWriter::new(std::fs::File::create(p)?);
        for (_, _, evs) in &g.events {
            for e in evs {
                writeln!(f, "{}", e)?;
            }
        }
    }
    g.fails.sort_by_key(|f| (f["behaviour"].as_u64(), f["variant"].as_u64()));
    println!(
        "{}",
        json!({"behaviours": behs.len(), "executions": g.executions, "steps": g.steps, "fails": g.fails, "diverged": g.diverged, "composed": g.composed,
               "creates_ok": g.creates_ok, "failures_seen": g.failures_seen, "skipped_variants": g.skipped_variants, "process_runs": RUNS.load(Ordering::SeqCst)})
    );
    Ok(())
}

// ------------------------------------------------------------------------------------------------
// rvh cli-setup: build the archive of the "getset" family with the real binary and report its catalogue
// ------------------------------------------------------------------------------------------------
fn cmd0() -> Value {
    json!({"cmd": "none", "mode": "names", "names": [], "prefix": [], "dest": "stdout", "batch": false, "adaptive": false, "concat": false,
           "threads": 1, "qcap": "default", "inputs": [], "outpath": "ok"})
}

fn create_cmd(files: &[Vec<(Name, usize)>], threads: u64, qcap: &str) -> Value {
    let mut c = cmd0();
    c["cmd"] = json!("create");
    c["threads"] = json!(threads);
    c["qcap"] = json!(qcap);
    c["inputs"] = Value::Array(
        files.iter().map(|ss| json!({"readable": true, "samples": ss.iter().map(|(n, k)| json!({"name": n, "nrec": k})).collect::<Vec<_>>()})).collect(),
    );
    c
}

fn setup(a: &Args) -> Result<()> {
    let w = World { ragc: a.get("ragc")?.to_string(), seed: a.num("seed", 1u64), obs: Mutex::new(HashMap::new()), singles: Mutex::new(HashMap::new()), shared_first: Mutex::new(HashMap::new()) };
    let dir = PathBuf::from(a.get("dir")?);
    std::fs::create_dir_all(&dir)?;
    let agc = PathBuf::from(a.get("agc")?);
    // samples: "ab:2,aa:3,ba:1" ; --single puts them all in one (PanSN) file
    let spec = a.opt("samples").unwrap_or("ab:2,aa:3,ba:1");
    let samples: Vec<(Name, usize)> = spec
        .split(',')
        .map(|s| {
            let mut it = s.split(':');
            (unrender(it.next().unwrap_or("")), it.next().and_then(|x| x.parse().ok()).unwrap_or(1))
        })
        .collect();
    let files: Vec<Vec<(Name, usize)>> = if a.flag("single") { vec![samples.clone()] } else { samples.iter().map(|s| vec![s.clone()]).collect() };
    let cmd = create_cmd(&files, a.num("threads", 2u64), "default");
    let mut known = vec![];
    let o = execute(&w, &cmd, &agc, &dir, 0, &mut known)?;
    println!(
        "{}",
        json!({"exit": o.exit, "code": o.run.code, "argv": o.run.argv, "stderr": o.run.stderr, "requested": samples.iter().map(|(n, k)| json!({"name": n, "nrec": k})).collect::<Vec<_>>(),
               "kind": o.post.kind,
               "samples": o.post.cat.iter().zip(o.post.nrec.iter()).map(|(n, k)| json!({"name": n, "nrec": k})).collect::<Vec<_>>()})
    );
    Ok(())
}

// ------------------------------------------------------------------------------------------------
// rvh trace-cli: seeded random sessions on the real binary, logged for Trace_Cli.tla
// ------------------------------------------------------------------------------------------------
fn rand_name(r: &mut StdRng, pansn: bool) -> Name {
    let l = r.gen_range(1..=3);
    let mut n: Name = (0..l).map(|_| r.gen_range(1..=3u8)).collect();
    if pansn {
        n.push(4);
        n.push(r.gen_range(5..=6));
    }
    n
}

fn rand_read(r: &mut StdRng, cat: &[(Name, usize)], pansn: bool) -> Value {
    let mut c = cmd0();
    let pick = |r: &mut StdRng| -> Name {
        if cat.is_empty() || r.gen_bool(0.12) {
            // unknown: random, or a proper prefix / an extension of a real name
            if !cat.is_empty() && r.gen_bool(0.5) {
                let mut n = cat[r.gen_range(0..cat.len())].0.clone();
                if r.gen_bool(0.5) && n.len() > 1 { n.pop(); } else { n.push(r.gen_range(1..=3)); }
                n
            } else {
                rand_name(r, pansn)
            }
        } else {
            cat[r.gen_range(0..cat.len())].0.clone()
        }
    };
    let x = r.gen_range(0..100);
    if x < 55 {
        c["cmd"] = json!("getset");
        let l = if r.gen_bool(0.3) { r.gen_range(1..=2) } else { r.gen_range(2..=6) };
        c["names"] = json!((0..l).map(|_| pick(r)).collect::<Vec<_>>());
    } else if x < 80 {
        c["cmd"] = json!("getset");
        c["mode"] = json!("prefix");
        let p: Name = if cat.is_empty() || r.gen_bool(0.15) {
            (0..r.gen_range(0..=2)).map(|_| r.gen_range(1..=3u8)).collect()
        } else {
            let n = &cat[r.gen_range(0..cat.len())].0;
            n[..r.gen_range(0..=n.len())].to_vec()
        };
        c["prefix"] = json!(p);
    } else if x < 93 {
        c["cmd"] = json!("listctg");
        let l = r.gen_range(1..=3);
        c["names"] = json!((0..l).map(|_| pick(r)).collect::<Vec<_>>());
    } else {
        c["cmd"] = json!("listset");
    }
    let d = r.gen_range(0..100);
    c["dest"] = json!(if d < 48 { "stdout" } else if d < 95 { "file" } else { "badfile" });
    c
}

fn trace(a: &Args) -> Result<()> {
    let seed = a.num("seed", 1u64);
    let w = World { ragc: a.get("ragc")?.to_string(), seed, obs: Mutex::new(HashMap::new()), singles: Mutex::new(HashMap::new()), shared_first: Mutex::new(HashMap::new()) };
    let dir = PathBuf::from(a.get("dir")?);
    std::fs::create_dir_all(&dir)?;
    let ncases: usize = a.num("cases", 4usize);
    let nreads: usize = a.num("reads", 12usize);
    let jobs: usize = a.num("jobs", 4usize);
    // --big N: case 0 is an archive of N homologous one-record samples (every LZ group then holds N segments: with N > 51 its delta
    // stream has two packs), read with request lists that mix samples of the first and of the last pack
    let big: usize = a.num("big", 0usize);
    let next = AtomicUsize::new(0);
    let all: Mutex<Vec<(usize, Vec<Value>)>> = Mutex::new(vec![]);
    let err: Mutex<Option<String>> = Mutex::new(None);
    std::thread::scope(|sc| {
        for _ in 0..jobs.max(1) {
            sc.spawn(|| loop {
                let ci = next.fetch_add(1, Ordering::SeqCst);
                if ci >= ncases || err.lock().unwrap().is_some() {
                    break;
                }
                let res = (|| -> Result<Vec<Value>> {
                    let mut r = util::rng(seed.wrapping_mul(7919).wrapping_add(ci as u64));
                    let wd = dir.join(format!("t{}", ci));
                    std::fs::create_dir_all(&wd)?;
                    let agc = wd.join("a.agc");
                    let is_big = big > 0 && ci == 0;
                    let pansn = ci % 3 == 2 && !is_big;
                    let mut cat: Vec<(Name, usize)> = vec![];
                    let m = if is_big { big } else { r.gen_range(2..=5) };
                    while cat.len() < m {
                        // (names of 1..3 letters over a 3-letter alphabet are only 39: the big catalogue uses 4..5 letters)
                        let n: Name = if is_big { (0..r.gen_range(4..=5)).map(|_| r.gen_range(1..=3u8)).collect() } else { rand_name(&mut r, pansn) };
                        if !cat.iter().any(|(x, _)| *x == n) {
                            cat.push((n, if is_big { 1 } else { r.gen_range(1..=3) }));
                        }
                    }
                    let files: Vec<Vec<(Name, usize)>> = if pansn { vec![cat.clone()] } else { cat.iter().map(|s| vec![s.clone()]).collect() };
                    let mut known = vec![];
                    let mut cur = w.observe(&agc, &wd)?;
                    let mut evs = vec![json!({"ev": "start", "post": cur.to_json(), "case": ci})];
                    let qcaps = ["default", "1K", "64K", "3000", "default"];
                    let c = create_cmd(&files, r.gen_range(1..=4), qcaps[r.gen_range(0..qcaps.len())]);
                    let mut step = 0usize;
                    let o = execute(&w, &c, &agc, &wd, step, &mut known)?;
                    evs.push(event(&c, &o));
                    cur = o.post.clone();
                    for _ in 0..nreads {
                        step += 1;
                        let c = if r.gen_bool(0.08) {
                            // a create that has to fail or is unsupported, over the existing archive
                            let mut c = create_cmd(&[vec![(rand_name(&mut r, false), 1)]], r.gen_range(1..=4), "default");
                            match r.gen_range(0..5) {
                                0 => c["batch"] = json!(true),
                                1 => c["adaptive"] = json!(true),
                                2 => c["concat"] = json!(true),
                                3 => c["inputs"][0]["readable"] = json!(false),
                                _ => c["outpath"] = json!("unwritable"),
                            }
                            c
                        } else {
                            let live: Vec<(Name, usize)> = cur.cat.iter().cloned().zip(cur.nrec.iter().cloned()).collect();
                            if is_big && live.len() >= 12 && r.gen_bool(0.8) {
                                // names from both ends of the catalogue (= of the in-group id range): the answers have to be decoded
                                // from different packs of the same groups within ONE invocation
                                let focus: Vec<(Name, usize)> = live[..4].iter().chain(live[live.len() - 6..].iter()).cloned().collect();
                                let mut c = rand_read(&mut r, &focus, pansn);
                                if c["cmd"] == json!("getset") && c["mode"] != json!("prefix") {
                                    let l = r.gen_range(2..=5);
                                    c["names"] = json!((0..l).map(|j| focus[if j % 2 == 0 { r.gen_range(0..4) } else { r.gen_range(4..10) }].0.clone()).collect::<Vec<_>>());
                                }
                                c
                            } else {
                                rand_read(&mut r, &live, pansn)
                            }
                        };
                        let o = execute(&w, &c, &agc, &wd, step, &mut known)?;
                        evs.push(event(&c, &o));
                        cur = o.post.clone();
                    }
                    let _ = std::fs::remove_dir_all(&wd);
                    Ok(evs)
                })();
                match res {
                    Ok(evs) => all.lock().unwrap().push((ci, evs)),
                    Err(e) => *err.lock().unwrap() = Some(format!("case {}: {:#}", ci, e)),
                }
            });
        }
    });
    if let Some(e) = err.into_inner().unwrap() {
        bail!("{}", e);
    }
    let mut all = all.into_inner().unwrap();
    all.sort_by_key(|x| x.0);
    let mut f = std::io::BufWriter::new(std::fs::File::create(a.get("out")?)?);
    let mut n = 0;
    for (_, evs) in &all {
        for e in evs {
            writeln!(f, "{}", e)?;
            n += 1;
        }
    }
    println!("{}", json!({"cases": all.len(), "events": n, "process_runs": RUNS.load(Ordering::SeqCst)}));
    Ok(())
}
