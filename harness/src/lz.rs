//! Binding of spec/LzDiff.tla (+ LzDiffOps.tla) to ragc_core::lz_diff::LZDiff.
//!
//! `replay-lz`  REPLAY: token sequences enumerated by TLC (MC_LzDiff) are fed, as bytes, to the
//!              real decoder; after every token the real output must equal the model's `out`.
//! `trace-lz`   TRACE: (reference, target, min match) cases are driven through the real
//!              `LZDiff::new / prepare / encode / decode`; inputs, encoder bytes and decoder output are
//!              recorded as NDJSON.  Nothing is decided here: TLC decodes the bytes with the
//!              specification (Trace_LzDiff.tla) and compares.
//!
//! The only "semantics" on this side is `token_lengths`, which proposes token boundaries for the
//! token-by-token trace mode; TLC re-lexes every proposed slice with the specification's lexer
//! (`TokAt`) and rejects the trace if a boundary is not where the grammar puts it.
use crate::util::{self, Args};
use anyhow::Result;
use rand::rngs::StdRng;
use rand::Rng;
use ragc_core::lz_diff::LZDiff;
use serde_json::{json, Value};
use std::io::{BufRead, Write};

pub fn dispatch(cmd: &str, a: &Args) -> Option<Result<()>> {
    match cmd {
        "replay-lz" => Some(replay(a)),
        "trace-lz" => Some(trace(a)),
        _ => None,
    }
}

fn bytes_of(v: &Value) -> Vec<u8> {
    v.as_array().map(|a| a.iter().map(|x| x.as_u64().unwrap() as u8).collect()).unwrap_or_default()
}

fn arr(v: &[u8]) -> String {
    let mut s = String::with_capacity(v.len() * 3 + 2);
    s.push('[');
    for (i, x) in v.iter().enumerate() {
        if i > 0 {
            s.push(',');
        }
        s.push_str(&x.to_string());
    }
    s.push(']');
    s
}

// ---------------------------------------------------------------------------------------------
// REPLAY
// ---------------------------------------------------------------------------------------------
pub fn replay(a: &Args) -> Result<()> {
    util::install_panic_hook();
    let f = std::fs::File::open(a.get("in")?)?;
    let mut n = 0u64;
    let mut steps = 0u64;
    let mut fails: Vec<Value> = vec![];
    for line in std::io::BufReader::new(f).lines() {
        let line = line?;
        if line.trim().is_empty() {
            continue;
        }
        let b: Value = serde_json::from_str(&line)?;
        let mm = b["mm"].as_u64().unwrap() as u32;
        let reference = bytes_of(&b["ref"]);
        n += 1;
        let st = b["steps"].as_array().unwrap();
        let mut text: Vec<u8> = vec![];
        for (i, s) in st.iter().enumerate() {
            text.extend_from_slice(&bytes_of(&s["bytes"]));
            let want = bytes_of(&s["out"]);
            steps += 1;
            let (r, t) = (reference.clone(), text.clone());
            let res = util::catch(move || {
                let mut lz = LZDiff::new(mm);
                lz.prepare(&r);
                lz.decode(&t)
            });
            let bad = match res {
                Ok(got) => {
                    if got != want {
                        Some(json!({"step": i, "text": text, "model_out": want, "real_out": got}))
                    } else {
                        None
                    }
                }
                Err(p) => Some(json!({"step": i, "text": text, "model_out": want, "panic": p})),
            };
            if let Some(mut v) = bad {
                v["ref"] = json!(reference);
                v["mm"] = json!(mm);
                v["tokens"] = json!(st.iter().take(i + 1).map(|x| x["tok"].clone()).collect::<Vec<_>>());
                fails.push(v);
                break;
            }
        }
        if fails.len() >= 20 {
            break;
        }
    }
    println!("{}", json!({"behaviours": n, "steps": steps, "fails": fails}));
    Ok(())
}

// ---------------------------------------------------------------------------------------------
// TRACE
// ---------------------------------------------------------------------------------------------
struct Obs {
    enc: Vec<u8>,
    dec: Vec<u8>,
    panic: String,
}

/// Drive the real API once: new, prepare, encode, decode.  Panics are data.
fn observe(reference: &[u8], target: &[u8], mm: u32) -> Obs {
    let (r, t) = (reference.to_vec(), target.to_vec());
    let e = util::catch(move || {
        let mut lz = LZDiff::new(mm);
        lz.prepare(&r);
        let enc = lz.encode(&t);
        (lz, enc)
    });
    match e {
        Err(p) => Obs { enc: vec![], dec: vec![], panic: format!("encode: {}", p) },
        Ok((lz, enc)) => {
            let e2 = enc.clone();
            let d = util::catch(std::panic::AssertUnwindSafe(move || lz.decode(&e2)));
            match d {
                Ok(dec) => Obs { enc, dec, panic: String::new() },
                Err(p) => Obs { enc, dec: vec![], panic: format!("decode: {}", p) },
            }
        }
    }
}

/// Proposed token boundaries (lengths in bytes).  Verified by TLC against the grammar.
fn token_lengths(enc: &[u8]) -> Vec<usize> {
    let mut v = vec![];
    let mut i = 0;
    while i < enc.len() {
        let c = enc[i];
        let mut j = i + 1;
        if (65..=95).contains(&c) || c == b'!' {
            // one byte
        } else if c == 30 {
            while j < enc.len() && enc[j].is_ascii_digit() {
                j += 1;
            }
            j = (j + 1).min(enc.len());
        } else {
            while j < enc.len() && enc[j - 1] != b'.' {
                j += 1;
            }
        }
        v.push(j - i);
        i = j;
    }
    v
}

struct Sink {
    out: std::io::BufWriter<std::fs::File>,
    id: u64,
    maxtok: usize,
}
impl Sink {
    fn fields(&self, reference: &[u8], target: &[u8], mm: u32, o: &Obs, class: &str) -> String {
        format!(
            "\"id\":{},\"class\":\"{}\",\"mm\":{},\"ref\":{},\"tgt\":{},\"enc\":{},\"dec\":{},\"panic\":{}",
            self.id,
            class,
            mm,
            arr(reference),
            arr(target),
            arr(&o.enc),
            arr(&o.dec),
            serde_json::to_string(&o.panic).unwrap()
        )
    }
    /// one "pair" event: the whole case is one specification step (function-level decoder)
    fn pair(&mut self, reference: &[u8], target: &[u8], mm: u32, class: &str) -> Result<()> {
        let o = observe(reference, target, mm);
        writeln!(self.out, "{{\"ev\":\"pair\",{}}}", self.fields(reference, target, mm, &o, class))?;
        self.id += 1;
        Ok(())
    }
    /// token-by-token case (start, tok*, end) unless the text has too many tokens
    fn stepped(&mut self, reference: &[u8], target: &[u8], mm: u32, class: &str) -> Result<()> {
        let o = observe(reference, target, mm);
        let toks = token_lengths(&o.enc);
        if toks.len() > self.maxtok || !o.panic.is_empty() {
            writeln!(self.out, "{{\"ev\":\"pair\",{}}}", self.fields(reference, target, mm, &o, class))?;
        } else {
            writeln!(self.out, "{{\"ev\":\"start\",{}}}", self.fields(reference, target, mm, &o, class))?;
            for n in toks {
                writeln!(self.out, "{{\"ev\":\"tok\",\"id\":{},\"n\":{}}}", self.id, n)?;
            }
            writeln!(self.out, "{{\"ev\":\"end\",\"id\":{}}}", self.id)?;
        }
        self.id += 1;
        Ok(())
    }
}

fn parse_list(s: &str) -> Vec<u32> {
    s.split(',').filter(|x| !x.is_empty()).map(|x| x.trim().parse().unwrap()).collect()
}

/// all strings over `alpha` with length in lo..=hi, in length-then-lexicographic order
fn all_strings(alpha: &[u8], lo: usize, hi: usize) -> Vec<Vec<u8>> {
    let mut res = vec![];
    for len in lo..=hi {
        let total = (alpha.len() as u64).pow(len as u32);
        for mut x in 0..total {
            let mut s = vec![0u8; len];
            for k in (0..len).rev() {
                s[k] = alpha[(x % alpha.len() as u64) as usize];
                x /= alpha.len() as u64;
            }
            res.push(s);
        }
    }
    res
}

pub fn trace(a: &Args) -> Result<()> {
    util::install_panic_hook();
    let seed: u64 = a.num("seed", 1u64);
    let mut sink = Sink {
        out: std::io::BufWriter::new(std::fs::File::create(a.get("out")?)?),
        id: a.num("id0", 0u64),
        maxtok: a.num("maxtok", 60000usize),
    };
    match a.get("mode")? {
        "small" => small(a, seed, &mut sink)?,
        "medium" => medium(a, seed, &mut sink)?,
        "long" => long(a, seed, &mut sink)?,
        "one" => {
            // a single explicit case (replay of a recorded violation)
            let r: Vec<u8> = parse_list(a.get("ref")?).iter().map(|&x| x as u8).collect();
            let t: Vec<u8> = parse_list(a.get("tgt")?).iter().map(|&x| x as u8).collect();
            sink.stepped(&r, &t, a.num("mm", 5u32), "one")?;
        }
        m => anyhow::bail!("unknown mode {}", m),
    }
    sink.out.flush()?;
    Ok(())
}

/// Exhaustive (reference, target) pairs over a small alphabet: |ref| in 0..=maxlen,
/// |tgt| in 1..=maxlen, every min match in `mms`.  `--stride s --phase p` keeps the pairs whose
/// running number is = p (mod s): a stratified sample that still visits every reference.
fn small(a: &Args, _seed: u64, sink: &mut Sink) -> Result<()> {
    let alpha: Vec<u8> = parse_list(a.get("alpha")?).iter().map(|&x| x as u8).collect();
    let maxlen: usize = a.num("maxlen", 5usize);
    let mms = parse_list(a.opt("mms").unwrap_or("5,6,7,8"));
    let stride: u64 = a.num("stride", 1u64).max(1);
    let phase: u64 = a.num("phase", 0u64) % stride;
    let class = format!("small{}", alpha.iter().map(|x| x.to_string()).collect::<Vec<_>>().join("_"));
    let refs = all_strings(&alpha, 0, maxlen);
    let tgts = all_strings(&alpha, 1, maxlen);
    let mut k = 0u64;
    for r in &refs {
        for t in &tgts {
            for &mm in &mms {
                if k % stride == phase {
                    sink.pair(r, t, mm, &class)?;
                }
                k += 1;
            }
        }
    }
    Ok(())
}

// ---- random material --------------------------------------------------------------------------
fn rand_seq(rng: &mut StdRng, alpha: &[u8], n: usize) -> Vec<u8> {
    (0..n).map(|_| alpha[rng.gen_range(0..alpha.len())]).collect()
}

const SPECIAL: [u8; 14] = [4, 4, 4, 30, 30, 5, 6, 7, 8, 9, 10, 12, 14, 15];

/// sprinkle N runs / IUPAC codes / code 30 into s
fn decorate(rng: &mut StdRng, s: &mut Vec<u8>, events: usize, max_run: usize) {
    for _ in 0..events {
        if s.is_empty() {
            return;
        }
        let p = rng.gen_range(0..s.len());
        match rng.gen_range(0..4) {
            0 | 1 => {
                // N run (overwrite or insert)
                let l = rng.gen_range(1..=max_run);
                if rng.gen_bool(0.5) {
                    for q in p..(p + l).min(s.len()) {
                        s[q] = 4;
                    }
                } else {
                    for _ in 0..l {
                        s.insert(p, 4);
                    }
                }
            }
            2 => s[p] = SPECIAL[rng.gen_range(0..SPECIAL.len())],
            _ => s[p] = 30,
        }
    }
}

/// one edit of `t`; `r` is the reference (source of blocks)
fn edit(rng: &mut StdRng, t: &mut Vec<u8>, r: &[u8], alpha: &[u8], scale: usize) {
    let n = t.len();
    let p = if n == 0 { 0 } else { rng.gen_range(0..n) };
    let l = rng.gen_range(1..=scale.max(1));
    match rng.gen_range(0..14) {
        0 | 1 => {
            // substitution by a different symbol of the alphabet
            if n > 0 {
                let mut c = alpha[rng.gen_range(0..alpha.len())];
                if c == t[p] {
                    c = alpha[(alpha.iter().position(|&x| x == c).unwrap() + 1) % alpha.len()];
                }
                t[p] = c;
            }
        }
        2 => {
            let ins = rand_seq(rng, alpha, l);
            t.splice(p..p, ins);
        }
        3 => {
            let e = (p + l).min(n);
            t.drain(p..e);
        }
        4 => {
            // N run 1..: inserted
            let k = rng.gen_range(1..=(scale.max(1) + 3));
            t.splice(p..p, std::iter::repeat(4u8).take(k));
        }
        5 => {
            if n > 0 {
                t[p] = SPECIAL[rng.gen_range(0..SPECIAL.len())];
            }
        }
        6 => {
            // copy a block of the reference to another place (block move / duplication)
            if !r.is_empty() {
                let s = rng.gen_range(0..r.len());
                let e = (s + rng.gen_range(1..=(4 * scale).max(2))).min(r.len());
                let blk: Vec<u8> = r[s..e].to_vec();
                t.splice(p..p, blk);
            }
        }
        7 => {
            // reverse complement of a block
            let e = (p + (4 * l)).min(n);
            let blk: Vec<u8> = t[p..e].iter().rev().map(|&c| if c < 4 { 3 - c } else { c }).collect();
            t.splice(p..e, blk);
        }
        8 => {
            t.truncate(p); // prefix
        }
        9 => {
            t.drain(0..p); // suffix (keeps the end: match-to-end)
        }
        10 => {
            // tail appended
            let ins = rand_seq(rng, alpha, l);
            t.extend(ins);
        }
        _ => {
            // two substitutions a few symbols apart: literal, symbols equal to the reference at the
            // predicted position (candidates for '!'), literal, then a match at the predicted position
            if n > 1 {
                let q = rng.gen_range(0..n);
                let c = alpha[rng.gen_range(0..alpha.len())];
                t[q] = if c == t[q] { alpha[(alpha.iter().position(|&x| x == c).unwrap() + 1) % alpha.len()] } else { c };
                let q2 = q + rng.gen_range(1..=8);
                if q2 < n {
                    let c = alpha[rng.gen_range(0..alpha.len())];
                    t[q2] = if c == t[q2] { alpha[(alpha.iter().position(|&x| x == c).unwrap() + 1) % alpha.len()] } else { c };
                }
            }
        }
    }
}

const ALPHAS: [&[u8]; 5] = [&[0, 1], &[0, 1, 2, 3], &[0, 1, 2, 3], &[0, 3], &[0, 1, 2]];

/// Mutation-derived pairs of medium length (8..=maxlen): the region where hash matches, backward
/// extension, '!' rewriting, N runs and match-to-end interact, still cheap to decode in TLC.
fn medium(a: &Args, seed: u64, sink: &mut Sink) -> Result<()> {
    let n: usize = a.num("n", 1000usize);
    let maxlen: usize = a.num("maxlen", 64usize);
    let mm_hi: u32 = a.num("mmhi", 10u32);
    let mut rng = util::rng(seed.wrapping_mul(0x9E3779B97F4A7C15) ^ 0xC09);
    for _ in 0..n {
        let alpha = ALPHAS[rng.gen_range(0..ALPHAS.len())];
        let rl = rng.gen_range(8..=maxlen);
        let mut r = rand_seq(&mut rng, alpha, rl);
        if rng.gen_bool(0.3) {
            // periodic reference: many index positions carry the same key
            let per = rng.gen_range(1..=6);
            for i in per..r.len() {
                r[i] = r[i - per];
            }
        }
        if rng.gen_bool(0.35) {
            let ev = rng.gen_range(1..=2);
            decorate(&mut rng, &mut r, ev, 6);
        }
        let mut t = r.clone();
        if rng.gen_bool(0.08) {
            let tl = rng.gen_range(1..=maxlen);
            t = rand_seq(&mut rng, alpha, tl);
        }
        let edits = rng.gen_range(0..=4);
        for _ in 0..edits {
            edit(&mut rng, &mut t, &r, alpha, 3);
        }
        if t.is_empty() {
            t.push(alpha[0]);
        }
        let mm = if rng.gen_bool(0.8) { rng.gen_range(5..=8) } else { rng.gen_range(9..=mm_hi.max(9)) };
        sink.pair(&r, &t, mm, "medium")?;
    }
    Ok(())
}

/// Long pairs (up to --maxlen symbols): random and mutation-derived, min match 5..=32.
fn long(a: &Args, seed: u64, sink: &mut Sink) -> Result<()> {
    let n: usize = a.num("n", 50usize);
    let maxlen: usize = a.num("maxlen", 20000usize);
    let minlen: usize = a.num("minlen", 100usize);
    let mut rng = util::rng(seed.wrapping_mul(0xD1B54A32D192ED03) ^ 0x10C09);
    let acgt: &[u8] = &[0, 1, 2, 3];
    for k in 0..n {
        // log-uniform length
        let lf = (minlen as f64).ln() + rng.gen::<f64>() * ((maxlen as f64).ln() - (minlen as f64).ln());
        let rl = lf.exp() as usize;
        let mut r = rand_seq(&mut rng, acgt, rl);
        // repeats inside the reference: tandem and dispersed copies
        for _ in 0..rng.gen_range(0..4) {
            let s = rng.gen_range(0..r.len());
            let e = (s + rng.gen_range(10..200)).min(r.len());
            let blk = r[s..e].to_vec();
            let p = rng.gen_range(0..r.len());
            let e2 = (p + blk.len()).min(r.len());
            r.splice(p..e2, blk);
        }
        if rng.gen_bool(0.4) {
            let ev = rng.gen_range(1..=4);
            decorate(&mut rng, &mut r, ev, 40);
        }
        let mm: u32 = match k % 4 {
            0 => rng.gen_range(5..=8),
            1 => rng.gen_range(9..=20),
            2 => 20, // the production default
            _ => rng.gen_range(21..=32),
        };
        let mut t = r.clone();
        let kind = rng.gen_range(0..10);
        let class;
        if kind == 0 {
            // unrelated random target (kept shorter: all literals)
            let tl = rng.gen_range(1..=rl.min(3000));
            t = rand_seq(&mut rng, acgt, tl);
            class = "long_random";
        } else if kind == 1 {
            // reverse complement of (a window of) the reference
            // (of a window of at most 4000 symbols: nearly all literals, one trace step each)
            let w = rl.min(4000);
            let s0 = rng.gen_range(0..=(rl - w));
            t = r[s0..s0 + w].iter().rev().map(|&c| if c < 4 { 3 - c } else { c }).collect();
            class = "long_rc";
        } else {
            // point divergence 0..5 % plus structural edits
            // (token-by-token validation costs about tokens x length: keep very long cases less divergent)
            let div = if rl > 15000 { [0.0, 0.001, 0.005, 0.01][rng.gen_range(0..4)] } else { [0.0, 0.001, 0.005, 0.02, 0.05][rng.gen_range(0..5)] };
            let mut i = 0;
            let mut u: Vec<u8> = Vec::with_capacity(t.len() + 64);
            while i < t.len() {
                if rng.gen::<f64>() < div {
                    match rng.gen_range(0..6) {
                        0 | 1 | 2 => u.push((t[i] + rng.gen_range(1..4)) % 4),
                        3 => {} // deletion
                        4 => {
                            u.push(t[i]);
                            u.push(rng.gen_range(0..4));
                        }
                        _ => u.push(SPECIAL[rng.gen_range(0..SPECIAL.len())]),
                    }
                } else {
                    u.push(t[i]);
                }
                i += 1;
            }
            t = u;
            for _ in 0..rng.gen_range(0..5) {
                edit(&mut rng, &mut t, &r, acgt, 12);
            }
            class = "long_mut";
        }
        if t.is_empty() {
            t.push(0);
        }
        sink.stepped(&r, &t, mm, class)?;
    }
    Ok(())
}
