//! Independent byte lexer for AGC v3 archives.
//!
//! Written from the format rules only — it does NOT call ragc-common or ragc-core. It turns a
//! `.agc` file into a *structural view*: directory, parts (offset, size, metadata), un-ZSTD'd
//! payloads, prefix-varint integer streams of the collection, NUL-separated byte strings.
//! Everything above that level (name delta decoding, descriptor prediction, separator
//! splitting, pack/id addressing, tuple unpacking, LZ decoding, orientation, overlap join) is
//! done in TLA+ (spec/ArchiveSemantics.tla). The only trusted library is the `zstd` crate.
use crate::util::Args;
use anyhow::{anyhow, bail, Context, Result};
use serde_json::{json, Value};

pub fn dispatch(cmd: &str, a: &Args) -> Option<Result<()>> {
    match cmd {
        "lex-archive" => Some(cmd_lex(a)),
        _ => None,
    }
}

#[derive(Debug, Clone)]
pub struct PartRef {
    pub off: u64,
    pub size: u64,
    pub meta_len: u64,
    pub meta: u64,
}

#[derive(Debug, Clone)]
pub struct StreamView {
    pub id: usize,
    pub name: Vec<u8>,
    pub raw_size: u64,
    pub parts: Vec<PartRef>,
}

pub struct ArchiveView {
    pub file: Vec<u8>,
    pub footer_len: u64,
    pub footer_start: u64,
    pub dir_consumed: u64,
    pub streams: Vec<StreamView>,
}

/// length-prefixed big-endian integer: first byte n = number of value bytes (0 for value 0)
fn be_varint(b: &[u8], pos: &mut usize) -> Result<(u64, u64)> {
    let n = *b.get(*pos).ok_or_else(|| anyhow!("varint: end of data"))? as usize;
    *pos += 1;
    if n > 8 {
        bail!("varint: length byte {} > 8", n);
    }
    if *pos + n > b.len() {
        bail!("varint: truncated value");
    }
    let mut v: u64 = 0;
    for i in 0..n {
        v = (v << 8) | b[*pos + i] as u64;
    }
    *pos += n;
    Ok((v, (n + 1) as u64))
}

pub fn parse_archive(path: &str) -> Result<ArchiveView> {
    let file = std::fs::read(path).with_context(|| format!("read {}", path))?;
    let len = file.len() as u64;
    if len < 8 {
        bail!("file shorter than the 8-byte footer length");
    }
    let mut fl = [0u8; 8];
    fl.copy_from_slice(&file[file.len() - 8..]);
    let footer_len = u64::from_le_bytes(fl);
    if footer_len > len - 8 {
        bail!("footer length {} exceeds file size {}", footer_len, len);
    }
    let footer_start = len - 8 - footer_len;
    let dir = &file[footer_start as usize..(len - 8) as usize];
    let mut pos = 0usize;
    let (n_streams, _) = be_varint(dir, &mut pos)?;
    let mut streams = Vec::new();
    for id in 0..n_streams as usize {
        let end = dir[pos..].iter().position(|&c| c == 0).ok_or_else(|| anyhow!("stream name not terminated"))?;
        let name = dir[pos..pos + end].to_vec();
        pos += end + 1;
        let (n_parts, _) = be_varint(dir, &mut pos)?;
        let (raw_size, _) = be_varint(dir, &mut pos)?;
        let mut parts = Vec::new();
        for _ in 0..n_parts {
            let (off, _) = be_varint(dir, &mut pos)?;
            let (size, _) = be_varint(dir, &mut pos)?;
            // the part itself: varint(meta) ++ data
            if off >= footer_start {
                bail!("part offset {} not inside the data area [0,{})", off, footer_start);
            }
            let mut p = off as usize;
            let (meta, meta_len) = be_varint(&file[..footer_start as usize], &mut p)?;
            if off + meta_len + size > footer_start {
                bail!("part at {} (+{}+{}) exceeds the data area", off, meta_len, size);
            }
            parts.push(PartRef { off, size, meta_len, meta });
        }
        streams.push(StreamView { id, name, raw_size, parts });
    }
    Ok(ArchiveView { file, footer_len, footer_start, dir_consumed: pos as u64, streams })
}

impl ArchiveView {
    pub fn part_data(&self, p: &PartRef) -> &[u8] {
        let s = (p.off + p.meta_len) as usize;
        &self.file[s..s + p.size as usize]
    }
    pub fn stream(&self, name: &str) -> Option<&StreamView> {
        self.streams.iter().find(|s| s.name == name.as_bytes())
    }
}

fn unzstd(b: &[u8]) -> Result<Vec<u8>> {
    zstd::stream::decode_all(b).map_err(|e| anyhow!("zstd: {}", e))
}

/// collection prefix varint: 1..5 bytes, prefixes 0, 10, 110, 1110, 11110000
fn pv(b: &[u8], pos: &mut usize) -> Result<u64> {
    let f = *b.get(*pos).ok_or_else(|| anyhow!("prefix varint: end of data"))? as u64;
    let need = if f & 0x80 == 0 {
        1
    } else if f & 0xC0 == 0x80 {
        2
    } else if f & 0xE0 == 0xC0 {
        3
    } else if f & 0xF0 == 0xE0 {
        4
    } else {
        5
    };
    if *pos + need > b.len() {
        bail!("prefix varint: truncated");
    }
    let g = |i: usize| b[*pos + i] as u64;
    let t1: u64 = 1 << 7;
    let t2 = t1 + (1 << 14);
    let t3 = t2 + (1 << 21);
    let t4 = t3 + (1 << 28);
    let v = match need {
        1 => f,
        2 => (((f & 0x3F) << 8) | g(1)) + t1,
        3 => (((f & 0x1F) << 16) | (g(1) << 8) | g(2)) + t2,
        4 => (((f & 0x0F) << 24) | (g(1) << 16) | (g(2) << 8) | g(3)) + t3,
        _ => ((g(1) << 24) | (g(2) << 16) | (g(3) << 8) | g(4)) + t4,
    };
    *pos += need;
    Ok(v)
}

fn cstr(b: &[u8], pos: &mut usize) -> Result<Vec<u8>> {
    let end = b[*pos..].iter().position(|&c| c == 0).ok_or_else(|| anyhow!("byte string not NUL-terminated"))?;
    let s = b[*pos..*pos + end].to_vec();
    *pos += end + 1;
    Ok(s)
}

fn bytes(v: &[u8]) -> Value {
    Value::Array(v.iter().map(|&x| json!(x)).collect())
}

/// A payload part of a segment stream: metadata 0 = stored raw; otherwise last byte = marker,
/// the rest is one ZSTD frame.
fn payload(view: &ArchiveView, p: &PartRef) -> Result<Value> {
    let d = view.part_data(p);
    if p.meta == 0 {
        return Ok(json!({"meta": 0, "raw": true, "marker": -1, "bytes": bytes(d)}));
    }
    if d.is_empty() {
        bail!("compressed part with metadata {} has no data", p.meta);
    }
    let marker = d[d.len() - 1];
    let u = unzstd(&d[..d.len() - 1])?;
    Ok(json!({"meta": p.meta, "raw": false, "marker": marker, "bytes": bytes(&u)}))
}

/// Lex the whole archive into a list of JSON records (see module comment).
pub fn lex_records(path: &str) -> Result<Vec<Value>> {
    let view = parse_archive(path)?;
    let mut out = Vec::new();
    let len = view.file.len() as u64;
    out.push(json!({"ev": "layout", "fileLen": len, "footerLen": view.footer_len, "footerStart": view.footer_start,
        "dirConsumed": view.dir_consumed, "nStreams": view.streams.len()}));
    for s in &view.streams {
        out.push(json!({"ev": "stream", "id": s.id, "name": bytes(&s.name), "nameStr": String::from_utf8_lossy(&s.name),
            "rawSize": s.raw_size,
            "parts": s.parts.iter().map(|p| json!({"off": p.off, "size": p.size, "metaLen": p.meta_len, "meta": p.meta})).collect::<Vec<_>>()}));
    }
    // params
    if let Some(s) = view.stream("params") {
        for p in &s.parts {
            out.push(json!({"ev": "params", "meta": p.meta, "bytes": bytes(view.part_data(p))}));
        }
    }
    if let Some(s) = view.stream("file_type_info") {
        for p in &s.parts {
            let d = view.part_data(p);
            let mut pos = 0;
            let mut items = vec![];
            while pos < d.len() {
                items.push(String::from_utf8_lossy(&cstr(d, &mut pos)?).to_string());
            }
            out.push(json!({"ev": "file_type_info", "meta": p.meta, "items": items}));
        }
    }
    for nm in ["splitters", "segment-splitters"] {
        if let Some(s) = view.stream(nm) {
            for p in &s.parts {
                out.push(json!({"ev": "aux", "stream": nm, "meta": p.meta, "size": p.size}));
            }
        }
    }
    // collection-samples: ZSTD(varint n, n NUL-terminated names), metadata = raw size
    if let Some(s) = view.stream("collection-samples") {
        for p in &s.parts {
            let u = unzstd(view.part_data(p))?;
            let mut pos = 0;
            let n = pv(&u, &mut pos)?;
            let mut names = vec![];
            for _ in 0..n {
                names.push(bytes(&cstr(&u, &mut pos)?));
            }
            out.push(json!({"ev": "samples", "meta": p.meta, "rawLen": u.len(), "consumed": pos, "names": names}));
        }
    }
    // collection-contigs: per batch ZSTD(varint nSamples, per sample varint nContigs + encoded names)
    if let Some(s) = view.stream("collection-contigs") {
        for (b, p) in s.parts.iter().enumerate() {
            let u = unzstd(view.part_data(p))?;
            let mut pos = 0;
            let ns = pv(&u, &mut pos)?;
            let mut samples = vec![];
            for _ in 0..ns {
                let nc = pv(&u, &mut pos)?;
                let mut names = vec![];
                for _ in 0..nc {
                    names.push(bytes(&cstr(&u, &mut pos)?));
                }
                samples.push(Value::Array(names));
            }
            out.push(json!({"ev": "contigs_batch", "b": b, "meta": p.meta, "rawLen": u.len(), "consumed": pos, "samples": samples}));
        }
    }
    // collection-details: per batch 5 x (raw size, compressed size) then 5 ZSTD frames of prefix varints
    if let Some(s) = view.stream("collection-details") {
        for (b, p) in s.parts.iter().enumerate() {
            let d = view.part_data(p);
            let mut pos = 0;
            let mut sizes = vec![];
            for _ in 0..5 {
                let r = pv(d, &mut pos)?;
                let c = pv(d, &mut pos)?;
                sizes.push((r, c));
            }
            let mut streams = vec![];
            let mut lens_ok = true;
            for i in 0..5 {
                let c = sizes[i].1 as usize;
                if pos + c > d.len() {
                    bail!("details batch {}: sub-stream {} exceeds the part", b, i);
                }
                let u = unzstd(&d[pos..pos + c])?;
                pos += c;
                if u.len() as u64 != sizes[i].0 {
                    lens_ok = false;
                }
                let mut q = 0;
                let mut ints = vec![];
                while q < u.len() {
                    ints.push(pv(&u, &mut q)?);
                }
                streams.push(ints);
            }
            out.push(json!({"ev": "details_batch", "b": b, "meta": p.meta, "lensOk": lens_ok, "allConsumed": pos == d.len(),
                "sizes": sizes.iter().map(|x| json!([x.0, x.1])).collect::<Vec<_>>(), "streams": streams}));
        }
    }
    // segment streams: every other stream
    let known = ["params", "file_type_info", "splitters", "segment-splitters", "collection-samples", "collection-contigs", "collection-details"];
    for s in &view.streams {
        let nm = String::from_utf8_lossy(&s.name).to_string();
        if known.contains(&nm.as_str()) {
            continue;
        }
        let mut parts = vec![];
        for p in &s.parts {
            parts.push(payload(&view, p).with_context(|| format!("stream {}", nm))?);
        }
        out.push(json!({"ev": "segstream", "name": bytes(&s.name), "nameStr": nm, "parts": parts}));
    }
    Ok(out)
}

fn cmd_lex(a: &Args) -> Result<()> {
    use std::io::Write;
    let recs = lex_records(a.get("agc")?)?;
    let mut out = std::io::BufWriter::new(std::fs::File::create(a.get("out")?)?);
    for r in recs {
        writeln!(out, "{}", r)?;
    }
    out.flush()?;
    Ok(())
}
